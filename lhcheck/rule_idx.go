package main

// IDX: an index table that records "position of the element just appended".
//   list = append(list, e); index[key] = len(list) - 1
// The recorded index is right only if it is computed AFTER the append. The completion cache relies on it
// to replace an earlier entry of the same label (child class overriding a parent field): an index taken
// before the append points at the neighbour.

import (
	"fmt"
	"go/token"
	"go/types"

	"golang.org/x/tools/go/ssa"
)

var ruleIdx = &Rule{
	Name:    "IDX/index-of-appended",
	NeedSSA: true,
	Text:    "in a function that appends to a slice field S and records len(S)-1 as the value of a map entry (an index table: label -> position in S), the length is read after the append on every path: an append-store to S must precede the load of S whose length is recorded, and no append-store to S may follow it before the function returns; otherwise the table points one slot too low and a later replacement overwrites the neighbouring element",
	Run: func(c *Ctx) []Ob {
		var obs []Ob
		n := 0
		for _, f := range c.ModFns() {
			cnt := 0
			for _, b := range f.Blocks {
				for _, ins := range b.Instrs {
					mu, ok := ins.(*ssa.MapUpdate)
					if !ok {
						continue
					}
					// the recorded value: len(S)-1 (read after the append) or len(S) (read before it)
					minusOne := false
					var lc *ssa.Call
					if bo, ok := mu.Value.(*ssa.BinOp); ok && bo.Op == token.SUB {
						one, ok := bo.Y.(*ssa.Const)
						if !ok || one.Value == nil || one.Value.String() != "1" {
							continue
						}
						lc, _ = bo.X.(*ssa.Call)
						minusOne = true
					} else {
						lc, _ = mu.Value.(*ssa.Call)
					}
					if lc == nil {
						continue
					}
					if bi, ok := lc.Call.Value.(*ssa.Builtin); !ok || bi.Name() != "len" {
						continue
					}
					ld, ok := lc.Call.Args[0].(*ssa.UnOp)
					if !ok || ld.Op != token.MUL {
						continue
					}
					fa, ok := ld.X.(*ssa.FieldAddr)
					if !ok {
						continue
					}
					if _, isSlice := types.Unalias(fieldOf(fa).Type()).Underlying().(*types.Slice); !isSlice {
						continue
					}
					S := fieldOf(fa)
					isAppendStore := func(i ssa.Instruction) bool {
						st, ok := i.(*ssa.Store)
						if !ok {
							return false
						}
						fa2, ok := st.Addr.(*ssa.FieldAddr)
						if !ok || fieldOf(fa2) != S {
							return false
						}
						call, ok := st.Val.(*ssa.Call)
						if !ok {
							return false
						}
						bi, ok := call.Call.Value.(*ssa.Builtin)
						return ok && bi.Name() == "append"
					}
					has := false
					for _, bb := range f.Blocks {
						for _, i2 := range bb.Instrs {
							if isAppendStore(i2) {
								has = true
							}
						}
					}
					if !has {
						continue // not an insertion function
					}
					n++
					cnt++
					key := fmt.Sprintf("IDX:%s#%d", fnKey(f), cnt)
					isLoad := func(i ssa.Instruction) bool { return i == ssa.Instruction(ld) }
					before := mustPrecede(f, isAppendStore, isLoad)
					after := mayFollow(f, isLoad, isAppendStore)
					for _, body := range loopsOf(f) {
						if body[b] {
							after = nil // inside a loop the next iteration's append legitimately follows
						}
					}
					if !minusOne {
						// len(S) itself is the index of the element about to be appended: the append must follow on
						// every path and none may precede the read
						preceded := mayFollow(f, isAppendStore, isLoad)
						followed := mustFollow(f, isLoad, isAppendStore)
						switch {
						case len(preceded) > 0:
							obs = append(obs, Ob{Key: key, Site: c.Pos(mu.Pos()), Verdict: VIOLATION,
								Note: "len(" + S.Name() + ") is recorded as the index of the new element although " + S.Name() + " has already been appended to on some path: the index table points one slot too high and a later replacement overwrites the neighbouring element"})
						case len(followed) > 0:
							obs = append(obs, Ob{Key: key, Site: c.Pos(mu.Pos()), Verdict: VIOLATION,
								Note: "len(" + S.Name() + ") is recorded as the index of an element that is not appended on every path afterwards"})
						default:
							obs = append(obs, Ob{Key: key, Site: c.Pos(mu.Pos()), Verdict: OK, Note: "length read before the append"})
						}
						continue
					}
					switch {
					case len(before) > 0:
						obs = append(obs, Ob{Key: key, Site: c.Pos(mu.Pos()), Verdict: VIOLATION,
							Note: "len(" + S.Name() + ")-1 is recorded as the index of the new element but on some path the length is read before the append: the index table points at the previous element"})
					case len(after) > 0:
						obs = append(obs, Ob{Key: key, Site: c.Pos(mu.Pos()), Verdict: VIOLATION,
							Note: "len(" + S.Name() + ")-1 is recorded and " + S.Name() + " is appended to afterwards: the recorded index is not that of the element appended by this function"})
					default:
						obs = append(obs, Ob{Key: key, Site: c.Pos(mu.Pos()), Verdict: OK})
					}
				}
			}
		}
		c.Stats["index_of_appended_sites"] = n
		obs = append(obs, floor("IDX/index-of-appended", "index-table records of len(S)-1 in appending functions", n, 3))
		return obs
	},
}
