package main

import (
	"go/constant"
	"go/token"
	"go/types"

	"golang.org/x/tools/go/ssa"
)

// ---------------------------------------------------------------------------------------------
// kind-sensitive consumption analysis for the two recursive-descent parsers.
//
// Between two token steps the look-ahead kind is constant. For a fixed kind K we explore the
// feasible paths (conditions on LookAheadKind() results and on predicate helpers applied to them are
// folded) and ask whether some path reaches a target WITHOUT a token step. At K = EOF the token
// step does not advance, so nothing counts as progress.

type kindDomain struct {
	pkg  string // package of LookAheadKind
	eof  int64
	vals []int64
}

type kindEngine struct {
	c      *Ctx
	doms   map[string]*kindDomain
	maMemo map[kmKey]int8 // 0 unknown, 1 true, 2 false, 3 in progress
}

type kmKey struct {
	f *ssa.Function
	k int64
	d string
}

func newKindEngine(c *Ctx) *kindEngine {
	e := &kindEngine{c: c, doms: map[string]*kindDomain{}, maMemo: map[kmKey]int8{}}
	for _, d := range []struct{ pkg, typ, eof string }{{lexerPkg, "TkKind", "TkEOF"}, {annLexPkg, "ATokenType", "ATokenEOF"}} {
		p := c.ByPath[d.pkg]
		if p == nil {
			continue
		}
		dom := &kindDomain{pkg: d.pkg}
		seen := map[int64]bool{}
		for _, n := range p.Types.Scope().Names() {
			if k, ok := p.Types.Scope().Lookup(n).(*types.Const); ok && namedName(k.Type()) == d.typ {
				if v, ok := constant.Int64Val(k.Val()); ok && !seen[v] {
					seen[v] = true
					dom.vals = append(dom.vals, v)
					if n == d.eof {
						dom.eof = v
					}
				}
			}
		}
		e.doms[d.pkg] = dom
	}
	return e
}

// domainOf: which lexer's LookAheadKind does f (transitively, shallow) consult
func (e *kindEngine) domainOf(f *ssa.Function) *kindDomain {
	if f.Package() == nil {
		if f.Parent() != nil {
			return e.domainOf(f.Parent())
		}
		return nil
	}
	switch f.Package().Pkg.Path() {
	case parserPkg:
		return e.doms[lexerPkg]
	case annParPkg:
		return e.doms[annLexPkg]
	}
	return nil
}

func (e *kindEngine) isLookAhead(v ssa.Value, d *kindDomain) bool {
	call, ok := v.(*ssa.Call)
	if !ok {
		return false
	}
	sc := call.Call.StaticCallee()
	return sc != nil && sc.Name() == "LookAheadKind" && sc.Pkg != nil && sc.Pkg.Pkg.Path() == d.pkg
}

// evalK evaluates v to a constant under "every look-ahead is K" (no phi reasoning beyond equal edges).
func (e *kindEngine) evalK(v ssa.Value, d *kindDomain, k int64, depth int) (constant.Value, bool) {
	if depth > 10 {
		return nil, false
	}
	if e.isLookAhead(v, d) {
		return constant.MakeInt64(k), true
	}
	switch x := v.(type) {
	case *ssa.Const:
		if x.Value != nil {
			return x.Value, true
		}
	case *ssa.Convert:
		return e.evalK(x.X, d, k, depth+1)
	case *ssa.ChangeType:
		return e.evalK(x.X, d, k, depth+1)
	case *ssa.UnOp:
		if x.Op == token.NOT {
			if c, ok := e.evalK(x.X, d, k, depth+1); ok && c.Kind() == constant.Bool {
				return constant.MakeBool(!constant.BoolVal(c)), true
			}
		}
	case *ssa.BinOp:
		a, ok1 := e.evalK(x.X, d, k, depth+1)
		b, ok2 := e.evalK(x.Y, d, k, depth+1)
		if ok1 && ok2 {
			switch x.Op {
			case token.EQL, token.NEQ, token.LSS, token.LEQ, token.GTR, token.GEQ:
				if a.Kind() == constant.Bool || b.Kind() == constant.Bool {
					if a.Kind() != b.Kind() {
						return nil, false
					}
					eq := constant.BoolVal(a) == constant.BoolVal(b)
					if x.Op == token.NEQ {
						return constant.MakeBool(!eq), true
					}
					if x.Op == token.EQL {
						return constant.MakeBool(eq), true
					}
					return nil, false
				}
				if (a.Kind() == constant.Int || a.Kind() == constant.Float) && (b.Kind() == constant.Int || b.Kind() == constant.Float) {
					return constant.MakeBool(constant.Compare(a, x.Op, b)), true
				}
			}
		}
	case *ssa.Phi:
		var res constant.Value
		for i, ed := range x.Edges {
			cv, ok := e.evalK(ed, d, k, depth+1)
			if !ok {
				return nil, false
			}
			if i > 0 && !(res.Kind() == cv.Kind() && constant.Compare(res, token.EQL, cv)) {
				return nil, false
			}
			res = cv
		}
		if res != nil {
			return res, true
		}
	case *ssa.Call:
		// pure single-argument helper over the kind (isReturnOrBlockEnd, getPriority, …): fold it
		sc := x.Call.StaticCallee()
		if sc != nil && e.c.IsModFn(sc) && len(x.Call.Args) == 1 && len(sc.Params) == 1 && sc.Signature.Results().Len() == 1 {
			if _, isBasic := sc.Signature.Results().At(0).Type().Underlying().(*types.Basic); isBasic {
				if av, ok := e.evalK(x.Call.Args[0], d, k, depth+1); ok {
					hs := &sccp{f: sc, assume: func(pv ssa.Value) (constant.Value, bool) {
						if p, ok := pv.(*ssa.Parameter); ok && p == sc.Params[0] {
							return av, true
						}
						return nil, false
					}}
					blocks := hs.run()
					var res constant.Value
					n := 0
					for _, b := range sc.Blocks {
						if !blocks[b.Index] {
							continue
						}
						for _, ins := range b.Instrs {
							if _, isCall := ins.(*ssa.Call); isCall {
								return nil, false // not a pure table function
							}
						}
						if r, ok := b.Instrs[len(b.Instrs)-1].(*ssa.Return); ok && len(r.Results) == 1 {
							cv, ok := hs.eval(r.Results[0])
							if !ok {
								return nil, false
							}
							if n > 0 && !(res.Kind() == cv.Kind() && constant.Compare(res, token.EQL, cv)) {
								return nil, false
							}
							res = cv
							n++
						}
					}
					if n > 0 {
						return res, true
					}
				}
			}
		}
	}
	return nil, false
}

// progress: ins is a token step (directly or through a callee that must advance given K).
func (e *kindEngine) progress(ins ssa.Instruction, d *kindDomain, k int64) bool {
	if k == d.eof {
		return false
	}
	call, ok := ins.(*ssa.Call)
	if !ok {
		return false
	}
	sc := call.Call.StaticCallee()
	if sc == nil {
		cs := calleesOf(e.c.VTA(), call)
		if len(cs) == 0 {
			return false
		}
		for _, cf := range cs {
			if !(isTokenStep(cf) || e.mustAdvanceK(cf, d, k)) {
				return false
			}
		}
		return true
	}
	if isTokenStep(sc) {
		return true
	}
	return e.mustAdvanceK(sc, d, k)
}

// reachWithoutProgress explores from block `from` (state: look-ahead K, nothing consumed yet) and
// reports whether a target (isTargetEdge / return) is reachable without progress.
func (e *kindEngine) reachWithoutProgress(f *ssa.Function, d *kindDomain, k int64, from *ssa.BasicBlock, fromIdx int,
	stopEdge func(a, b *ssa.BasicBlock) (target, prune bool), toReturn bool) bool {
	type st struct {
		b   *ssa.BasicBlock
		idx int
	}
	seen := map[*ssa.BasicBlock]bool{}
	work := []st{{from, fromIdx}}
	for len(work) > 0 {
		cur := work[len(work)-1]
		work = work[:len(work)-1]
		b := cur.b
		advanced := false
		for i := cur.idx; i < len(b.Instrs); i++ {
			if e.progress(b.Instrs[i], d, k) {
				advanced = true
				break
			}
		}
		if advanced {
			continue
		}
		last := b.Instrs[len(b.Instrs)-1]
		if _, isRet := last.(*ssa.Return); isRet {
			if toReturn {
				return true
			}
			continue
		}
		var succs []*ssa.BasicBlock
		if iff, ok := last.(*ssa.If); ok {
			if cv, ok := e.evalK(iff.Cond, d, k, 0); ok && cv.Kind() == constant.Bool {
				if constant.BoolVal(cv) {
					succs = []*ssa.BasicBlock{b.Succs[0]}
				} else {
					succs = []*ssa.BasicBlock{b.Succs[1]}
				}
			} else {
				succs = b.Succs
			}
		} else {
			succs = b.Succs
		}
		for _, s := range succs {
			if stopEdge != nil {
				target, prune := stopEdge(b, s)
				if target {
					return true
				}
				if prune {
					continue
				}
			}
			if !seen[s] {
				seen[s] = true
				work = append(work, st{s, 0})
			}
		}
	}
	return false
}

// mustAdvanceK: given look-ahead K at entry, every feasible path of f to a return passes a token step.
func (e *kindEngine) mustAdvanceK(f *ssa.Function, d *kindDomain, k int64) bool {
	if f.Blocks == nil || !e.c.IsModFn(f) {
		return false
	}
	if isTokenStep(f) {
		return k != d.eof
	}
	key := kmKey{f, k, d.pkg}
	switch e.maMemo[key] {
	case 1:
		return true
	case 2, 3:
		return false // in progress: least fixpoint (assume it may return without advancing)
	}
	e.maMemo[key] = 3
	res := !e.reachWithoutProgress(f, d, k, f.Blocks[0], 0, nil, true)
	if res {
		e.maMemo[key] = 1
	} else {
		e.maMemo[key] = 2
	}
	return res
}

// loopStalls: kinds K for which some feasible path goes once around the loop without progress.
func (e *kindEngine) loopStalls(l *loopInfo) []int64 {
	d := e.domainOf(l.f)
	if d == nil {
		return nil
	}
	var bad []int64
	for _, k := range d.vals {
		stall := e.reachWithoutProgress(l.f, d, k, l.header, 0, func(a, b *ssa.BasicBlock) (bool, bool) {
			if !l.body[b] {
				return false, true // leaves the loop: not our concern
			}
			if b == l.header {
				return true, false // back edge reached without progress
			}
			return false, false
		}, false)
		if stall {
			bad = append(bad, k)
		}
	}
	return bad
}
