package main

import (
	"fmt"
	"os"
	"sort"

	"golang.org/x/tools/go/ssa"
)

// reviewedBounds: accesses the engine cannot prove, with the hand proof (key -> reason). A new unproven access
// is a violation until it is either proven or reviewed here.
var reviewedBounds = map[string]string{
	"BND:Lexer:scanLongString:order:chunk[a:b] a<=b#3": "len(longBracket) <= longBracketIdx: the closing bracket is searched in a chunk that starts with the opening bracket, " +
		"and no `]` occurs inside the opening bracket (`[`, `=`...), so the first occurrence of the closing bracket starts at or after its end (a fact about the bytes, not about the shape of the code)",
	"BND:Lexer:scanShortString:order:chunk[a:b] a<=b#3": "stringStart <= i-1 after the loop: either the loop was left at the closing quote (i was incremented past a byte at or after stringStart), " +
		"or the scan ran to the end of the input right after an escape (stringStart = i >= len), and that case returned at the `stringStart >= len(l.chunk)` test just above; the engine's " +
		"facts are conjunctive and cannot keep the two cases apart",
	"BND:Lexer:scanNumber:slice:chunk[:b]#1": "i <= len: every increment of i follows a successful getIndexChar(i), except the one for a leading '.', and NextTokenStruct " +
		"lets a '.' through to scanNumber only when a digit follows it (len >= 2); the engine joins that call site with the digit call site (len >= 1) " +
		"and loses the correlation between the first byte and the length. The malformed-number branch that re-enters the lexer is dead for the same reason (TERM/LEX)",
	"BND:Lexer:scanLongString:slice:chunk[:b]#1": "the two bytes shown in the message exist: the invalid-delimiter branch is reached only from NextTokenStruct, which tested the " +
		"prefix `[[` or `[=` (len >= 2); skipComment enters scanLongString only after matchLongStringBacket returned a well-formed delimiter, and then this branch is not taken",
}

var ruleBnd = &Rule{
	Name:    "BND/cursor-in-input",
	NeedSSA: true,
	Text: "in both hand-written lexers every index recv.chunk[k], every slice bound of recv.chunk[a:b] and every advance of the cursor " +
		"(an argument that reaches chunk = chunk[n:] in a callee) is proven to lie inside the current input by an interprocedural " +
		"interval analysis relative to len(chunk) (branch conditions, loop induction, lock-step counters, callee summaries, entry facts = " +
		"join over the call sites): otherwise some input makes the lexer panic with an index out of range, the parser's recover() " +
		"turns that into an empty syntax tree, and the analysis of the whole file is silently abandoned; an advance that is too long " +
		"also swallows the byte after the token (a line break: every later line number is off by one)",
	Run: func(c *Ctx) []Ob {
		var obs []Ob
		total := 0
		for _, lx := range [][2]string{{lexerPkg, "Lexer"}, {annLexPkg, "AnnotateLexer"}} {
			e, err := bndFor(c, lx[0], lx[1])
			if err != nil {
				obs = append(obs, Ob{Key: "BND:" + lx[1] + ":slots", Verdict: UNDECIDED, Note: err.Error()})
				continue
			}
			stable := e.stable
			if !stable {
				obs = append(obs, Ob{Key: "BND:" + lx[1] + ":fixpoint", Verdict: UNDECIDED,
					Note: fmt.Sprintf("the analysis did not reach a fixpoint (rounds=%d, gave up in %v)", e.rounds, e.giveUp)})
			}
			sort.SliceStable(e.sites, func(i, j int) bool { return e.sites[i].pos < e.sites[j].pos })
			ord := map[string]int{}
			n, lifted := 0, 0
			for _, s := range e.sites {
				base := fmt.Sprintf("BND:%s:%s:%s", lx[1], s.fn.Name(), s.kind+":"+s.what)
				ord[base]++
				key := fmt.Sprintf("%s#%d", base, ord[base])
				if s.lifted {
					lifted++
					obs = append(obs, Ob{Key: key, Site: c.Pos(s.pos), Verdict: OK, Note: "operand is a parameter: decided at every call site of " + s.fn.Name()})
					continue
				}
				n++
				switch {
				case s.ok:
					obs = append(obs, Ob{Key: key, Site: c.Pos(s.pos), Verdict: OK, Note: s.note})
				case reviewedBounds[key] != "":
					obs = append(obs, Ob{Key: key, Site: c.Pos(s.pos), Verdict: OK, Note: "not proven by the engine; reviewed: " + reviewedBounds[key]})
				default:
					obs = append(obs, Ob{Key: key, Site: c.Pos(s.pos), Verdict: VIOLATION,
						Note: s.fn.Name() + ": " + s.what + " is not proven to stay inside the input (" + s.note + "): an input that ends here makes the lexer panic or read past the token"})
				}
				if os.Getenv("LH_BND_DUMP") != "" {
					fmt.Fprintf(os.Stderr, "BND\t%s\t%s\t%v\t%s\n", key, c.Pos(s.pos), s.ok, s.note)
				}
			}
			total += n
			c.Stats["bnd_"+lx[1]+"_sites"] = n
			c.Stats["bnd_"+lx[1]+"_lifted"] = lifted
			c.Stats["bnd_"+lx[1]+"_rounds"] = e.rounds
			c.Stats["bnd_"+lx[1]+"_functions"] = len(e.fns)
		}
		obs = append(obs, floor("BND/cursor-in-input", "accesses and advances of the input decided", total, 60))
		return obs
	},
}

// bndFor: the bounds engine of one lexer, run once per load (other rules read its entry facts)
func bndFor(c *Ctx, pkgPath, typeName string) (*bndEngine, error) {
	if c.bndCache == nil {
		c.bndCache = map[string]*bndEngine{}
	}
	k := pkgPath + "." + typeName
	if e, ok := c.bndCache[k]; ok {
		if e == nil {
			return nil, fmt.Errorf("slot unresolved: %s", k)
		}
		return e, nil
	}
	e, err := newBndEngine(c, pkgPath, typeName)
	if err != nil {
		c.bndCache[k] = nil
		return nil, err
	}
	e.stable = e.run()
	c.bndCache[k] = e
	return e, nil
}

// paramLB: a lower bound of an integer parameter of a package-internal function that holds at every call site
// (negInf: none)
func (e *bndEngine) paramLB(p *ssa.Parameter) int64 {
	f := p.Parent()
	if f == nil || !e.inPkg[f] || e.open[f] || !e.stable {
		return negInf
	}
	pre := e.pre[f]
	if pre == nil || !pre.set {
		return negInf
	}
	for j, q := range f.Params {
		if q == p && j < len(pre.par) && pre.par[j].lb > -bInf {
			return int64(pre.par[j].lb)
		}
	}
	return negInf
}

// reviewedParamBounds: accesses to a sequence parameter that the engine cannot prove, with the hand proof
var reviewedParamBounds = map[string]string{}

// selfGuardedScanners: the functions (outside the lexers) whose every access to a string / []byte / []rune
// parameter is guarded inside the function itself. Only these are claimed: the other text scanners of the
// handlers (stringutil.GetBeforeIndex, getCompeletePreStr, GetVarStruct, ... 27 functions, 52 sites) rely on the
// contract 0 <= offset < len(contents) that the handlers establish before calling them (PANIC/P6 checks that
// guard) or on relations between two scanner variables, and are NOT decided by this rule.
var selfGuardedScanners = map[string]bool{
	"(*check.Matcher).match":                         true,
	"check.ToLower":                                  true,
	"check.RuneRoles":                                true,
	"check/common.IsSubDir":                          true,
	"check/common.CompleteFilePathToPreStr":          true,
	"codingconv.isUtf8":                              true,
	"check/compiler/parser.isHexInteger":             true,
	"check/compiler/parser.isLuajitHexInteger":       true,
	"check/annotation/annotateparser.splitStrQuotes": true,
}

var ruleBndParams = &Rule{
	Name:    "BND/param-sequences",
	NeedSSA: true,
	Text: "outside the two lexers: in every module function, every index p[k] and every slice bound of p[a:b] on a string / []byte / []rune PARAMETER p " +
		"lies inside p — same interval analysis as BND/cursor-in-input, one function and one parameter at a time, callees opaque — for the nine scanners that guard " +
		"their own accesses (UTF-8 sniffing, hex-number recognisers, quote splitting, the fuzzy matcher's role tables, path prefixes). A handler that indexes past a buffer " +
		"panics, and jrpc2 does not recover: the server dies. The scanners that rely on the handlers' offset guard are not decided here",
	Run: func(c *Ctx) []Ob {
		var obs []Ob
		total, proven, others, othersProven := 0, 0, 0, 0
		for _, f := range c.ModFns() {
			if f.Pkg == nil || f.Blocks == nil {
				continue
			}
			if pp := f.Pkg.Pkg.Path(); pp == lexerPkg || pp == annLexPkg {
				continue
			}
			claimed := selfGuardedScanners[fnKey(f)]
			for _, p := range f.Params {
				if !isSeqType(p.Type()) {
					continue
				}
				used := false
				if refs := p.Referrers(); refs != nil {
					for _, r := range *refs {
						switch x := r.(type) {
						case *ssa.Index:
							if _, isC := x.Index.(*ssa.Const); !isC && x.X == ssa.Value(p) {
								used = true
							}
						case *ssa.IndexAddr:
							if _, isC := x.Index.(*ssa.Const); !isC && x.X == ssa.Value(p) {
								used = true
							}
						case *ssa.Slice:
							if x.X == ssa.Value(p) {
								for _, v := range []ssa.Value{x.Low, x.High} {
									if v != nil {
										if _, isC := v.(*ssa.Const); !isC {
											used = true
										}
									}
								}
							}
						}
					}
				}
				if !used {
					continue
				}
				e := newBndParamEngine(c, f, p)
				stable := e.run()
				sort.SliceStable(e.sites, func(i, j int) bool { return e.sites[i].pos < e.sites[j].pos })
				ord := map[string]int{}
				for _, s := range e.sites {
					base := fmt.Sprintf("BND2:%s:%s:%s", fnKey(f), p.Name(), s.kind+":"+s.what)
					ord[base]++
					key := fmt.Sprintf("%s#%d", base, ord[base])
					ok := s.ok && stable
					if !claimed {
						others++
						if ok {
							othersProven++
						}
						if os.Getenv("LH_BND_DUMP") != "" {
							fmt.Fprintf(os.Stderr, "BND2-unclaimed\t%s\t%s\t%v\t%s\n", key, c.Pos(s.pos), ok, s.note)
						}
						continue
					}
					total++
					if ok {
						proven++
					}
					if os.Getenv("LH_BND_DUMP") != "" {
						fmt.Fprintf(os.Stderr, "BND2\t%s\t%s\t%v\t%s\n", key, c.Pos(s.pos), ok, s.note)
					}
					switch {
					case ok:
						obs = append(obs, Ob{Key: key, Site: c.Pos(s.pos), Verdict: OK, Note: s.note})
					case reviewedParamBounds[key] != "":
						obs = append(obs, Ob{Key: key, Site: c.Pos(s.pos), Verdict: OK, Note: "not proven by the engine; reviewed: " + reviewedParamBounds[key]})
					default:
						obs = append(obs, Ob{Key: key, Site: c.Pos(s.pos), Verdict: VIOLATION,
							Note: fnKey(f) + ": " + s.what + " on parameter " + p.Name() + " is not proven to stay inside it (" + s.note + ")"})
					}
				}
			}
		}
		c.Stats["bnd2_sites"] = total
		c.Stats["bnd2_proven"] = proven
		c.Stats["bnd2_unclaimed_sites"] = others
		c.Stats["bnd2_unclaimed_proven_anyway"] = othersProven
		obs = append(obs, floor("BND/param-sequences", "accesses to sequence parameters decided", total, 24))
		return obs
	},
}
