package main

// IMMUT: byte buffers are never modified in place unless they were allocated by the writing function.
//
// The document cache hands its []byte to the lexer, which turns it into a string WITHOUT copying
// (strbytesconv.BytesToString); every identifier in the AST and symbol tables aliases that buffer, and
// answers are encoded by jrpc2 after the handler has released requestMutex. A stored buffer must
// therefore be immutable: didChange builds a new one. The structural necessary condition checked here:
// every element store / copy() whose destination is a []byte writes into memory the same function
// allocated (make, new array, append result, bytes taken from a fresh allocation).

import (
	"fmt"
	"go/types"

	"golang.org/x/tools/go/ssa"
)

func isByteSlice(t types.Type) bool {
	t = types.Unalias(t).Underlying()
	if p, ok := t.(*types.Pointer); ok {
		if a, ok := types.Unalias(p.Elem()).Underlying().(*types.Array); ok {
			b, ok := types.Unalias(a.Elem()).Underlying().(*types.Basic)
			return ok && b.Kind() == types.Uint8
		}
		return false
	}
	if s, ok := t.(*types.Slice); ok {
		b, ok := types.Unalias(s.Elem()).Underlying().(*types.Basic)
		return ok && b.Kind() == types.Uint8
	}
	return false
}

// freshBytes: is v (a []byte or *[N]byte) backed by memory allocated in this function?
var immutCallers map[*ssa.Function][]*ssa.CallCommon

func callersIndex(c *Ctx) map[*ssa.Function][]*ssa.CallCommon {
	idx := map[*ssa.Function][]*ssa.CallCommon{}
	for _, f := range c.ModFns() {
		for _, b := range f.Blocks {
			for _, ins := range b.Instrs {
				if ci, ok := ins.(ssa.CallInstruction); ok {
					if cal := ci.Common().StaticCallee(); cal != nil {
						idx[cal] = append(idx[cal], ci.Common())
					}
				}
			}
		}
	}
	return idx
}

// addressTaken: is f used as a value anywhere (then its callers are not all known)?
func addressTaken(f *ssa.Function) bool {
	refs := f.Referrers()
	if refs == nil {
		return false
	}
	for _, u := range *refs {
		if ci, ok := u.(ssa.CallInstruction); ok && ci.Common().Value == ssa.Value(f) {
			continue
		}
		return true
	}
	return false
}

func freshBytes(v ssa.Value, seen map[ssa.Value]bool, d int) (bool, string) {
	if seen[v] {
		return true, ""
	}
	seen[v] = true
	if d > 8 {
		return false, "origin too deep"
	}
	switch x := v.(type) {
	case *ssa.MakeSlice:
		return true, ""
	case *ssa.Alloc:
		// local array / local slice variable: look at what is stored into a slice variable
		if _, isArr := types.Unalias(x.Type().Underlying().(*types.Pointer).Elem()).Underlying().(*types.Array); isArr {
			return true, ""
		}
		if refs := x.Referrers(); refs != nil {
			for _, u := range *refs {
				if st, ok := u.(*ssa.Store); ok && st.Addr == ssa.Value(x) {
					if ok2, why := freshBytes(st.Val, seen, d+1); !ok2 {
						return false, why
					}
				}
			}
		}
		return true, ""
	case *ssa.Slice:
		// a slice of a fixed-size array that is a struct field: scratch space owned by that object
		// (document / file buffers are heap slices, never arrays)
		if fa, ok := x.X.(*ssa.FieldAddr); ok {
			if _, isArr := types.Unalias(fa.Type().Underlying().(*types.Pointer).Elem()).Underlying().(*types.Array); isArr {
				return true, ""
			}
		}
		return freshBytes(x.X, seen, d+1)
	case *ssa.UnOp:
		if al, ok := x.X.(*ssa.Alloc); ok {
			return freshBytes(al, seen, d+1)
		}
		return false, "loaded from " + describeValue(x)
	case *ssa.Phi:
		for _, e := range x.Edges {
			if ok, why := freshBytes(e, seen, d+1); !ok {
				return false, why
			}
		}
		return true, ""
	case *ssa.Call:
		if b, ok := x.Call.Value.(*ssa.Builtin); ok && b.Name() == "append" {
			// append(nil/fresh, …) is fresh; append(shared, …) may write into shared spare capacity
			return freshBytes(x.Call.Args[0], seen, d+1)
		}
		return false, "result of " + describeValue(x)
	case *ssa.Const:
		return true, "" // nil slice
	case *ssa.Convert:
		// []byte(string) allocates
		if _, ok := types.Unalias(x.X.Type()).Underlying().(*types.Basic); ok {
			return true, ""
		}
		return freshBytes(x.X, seen, d+1)
	case *ssa.ChangeType:
		return freshBytes(x.X, seen, d+1)
	case *ssa.Parameter:
		// a scratch-buffer parameter: every (static, known) caller passes nil, fresh memory or an owned array
		f := x.Parent()
		sites := immutCallers[f]
		if len(sites) == 0 || addressTaken(f) || false {
			return false, "parameter " + x.Name()
		}
		idx := -1
		for i, p := range f.Params {
			if p == x {
				idx = i
			}
		}
		for _, cc := range sites {
			if idx < 0 || idx >= len(cc.Args) {
				return false, "parameter " + x.Name()
			}
			if ok, why := freshBytes(cc.Args[idx], seen, d+1); !ok {
				return false, "parameter " + x.Name() + " <- " + why
			}
		}
		return true, ""
	case *ssa.FreeVar:
		return false, "captured variable " + x.Name()
	}
	return false, "origin " + describeValue(v)
}

var ruleImmut = &Rule{
	Name:    "IMMUT/byte-buffers",
	NeedSSA: true,
	Text:    "every in-place write to a byte buffer (store through an index of a []byte / *[N]byte, or copy(dst, …) with a []byte destination) targets memory that the writing function itself allocated (make, local array, []byte(string), append onto such a value) or a fixed-size scratch array owned by a struct; a scratch-buffer parameter is followed to every static caller; buffers received as parameters, loaded from fields / maps or returned by calls are never patched — the document cache's bytes are aliased, uncopied, by every string of the analysis results (strbytesconv.BytesToString) and by answers still being encoded after requestMutex is released",
	Run: func(c *Ctx) []Ob {
		var obs []Ob
		n := 0
		immutCallers = callersIndex(c)
		for _, f := range c.ModFns() {
			cnt := 0
			for _, b := range f.Blocks {
				for _, ins := range b.Instrs {
					var dst ssa.Value
					what := ""
					switch x := ins.(type) {
					case *ssa.Store:
						if ia, ok := x.Addr.(*ssa.IndexAddr); ok && isByteSlice(ia.X.Type()) {
							dst, what = ia.X, "element store"
						}
					case *ssa.Call:
						if bi, ok := x.Call.Value.(*ssa.Builtin); ok && bi.Name() == "copy" && isByteSlice(x.Call.Args[0].Type()) {
							dst, what = x.Call.Args[0], "copy() destination"
						}
					}
					if dst == nil {
						continue
					}
					n++
					cnt++
					key := fmt.Sprintf("IMMUT:%s#%d", fnKey(f), cnt)
					if ok, why := freshBytes(dst, map[ssa.Value]bool{}, 0); ok {
						obs = append(obs, Ob{Key: key, Site: c.Pos(ins.Pos()), Verdict: OK, Note: what + " into a buffer allocated in this function"})
					} else {
						obs = append(obs, Ob{Key: key, Site: c.Pos(ins.Pos()), Verdict: VIOLATION,
							Note: what + " patches a byte buffer this function did not allocate (" + why + "): stored document / file buffers are aliased by the strings of the analysis results and must stay immutable"})
					}
				}
			}
		}
		c.Stats["byte_buffer_write_sites"] = n
		obs = append(obs, Ob{Key: "IMMUT:scan", Site: "luahelper-lsp", Verdict: OK, Note: fmt.Sprintf("%d in-place byte-buffer writes examined", n)})
		return obs
	},
}
