package main

import (
	"fmt"
	"go/ast"
	"go/token"
	"go/types"
	"os"
	"path/filepath"
	"sort"
	"strings"

	"golang.org/x/tools/go/callgraph"
	"golang.org/x/tools/go/callgraph/cha"
	"golang.org/x/tools/go/callgraph/vta"
	"golang.org/x/tools/go/packages"
	"golang.org/x/tools/go/ssa"
	"golang.org/x/tools/go/ssa/ssautil"
)

// modPath is the module path of the target; every package whose path starts with it is "module code".
const modPath = "luahelper-lsp"

// Ctx is the loaded, resolved target program. It is rebuilt from the working tree on every run.
type Ctx struct {
	RepoRoot string // e.g. /repo
	ModDir   string // e.g. /repo/luahelper-lsp
	Tier     string
	Fset     *token.FileSet
	Pkgs     []*packages.Package          // module packages only, sorted by path
	ByPath   map[string]*packages.Package // all module packages by import path
	Prog     *ssa.Program
	SSA      map[string]*ssa.Package // by import path (module packages)
	allFns   map[*ssa.Function]bool
	modFns   []*ssa.Function // functions (incl. anonymous) defined in module packages, sorted
	cgVTA    *callgraph.Graph
	cgCHA    *callgraph.Graph
	Stats    map[string]int
	csCache  map[*ssa.Function]*callSiteInfo
	bndCache map[string]*bndEngine
}

// Load loads and type-checks the module from source and builds SSA. Any type error is fatal:
// undecided is failure.
// overlayFiles, when set, replaces the content of the named files (absolute paths) for this load only.
var overlayFiles map[string][]byte

func Load(repoRoot, tier string, needSSA bool) (*Ctx, error) {
	modDir := filepath.Join(repoRoot, "luahelper-lsp")
	if _, err := os.Stat(filepath.Join(modDir, "go.mod")); err != nil {
		return nil, fmt.Errorf("target module not found at %s: %v", modDir, err)
	}
	env := os.Environ()
	env = append(env, "GOFLAGS=-mod=mod", "GOPROXY=off", "GOSUMDB=off", "GOTOOLCHAIN=local", "GOWORK=off")
	cfg := &packages.Config{
		Mode:    packages.LoadAllSyntax,
		Dir:     modDir,
		Env:     env,
		Tests:   false,
		Overlay: overlayFiles,
	}
	pkgs, err := packages.Load(cfg, "./...")
	if err != nil {
		return nil, fmt.Errorf("packages.Load: %v", err)
	}
	c := &Ctx{RepoRoot: repoRoot, ModDir: modDir, Tier: tier, ByPath: map[string]*packages.Package{},
		SSA: map[string]*ssa.Package{}, Stats: map[string]int{}}
	var errs []string
	packages.Visit(pkgs, nil, func(p *packages.Package) {
		for _, e := range p.Errors {
			errs = append(errs, fmt.Sprintf("%s: %s", p.PkgPath, e.Error()))
		}
	})
	if len(errs) > 0 {
		sort.Strings(errs)
		if len(errs) > 10 {
			errs = errs[:10]
		}
		return nil, fmt.Errorf("target does not type-check (undecided = failure):\n  %s", strings.Join(errs, "\n  "))
	}
	for _, p := range pkgs {
		if p.PkgPath == modPath || strings.HasPrefix(p.PkgPath, modPath+"/") {
			c.Pkgs = append(c.Pkgs, p)
			c.ByPath[p.PkgPath] = p
		}
	}
	sort.Slice(c.Pkgs, func(i, j int) bool { return c.Pkgs[i].PkgPath < c.Pkgs[j].PkgPath })
	if len(c.Pkgs) < 21 {
		return nil, fmt.Errorf("vacuous: only %d module packages loaded (floor 21)", len(c.Pkgs))
	}
	c.Fset = c.Pkgs[0].Fset
	c.Stats["packages"] = len(c.Pkgs)
	nfiles := 0
	for _, p := range c.Pkgs {
		nfiles += len(p.Syntax)
	}
	c.Stats["files"] = nfiles
	if !needSSA {
		return c, nil
	}
	prog, _ := ssautil.AllPackages(pkgs, ssa.InstantiateGenerics)
	prog.Build()
	c.Prog = prog
	for _, p := range c.Pkgs {
		sp := prog.Package(p.Types)
		if sp == nil {
			return nil, fmt.Errorf("no SSA package for %s", p.PkgPath)
		}
		c.SSA[p.PkgPath] = sp
	}
	c.allFns = ssautil.AllFunctions(prog)
	for f := range c.allFns {
		if c.IsModFn(f) {
			c.modFns = append(c.modFns, f)
		}
	}
	sort.Slice(c.modFns, func(i, j int) bool { return fnKey(c.modFns[i]) < fnKey(c.modFns[j]) })
	c.Stats["functions"] = len(c.modFns)
	return c, nil
}

// IsModFn reports whether f's body comes from a module package (including closures and
// bound-method wrappers of module methods are excluded: they have no source).
func (c *Ctx) IsModFn(f *ssa.Function) bool {
	if f == nil || f.Blocks == nil {
		return false
	}
	p := f.Package()
	if p == nil {
		if f.Parent() != nil {
			return c.IsModFn(f.Parent())
		}
		// wrappers / instantiations: use origin
		if o := f.Origin(); o != nil && o != f {
			return c.IsModFn(o)
		}
		return false
	}
	if f.Synthetic != "" && f.Parent() == nil && f.Syntax() == nil {
		return false
	}
	pp := p.Pkg.Path()
	return pp == modPath || strings.HasPrefix(pp, modPath+"/")
}

func (c *Ctx) ModFns() []*ssa.Function { return c.modFns }

// VTA returns the VTA-refined call graph (built lazily).
func (c *Ctx) VTA() *callgraph.Graph {
	if c.cgVTA == nil {
		c.cgVTA = vta.CallGraph(c.allFns, c.CHA())
		n, e := 0, 0
		for _, nd := range c.cgVTA.Nodes {
			n++
			e += len(nd.Out)
		}
		c.Stats["cg_vta_nodes"] = n
		c.Stats["cg_vta_edges"] = e
	}
	return c.cgVTA
}

func (c *Ctx) CHA() *callgraph.Graph {
	if c.cgCHA == nil {
		c.cgCHA = cha.CallGraph(c.Prog)
	}
	return c.cgCHA
}

// Pos renders a position relative to the repository root.
func (c *Ctx) Pos(p token.Pos) string {
	if !p.IsValid() {
		return "?"
	}
	ps := c.Fset.Position(p)
	rel, err := filepath.Rel(c.RepoRoot, ps.Filename)
	if err != nil {
		rel = ps.Filename
	}
	return fmt.Sprintf("%s:%d", rel, ps.Line)
}

// fnKey gives a stable, line-independent name for an SSA function.
func fnKey(f *ssa.Function) string {
	if f == nil {
		return "<nil>"
	}
	s := f.String()
	s = strings.ReplaceAll(s, modPath+"/langserver/", "")
	s = strings.ReplaceAll(s, modPath+"/", "")
	return s
}

// objKey: stable key of a types.Object function/method: pkgtail.(Recv).Name
func objKey(o types.Object) string {
	if o == nil {
		return "<nil>"
	}
	if fn, ok := o.(*types.Func); ok {
		s := fn.FullName()
		s = strings.ReplaceAll(s, modPath+"/langserver/", "")
		s = strings.ReplaceAll(s, modPath+"/", "")
		return s
	}
	if o.Pkg() != nil {
		return shortPkg(o.Pkg().Path()) + "." + o.Name()
	}
	return o.Name()
}

func shortPkg(p string) string {
	p = strings.TrimPrefix(p, modPath+"/langserver/")
	p = strings.TrimPrefix(p, modPath+"/")
	return p
}

// FuncDecl finds the syntax of a named function/method: pkgPath, receiver type name ("" for
// functions), name.
func (c *Ctx) FuncDecl(pkgPath, recv, name string) (*packages.Package, *ast.FuncDecl) {
	p := c.ByPath[pkgPath]
	if p == nil {
		return nil, nil
	}
	for _, f := range p.Syntax {
		for _, d := range f.Decls {
			fd, ok := d.(*ast.FuncDecl)
			if !ok || fd.Name.Name != name {
				continue
			}
			r := ""
			if fd.Recv != nil && len(fd.Recv.List) > 0 {
				r = recvTypeName(fd.Recv.List[0].Type)
			}
			if r == recv {
				return p, fd
			}
		}
	}
	return p, nil
}

func recvTypeName(e ast.Expr) string {
	switch t := e.(type) {
	case *ast.StarExpr:
		return recvTypeName(t.X)
	case *ast.Ident:
		return t.Name
	case *ast.IndexExpr:
		return recvTypeName(t.X)
	}
	return ""
}

// SSAFunc finds the ssa.Function for pkgPath / recv / name.
func (c *Ctx) SSAFunc(pkgPath, recv, name string) *ssa.Function {
	sp := c.SSA[pkgPath]
	if sp == nil {
		return nil
	}
	if recv == "" {
		return sp.Func(name)
	}
	t := sp.Type(recv)
	if t == nil {
		return nil
	}
	named := t.Type().(*types.Named)
	for _, T := range []types.Type{named, types.NewPointer(named)} {
		ms := c.Prog.MethodSets.MethodSet(T)
		for i := 0; i < ms.Len(); i++ {
			sel := ms.At(i)
			if sel.Obj().Name() == name && sel.Obj().Pkg() == sp.Pkg {
				if f := c.Prog.MethodValue(sel); f != nil {
					return f
				}
			}
		}
	}
	return nil
}

// calleeOf resolves the static callee (function or method) of a call expression, or nil.
func calleeOf(info *types.Info, call *ast.CallExpr) *types.Func {
	var id *ast.Ident
	switch f := ast.Unparen(call.Fun).(type) {
	case *ast.Ident:
		id = f
	case *ast.SelectorExpr:
		id = f.Sel
	default:
		return nil
	}
	if o, ok := info.Uses[id].(*types.Func); ok {
		return o
	}
	return nil
}

// isFunc reports whether fn is pkgPath.name (function) or a method named name on recv in pkgPath.
func isFunc(fn *types.Func, pkgPath, recv, name string) bool {
	if fn == nil || fn.Name() != name || fn.Pkg() == nil || fn.Pkg().Path() != pkgPath {
		return false
	}
	sig := fn.Type().(*types.Signature)
	if recv == "" {
		return sig.Recv() == nil
	}
	if sig.Recv() == nil {
		return false
	}
	return namedName(sig.Recv().Type()) == recv
}

func namedName(t types.Type) string {
	t = types.Unalias(t)
	if p, ok := t.(*types.Pointer); ok {
		t = types.Unalias(p.Elem())
	}
	if n, ok := t.(*types.Named); ok {
		return n.Obj().Name()
	}
	return ""
}

func namedPkgName(t types.Type) (string, string) {
	t = types.Unalias(t)
	if p, ok := t.(*types.Pointer); ok {
		t = types.Unalias(p.Elem())
	}
	if n, ok := t.(*types.Named); ok {
		if n.Obj().Pkg() != nil {
			return n.Obj().Pkg().Path(), n.Obj().Name()
		}
		return "", n.Obj().Name()
	}
	return "", ""
}
