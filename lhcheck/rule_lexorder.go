package main

// LOC/lexorder: positions are ordered lexicographically (line, then column). A comparison of the column
// fields of two Locations is meaningful only where the corresponding line fields are known to be equal.

import (
	"fmt"
	"go/token"
	"go/types"
	"sort"
	"strings"

	"golang.org/x/tools/go/ssa"
)

const lexerPkgPath = modPath + "/langserver/check/compiler/lexer"

// apath: syntactic access path of a value (no CSE in go/ssa: two reads of a.b.c are distinct instructions)
func apath(v ssa.Value, d int) string {
	if d > 10 {
		return "?"
	}
	switch x := v.(type) {
	case *ssa.UnOp:
		if x.Op == token.MUL {
			if a, ok := x.X.(*ssa.Alloc); ok {
				var src ssa.Value
				n := 0
				if refs := a.Referrers(); refs != nil {
					for _, r := range *refs {
						if st, ok := r.(*ssa.Store); ok && st.Addr == ssa.Value(a) {
							src = st.Val
							n++
						}
					}
				}
				if n == 1 {
					return apath(src, d+1)
				}
			}
			return "*" + apath(x.X, d+1)
		}
	case *ssa.FieldAddr:
		return apath(x.X, d+1) + "." + fieldOf(x).Name()
	case *ssa.Field:
		return apath(x.X, d+1) + "." + fieldNameOfValue(x)
	case *ssa.IndexAddr:
		return apath(x.X, d+1) + "[" + apath(x.Index, d+1) + "]"
	case *ssa.Index:
		return apath(x.X, d+1) + "[" + apath(x.Index, d+1) + "]"
	case *ssa.Parameter:
		return "p:" + x.Name()
	case *ssa.Alloc:
		// a spilled parameter / single-assignment local stands for the value stored into it
		var src ssa.Value
		n := 0
		if refs := x.Referrers(); refs != nil {
			for _, r := range *refs {
				if st, ok := r.(*ssa.Store); ok && st.Addr == ssa.Value(x) {
					src = st.Val
					n++
				}
			}
		}
		if n == 1 {
			return apath(src, d+1)
		}
		return x.Name()
	case *ssa.Const:
		return "k:" + x.String()
	case *ssa.ChangeType:
		return apath(x.X, d+1)
	}
	return v.Name()
}

func fieldNameOfValue(x *ssa.Field) string { return structFieldName(x.X.Type(), x.Field) }

func structFieldName(t types.Type, i int) string {
	if st, ok := types.Unalias(t).Underlying().(*types.Struct); ok && i < st.NumFields() {
		return st.Field(i).Name()
	}
	return fmt.Sprintf("#%d", i)
}

// locField: v is a load of a Location's line/column field; returns (path of the Location, field name)
func locFieldSSA(v ssa.Value) (string, string, bool) {
	var base ssa.Value
	name := ""
	switch x := v.(type) {
	case *ssa.UnOp:
		fa, ok := x.X.(*ssa.FieldAddr)
		if !ok || x.Op != token.MUL {
			return "", "", false
		}
		if p, n := namedPkgName(fa.X.Type()); p != lexerPkgPath || n != "Location" {
			return "", "", false
		}
		base, name = fa.X, fieldOf(fa).Name()
	case *ssa.Field:
		if p, n := namedPkgName(x.X.Type()); p != lexerPkgPath || n != "Location" {
			return "", "", false
		}
		base, name = x.X, structFieldName(x.X.Type(), x.Field)
	default:
		return "", "", false
	}
	// strip the load so that value and address forms agree
	bp := apath(base, 0)
	bp = strings.TrimPrefix(bp, "*")
	return bp, name, true
}

func lineOf(col string) string {
	switch col {
	case "StartColumn":
		return "StartLine"
	case "EndColumn":
		return "EndLine"
	}
	return ""
}

type lexFacts map[string]int // "A.line|B.line" -> bit0: a<=b, bit1: a>=b

func (f lexFacts) clone() lexFacts {
	o := lexFacts{}
	for k, v := range f {
		o[k] = v
	}
	return o
}

func pairKey(a, b string) (string, bool) {
	if a <= b {
		return a + "|" + b, false
	}
	return b + "|" + a, true
}

func addFact(f lexFacts, a, b string, le, ge bool) {
	k, sw := pairKey(a, b)
	if sw {
		le, ge = ge, le
	}
	m := f[k]
	if le {
		m |= 1
	}
	if ge {
		m |= 2
	}
	f[k] = m
}

func meetFacts(a, b lexFacts) lexFacts {
	o := lexFacts{}
	for k, v := range a {
		if w := b[k] & v; w != 0 {
			o[k] = w
		}
	}
	return o
}

func eqFacts(a, b lexFacts) bool {
	if len(a) != len(b) {
		return false
	}
	for k, v := range a {
		if b[k] != v {
			return false
		}
	}
	return true
}

// edgeFacts: facts contributed by taking edge index si (0 = true, 1 = false) of the If ending block b
func edgeFacts(b *ssa.BasicBlock, si int) (string, string, bool, bool, bool) {
	iff, ok := b.Instrs[len(b.Instrs)-1].(*ssa.If)
	if !ok {
		return "", "", false, false, false
	}
	bo, ok := iff.Cond.(*ssa.BinOp)
	if !ok {
		return "", "", false, false, false
	}
	ab, an, ok1 := locFieldSSA(bo.X)
	bb, bn, ok2 := locFieldSSA(bo.Y)
	if !ok1 || !ok2 || !strings.HasSuffix(an, "Line") || !strings.HasSuffix(bn, "Line") {
		return "", "", false, false, false
	}
	a, c := ab+"."+an, bb+"."+bn
	t := si == 0
	switch bo.Op {
	case token.EQL:
		if t {
			return a, c, true, true, true
		}
	case token.NEQ:
		if !t {
			return a, c, true, true, true
		}
	case token.LSS: // a < b
		if t {
			return a, c, true, false, true
		}
		return a, c, false, true, true
	case token.GTR:
		if t {
			return a, c, false, true, true
		}
		return a, c, true, false, true
	case token.LEQ:
		if t {
			return a, c, true, false, true
		}
		return a, c, false, true, true
	case token.GEQ:
		if t {
			return a, c, false, true, true
		}
		return a, c, true, false, true
	}
	return "", "", false, false, false
}

var ruleLexOrder = &Rule{
	Name:    "LOC/lexorder",
	NeedSSA: true,
	Text:    "positions are ordered by (line, column): every ordering comparison (<, <=, >, >=) between the StartColumn / EndColumn fields of two lexer.Location values is executed only where the corresponding line fields of the same two values are known equal — established by a dominating `==` test (same && chain or enclosing if), or by both strict inequalities having left the function — decided by an edge-sensitive forward must-analysis of line-comparison facts over the SSA control-flow graph, stores to the compared fields kill the fact; a column comparison under unequal or unknown lines mis-orders positions on different lines (enclosing-range computation of the outline, scope lookup, containment tests)",
	Run: func(c *Ctx) []Ob {
		var obs []Ob
		n := 0
		for _, f := range c.ModFns() {
			// candidate comparisons
			type cand struct {
				bo   *ssa.BinOp
				a, b string
			}
			var cands []cand
			for _, b := range f.Blocks {
				for _, ins := range b.Instrs {
					bo, ok := ins.(*ssa.BinOp)
					if !ok {
						continue
					}
					switch bo.Op {
					case token.LSS, token.GTR, token.LEQ, token.GEQ:
					default:
						continue
					}
					ab, an, ok1 := locFieldSSA(bo.X)
					bb, bn, ok2 := locFieldSSA(bo.Y)
					if !ok1 || !ok2 || lineOf(an) == "" || lineOf(bn) == "" || ab == bb {
						continue
					}
					cands = append(cands, cand{bo, ab + "." + lineOf(an), bb + "." + lineOf(bn)})
				}
			}
			if len(cands) == 0 {
				continue
			}
			// dataflow
			nb := len(f.Blocks)
			in := make([]lexFacts, nb)
			out := make([]lexFacts, nb)
			var top lexFacts // nil = top (unvisited)
			_ = top
			transfer := func(b *ssa.BasicBlock, st lexFacts, upto ssa.Instruction) lexFacts {
				st = st.clone()
				for _, ins := range b.Instrs {
					if ins == upto {
						break
					}
					if s, ok := ins.(*ssa.Store); ok {
						p := strings.TrimPrefix(apath(s.Addr, 0), "*")
						for k := range st {
							for _, side := range strings.Split(k, "|") {
								if side == p || strings.HasPrefix(side, p+".") || strings.HasPrefix(p, side) {
									delete(st, k)
								}
							}
						}
					}
				}
				return st
			}
			for changed, iter := true, 0; changed && iter < 50; iter++ {
				changed = false
				for _, b := range f.Blocks {
					var st lexFacts
					if b.Index == 0 {
						st = lexFacts{}
					}
					first := true
					for _, p := range b.Preds {
						if out[p.Index] == nil {
							continue // top
						}
						e := out[p.Index].clone()
						for si, s := range p.Succs {
							if s == b {
								if x, y, le, ge, ok := edgeFacts(p, si); ok {
									// a block that is both successors of the same If gets no fact
									if len(p.Succs) == 2 && p.Succs[0] == p.Succs[1] {
										continue
									}
									addFact(e, x, y, le, ge)
								}
								break
							}
						}
						if first && b.Index != 0 {
							st, first = e, false
						} else if st != nil {
							st = meetFacts(st, e)
						}
					}
					if st == nil {
						continue
					}
					in[b.Index] = st
					o := transfer(b, st, nil)
					if out[b.Index] == nil || !eqFacts(out[b.Index], o) {
						out[b.Index] = o
						changed = true
					}
				}
			}
			sort.Slice(cands, func(i, j int) bool { return cands[i].bo.Pos() < cands[j].bo.Pos() })
			for i, cd := range cands {
				n++
				key := fmt.Sprintf("LOC/lexorder:%s#%d", fnKey(f), i+1)
				st := in[cd.bo.Block().Index]
				if st == nil {
					obs = append(obs, Ob{Key: key, Site: c.Pos(cd.bo.Pos()), Verdict: OK, Note: "unreachable"})
					continue
				}
				st = transfer(cd.bo.Block(), st, cd.bo)
				k, _ := pairKey(cd.a, cd.b)
				if st[k] == 3 {
					obs = append(obs, Ob{Key: key, Site: c.Pos(cd.bo.Pos()), Verdict: OK, Note: "lines known equal here"})
				} else {
					obs = append(obs, Ob{Key: key, Site: c.Pos(cd.bo.Pos()), Verdict: VIOLATION,
						Note: fmt.Sprintf("columns of two positions are compared (%s) on a path where their lines are not known to be equal (%s vs %s): positions on different lines are ordered by column", cd.bo.Op, cd.a, cd.b)})
				}
			}
		}
		c.Stats["column_comparisons"] = n
		obs = append(obs, floor("LOC/lexorder", "ordering comparisons between column fields of two Locations", n, 8))
		return obs
	},
}
