package main

import (
	"regexp"
	"fmt"
	"go/token"
	"go/types"
	"sort"
	"strings"

	"golang.org/x/tools/go/ssa"
)

const commonPkg = modPath + "/langserver/check/common"
const checkPkg = modPath + "/langserver/check"

// ---------------------------------------------------------------------------------------------
// symbolic terms over a function's parameters

// termOf renders v as a term over the enclosing function's parameters, constants and resolved
// callees. opaque=true when some part cannot be expressed (phi, range element, load from memory).
func termOf(v ssa.Value, depth int) (s string, opaque bool) {
	if depth > 10 {
		return "?", true
	}
	switch x := v.(type) {
	case *ssa.Parameter:
		for i, p := range x.Parent().Params {
			if p == x {
				return fmt.Sprintf("P%d", i), false
			}
		}
	case *ssa.Const:
		if x.Value == nil {
			return "nil", false
		}
		return x.Value.ExactString(), false
	case *ssa.Call:
		name := staticCalleeName(&x.Call)
		if name == "" {
			if b, ok := x.Call.Value.(*ssa.Builtin); ok {
				name = b.Name()
			} else {
				return "?", true
			}
		}
		var as []string
		op := false
		for _, a := range x.Call.Args {
			t, o := termOf(a, depth+1)
			as = append(as, t)
			op = op || o
		}
		return name + "(" + strings.Join(as, ",") + ")", op
	case *ssa.BinOp:
		a, o1 := termOf(x.X, depth+1)
		b, o2 := termOf(x.Y, depth+1)
		return "(" + a + x.Op.String() + b + ")", o1 || o2
	case *ssa.Slice:
		a, o := termOf(x.X, depth+1)
		lo, hi := "", ""
		if x.Low != nil {
			t, o2 := termOf(x.Low, depth+1)
			lo, o = t, o || o2
		}
		if x.High != nil {
			t, o2 := termOf(x.High, depth+1)
			hi, o = t, o || o2
		}
		return a + "[" + lo + ":" + hi + "]", o
	case *ssa.UnOp:
		if x.Op == token.MUL {
			if ia, ok := x.X.(*ssa.IndexAddr); ok {
				a, o1 := termOf(ia.X, depth+1)
				i, o2 := termOf(ia.Index, depth+1)
				return a + "[" + i + "]", o1 || o2
			}
			return "?", true
		}
		a, o := termOf(x.X, depth+1)
		return x.Op.String() + a, o
	case *ssa.Index:
		a, o1 := termOf(x.X, depth+1)
		i, o2 := termOf(x.Index, depth+1)
		return a + "[" + i + "]", o1 || o2
	case *ssa.Lookup:
		a, o1 := termOf(x.X, depth+1)
		i, o2 := termOf(x.Index, depth+1)
		return a + "[" + i + "]", o1 || o2
	case *ssa.Extract:
		a, o := termOf(x.Tuple, depth+1)
		return fmt.Sprintf("%s.%d", a, x.Index), o
	case *ssa.Convert:
		return termOf(x.X, depth+1)
	case *ssa.ChangeType:
		return termOf(x.X, depth+1)
	}
	return "?", true
}

// mapOrigin identifies the struct field a map value comes from and the nesting depth.
func mapOrigin(v ssa.Value, depth int) (field *types.Var, owner string, nest int, ok bool) {
	if depth > 6 {
		return
	}
	switch x := v.(type) {
	case *ssa.UnOp:
		if x.Op == token.MUL {
			if fa, ok2 := x.X.(*ssa.FieldAddr); ok2 {
				st := fa.X.Type().Underlying().(*types.Pointer).Elem()
				f := st.Underlying().(*types.Struct).Field(fa.Field)
				return f, namedName(st), 0, true
			}
		}
	case *ssa.Lookup:
		f, o, n, ok2 := mapOrigin(x.X, depth+1)
		if ok2 {
			return f, o, n + 1, true
		}
	case *ssa.Extract:
		return mapOrigin(x.Tuple, depth+1)
	case *ssa.Phi:
		var f0 *types.Var
		var o0 string
		n0 := -1
		for _, e := range x.Edges {
			if _, fresh := e.(*ssa.MakeMap); fresh {
				continue // the bucket created when the lookup found none (`v, ok := m[k]; if !ok { v = map…; m[k] = v }`)
			}
			f, o, n, ok2 := mapOrigin(e, depth+1)
			if !ok2 {
				return nil, "", 0, false
			}
			if f0 == nil {
				f0, o0, n0 = f, o, n
			} else if f0 != f || n0 != n {
				return nil, "", 0, false
			}
		}
		if f0 != nil {
			return f0, o0, n0, true
		}
	}
	return
}

var paramTokenRE = regexp.MustCompile(`\bP\d+\b`)

// paramMapOrigin: the map value is (an element of) a map-typed parameter of its function
func paramMapOrigin(v ssa.Value, depth int) (*ssa.Parameter, int) {
	if depth > 6 {
		return nil, 0
	}
	switch x := v.(type) {
	case *ssa.Parameter:
		if _, ok := types.Unalias(x.Type()).Underlying().(*types.Map); ok {
			return x, 0
		}
	case *ssa.Lookup:
		if p, n := paramMapOrigin(x.X, depth+1); p != nil {
			return p, n + 1
		}
	case *ssa.Extract:
		return paramMapOrigin(x.Tuple, depth+1)
	case *ssa.Phi:
		var p0 *ssa.Parameter
		n0 := 0
		for _, e := range x.Edges {
			if _, fresh := e.(*ssa.MakeMap); fresh {
				continue
			}
			p, n := paramMapOrigin(e, depth+1)
			if p == nil || (p0 != nil && (p0 != p || n0 != n)) {
				return nil, 0
			}
			p0, n0 = p, n
		}
		return p0, n0
	}
	return nil, 0
}

func paramSig(f *ssa.Function) string {
	var s []string
	for _, p := range f.Params {
		s = append(s, types.TypeString(p.Type(), nil))
	}
	return strings.Join(s, ";")
}

type mapOp struct {
	fn     *ssa.Function
	pos    token.Pos
	term   string
	opaque bool
	del    bool
}

// collectMapOps groups every MapUpdate / delete on struct-field maps by (owner.field, depth).
func collectMapOps(c *Ctx) map[string][]mapOp {
	out := map[string][]mapOp{}
	for _, f := range c.ModFns() {
		for _, b := range f.Blocks {
			for _, ins := range b.Instrs {
				var m, k ssa.Value
				del := false
				switch x := ins.(type) {
				case *ssa.MapUpdate:
					m, k = x.Map, x.Key
				case *ssa.Call:
					if bi, ok := x.Call.Value.(*ssa.Builtin); ok && bi.Name() == "delete" {
						m, k, del = x.Call.Args[0], x.Call.Args[1], true
					}
				}
				if m == nil {
					continue
				}
				fld, owner, nest, ok := mapOrigin(m, 0)
				if !ok {
					// the map is a parameter of a private helper: the operation belongs to each call site's map
					// (insertIndexEntry(f.fileNameMap, name, file, …)), key term rewritten over the caller's parameters
					p, pnest := paramMapOrigin(m, 0)
					if p == nil {
						continue
					}
					sites, closed := closedCallSites(c, f)
					if !closed {
						continue
					}
					pi := paramIndex(f, p)
					t, op := termOf(k, 0)
					for _, cs := range sites {
						if pi < 0 || pi >= len(cs.Call.Args) || cs.Parent() == f {
							continue
						}
						fld2, owner2, nest2, ok2 := mapOrigin(cs.Call.Args[pi], 0)
						if !ok2 || fld2.Pkg() == nil || !strings.HasPrefix(fld2.Pkg().Path(), modPath) {
							continue
						}
						t2, op2 := t, op
						t2 = paramTokenRE.ReplaceAllStringFunc(t2, func(tok string) string {
							var i int
							fmt.Sscanf(tok, "P%d", &i)
							if i >= len(cs.Call.Args) {
								op2 = true
								return "?"
							}
							at, ao := termOf(cs.Call.Args[i], 0)
							op2 = op2 || ao
							return at
						})
						key := fmt.Sprintf("%s.%s[%d]", owner2, fld2.Name(), nest2+pnest)
						out[key] = append(out[key], mapOp{fn: cs.Parent(), pos: ins.Pos(), term: t2, opaque: op2, del: del})
					}
					continue
				}
				if fld.Pkg() == nil || !strings.HasPrefix(fld.Pkg().Path(), modPath) {
					continue
				}
				t, op := termOf(k, 0)
				key := fmt.Sprintf("%s.%s[%d]", owner, fld.Name(), nest)
				out[key] = append(out[key], mapOp{fn: f, pos: ins.Pos(), term: t, opaque: op, del: del})
			}
		}
	}
	return out
}

var ruleKeyM1 = &Rule{
	Name:    "KEY/M1-delete-key-in-insert-domain",
	NeedSSA: true,
	Text:    "for every map-typed struct field (at each nesting depth) each delete(m,k) whose key is a term over the enclosing function's parameters must use a key term that some store into the same field/depth uses, compared among functions of identical parameter signature (insert/remove siblings); a delete by a different projection of the argument never removes what was inserted",
	Run: func(c *Ctx) []Ob {
		var obs []Ob
		ops := collectMapOps(c)
		var keys []string
		for k := range ops {
			keys = append(keys, k)
		}
		sort.Strings(keys)
		nDel, nCmp := 0, 0
		for _, k := range keys {
			for _, d := range ops[k] {
				if !d.del {
					continue
				}
				nDel++
				okey := fmt.Sprintf("KEY/M1:%s:delete-in:%s", k, fnKey(d.fn))
				if d.opaque {
					obs = append(obs, Ob{Key: okey, Site: c.Pos(d.pos), Verdict: OK, Note: "key is not a term over parameters (not comparable): " + d.term})
					continue
				}
				var sib []string
				match := false
				for _, s := range ops[k] {
					if s.del || s.opaque || paramSig(s.fn) != paramSig(d.fn) || s.fn == d.fn {
						continue
					}
					sib = append(sib, fmt.Sprintf("%s in %s", s.term, fnKey(s.fn)))
					if s.term == d.term {
						match = true
					}
				}
				if len(sib) == 0 {
					obs = append(obs, Ob{Key: okey, Site: c.Pos(d.pos), Verdict: OK, Note: "no sibling insert with the same parameter signature (not comparable)"})
					continue
				}
				nCmp++
				if match {
					obs = append(obs, Ob{Key: okey, Site: c.Pos(d.pos), Verdict: OK, Note: "delete key term " + d.term + " equals a sibling insert key"})
				} else {
					obs = append(obs, Ob{Key: okey, Site: c.Pos(d.pos), Verdict: VIOLATION,
						Note: fmt.Sprintf("delete key term %s equals no insert key term of the sibling(s): %s — the entry inserted for the same argument is never removed", d.term, strings.Join(sib, "; "))})
				}
			}
		}
		c.Stats["map_field_delete_sites"] = nDel
		c.Stats["map_field_delete_comparable"] = nCmp
		obs = append(obs, floor("KEY/M1-delete-key-in-insert-domain", "delete sites on struct-field maps", nDel, 8))
		obs = append(obs, floor("KEY/M1-delete-key-in-insert-domain", "comparable insert/delete sibling pairs", nCmp, 2))
		return obs
	},
}

// ---------------------------------------------------------------------------------------------
// generic must-precede on SSA CFG

// mustPrecede reports the B-instructions of f that are reachable from entry along some path that
// does not execute an A-instruction first.
func mustPrecede(f *ssa.Function, isA, isB func(ssa.Instruction) bool) []ssa.Instruction {
	if len(f.Blocks) == 0 {
		return nil
	}
	// in[b] = true iff A seen on all paths to b's entry
	in := make([]bool, len(f.Blocks))
	out := make([]bool, len(f.Blocks))
	for i := range in {
		in[i], out[i] = true, true
	}
	in[0] = false
	changed := true
	for changed {
		changed = false
		for _, b := range f.Blocks {
			st := true
			if b.Index == 0 {
				st = false
			} else {
				for _, p := range b.Preds {
					st = st && out[p.Index]
				}
				if len(b.Preds) == 0 {
					st = true // unreachable
				}
			}
			in[b.Index] = st
			for _, ins := range b.Instrs {
				if isA(ins) {
					st = true
				}
			}
			if out[b.Index] != st {
				out[b.Index] = st
				changed = true
			}
		}
	}
	var bad []ssa.Instruction
	for _, b := range f.Blocks {
		st := in[b.Index]
		for _, ins := range b.Instrs {
			if isA(ins) {
				st = true
			}
			if !st && isB(ins) {
				bad = append(bad, ins)
			}
		}
	}
	return bad
}

// reachesSet: functions from which target is reachable in the VTA graph.
func (c *Ctx) reachesSet(target *ssa.Function) map[*ssa.Function]bool {
	g := c.VTA()
	set := map[*ssa.Function]bool{target: true}
	q := []*ssa.Function{target}
	for len(q) > 0 {
		f := q[0]
		q = q[1:]
		n := g.Nodes[f]
		if n == nil {
			continue
		}
		for _, e := range n.In {
			cf := e.Caller.Func
			if !set[cf] {
				set[cf] = true
				q = append(q, cf)
			}
		}
	}
	return set
}

func callMayReach(c *Ctx, ins ssa.Instruction, set map[*ssa.Function]bool) bool {
	call, ok := ins.(ssa.CallInstruction)
	if !ok {
		return false
	}
	if _, isGo := ins.(*ssa.Go); isGo {
		// handled like a call: the goroutine body runs after this point
	}
	if sc := call.Common().StaticCallee(); sc != nil {
		return set[sc]
	}
	for _, cf := range calleesOf(c.VTA(), call) {
		if set[cf] {
			return true
		}
	}
	return false
}

var ruleKeyM3 = &Rule{
	Name:    "KEY/M3-exists-cache-cleared-first",
	NeedSSA: true,
	Text:    "the file-exists cache remembers negative answers, so in HandleFileEventChanges and HandleCheck GConfig.ClearCacheFileMap() is called on every path before any call that can reach GlobalConfig.FileExistCache",
	Run: func(c *Ctx) []Ob {
		var obs []Ob
		clearFn := c.SSAFunc(commonPkg, "GlobalConfig", "ClearCacheFileMap")
		existFn := c.SSAFunc(commonPkg, "GlobalConfig", "FileExistCache")
		if clearFn == nil || existFn == nil {
			return []Ob{{Key: "KEY/M3:slots", Verdict: UNDECIDED, Note: "slot unresolved: GlobalConfig.ClearCacheFileMap / FileExistCache"}}
		}
		set := c.reachesSet(existFn)
		for _, name := range []string{"HandleFileEventChanges", "HandleCheck"} {
			f := c.SSAFunc(checkPkg, "AllProject", name)
			if f == nil {
				obs = append(obs, Ob{Key: "KEY/M3:" + name, Verdict: UNDECIDED, Note: "slot unresolved: AllProject." + name})
				continue
			}
			if !set[f] {
				obs = append(obs, Ob{Key: "KEY/M3:" + name, Site: c.Pos(f.Pos()), Verdict: OK, Note: "cannot reach FileExistCache"})
				continue
			}
			nB := 0
			bad := mustPrecede(f,
				func(i ssa.Instruction) bool {
					call, ok := i.(ssa.CallInstruction)
					return ok && call.Common().StaticCallee() == clearFn
				},
				func(i ssa.Instruction) bool {
					r := callMayReach(c, i, set)
					if r {
						nB++
					}
					return r
				})
			if len(bad) > 0 {
				obs = append(obs, Ob{Key: "KEY/M3:" + name, Site: c.Pos(bad[0].Pos()), Verdict: VIOLATION,
					Note: fmt.Sprintf("call that can reach FileExistCache is reachable without ClearCacheFileMap() before it (%d such calls): a file created or deleted since the last scan keeps its cached answer", len(bad))})
			} else {
				obs = append(obs, Ob{Key: "KEY/M3:" + name, Site: c.Pos(f.Pos()), Verdict: OK, Note: fmt.Sprintf("ClearCacheFileMap() dominates all %d calls that can reach FileExistCache", nB)})
			}
		}
		// the clear itself must reset the map (store a fresh map or delete every key)
		resets := false
		for _, b := range clearFn.Blocks {
			for _, ins := range b.Instrs {
				if st, ok := ins.(*ssa.Store); ok {
					if fa, ok := st.Addr.(*ssa.FieldAddr); ok {
						stt := fa.X.Type().Underlying().(*types.Pointer).Elem().Underlying().(*types.Struct)
						if stt.Field(fa.Field).Name() == "FileExistCacheMap" {
							if _, isMake := st.Val.(*ssa.MakeMap); isMake {
								resets = true
							}
						}
					}
				}
			}
		}
		v := OK
		note := "ClearCacheFileMap stores a fresh map into FileExistCacheMap"
		if !resets {
			v, note = VIOLATION, "ClearCacheFileMap no longer replaces FileExistCacheMap by a fresh map"
		}
		obs = append(obs, Ob{Key: "KEY/M3:ClearCacheFileMap-resets", Site: c.Pos(clearFn.Pos()), Verdict: v, Note: note})
		return obs
	},
}

// per-file state of the project (frozen slot table; reason: each is keyed by the complete file path
// of a workspace file and consulted by queries / module resolution)
var perFileMaps = map[string]string{
	"AllProject.allFilesMap":       "set of workspace files (key: full path)",
	"AllProject.fileStructMap":     "first-pass result per file (key: full path)",
	"FileIndexInfo.fileNameMap":    "base name -> full paths (inner key: full path)",
	"FileIndexInfo.freFileNameMap": "stem -> full paths (inner key: full path)",
	"LRUCache.cacheMap":            "unsaved-buffer analysis per file (key: full path)",
}

// not per-file (frozen; reason given)
var notPerFileMaps = map[string]string{
	"AllProject.clientExpFileMap":  "plugin directory listing, immutable after start",
	"AllProject.analysisSecondMap": "keyed by project entry file, rebuilt by pass two",
	"AllProject.createTypeMap":     "keyed by annotation type name, rebuilt from scratch by rebuidCreateTypeMap",
}

var ruleKeyM2 = &Rule{
	Name:    "KEY/M2-cleanup-pairing",
	NeedSSA: true,
	Text:    "every per-file map of the project state (AllProject.allFilesMap, fileStructMap, FileIndexInfo.fileNameMap/freFileNameMap, the LRU cache map) that has an insert site must have a delete site reachable from AllProject.RemoveFile; every map-typed field of AllProject must be classified as per-file or not",
	Run: func(c *Ctx) []Ob {
		var obs []Ob
		rm := c.SSAFunc(checkPkg, "AllProject", "RemoveFile")
		if rm == nil {
			return []Ob{{Key: "KEY/M2:slots", Verdict: UNDECIDED, Note: "slot unresolved: AllProject.RemoveFile"}}
		}
		_, reachable := reach(c.VTA(), []*ssa.Function{rm}, nil)
		ops := collectMapOps(c)
		hasStore := map[string]bool{}
		delFromRemove := map[string]bool{}
		for k, list := range ops {
			name := k[:strings.Index(k, "[")]
			for _, o := range list {
				if o.del {
					if reachable[o.fn] {
						delFromRemove[name] = true
					}
				} else {
					hasStore[name] = true
				}
			}
		}
		var names []string
		for n := range perFileMaps {
			names = append(names, n)
		}
		sort.Strings(names)
		// a private map field that was renamed: when the owner type has map operations on exactly one field, that
		// field is the slot (LRUCache has one map; AllProject / FileIndexInfo have several and stay name-keyed)
		for _, n := range names {
			if hasStore[n] {
				continue
			}
			owner := n[:strings.Index(n, ".")+1]
			only := ""
			for other := range hasStore {
				if strings.HasPrefix(other, owner) {
					if only != "" && only != other {
						only = "?"
					} else if only == "" {
						only = other
					}
				}
			}
			for other := range delFromRemove {
				if strings.HasPrefix(other, owner) && only != "" && only != other {
					only = "?"
				}
			}
			if only != "" && only != "?" {
				if _, listed := perFileMaps[only]; !listed {
					hasStore[n] = true
					delFromRemove[n] = delFromRemove[only]
				}
			}
		}
		for _, n := range names {
			key := "KEY/M2:" + n
			switch {
			case !hasStore[n]:
				obs = append(obs, Ob{Key: key, Verdict: UNDECIDED, Note: "slot unresolved: no insert site found for per-file map " + n})
			case !delFromRemove[n]:
				obs = append(obs, Ob{Key: key, Site: c.Pos(rm.Pos()), Verdict: VIOLATION, Note: "no delete on " + n + " is reachable from AllProject.RemoveFile: a deleted file stays in this index"})
			default:
				obs = append(obs, Ob{Key: key, Site: c.Pos(rm.Pos()), Verdict: OK, Note: perFileMaps[n] + ": delete reachable from RemoveFile"})
			}
		}
		// classification completeness for AllProject map fields
		if sp := c.SSA[checkPkg]; sp != nil {
			if t := sp.Type("AllProject"); t != nil {
				st := t.Type().Underlying().(*types.Struct)
				for i := 0; i < st.NumFields(); i++ {
					f := st.Field(i)
					if _, isMap := f.Type().Underlying().(*types.Map); !isMap {
						continue
					}
					n := "AllProject." + f.Name()
					if _, ok := perFileMaps[n]; ok {
						continue
					}
					if _, ok := notPerFileMaps[n]; ok {
						obs = append(obs, Ob{Key: "KEY/M2:classified:" + n, Site: c.Pos(f.Pos()), Verdict: OK, Note: "not per-file: " + notPerFileMaps[n]})
						continue
					}
					obs = append(obs, Ob{Key: "KEY/M2:classified:" + n, Site: c.Pos(f.Pos()), Verdict: UNDECIDED, Note: "new map field of AllProject is not classified as per-file / not per-file: cleanup on file deletion cannot be decided"})
				}
			}
		}
		return obs
	},
}
