package main

// CFG/G9: no dead switch — every field of the global configuration object that some function assigns
// is also read by some function (other than as the operand of its own re-assignment).

import (
	"fmt"
	"go/token"
	"go/types"
	"sort"

	"golang.org/x/tools/go/ssa"
)

// fields of GlobalConfig that are legitimately write-only (none on the reviewed tree)
var reviewedWriteOnlyConfig = map[string]string{}

var ruleCfgG9 = &Rule{
	Name:    "CFG/G9-no-dead-switch",
	NeedSSA: true,
	Text:    "every field of common.GlobalConfig that is assigned somewhere (from client settings, luahelper.json or defaults) is read somewhere — by a load, range, lookup, call argument or address escape that is not merely the operand of a store back into the same field; a configuration value that is stored and never consulted is a switch that silences nothing (or, as for IgnoreFileNameVarFlag, a table that is built unconditionally)",
	Run: func(c *Ctx) []Ob {
		var obs []Ob
		commonPkg := modPath + "/langserver/check/common"
		type st struct {
			reads, writes int
			firstWrite    token.Pos
		}
		fields := map[string]*st{}
		var order []string
		for _, p := range c.Pkgs {
			if p.PkgPath != commonPkg {
				continue
			}
			if o := p.Types.Scope().Lookup("GlobalConfig"); o != nil {
				s := o.Type().Underlying().(*types.Struct)
				for i := 0; i < s.NumFields(); i++ {
					fields[s.Field(i).Name()] = &st{}
					order = append(order, s.Field(i).Name())
				}
			}
		}
		if len(fields) == 0 {
			return []Ob{{Key: "CFG/G9:slots", Verdict: UNDECIDED, Note: "slot unresolved: common.GlobalConfig"}}
		}
		for _, f := range c.ModFns() {
			for _, b := range f.Blocks {
				for _, ins := range b.Instrs {
					fa, ok := ins.(*ssa.FieldAddr)
					if !ok {
						continue
					}
					if p, n := namedPkgName(fa.X.Type()); p != commonPkg || n != "GlobalConfig" {
						continue
					}
					stc := types.Unalias(fa.X.Type().Underlying().(*types.Pointer).Elem()).Underlying().(*types.Struct)
					fs := fields[stc.Field(fa.Field).Name()]
					refs := fa.Referrers()
					if refs == nil {
						continue
					}
					for _, u := range *refs {
						switch x := u.(type) {
						case *ssa.Store:
							if x.Addr == ssa.Value(fa) {
								fs.writes++
								if fs.firstWrite == token.NoPos {
									fs.firstWrite = x.Pos()
								}
							} else {
								fs.reads++ // address stored elsewhere
							}
						case *ssa.UnOp:
							// a load: does the loaded value do anything but flow back into a store to the same field?
							if onlyFeedsSameField(x, stc.Field(fa.Field).Name(), commonPkg) {
								continue
							}
							fs.reads++
						case *ssa.DebugRef:
						default:
							fs.reads++
						}
					}
				}
			}
		}
		sort.Strings(order)
		n := 0
		for _, name := range order {
			fs := fields[name]
			if fs.writes == 0 {
				continue
			}
			n++
			key := "CFG/G9:GlobalConfig." + name
			switch {
			case fs.reads > 0:
				obs = append(obs, Ob{Key: key, Site: c.Pos(fs.firstWrite), Verdict: OK, Note: fmt.Sprintf("%d writes, %d reads", fs.writes, fs.reads)})
			case reviewedWriteOnlyConfig[name] != "":
				obs = append(obs, Ob{Key: key, Site: c.Pos(fs.firstWrite), Verdict: OK, Note: "reviewed write-only: " + reviewedWriteOnlyConfig[name]})
			default:
				obs = append(obs, Ob{Key: key, Site: c.Pos(fs.firstWrite), Verdict: VIOLATION,
					Note: fmt.Sprintf("GlobalConfig.%s is assigned (%d sites) but no function reads it: the setting has no effect on what is reported", name, fs.writes)})
			}
		}
		c.Stats["config_fields_assigned"] = n
		obs = append(obs, floor("CFG/G9-no-dead-switch", "assigned GlobalConfig fields", n, 30))
		return obs
	},
}

// onlyFeedsSameField: every use of the loaded value is (transitively through append / slice / phi) a store
// back into the same GlobalConfig field.
func onlyFeedsSameField(load *ssa.UnOp, field, pkg string) bool {
	seen := map[ssa.Value]bool{}
	var ok func(v ssa.Value, d int) bool
	ok = func(v ssa.Value, d int) bool {
		if seen[v] {
			return true
		}
		seen[v] = true
		refs := v.Referrers()
		if refs == nil || d > 4 {
			return false
		}
		any := false
		for _, u := range *refs {
			switch x := u.(type) {
			case *ssa.DebugRef:
			case *ssa.Store:
				fa, isFA := x.Addr.(*ssa.FieldAddr)
				if !isFA || x.Val != v {
					return false
				}
				p, n := namedPkgName(fa.X.Type())
				if p != pkg || n != "GlobalConfig" {
					return false
				}
				stc := types.Unalias(fa.X.Type().Underlying().(*types.Pointer).Elem()).Underlying().(*types.Struct)
				if stc.Field(fa.Field).Name() != field {
					return false
				}
				any = true
			case *ssa.Call:
				if b, isB := x.Call.Value.(*ssa.Builtin); isB && b.Name() == "append" && x.Call.Args[0] == v {
					if !ok(x, d+1) {
						return false
					}
					any = true
				} else {
					return false
				}
			default:
				return false
			}
		}
		return any
	}
	return ok(load, 0)
}

// ---------------------------------------------------------------------------------------------
// G10: what initialisation puts into a configuration table, a settings change puts back

// reviewed: additive writers whose loss after a settings change is not observable (reason)
var reviewedReinitGaps = map[string]string{
	"CFG/G10:IgnoreVarMap:InsertIngoreSystemModule": "hazard without a failing input: the names it inserts (math, string, print, …) are also resolved through GlobalConfig.SysVarMap / the system-tips tables, so undefined-variable diagnostics do not change after workspace/didChangeConfiguration (checked with findings/CFG-G10-system-modules-lost-on-settings-change, which passes)",
}

var ruleCfgG10 = &Rule{
	Name:    "CFG/G10-reinit-parity",
	NeedSSA: true,
	Text:    "for every map field of common.GlobalConfig that the settings-change path (the workspace/didChangeConfiguration handler) can reset to an empty map: every function that only adds to that map (inserts without resetting it itself) and is reachable from the initialize handler is also reachable from the settings-change handler — otherwise a later settings change leaves the table without entries the start-up put there (identically whether given at start-up or by a later settings change)",
	Run: func(c *Ctx) []Ob {
		var obs []Ob
		hs, err := c.Handlers()
		if err != nil {
			return []Ob{{Key: "CFG/G10:slots", Verdict: UNDECIDED, Note: err.Error()}}
		}
		var initH, chgH *ssa.Function
		for _, h := range hs {
			switch h.Method {
			case "initialize":
				initH = h.Fn
			case "workspace/didChangeConfiguration":
				chgH = h.Fn
			}
		}
		if initH == nil || chgH == nil {
			return []Ob{{Key: "CFG/G10:slots", Verdict: UNDECIDED, Note: "slot unresolved: initialize / workspace/didChangeConfiguration handlers"}}
		}
		_, initReach := reach(c.VTA(), []*ssa.Function{initH}, nil)
		_, chgReach := reach(c.VTA(), []*ssa.Function{chgH}, nil)
		commonPkgP := modPath + "/langserver/check/common"
		resets := map[*types.Var][]*ssa.Function{}
		writers := map[*types.Var][]*ssa.Function{}
		isCfg := func(fa *ssa.FieldAddr) bool {
			p, n := namedPkgName(fa.X.Type())
			return p == commonPkgP && n == "GlobalConfig"
		}
		for _, f := range c.ModFns() {
			seenR, seenW := map[*types.Var]bool{}, map[*types.Var]bool{}
			for _, b := range f.Blocks {
				for _, ins := range b.Instrs {
					switch x := ins.(type) {
					case *ssa.Store:
						if fa, ok := x.Addr.(*ssa.FieldAddr); ok && isCfg(fa) {
							if _, isMake := x.Val.(*ssa.MakeMap); isMake && !seenR[fieldOf(fa)] {
								seenR[fieldOf(fa)] = true
								resets[fieldOf(fa)] = append(resets[fieldOf(fa)], f)
							}
						}
					case *ssa.MapUpdate:
						if ld, ok := x.Map.(*ssa.UnOp); ok {
							if fa, ok := ld.X.(*ssa.FieldAddr); ok && isCfg(fa) && !seenW[fieldOf(fa)] {
								seenW[fieldOf(fa)] = true
								writers[fieldOf(fa)] = append(writers[fieldOf(fa)], f)
							}
						}
					}
				}
			}
		}
		var fields []*types.Var
		for fv := range resets {
			fields = append(fields, fv)
		}
		sort.Slice(fields, func(i, j int) bool { return fields[i].Name() < fields[j].Name() })
		n := 0
		for _, fv := range fields {
			resetOnChange := false
			for _, r := range resets[fv] {
				if chgReach[r] {
					resetOnChange = true
				}
			}
			if !resetOnChange {
				continue
			}
			ws := writers[fv]
			sort.Slice(ws, func(i, j int) bool { return fnKey(ws[i]) < fnKey(ws[j]) })
			for _, w := range ws {
				if !initReach[w] {
					continue
				}
				selfReset := false
				for _, r := range resets[fv] {
					if r == w {
						selfReset = true // a function that rebuilds the table wholesale (reset + fill) in its own mode
					}
				}
				if selfReset {
					continue
				}
				n++
				key := "CFG/G10:" + fv.Name() + ":" + w.Name()
				if chgReach[w] {
					obs = append(obs, Ob{Key: key, Site: c.Pos(w.Pos()), Verdict: OK})
				} else if why, ok := reviewedReinitGaps[key]; ok {
					obs = append(obs, Ob{Key: key, Site: c.Pos(w.Pos()), Verdict: OK, Note: "reviewed: " + why})
				} else {
					obs = append(obs, Ob{Key: key, Site: c.Pos(w.Pos()), Verdict: VIOLATION,
						Note: fmt.Sprintf("GlobalConfig.%s is emptied on a settings change, and %s — which fills it during initialize — is not reachable from the settings-change handler: after workspace/didChangeConfiguration the table lacks those entries", fv.Name(), w.Name())})
				}
			}
		}
		c.Stats["config_tables_reset_on_change"] = n
		obs = append(obs, floor("CFG/G10-reinit-parity", "init-time additive writers of tables that a settings change resets", n, 1))
		return obs
	},
}
