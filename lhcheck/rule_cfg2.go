package main

// CFG/G9: no dead switch — every field of the global configuration object that some function assigns
// is also read by some function (other than as the operand of its own re-assignment).

import (
	"fmt"
	"go/token"
	"go/types"
	"sort"

	"golang.org/x/tools/go/ssa"
)

// fields of GlobalConfig that are legitimately write-only (none on the reviewed tree)
var reviewedWriteOnlyConfig = map[string]string{}

var ruleCfgG9 = &Rule{
	Name:    "CFG/G9-no-dead-switch",
	NeedSSA: true,
	Text:    "every field of common.GlobalConfig that is assigned somewhere (from client settings, luahelper.json or defaults) is read somewhere — by a load, range, lookup, call argument or address escape that is not merely the operand of a store back into the same field; a configuration value that is stored and never consulted is a switch that silences nothing (or, as for IgnoreFileNameVarFlag, a table that is built unconditionally)",
	Run: func(c *Ctx) []Ob {
		var obs []Ob
		commonPkg := modPath + "/langserver/check/common"
		type st struct {
			reads, writes int
			firstWrite    token.Pos
		}
		fields := map[string]*st{}
		var order []string
		for _, p := range c.Pkgs {
			if p.PkgPath != commonPkg {
				continue
			}
			if o := p.Types.Scope().Lookup("GlobalConfig"); o != nil {
				s := o.Type().Underlying().(*types.Struct)
				for i := 0; i < s.NumFields(); i++ {
					fields[s.Field(i).Name()] = &st{}
					order = append(order, s.Field(i).Name())
				}
			}
		}
		if len(fields) == 0 {
			return []Ob{{Key: "CFG/G9:slots", Verdict: UNDECIDED, Note: "slot unresolved: common.GlobalConfig"}}
		}
		for _, f := range c.ModFns() {
			for _, b := range f.Blocks {
				for _, ins := range b.Instrs {
					fa, ok := ins.(*ssa.FieldAddr)
					if !ok {
						continue
					}
					if p, n := namedPkgName(fa.X.Type()); p != commonPkg || n != "GlobalConfig" {
						continue
					}
					stc := types.Unalias(fa.X.Type().Underlying().(*types.Pointer).Elem()).Underlying().(*types.Struct)
					fs := fields[stc.Field(fa.Field).Name()]
					refs := fa.Referrers()
					if refs == nil {
						continue
					}
					for _, u := range *refs {
						switch x := u.(type) {
						case *ssa.Store:
							if x.Addr == ssa.Value(fa) {
								fs.writes++
								if fs.firstWrite == token.NoPos {
									fs.firstWrite = x.Pos()
								}
							} else {
								fs.reads++ // address stored elsewhere
							}
						case *ssa.UnOp:
							// a load: does the loaded value do anything but flow back into a store to the same field?
							if onlyFeedsSameField(x, stc.Field(fa.Field).Name(), commonPkg) {
								continue
							}
							fs.reads++
						case *ssa.DebugRef:
						default:
							fs.reads++
						}
					}
				}
			}
		}
		sort.Strings(order)
		n := 0
		for _, name := range order {
			fs := fields[name]
			if fs.writes == 0 {
				continue
			}
			n++
			key := "CFG/G9:GlobalConfig." + name
			switch {
			case fs.reads > 0:
				obs = append(obs, Ob{Key: key, Site: c.Pos(fs.firstWrite), Verdict: OK, Note: fmt.Sprintf("%d writes, %d reads", fs.writes, fs.reads)})
			case reviewedWriteOnlyConfig[name] != "":
				obs = append(obs, Ob{Key: key, Site: c.Pos(fs.firstWrite), Verdict: OK, Note: "reviewed write-only: " + reviewedWriteOnlyConfig[name]})
			default:
				obs = append(obs, Ob{Key: key, Site: c.Pos(fs.firstWrite), Verdict: VIOLATION,
					Note: fmt.Sprintf("GlobalConfig.%s is assigned (%d sites) but no function reads it: the setting has no effect on what is reported", name, fs.writes)})
			}
		}
		c.Stats["config_fields_assigned"] = n
		obs = append(obs, floor("CFG/G9-no-dead-switch", "assigned GlobalConfig fields", n, 30))
		return obs
	},
}

// onlyFeedsSameField: every use of the loaded value is (transitively through append / slice / phi) a store
// back into the same GlobalConfig field.
func onlyFeedsSameField(load *ssa.UnOp, field, pkg string) bool {
	seen := map[ssa.Value]bool{}
	var ok func(v ssa.Value, d int) bool
	ok = func(v ssa.Value, d int) bool {
		if seen[v] {
			return true
		}
		seen[v] = true
		refs := v.Referrers()
		if refs == nil || d > 4 {
			return false
		}
		any := false
		for _, u := range *refs {
			switch x := u.(type) {
			case *ssa.DebugRef:
			case *ssa.Store:
				fa, isFA := x.Addr.(*ssa.FieldAddr)
				if !isFA || x.Val != v {
					return false
				}
				p, n := namedPkgName(fa.X.Type())
				if p != pkg || n != "GlobalConfig" {
					return false
				}
				stc := types.Unalias(fa.X.Type().Underlying().(*types.Pointer).Elem()).Underlying().(*types.Struct)
				if stc.Field(fa.Field).Name() != field {
					return false
				}
				any = true
			case *ssa.Call:
				if b, isB := x.Call.Value.(*ssa.Builtin); isB && b.Name() == "append" && x.Call.Args[0] == v {
					if !ok(x, d+1) {
						return false
					}
					any = true
				} else {
					return false
				}
			default:
				return false
			}
		}
		return any
	}
	return ok(load, 0)
}
