package main

import (
	"fmt"
	"go/constant"
	"go/token"
	"go/types"
	"os"
	"sort"

	"golang.org/x/tools/go/ssa"
)

// ---------------------------------------------------------------------------------------------
// BND: the cursor of a hand-written lexer never passes the end of its input.
//
// A small interprocedural abstract interpreter over the functions of one lexer package. For every
// program point it keeps
//   L            a proven lower bound of len(recv.chunk)
//   ub(v), lb(v) for integer SSA values:  lb(v) <= v <= len(recv.chunk) + ub(v)
//   the same pair for *int cells (address-taken scanner indices handed to helpers)
//   slen(s)      for string values:  len(s) <= len(recv.chunk) + slen(s)
//   ge(s)        len(recv.chunk) >= len(s)
//   cur          the SSA values that are the CURRENT content of recv.chunk (loads since the last store)
// Facts come from branch conditions (edge-sensitive), from successful accesses (an index that did not
// panic is in range afterwards), from induction over loop phis (join + widening), from lock-step phis
// (two counters of one loop that move together) and from callee summaries (result bounds, cell
// post-conditions, "returns true/false implies ..." facts). Function entry facts are the join over all
// call sites inside the package; functions that can be called from elsewhere start with no facts.
// Every store to recv.chunk (directly or in a callee) drops all upper bounds.
//
// Obligations (decided per site):
//   index   recv.chunk[k]      : 0 <= k < len
//   slice   recv.chunk[a:b]    : 0 <= a, b <= len (or a <= len when b is absent); a <= b is NOT decided
//   advance a call whose argument reaches such an access in the callee (next(n), nextChars(n), ...)
//           is decided at the call site.

const bInf = 1 << 30

type bfact struct{ ub, lb int }

var bTop = bfact{bInf, -bInf}

func (a bfact) meet(b bfact) bfact { // both hold
	if b.ub < a.ub {
		a.ub = b.ub
	}
	if b.lb > a.lb {
		a.lb = b.lb
	}
	return a
}
func (a bfact) join(b bfact) bfact { // one of them holds
	if b.ub > a.ub {
		a.ub = b.ub
	}
	if b.lb < a.lb {
		a.lb = b.lb
	}
	return a
}
func (a bfact) shift(c int) bfact {
	if a.ub < bInf {
		a.ub += c
	}
	if a.lb > -bInf {
		a.lb += c
	}
	return a
}
func (a bfact) String() string {
	u, l := "inf", "-inf"
	if a.ub < bInf {
		u = fmt.Sprintf("len%+d", a.ub)
	}
	if a.lb > -bInf {
		l = fmt.Sprint(a.lb)
	}
	return "[" + l + ".." + u + "]"
}

type relKey struct{ a, cell ssa.Value }

type bstate struct {
	reach bool
	L     int
	val   map[ssa.Value]bfact
	slen  map[ssa.Value]int
	ge    map[ssa.Value]bool
	cur   map[ssa.Value]bool
	cell  map[ssa.Value]bfact
	alias map[ssa.Value]ssa.Value
	eqc   map[ssa.Value]int64 // value == constant (bytes compared with character literals)
	pre   map[ssa.Value]bfact // int parameters: what every call site guarantees (shared, never modified)
	rel   map[relKey]int      // a - *cell <= d  (a: integer SSA value, cell: *int cell)
	cdel  map[ssa.Value]int   // *cell - (its value at function entry) >= d  (parameter cells)
	// cond: what is known when a boolean phi (a flag variable, the result of a short-circuit expression) is
	// true / false: the facts of the incoming edges that can give it that value (snapshots, never modified)
	cond map[*ssa.Phi]*[2]*bstate
	flag map[string]bool // recv.<path> (a bool field) has this value
}

func newBState() *bstate {
	return &bstate{val: map[ssa.Value]bfact{}, slen: map[ssa.Value]int{}, ge: map[ssa.Value]bool{}, cur: map[ssa.Value]bool{},
		cell: map[ssa.Value]bfact{}, alias: map[ssa.Value]ssa.Value{}, eqc: map[ssa.Value]int64{}, flag: map[string]bool{},
		rel: map[relKey]int{}, cdel: map[ssa.Value]int{}}
}

func (s *bstate) clone() *bstate {
	n := newBState()
	n.reach, n.L, n.pre = s.reach, s.L, s.pre
	for k, v := range s.val {
		n.val[k] = v
	}
	for k, v := range s.slen {
		n.slen[k] = v
	}
	for k, v := range s.ge {
		n.ge[k] = v
	}
	for k, v := range s.cur {
		n.cur[k] = v
	}
	for k, v := range s.cell {
		n.cell[k] = v
	}
	for k, v := range s.alias {
		n.alias[k] = v
	}
	for k, v := range s.eqc {
		n.eqc[k] = v
	}
	for k, v := range s.flag {
		n.flag[k] = v
	}
	for k, v := range s.rel {
		n.rel[k] = v
	}
	for k, v := range s.cdel {
		n.cdel[k] = v
	}
	if len(s.cond) > 0 {
		n.cond = make(map[*ssa.Phi]*[2]*bstate, len(s.cond))
		for k, v := range s.cond {
			n.cond[k] = v
		}
	}
	return n
}

// joinB: facts that hold on both paths
func joinB(a, b *bstate) *bstate {
	if !a.reach {
		return b.clone()
	}
	if !b.reach {
		return a.clone()
	}
	r := newBState()
	r.reach = true
	r.pre = a.pre
	r.L = a.L
	if b.L < r.L {
		r.L = b.L
	}
	for k, v := range a.val {
		if w, ok := b.val[k]; ok {
			j := v.join(w)
			if j != bTop {
				r.val[k] = j
			}
		}
	}
	for k, v := range a.slen {
		if w, ok := b.slen[k]; ok {
			if w > v {
				v = w
			}
			r.slen[k] = v
		}
	}
	for k := range a.ge {
		if b.ge[k] {
			r.ge[k] = true
		}
	}
	for k := range a.cur {
		if b.cur[k] {
			r.cur[k] = true
		}
	}
	for k, v := range a.cell {
		if w, ok := b.cell[k]; ok {
			j := v.join(w)
			if j != bTop {
				r.cell[k] = j
			}
		}
	}
	for k, v := range a.alias {
		if b.alias[k] == v {
			r.alias[k] = v
		}
	}
	for k, v := range a.eqc {
		if w, ok := b.eqc[k]; ok && w == v {
			r.eqc[k] = v
		}
	}
	for k, v := range a.flag {
		if w, ok := b.flag[k]; ok && w == v {
			r.flag[k] = v
		}
	}
	// a value that IS the cell on one path (alias) stands in relation 0 to it there
	for k, v := range a.rel {
		w, ok := b.rel[k]
		if !ok && b.alias[k.a] == k.cell {
			w, ok = 0, true
		}
		if ok {
			if w > v {
				v = w
			}
			r.rel[k] = v
		}
	}
	for k, w := range b.rel {
		if _, done := a.rel[k]; done {
			continue
		}
		if a.alias[k.a] == k.cell {
			if w < 0 {
				w = 0
			}
			r.rel[k] = w
		}
	}
	for k, v := range a.cdel {
		if w, ok := b.cdel[k]; ok {
			if w < v {
				v = w
			}
			r.cdel[k] = v
		}
	}
	for p, x := range a.cond {
		y, ok := b.cond[p]
		if !ok {
			continue
		}
		if x == y {
			if r.cond == nil {
				r.cond = map[*ssa.Phi]*[2]*bstate{}
			}
			r.cond[p] = x
			continue
		}
		var m [2]*bstate
		for t := 0; t < 2; t++ {
			switch {
			case x[t] != nil && y[t] != nil:
				m[t] = joinB(x[t], y[t])
			case x[t] != nil:
				m[t] = x[t]
			default:
				m[t] = y[t]
			}
		}
		if r.cond == nil {
			r.cond = map[*ssa.Phi]*[2]*bstate{}
		}
		r.cond[p] = &m
	}
	return r
}

func eqB(a, b *bstate) bool {
	if a.reach != b.reach || a.L != b.L || len(a.val) != len(b.val) || len(a.slen) != len(b.slen) || len(a.ge) != len(b.ge) ||
		len(a.cur) != len(b.cur) || len(a.cell) != len(b.cell) || len(a.alias) != len(b.alias) || len(a.eqc) != len(b.eqc) ||
		len(a.flag) != len(b.flag) {
		return false
	}
	for k, v := range a.eqc {
		if w, ok := b.eqc[k]; !ok || w != v {
			return false
		}
	}
	for k, v := range a.flag {
		if w, ok := b.flag[k]; !ok || w != v {
			return false
		}
	}
	if len(a.rel) != len(b.rel) || len(a.cdel) != len(b.cdel) {
		return false
	}
	for k, v := range a.rel {
		if w, ok := b.rel[k]; !ok || w != v {
			return false
		}
	}
	for k, v := range a.cdel {
		if w, ok := b.cdel[k]; !ok || w != v {
			return false
		}
	}
	for k, v := range a.val {
		if w, ok := b.val[k]; !ok || w != v {
			return false
		}
	}
	for k, v := range a.slen {
		if w, ok := b.slen[k]; !ok || w != v {
			return false
		}
	}
	for k := range a.ge {
		if !b.ge[k] {
			return false
		}
	}
	for k := range a.cur {
		if !b.cur[k] {
			return false
		}
	}
	for k, v := range a.cell {
		if w, ok := b.cell[k]; !ok || w != v {
			return false
		}
	}
	for k, v := range a.alias {
		if b.alias[k] != v {
			return false
		}
	}
	return true
}

// widen: whatever still moves after many visits of a block is given up
func widenB(old, nw *bstate) *bstate {
	r := nw.clone()
	for k, v := range nw.val {
		o, ok := old.val[k]
		if !ok {
			delete(r.val, k)
			continue
		}
		if v.ub != o.ub {
			v.ub = bInf
		}
		if v.lb != o.lb {
			v.lb = -bInf
		}
		r.val[k] = v
	}
	for k, v := range nw.cell {
		o, ok := old.cell[k]
		if !ok {
			delete(r.cell, k)
			continue
		}
		if v.ub != o.ub {
			v.ub = bInf
		}
		if v.lb != o.lb {
			v.lb = -bInf
		}
		r.cell[k] = v
	}
	for k, v := range nw.slen {
		if o, ok := old.slen[k]; !ok || o != v {
			delete(r.slen, k)
		}
	}
	if nw.L != old.L {
		r.L = 0
	}
	for k, v := range nw.rel {
		if o, ok := old.rel[k]; !ok || o != v {
			delete(r.rel, k)
		}
	}
	for k, v := range nw.cdel {
		if o, ok := old.cdel[k]; !ok || o != v {
			delete(r.cdel, k)
		}
	}
	return r
}

// chunkModified: the input string changed: every bound relative to its length is void
func (s *bstate) chunkModified() {
	s.L = 0
	for k, v := range s.val {
		v.ub = bInf
		if v == bTop {
			delete(s.val, k)
		} else {
			s.val[k] = v
		}
	}
	for k, v := range s.cell {
		v.ub = bInf
		s.cell[k] = v
	}
	s.slen = map[ssa.Value]int{}
	s.ge = map[ssa.Value]bool{}
	s.cur = map[ssa.Value]bool{}
	s.cond = nil
}

// ---------------------------------------------------------------------------------------------

type bpre struct {
	set bool
	L   int
	par []bfact // int parameters: value; *int parameters: the cell
	ge  []bool  // string parameters: len(chunk) >= len(param)
}

type bimpl struct {
	set bool
	L   int
	par []bfact
	ge  []bool
}

type bsum struct {
	set    bool
	res    []bfact // per result (int results)
	resStr []int   // per result (string results): slen, bInf unknown
	cell   map[int]bfact
	cdel   map[int]int       // *int parameter j grows by at least cdel[j] (absent: unknown)
	resGe  map[int]int       // int result k is, on every return, the int parameter resGe[k] plus a non-negative constant
	when   [2]map[int]*bimpl // [0]=false, [1]=true; per bool result index
}

type bSite struct {
	fn   *ssa.Function
	ins  ssa.Instruction
	kind string // index | slice | arg
	what string
	ok   bool
	note string
	pos  token.Pos
	// lifted: the operand is a parameter of fn: decided at fn's call sites
	lifted bool
}

// requirement on a parameter of a function, discovered at an access inside it
type bReq struct {
	par   int
	off   int  // operand = param + off
	needU int  // ub(operand) <= needU  (bInf: none)
	needL bool // lb(operand) >= 0
	cell  bool // parameter is *int: requirement on the cell at entry
	why   string
}

type bndEngine struct {
	entryL   int // parameter mode: lower bound of len(seq) guaranteed by the call context (0: none)
	c        *Ctx
	pkgPath  string
	recv     *types.Named
	fns      []*ssa.Function
	inPkg    map[*ssa.Function]bool
	stores   map[*ssa.Function]bool
	mods     map[*ssa.Function]bool
	open     map[*ssa.Function]bool
	pre      map[*ssa.Function]*bpre
	sum      map[*ssa.Function]*bsum
	reqs     map[*ssa.Function][]bReq
	in       map[*ssa.BasicBlock]*bstate
	sites    []bSite
	collect  bool
	changed  bool
	dump     bool
	lockstep map[*ssa.Phi][]bLock
	edgeOut  map[edgeKey]*bstate
	preNext  map[*ssa.Function]*bpre
	final    bool
	rounds   int
	giveUp   []string
	stable   bool
	seq      *ssa.Parameter // parameter mode: the sequence is this string / []byte / []rune parameter of the one function analysed
	noPre    bool
	roots    map[*ssa.Function]map[string]bool
	siteIdx  map[siteKey]int
}

type siteKey struct {
	ins  ssa.Instruction
	kind string
	what string
}

type bLock struct {
	other *ssa.Phi
	d     int // this = other + d
}

func newBndEngine(c *Ctx, pkgPath, typeName string) (*bndEngine, error) {
	sp := c.SSA[pkgPath]
	if sp == nil || sp.Type(typeName) == nil {
		return nil, fmt.Errorf("slot unresolved: %s.%s", pkgPath, typeName)
	}
	named := sp.Type(typeName).Type().(*types.Named)
	st, ok := named.Underlying().(*types.Struct)
	if !ok {
		return nil, fmt.Errorf("slot unresolved: %s.%s is not a struct", pkgPath, typeName)
	}
	has := false
	for i := 0; i < st.NumFields(); i++ {
		if st.Field(i).Name() == "chunk" {
			if b, ok := st.Field(i).Type().Underlying().(*types.Basic); ok && b.Kind() == types.String {
				has = true
			}
		}
	}
	if !has {
		return nil, fmt.Errorf("slot unresolved: %s.%s has no string field chunk", pkgPath, typeName)
	}
	e := &bndEngine{c: c, pkgPath: pkgPath, recv: named, inPkg: map[*ssa.Function]bool{}, stores: map[*ssa.Function]bool{},
		mods: map[*ssa.Function]bool{}, open: map[*ssa.Function]bool{}, pre: map[*ssa.Function]*bpre{}, sum: map[*ssa.Function]*bsum{},
		reqs: map[*ssa.Function][]bReq{}, lockstep: map[*ssa.Phi][]bLock{}, dump: os.Getenv("LH_BND_DUMP") != ""}
	for _, f := range c.ModFns() {
		if f.Pkg != nil && f.Pkg.Pkg.Path() == pkgPath && f.Blocks != nil {
			e.fns = append(e.fns, f)
			e.inPkg[f] = true
		}
	}
	sort.Slice(e.fns, func(i, j int) bool { return e.fns[i].Pos() < e.fns[j].Pos() })
	e.computeMods()
	e.computeRoots()
	e.computeOpen()
	for _, f := range e.fns {
		e.findLockstep(f)
	}
	return e, nil
}

// newBndParamEngine: the same analysis for ONE function and ONE string / []byte / []rune parameter of it: every
// fact is relative to the length of that parameter; callees are opaque
func newBndParamEngine(c *Ctx, f *ssa.Function, p *ssa.Parameter) *bndEngine {
	e := &bndEngine{c: c, inPkg: map[*ssa.Function]bool{f: true}, stores: map[*ssa.Function]bool{},
		mods: map[*ssa.Function]bool{}, open: map[*ssa.Function]bool{f: true}, pre: map[*ssa.Function]*bpre{}, sum: map[*ssa.Function]*bsum{},
		reqs: map[*ssa.Function][]bReq{}, lockstep: map[*ssa.Phi][]bLock{}, roots: map[*ssa.Function]map[string]bool{}, seq: p}
	e.fns = []*ssa.Function{f}
	e.findLockstep(f)
	return e
}

func (e *bndEngine) isChunkAddr(v ssa.Value) bool {
	if e.recv == nil {
		return false
	}
	fa, ok := v.(*ssa.FieldAddr)
	if !ok {
		return false
	}
	return namedOf(fa.X.Type()) == e.recv && fieldName(fa.X.Type(), fa.Field) == "chunk"
}

func (e *bndEngine) isChunkLoad(v ssa.Value) bool {
	u, ok := v.(*ssa.UnOp)
	return ok && u.Op == token.MUL && e.isChunkAddr(u.X)
}

// recvPath: v is the address recv.a.b... of the function's receiver (or of any value of the lexer type)
func (e *bndEngine) recvPath(v ssa.Value) (string, bool) {
	if e.recv == nil {
		return "", false
	}
	path := ""
	for {
		fa, ok := v.(*ssa.FieldAddr)
		if !ok {
			return "", false
		}
		name := fieldName(fa.X.Type(), fa.Field)
		if path == "" {
			path = name
		} else {
			path = name + "." + path
		}
		if namedOf(fa.X.Type()) == e.recv {
			if _, isPar := fa.X.(*ssa.Parameter); isPar {
				return path, true
			}
			return "", false
		}
		v = fa.X
	}
}

func rootOf(path string) string {
	for i := 0; i < len(path); i++ {
		if path[i] == '.' {
			return path[:i]
		}
	}
	return path
}

// computeRoots: the fields of the lexer object a function may store, directly or through any callee
func (e *bndEngine) computeRoots() {
	cg := e.c.VTA()
	e.roots = map[*ssa.Function]map[string]bool{}
	for f := range e.c.allFns {
		if f.Blocks == nil {
			continue
		}
		for _, b := range f.Blocks {
			for _, ins := range b.Instrs {
				st, ok := ins.(*ssa.Store)
				if !ok {
					continue
				}
				v := st.Addr
				for {
					fa, ok := v.(*ssa.FieldAddr)
					if !ok {
						break
					}
					if namedOf(fa.X.Type()) == e.recv {
						if e.roots[f] == nil {
							e.roots[f] = map[string]bool{}
						}
						e.roots[f][fieldName(fa.X.Type(), fa.Field)] = true
						break
					}
					v = fa.X
				}
			}
		}
	}
	for changed := true; changed; {
		changed = false
		for f, n := range cg.Nodes {
			if f == nil {
				continue
			}
			for _, out := range n.Out {
				for r := range e.roots[out.Callee.Func] {
					if !e.roots[f][r] {
						if e.roots[f] == nil {
							e.roots[f] = map[string]bool{}
						}
						e.roots[f][r] = true
						changed = true
					}
				}
			}
		}
	}
}

// calleesOf: the functions a call may enter (static callee, or the call graph's answer for a dynamic call);
// known=false: unresolved
func (e *bndEngine) calleesOf(call ssa.CallInstruction) (out []*ssa.Function, known bool) {
	if _, ok := call.Common().Value.(*ssa.Builtin); ok {
		return nil, true
	}
	if g := call.Common().StaticCallee(); g != nil {
		return []*ssa.Function{g}, true
	}
	n := e.c.VTA().Nodes[call.Parent()]
	if n == nil {
		return nil, false
	}
	for _, ed := range n.Out {
		if ed.Site == call {
			out = append(out, ed.Callee.Func)
		}
	}
	return out, len(out) > 0
}

// modsUnder: may g store recv.chunk when entered with the given bool-field facts? A test of such a field in the
// entry block (before any store or call) is decided by the facts; only the blocks reachable from the taken
// branch count.
func (e *bndEngine) modsUnder(g *ssa.Function, flags map[string]bool) bool {
	if !e.mods[g] {
		return false
	}
	if g.Blocks == nil || len(flags) == 0 {
		return true
	}
	b0 := g.Blocks[0]
	for _, ins := range b0.Instrs {
		switch ins.(type) {
		case *ssa.Store, *ssa.Call, *ssa.Defer, *ssa.Go:
			return true
		}
	}
	iff, ok := b0.Instrs[len(b0.Instrs)-1].(*ssa.If)
	if !ok {
		return true
	}
	cond, neg := iff.Cond, false
	if u, ok := cond.(*ssa.UnOp); ok && u.Op == token.NOT {
		cond, neg = u.X, true
	}
	ld, ok := cond.(*ssa.UnOp)
	if !ok || ld.Op != token.MUL {
		return true
	}
	path, ok := e.recvPath(ld.X)
	if !ok {
		return true
	}
	val, known := flags[path]
	if !known {
		return true
	}
	taken := 0
	if val == neg {
		taken = 1
	}
	seen := map[*ssa.BasicBlock]bool{}
	work := []*ssa.BasicBlock{b0.Succs[taken]}
	for len(work) > 0 {
		b := work[len(work)-1]
		work = work[:len(work)-1]
		if seen[b] {
			continue
		}
		seen[b] = true
		if b == b0 {
			return true
		}
		for _, ins := range b.Instrs {
			switch x := ins.(type) {
			case *ssa.Store:
				if e.isChunkAddr(x.Addr) {
					return true
				}
			case ssa.CallInstruction:
				cs, known := e.calleesOf(x)
				if !known {
					return true
				}
				for _, h := range cs {
					if e.mods[h] {
						return true
					}
				}
			}
		}
		work = append(work, b.Succs...)
	}
	return false
}

// computeMods: functions that may store recv.chunk, directly or through any callee (VTA call graph)
func (e *bndEngine) computeMods() {
	cg := e.c.VTA()
	direct := map[*ssa.Function]bool{}
	for f := range e.c.allFns {
		if f.Blocks == nil {
			continue
		}
		for _, b := range f.Blocks {
			for _, ins := range b.Instrs {
				if st, ok := ins.(*ssa.Store); ok && e.isChunkAddr(st.Addr) {
					direct[f] = true
				}
			}
		}
	}
	for f := range direct {
		e.stores[f] = true
		e.mods[f] = true
	}
	for changed := true; changed; {
		changed = false
		for f, n := range cg.Nodes {
			if f == nil || e.mods[f] {
				continue
			}
			for _, out := range n.Out {
				if e.mods[out.Callee.Func] {
					e.mods[f] = true
					changed = true
					break
				}
			}
		}
	}
}

// computeOpen: functions that can be entered from outside the package (exported, used as a value, or
// called from another package): they start without facts
func (e *bndEngine) computeOpen() {
	for _, f := range e.fns {
		if f.Parent() != nil {
			e.open[f] = true
			continue
		}
		if o := f.Object(); o != nil && o.Exported() {
			e.open[f] = true
		}
		if f.Name() == "init" {
			e.open[f] = true
		}
	}
	for f := range e.c.allFns {
		if f.Blocks == nil {
			continue
		}
		for _, b := range f.Blocks {
			for _, ins := range b.Instrs {
				var ops [16]*ssa.Value
				for _, op := range ins.Operands(ops[:0]) {
					g, ok := (*op).(*ssa.Function)
					if !ok || !e.inPkg[g] {
						continue
					}
					if call, ok := ins.(ssa.CallInstruction); ok && call.Common().StaticCallee() == g && call.Common().Value == *op {
						if !e.inPkg[f] {
							e.open[g] = true
						}
						if _, isCall := ins.(*ssa.Call); !isCall {
							e.open[g] = true // go / defer
						}
						continue
					}
					e.open[g] = true
				}
			}
		}
	}
}

// findLockstep: two phis of one loop header whose incoming values are pairwise (const, const) with one
// difference d, or (self+a, self+a): this = other + d is a loop invariant
func (e *bndEngine) findLockstep(f *ssa.Function) {
	for _, b := range f.Blocks {
		var phis []*ssa.Phi
		for _, ins := range b.Instrs {
			if p, ok := ins.(*ssa.Phi); ok && isIntType(p.Type()) {
				phis = append(phis, p)
			}
		}
		for _, p := range phis {
			for _, q := range phis {
				if p == q {
					continue
				}
				d, have, ok := 0, false, true
				for i := range p.Edges {
					pc, pok := constIntOf(p.Edges[i])
					qc, qok := constIntOf(q.Edges[i])
					if pok && qok {
						if have && pc-qc != d {
							ok = false
						}
						d, have = pc-qc, true
						continue
					}
					pa, pok := selfPlus(p.Edges[i], p)
					qa, qok := selfPlus(q.Edges[i], q)
					if pok && qok && pa == qa {
						continue
					}
					ok = false
				}
				if ok && have {
					e.lockstep[p] = append(e.lockstep[p], bLock{other: q, d: d})
				}
			}
		}
	}
}

func constIntOf(v ssa.Value) (int, bool) {
	c, ok := v.(*ssa.Const)
	if !ok || c.Value == nil || c.Value.Kind() != constant.Int {
		return 0, false
	}
	n, ok := constant.Int64Val(c.Value)
	if !ok || n > 1<<20 || n < -(1<<20) {
		return 0, false
	}
	return int(n), true
}

// selfPlus: v == phi + a (a constant), or v == phi
func selfPlus(v ssa.Value, phi *ssa.Phi) (int, bool) {
	if v == ssa.Value(phi) {
		return 0, true
	}
	b, ok := v.(*ssa.BinOp)
	if !ok {
		return 0, false
	}
	if b.Op == token.ADD {
		if b.X == ssa.Value(phi) {
			if c, ok := constIntOf(b.Y); ok {
				return c, true
			}
		}
		if b.Y == ssa.Value(phi) {
			if c, ok := constIntOf(b.X); ok {
				return c, true
			}
		}
	}
	if b.Op == token.SUB && b.X == ssa.Value(phi) {
		if c, ok := constIntOf(b.Y); ok {
			return -c, true
		}
	}
	return 0, false
}

func isIntPtr(t types.Type) bool {
	p, ok := types.Unalias(t).Underlying().(*types.Pointer)
	return ok && isIntType(p.Elem())
}

// isCell: an address-taken local integer or an *int parameter (never a struct field: two FieldAddr values
// may name the same memory)
func isCell(v ssa.Value) bool {
	switch v.(type) {
	case *ssa.Alloc, *ssa.Parameter:
		return isIntPtr(v.Type())
	}
	return false
}

// isByteSeqType: string or []byte
func isByteSeqType(t types.Type) bool {
	if isStringType(t) {
		return true
	}
	if sl, ok := types.Unalias(t).Underlying().(*types.Slice); ok {
		if b, ok := sl.Elem().Underlying().(*types.Basic); ok && b.Kind() == types.Uint8 {
			return true
		}
	}
	return false
}

// isSeqType: string, []byte or []rune
func isSeqType(t types.Type) bool {
	if isByteSeqType(t) {
		return true
	}
	if sl, ok := types.Unalias(t).Underlying().(*types.Slice); ok {
		if b, ok := sl.Elem().Underlying().(*types.Basic); ok && b.Kind() == types.Int32 {
			return true
		}
	}
	return false
}

func isStringType(t types.Type) bool {
	b, ok := types.Unalias(t).Underlying().(*types.Basic)
	return ok && b.Info()&types.IsString != 0
}

func isBoolType(t types.Type) bool {
	b, ok := types.Unalias(t).Underlying().(*types.Basic)
	return ok && b.Info()&types.IsBoolean != 0
}

func isLenCall(v ssa.Value) (ssa.Value, bool) {
	c, ok := v.(*ssa.Call)
	if !ok {
		return nil, false
	}
	b, ok := c.Call.Value.(*ssa.Builtin)
	if !ok || b.Name() != "len" || len(c.Call.Args) != 1 {
		return nil, false
	}
	return c.Call.Args[0], true
}

func stdCallee(v ssa.Value, pkg, name string) (*ssa.Call, bool) {
	c, ok := v.(*ssa.Call)
	if !ok {
		return nil, false
	}
	f := c.Call.StaticCallee()
	if f == nil || f.Pkg == nil || f.Pkg.Pkg.Path() != pkg || f.Name() != name {
		return nil, false
	}
	return c, true
}

// ---------------------------------------------------------------------------------------------
// evaluation

func (e *bndEngine) slenOf(v ssa.Value, st *bstate, depth int) int {
	if depth > 6 {
		return bInf
	}
	best := bInf
	if st.cur[v] {
		best = 0
	}
	if st.ge[v] && best > 0 {
		best = 0
	}
	if x, ok := st.slen[v]; ok && x < best {
		best = x
	}
	switch x := v.(type) {
	case *ssa.Const:
		if x.Value != nil && x.Value.Kind() == constant.String {
			if n := len(constant.StringVal(x.Value)) - st.L; n < best {
				best = n
			}
		}
	case *ssa.Slice:
		if st.cur[x.X] {
			hi := 0
			if x.High != nil {
				hi = e.eval(x.High, st, depth+1).ub
			}
			if hi < bInf {
				if x.Low != nil {
					if lo := e.eval(x.Low, st, depth+1).lb; lo > 0 {
						hi -= lo
					}
				}
				if hi < best {
					best = hi
				}
			}
		} else if isStringType(x.X.Type()) {
			// a part of a string is not longer than the string
			if n := e.slenOf(x.X, st, depth+1); n < best {
				best = n
			}
		}
	case *ssa.Call:
		if c, ok := stdCallee(v, "strings", "Replace"); ok && len(c.Call.Args) == 4 {
			o, ok1 := c.Call.Args[1].(*ssa.Const)
			n, ok2 := c.Call.Args[2].(*ssa.Const)
			if ok1 && ok2 && o.Value != nil && n.Value != nil && o.Value.Kind() == constant.String && n.Value.Kind() == constant.String &&
				len(constant.StringVal(n.Value)) <= len(constant.StringVal(o.Value)) {
				if k := e.slenOf(c.Call.Args[0], st, depth+1); k < best {
					best = k
				}
			}
		}
	case *ssa.Phi:
		worst := -bInf
		for _, ed := range x.Edges {
			k := e.slenOf(ed, st, depth+3)
			if k > worst {
				worst = k
			}
		}
		if worst > -bInf && worst < best {
			best = worst
		}
	}
	return best
}

func (e *bndEngine) eval(v ssa.Value, st *bstate, depth int) bfact {
	f := bTop
	if depth > 8 {
		return f
	}
	if x, ok := st.val[v]; ok {
		f = f.meet(x)
	}
	if !e.noPre {
		if x, ok := st.pre[v]; ok {
			f = f.meet(x)
		}
	}
	if p, ok := st.alias[v]; ok {
		if cf, ok := st.cell[p]; ok {
			f = f.meet(cf)
		}
	}
	switch x := v.(type) {
	case *ssa.Const:
		if k, ok := constIntOf(x); ok {
			f = f.meet(bfact{k - st.L, k})
		}
	case *ssa.BinOp:
		switch x.Op {
		case token.ADD:
			if c, ok := constIntOf(x.Y); ok {
				f = f.meet(e.eval(x.X, st, depth+1).shift(c))
			} else if c, ok := constIntOf(x.X); ok {
				f = f.meet(e.eval(x.Y, st, depth+1).shift(c))
			} else {
				a, b := e.eval(x.X, st, depth+1), e.eval(x.Y, st, depth+1)
				if a.lb > -bInf && b.lb > -bInf {
					f = f.meet(bfact{bInf, a.lb + b.lb})
				}
				// strings.Index(chunk, t) + len(t): a found occurrence ends inside the input
				for _, pr := range [][2]ssa.Value{{x.X, x.Y}, {x.Y, x.X}} {
					ic, ok := stdCallee(pr[0], "strings", "Index")
					if !ok || !st.cur[ic.Call.Args[0]] {
						continue
					}
					if s, ok := isLenCall(pr[1]); ok && s == ic.Call.Args[1] && e.eval(pr[0], st, depth+1).lb >= 0 {
						f = f.meet(bfact{0, 0})
					}
				}
			}
		case token.SUB:
			if c, ok := constIntOf(x.Y); ok {
				f = f.meet(e.eval(x.X, st, depth+1).shift(-c))
			}
		}
	case *ssa.Call:
		if s, ok := isLenCall(v); ok && isSeqType(s.Type()) {
			g := bfact{bInf, 0}
			if st.cur[s] {
				g = bfact{0, st.L}
			} else if n := e.slenOf(s, st, depth+1); n < bInf {
				g.ub = n
			}
			f = f.meet(g)
		}
		if ic, ok := stdCallee(v, "strings", "Index"); ok {
			g := bfact{bInf, -1}
			if st.cur[ic.Call.Args[0]] {
				g.ub = 0
			}
			f = f.meet(g)
		}
	case *ssa.Convert:
		if isIntType(x.X.Type()) && isIntType(x.Type()) {
			f = f.meet(e.eval(x.X, st, depth+1))
		}
	case *ssa.ChangeType:
		f = f.meet(e.eval(x.X, st, depth+1))
	case *ssa.Phi:
		for _, lk := range e.lockstep[x] {
			if g, ok := st.val[lk.other]; ok {
				f = f.meet(g.shift(lk.d))
			}
		}
	}
	return f
}

// refine: v satisfies g from here on
func (e *bndEngine) refine(v ssa.Value, g bfact, st *bstate, depth int) {
	if depth > 6 || g == bTop {
		return
	}
	if _, isConst := v.(*ssa.Const); isConst {
		return
	}
	old, ok := st.val[v]
	if !ok {
		old = bTop
	}
	st.val[v] = old.meet(g)
	if p, ok := st.alias[v]; ok {
		c, ok := st.cell[p]
		if !ok {
			c = bTop
		}
		st.cell[p] = c.meet(g)
	}
	switch x := v.(type) {
	case *ssa.BinOp:
		switch x.Op {
		case token.ADD:
			if c, ok := constIntOf(x.Y); ok {
				e.refine(x.X, g.shift(-c), st, depth+1)
			} else if c, ok := constIntOf(x.X); ok {
				e.refine(x.Y, g.shift(-c), st, depth+1)
			}
		case token.SUB:
			if c, ok := constIntOf(x.Y); ok {
				e.refine(x.X, g.shift(c), st, depth+1)
			}
		}
	case *ssa.Call:
		if s, ok := isLenCall(v); ok && st.cur[s] && g.lb > st.L {
			st.L = g.lb
		}
	case *ssa.Convert:
		if isIntType(x.X.Type()) && isIntType(x.Type()) {
			e.refine(x.X, g, st, depth+1)
		}
	case *ssa.Phi:
		for _, lk := range e.lockstep[x] {
			o, ok := st.val[lk.other]
			if !ok {
				o = bTop
			}
			st.val[lk.other] = o.meet(g.shift(-lk.d))
		}
	}
}

// applyCondWith: applyCond on a snapshot that has no cond map of its own
func (e *bndEngine) applyCondWith(cond ssa.Value, truth bool, st *bstate, conds map[*ssa.Phi]*[2]*bstate) {
	st.cond = conds
	e.applyCond(cond, truth, st, 0)
	st.cond = nil
}

// applyCond: cond has the given truth value
func (e *bndEngine) applyCond(cond ssa.Value, truth bool, st *bstate, depth int) {
	if depth > 4 {
		return
	}
	switch x := cond.(type) {
	case *ssa.UnOp:
		if x.Op == token.NOT {
			e.applyCond(x.X, !truth, st, depth+1)
		}
		if x.Op == token.MUL {
			if path, ok := e.recvPath(x.X); ok {
				if old, known := st.flag[path]; known && old != truth {
					st.reach = false
				}
				st.flag[path] = truth
			}
		}
	case *ssa.BinOp:
		if !isIntType(x.X.Type()) {
			return
		}
		if x.Op == token.EQL || x.Op == token.NEQ {
			eq := (x.Op == token.EQL) == truth
			for _, pr := range [][2]ssa.Value{{x.X, x.Y}, {x.Y, x.X}} {
				k, ok := pr[1].(*ssa.Const)
				if !ok || k.Value == nil || k.Value.Kind() != constant.Int {
					continue
				}
				kv, _ := constant.Int64Val(k.Value)
				if _, isC := pr[0].(*ssa.Const); isC {
					continue
				}
				old, known := st.eqc[pr[0]]
				if eq {
					if known && old != kv {
						st.reach = false
					}
					st.eqc[pr[0]] = kv
				} else if known && old == kv {
					st.reach = false
				}
			}
		}
		op := x.Op
		if !truth {
			switch op {
			case token.LSS:
				op = token.GEQ
			case token.LEQ:
				op = token.GTR
			case token.GTR:
				op = token.LEQ
			case token.GEQ:
				op = token.LSS
			case token.EQL:
				op = token.NEQ
			case token.NEQ:
				op = token.EQL
			default:
				return
			}
		}
		a, b := x.X, x.Y
		switch op {
		case token.GTR:
			a, b, op = b, a, token.LSS
		case token.GEQ:
			a, b, op = b, a, token.LEQ
		}
		fa, fb := e.eval(a, st, 0), e.eval(b, st, 0)
		le := func(a, b ssa.Value, fa, fb bfact, strict int) { // a + strict <= b
			if fb.ub < bInf {
				e.refine(a, bfact{fb.ub - strict, -bInf}, st, 0)
			}
			if fa.lb > -bInf {
				e.refine(b, bfact{bInf, fa.lb + strict}, st, 0)
			}
			// len(s) <= len(chunk)
			if sa, ok := isLenCall(a); ok && strict == 0 {
				if sb, ok := isLenCall(b); ok && st.cur[sb] && isStringType(sa.Type()) {
					st.ge[sa] = true
				}
			}
		}
		switch op {
		case token.LSS:
			le(a, b, fa, fb, 1)
		case token.LEQ:
			le(a, b, fa, fb, 0)
		case token.EQL:
			le(a, b, fa, fb, 0)
			le(b, a, fb, fa, 0)
		case token.NEQ:
			// len(chunk) != k with len(chunk) >= k
			for _, pr := range [][2]ssa.Value{{a, b}, {b, a}} {
				if s, ok := isLenCall(pr[0]); ok && st.cur[s] {
					if k, ok := constIntOf(pr[1]); ok && st.L == k {
						st.L = k + 1
					}
				}
			}
		}
	case *ssa.Call:
		if c, ok := stdCallee(cond, "strings", "HasPrefix"); ok && truth && st.cur[c.Call.Args[0]] {
			e.geString(c.Call.Args[1], st)
			return
		}
		e.applyImpl(x, 0, truth, st)
	case *ssa.Extract:
		if call, ok := x.Tuple.(*ssa.Call); ok {
			e.applyImpl(call, x.Index, truth, st)
		}
	case *ssa.Phi:
		c, ok := st.cond[x]
		if !ok {
			return
		}
		t := 0
		if truth {
			t = 1
		}
		snap := c[t]
		if snap == nil {
			if c[1-t] != nil {
				st.reach = false // no incoming edge can give the flag this value
			}
			return
		}
		// only facts about values that cannot have been redefined since the flag was computed
		stable := func(v ssa.Value) bool {
			switch y := v.(type) {
			case *ssa.Parameter, *ssa.Const:
				return true
			case *ssa.Phi:
				return y.Block() == x.Block() || y.Block().Dominates(x.Block())
			case ssa.Instruction:
				return y.Block() != x.Block() && y.Block().Dominates(x.Block())
			}
			return false
		}
		if snap.L > st.L {
			st.L = snap.L
		}
		for v, f := range snap.val {
			if stable(v) {
				e.refine(v, f, st, 0)
			}
		}
		for v := range snap.ge {
			if stable(v) {
				st.ge[v] = true
			}
		}
		for v, k := range snap.eqc {
			if !stable(v) {
				continue
			}
			if old, known := st.eqc[v]; known && old != k {
				st.reach = false
			}
			st.eqc[v] = k
		}
		for k, v := range snap.flag {
			if old, known := st.flag[k]; known && old == v {
				continue
			}
			_ = v // bool-field facts may have been voided by a store since: not imported
		}
	}
}

func (e *bndEngine) geString(s ssa.Value, st *bstate) {
	if c, ok := s.(*ssa.Const); ok && c.Value != nil && c.Value.Kind() == constant.String {
		if n := len(constant.StringVal(c.Value)); n > st.L {
			st.L = n
		}
		return
	}
	st.ge[s] = true
}

func (e *bndEngine) applyImpl(call *ssa.Call, idx int, truth bool, st *bstate) {
	g := call.Call.StaticCallee()
	if g == nil || !e.inPkg[g] {
		return
	}
	s := e.sum[g]
	if s == nil || !s.set {
		return
	}
	t := 0
	if truth {
		t = 1
	}
	im := s.when[t][idx]
	if im == nil || !im.set {
		return
	}
	if im.L > st.L {
		st.L = im.L
	}
	for j, arg := range call.Call.Args {
		if j >= len(im.par) {
			break
		}
		if isIntType(arg.Type()) {
			e.refine(arg, im.par[j], st, 0)
		} else if isStringType(arg.Type()) && im.ge[j] {
			e.geString(arg, st)
		}
	}
}

// plusConst: v = base + c (c constant, possibly 0)
func plusConst(v ssa.Value) (ssa.Value, int) {
	base, off := v, 0
	for {
		b, ok := base.(*ssa.BinOp)
		if !ok {
			return base, off
		}
		if c, isC := constIntOf(b.Y); isC && b.Op == token.ADD {
			base, off = b.X, off+c
		} else if c, isC := constIntOf(b.Y); isC && b.Op == token.SUB {
			base, off = b.X, off-c
		} else if c, isC := constIntOf(b.X); isC && b.Op == token.ADD {
			base, off = b.Y, off+c
		} else {
			return base, off
		}
	}
}

// cellMoved: *cell grew by at least d (known), or changed arbitrarily (!known). Values that were equal to the
// cell (its aliases) are now d below it.
func (e *bndEngine) cellMoved(cell ssa.Value, d int, known bool, st *bstate) {
	if !known {
		for k := range st.rel {
			if k.cell == cell {
				delete(st.rel, k)
			}
		}
		delete(st.cdel, cell)
		return
	}
	for k, v := range st.rel {
		if k.cell == cell {
			st.rel[k] = v - d
		}
	}
	for a, p := range st.alias {
		if p != cell {
			continue
		}
		if _, isC := a.(*ssa.Const); isC {
			continue
		}
		k := relKey{a, cell}
		if v, ok := st.rel[k]; !ok || -d < v {
			st.rel[k] = -d
		}
	}
	if v, ok := st.cdel[cell]; ok {
		st.cdel[cell] = v + d
	}
}

// relOf: the best known d with a - *cell <= d (bInf: none)
func (e *bndEngine) relOf(a, cell ssa.Value, st *bstate, depth int) int {
	best := bInf
	if depth > 6 {
		return best
	}
	if d, ok := st.rel[relKey{a, cell}]; ok {
		best = d
	}
	if st.alias[a] == cell && best > 0 {
		best = 0
	}
	if base, c := plusConst(a); base != a {
		if d := e.relOf(base, cell, st, depth+1); d < bInf && d+c < best {
			best = d + c
		}
	}
	if k, ok := constIntOf(a); ok {
		if cf, ok := st.cell[cell]; ok && cf.lb > -bInf && k-cf.lb < best {
			best = k - cf.lb
		}
	}
	return best
}

// needOrder: the two bounds of chunk[a:b] are in order
func (e *bndEngine) needOrder(f *ssa.Function, ins ssa.Instruction, low, high ssa.Value, st *bstate) {
	lo, hi := e.eval(low, st, 0), e.eval(high, st, 0)
	ok, why := false, ""
	if low == high {
		ok, why = true, "same value"
	}
	if k, isC := constIntOf(low); !ok && isC && hi.lb >= k {
		ok, why = true, fmt.Sprintf("a = %d <= lower bound %d of b", k, hi.lb)
	}
	if s, isLen := isLenCall(high); !ok && isLen && st.cur[s] && lo.ub <= 0 {
		ok, why = true, "a <= len(chunk) = b"
	}
	if !ok {
		base, c := plusConst(high)
		if cell, isAl := st.alias[base]; isAl {
			if d := e.relOf(low, cell, st, 0); d <= c {
				ok, why = true, fmt.Sprintf("a - *cell <= %d, b = *cell%+d", d, c)
			} else {
				why = fmt.Sprintf("a - *cell <= %s needed <= %d", relStr(d), c)
			}
		}
	}
	if !ok && why == "" {
		why = fmt.Sprintf("a = %s, b = %s: no relation between them is known", lo, hi)
	}
	e.record(bSite{fn: f, ins: ins, kind: "order", what: "chunk[a:b] a<=b", ok: ok, note: why, pos: ins.Pos()})
}

func relStr(d int) string {
	if d >= bInf {
		return "unknown"
	}
	return fmt.Sprint(d)
}

// ---------------------------------------------------------------------------------------------
// transfer

func (e *bndEngine) entryState(f *ssa.Function) *bstate {
	st := newBState()
	st.reach = true
	for _, par := range f.Params {
		if isIntPtr(par.Type()) {
			st.cdel[par] = 0
		}
	}
	if e.seq != nil {
		st.cur[e.seq] = true
		if e.entryL > 0 {
			st.L = e.entryL // parameter mode for one call context: the sequence is at least this long
		}
	}
	if e.open[f] {
		return st
	}
	p := e.pre[f]
	if p == nil || !p.set {
		st.reach = false
		return st
	}
	st.L = p.L
	for j, par := range f.Params {
		if j >= len(p.par) {
			break
		}
		switch {
		case isIntType(par.Type()):
			if p.par[j] != bTop {
				if st.pre == nil {
					st.pre = map[ssa.Value]bfact{}
				}
				st.pre[par] = p.par[j]
			}
		case isIntPtr(par.Type()):
			st.cell[par] = p.par[j]
		case isStringType(par.Type()):
			if p.ge[j] {
				st.ge[par] = true
			}
		}
	}
	return st
}

func (e *bndEngine) record(s bSite) {
	if !e.collect {
		return
	}
	k := siteKey{s.ins, s.kind, s.what}
	if i, ok := e.siteIdx[k]; ok {
		// the same site on another path: it must hold on every path
		if e.sites[i].ok && !s.ok {
			e.sites[i].ok, e.sites[i].note = false, s.note
		}
		return
	}
	e.siteIdx[k] = len(e.sites)
	e.sites = append(e.sites, s)
}

// need: operand v must satisfy ub <= needU (bInf: none) and lb >= 0 (needL)
func (e *bndEngine) need(f *ssa.Function, ins ssa.Instruction, kind, what string, v ssa.Value, needU int, needL bool, st *bstate) {
	holds := func(g bfact) bool { return (needU >= bInf || g.ub <= needU) && (!needL || g.lb >= 0) }
	// first without what the call sites guarantee about integer parameters: a function that guards its own access
	// needs nothing from its callers
	e.noPre = true
	g := e.eval(v, st, 0)
	e.noPre = false
	if holds(g) {
		e.record(bSite{fn: f, ins: ins, kind: kind, what: what, ok: true, pos: ins.Pos(),
			note: fmt.Sprintf("operand %s = %s, input length >= %d", v.Name(), g, st.L)})
		return
	}
	// only the part that does not hold locally is asked of the callers
	reqU, reqL := needU, needL
	if needU < bInf && g.ub <= needU {
		reqU = bInf
	}
	if needL && g.lb >= 0 {
		reqL = false
	}
	g = e.eval(v, st, 0)
	ok := holds(g)
	// operand = parameter (+ constant) of a function that is only called inside the package: decided at the call sites
	base, off := v, 0
	for {
		if b, isB := base.(*ssa.BinOp); isB {
			if c, isC := constIntOf(b.Y); isC && (b.Op == token.ADD || b.Op == token.SUB) {
				if b.Op == token.SUB {
					c = -c
				}
				base, off = b.X, off+c
				continue
			}
		}
		break
	}
	lifted := false
	if !e.open[f] {
		if par, isPar := base.(*ssa.Parameter); isPar && isIntType(par.Type()) {
			e.addReq(f, bReq{par: bParamIndex(f, par), off: off, needU: reqU, needL: reqL, why: what})
			lifted = true
		} else if ld, isLd := base.(*ssa.UnOp); isLd && ld.Op == token.MUL {
			if par, isPar := ld.X.(*ssa.Parameter); isPar && isIntPtr(par.Type()) && firstCellUse(f, par, ld) {
				e.addReq(f, bReq{par: bParamIndex(f, par), off: off, needU: reqU, needL: reqL, cell: true, why: what})
				lifted = true
			}
		}
	}
	note := fmt.Sprintf("operand %s = %s, input length >= %d", v.Name(), g, st.L)
	e.record(bSite{fn: f, ins: ins, kind: kind, what: what, ok: ok, note: note, pos: ins.Pos(), lifted: lifted})
}

func bParamIndex(f *ssa.Function, p *ssa.Parameter) int {
	for i, q := range f.Params {
		if q == p {
			return i
		}
	}
	return -1
}

// firstCellUse: ld reads *par in the entry block before any store to *par and before any call
func firstCellUse(f *ssa.Function, par *ssa.Parameter, ld *ssa.UnOp) bool {
	if len(f.Blocks) == 0 || ld.Block() != f.Blocks[0] {
		return false
	}
	for _, ins := range f.Blocks[0].Instrs {
		if ins == ssa.Instruction(ld) {
			return true
		}
		switch x := ins.(type) {
		case *ssa.Store:
			if x.Addr == ssa.Value(par) {
				return false
			}
		case *ssa.Call:
			if _, isB := x.Call.Value.(*ssa.Builtin); !isB {
				return false
			}
		}
	}
	return false
}

func (e *bndEngine) addReq(f *ssa.Function, r bReq) {
	for _, o := range e.reqs[f] {
		if o == r {
			return
		}
	}
	e.reqs[f] = append(e.reqs[f], r)
	e.changed = true
}

func (e *bndEngine) transfer(f *ssa.Function, b *ssa.BasicBlock, st *bstate, post bool) {
	for _, ins := range b.Instrs {
		if v, ok := ins.(ssa.Value); ok {
			if _, isPhi := ins.(*ssa.Phi); !isPhi {
				// a value is defined anew on every execution: what was known about its previous incarnation is void
				delete(st.val, v)
				delete(st.slen, v)
				delete(st.ge, v)
				delete(st.alias, v)
				delete(st.cur, v)
				delete(st.eqc, v)
				for k := range st.rel {
					if k.a == v || k.cell == v {
						delete(st.rel, k)
					}
				}
				if _, isAlloc := ins.(*ssa.Alloc); isAlloc {
					delete(st.cell, v)
					for k, p := range st.alias {
						if p == v {
							delete(st.alias, k)
						}
					}
				}
			}
		}
		switch x := ins.(type) {
		case *ssa.Extract:
			if call, ok := x.Tuple.(*ssa.Call); ok {
				if g := call.Call.StaticCallee(); g != nil && e.inPkg[g] {
					if s := e.sum[g]; s != nil && s.set && x.Index < len(s.res) {
						if isIntType(x.Type()) && s.res[x.Index] != bTop {
							st.val[x] = s.res[x.Index]
						}
						if j, ok := s.resGe[x.Index]; ok && isIntType(x.Type()) && j < len(call.Call.Args) {
							// result >= argument j: the argument's lower bound carries over
							af := e.eval(call.Call.Args[j], st, 0)
							if af.lb > -bInf {
								cur, has := st.val[x]
								if !has {
									cur = bTop
								}
								if af.lb > cur.lb {
									cur.lb = af.lb
								}
								st.val[x] = cur
							}
						}
						if isStringType(x.Type()) && s.resStr[x.Index] < bInf {
							st.slen[x] = s.resStr[x.Index]
						}
					}
				}
				// a plain scanner function that is handed the whole input (text, n := scanShortString(l.chunk)): its int
				// results are bounded relative to the length of that parameter — the parameter-mode summary under the
				// length this call site guarantees, the parameter's length being the length of the input here
				if g := call.Call.StaticCallee(); g != nil && g.Blocks != nil && g.Signature.Recv() == nil && e.seq == nil && isIntType(x.Type()) {
					for j, a := range call.Call.Args {
						if j < len(g.Params) && st.cur[a] && isByteSeqType(g.Params[j].Type()) {
							if rs := e.paramResult(g, g.Params[j], x.Index, st.L); rs != bTop {
								cur, has := st.val[x]
								if !has {
									cur = bTop
								}
								st.val[x] = cur.meet(rs)
							}
						}
					}
				}
			}
		case *ssa.UnOp:
			if x.Op != token.MUL {
				continue
			}
			if e.isChunkAddr(x.X) {
				st.cur[x] = true
				continue
			}
			if isCell(x.X) {
				if cf, ok := st.cell[x.X]; ok && cf != bTop {
					st.val[x] = cf
				} else {
					delete(st.val, x)
				}
				st.alias[x] = x.X
			}
		case *ssa.Store:
			if e.isChunkAddr(x.Addr) {
				st.chunkModified()
				continue
			}
			if path, ok := e.recvPath(x.Addr); ok {
				r := rootOf(path)
				for k := range st.flag {
					if rootOf(k) == r {
						delete(st.flag, k)
					}
				}
			}
			if isCell(x.Addr) {
				nf := e.eval(x.Val, st, 0)
				// *cell = (old *cell) + c moves every relation to the cell by c; any other store voids them
				grew, by := false, 0
				if base, c := plusConst(x.Val); st.alias[base] == x.Addr {
					grew, by = true, c
				} else if ex, ok := x.Val.(*ssa.Extract); ok {
					// *cell = offset returned by a callee that returns at least the offset it was given, called with the
					// old *cell (+ c): afterEOL, ok := l.consumeEOL(*i); *i = afterEOL
					if call, ok := ex.Tuple.(*ssa.Call); ok {
						if g := call.Call.StaticCallee(); g != nil && e.inPkg[g] {
							if sm := e.sum[g]; sm != nil && sm.set {
								if j, ok := sm.resGe[ex.Index]; ok && j < len(call.Call.Args) {
									if base, c := plusConst(call.Call.Args[j]); st.alias[base] == x.Addr && c >= 0 {
										grew, by = true, c
									}
								}
							}
						}
					}
				}
				if grew {
					e.cellMoved(x.Addr, by, true, st)
				} else {
					e.cellMoved(x.Addr, 0, false, st)
				}
				for k, p := range st.alias {
					if p == x.Addr {
						delete(st.alias, k)
					}
				}
				st.cell[x.Addr] = nf
				if _, isConst := x.Val.(*ssa.Const); !isConst {
					st.alias[x.Val] = x.Addr
				}
			}
		case *ssa.Convert:
			// string(b) / []byte(s): another sequence of the same length
			if st.cur[x.X] && isByteSeqType(x.X.Type()) && isByteSeqType(x.Type()) {
				st.cur[x] = true
			}
		case *ssa.IndexAddr:
			if st.cur[x.X] {
				e.need(f, ins, "index", "chunk[k]", x.Index, -1, true, st)
				e.refine(x.Index, bfact{-1, 0}, st, 0)
			}
		case *ssa.Index:
			if !isSeqType(x.X.Type()) {
				continue
			}
			if st.cur[x.X] {
				e.need(f, ins, "index", "chunk[k]", x.Index, -1, true, st)
				e.refine(x.Index, bfact{-1, 0}, st, 0)
			} else if e.isChunkLoad(x.X) {
				e.record(bSite{fn: f, ins: ins, kind: "index", what: "chunk[k]", ok: false, note: "the indexed string is an earlier content of the input (the input was modified since it was read)", pos: ins.Pos()})
			}
		case *ssa.Slice:
			if !isSeqType(x.X.Type()) {
				continue
			}
			if st.cur[x.X] {
				if x.High != nil {
					e.need(f, ins, "slice", "chunk[:b]", x.High, 0, true, st)
					e.refine(x.High, bfact{0, 0}, st, 0)
					if x.Low != nil {
						e.need(f, ins, "slice", "chunk[a:]", x.Low, bInf, true, st)
						e.refine(x.Low, bfact{bInf, 0}, st, 0)
						e.needOrder(f, ins, x.Low, x.High, st)
					}
				} else if x.Low != nil {
					e.need(f, ins, "slice", "chunk[a:]", x.Low, 0, true, st)
					e.refine(x.Low, bfact{0, 0}, st, 0)
				}
			} else if e.isChunkLoad(x.X) {
				e.record(bSite{fn: f, ins: ins, kind: "slice", what: "chunk[a:b]", ok: false, note: "the sliced string is an earlier content of the input (the input was modified since it was read)", pos: ins.Pos()})
			}
		case *ssa.Call:
			e.transferCall(f, x, st, post)
		case *ssa.Defer, *ssa.Go:
			if e.seq == nil {
				st.chunkModified()
			}
		}
	}
}

func (e *bndEngine) mayModify(call *ssa.Call) bool {
	if _, ok := call.Call.Value.(*ssa.Builtin); ok {
		return false
	}
	if e.seq != nil {
		return false // the length of a string / of a slice value passed by value cannot be changed by a callee
	}
	if g := call.Call.StaticCallee(); g != nil {
		return e.mods[g]
	}
	n := e.c.VTA().Nodes[call.Parent()]
	if n == nil {
		return true
	}
	found := false
	for _, out := range n.Out {
		if out.Site == ssa.CallInstruction(call) {
			found = true
			if e.mods[out.Callee.Func] {
				return true
			}
		}
	}
	return !found // a dynamic call the call graph cannot resolve may do anything
}

func (e *bndEngine) transferCall(f *ssa.Function, call *ssa.Call, st *bstate, post bool) {
	if _, ok := call.Call.Value.(*ssa.Builtin); ok {
		return
	}
	g := call.Call.StaticCallee()
	args := call.Call.Args
	if g != nil && e.inPkg[g] {
		if post {
			e.joinPre(g, args, st)
			// requirements of the callee on its parameters: decided here
			for _, r := range e.reqs[g] {
				if r.par < 0 || r.par >= len(args) {
					continue
				}
				var fa bfact
				if r.cell {
					cf, ok := st.cell[args[r.par]]
					if !ok {
						cf = bTop
					}
					fa = cf.shift(r.off)
				} else {
					fa = e.eval(args[r.par], st, 0).shift(r.off)
				}
				ok := (r.needU >= bInf || fa.ub <= r.needU) && (!r.needL || fa.lb >= 0)
				e.record(bSite{fn: f, ins: call, kind: "arg", what: g.Name() + ":" + r.why, ok: ok,
					note: fmt.Sprintf("argument %d (%+d) = %s, input length >= %d", r.par, r.off, fa, st.L), pos: call.Pos()})
			}
		}
		s := e.sum[g]
		if e.modsUnder(g, st.flag) {
			st.chunkModified()
		}
		e.killFlags(call, st)
		for j, a := range args {
			if !isIntPtr(a.Type()) {
				continue
			}
			grownLB := -bInf // the cell only grows in the callee: its old lower bound (plus the growth) survives
			if d, ok := 0, false; s != nil && s.set {
				if d, ok = s.cdel[j]; ok {
					if old, had := st.cell[a]; had && old.lb > -bInf {
						grownLB = old.lb + d
					}
					e.cellMoved(a, d, true, st)
				} else {
					e.cellMoved(a, 0, false, st)
				}
			} else {
				e.cellMoved(a, 0, false, st)
			}
			for k, p := range st.alias {
				if p == a {
					delete(st.alias, k)
				}
			}
			if s != nil && s.set {
				if cf, ok := s.cell[j]; ok {
					if grownLB > cf.lb {
						cf.lb = grownLB
					}
					st.cell[a] = cf
					continue
				}
			}
			if grownLB > -bInf {
				st.cell[a] = bfact{bInf, grownLB}
				continue
			}
			delete(st.cell, a)
		}
		if s != nil && s.set {
			setRes := func(v ssa.Value, idx int) {
				if idx >= len(s.res) {
					return
				}
				if isIntType(v.Type()) && s.res[idx] != bTop {
					st.val[v] = s.res[idx]
				}
				if isStringType(v.Type()) && s.resStr[idx] < bInf {
					st.slen[v] = s.resStr[idx]
				}
			}
			if call.Call.Signature().Results().Len() == 1 {
				setRes(call, 0)
			}
		}
		return
	}
	if e.mayModify(call) {
		st.chunkModified()
	}
	e.killFlags(call, st)
	for _, a := range args {
		if isIntPtr(a.Type()) {
			delete(st.cell, a)
			e.cellMoved(a, 0, false, st)
			for k, p := range st.alias {
				if p == a {
					delete(st.alias, k)
				}
			}
		}
	}
}

// killFlags: bool-field facts about fields the callee may store are void after the call
func (e *bndEngine) killFlags(call *ssa.Call, st *bstate) {
	if len(st.flag) == 0 {
		return
	}
	cs, known := e.calleesOf(call)
	if !known {
		st.flag = map[string]bool{}
		return
	}
	for _, g := range cs {
		for k := range st.flag {
			if e.roots[g][rootOf(k)] {
				delete(st.flag, k)
			}
		}
	}
}

func (e *bndEngine) joinPre(g *ssa.Function, args []ssa.Value, st *bstate) {
	if e.open[g] {
		return
	}
	n := &bpre{set: true, L: st.L, par: make([]bfact, len(g.Params)), ge: make([]bool, len(g.Params))}
	for j := range g.Params {
		n.par[j] = bTop
		if j >= len(args) {
			continue
		}
		a := args[j]
		switch {
		case isIntType(a.Type()):
			n.par[j] = e.eval(a, st, 0)
		case isIntPtr(a.Type()):
			if cf, ok := st.cell[a]; ok {
				n.par[j] = cf
			}
		case isStringType(a.Type()):
			if c, ok := a.(*ssa.Const); ok && c.Value != nil && c.Value.Kind() == constant.String {
				n.ge[j] = len(constant.StringVal(c.Value)) <= st.L
			} else {
				n.ge[j] = st.ge[a]
			}
		}
	}
	o := e.preNext[g]
	if o == nil || !o.set {
		e.preNext[g] = n
		return
	}
	m := &bpre{set: true, L: o.L, par: make([]bfact, len(g.Params)), ge: make([]bool, len(g.Params))}
	if n.L < m.L {
		m.L = n.L
	}
	same := m.L == o.L
	for j := range g.Params {
		m.par[j] = o.par[j].join(n.par[j])
		m.ge[j] = o.ge[j] && n.ge[j]
		if m.par[j] != o.par[j] || m.ge[j] != o.ge[j] {
			same = false
		}
	}
	if !same {
		e.preNext[g] = m
	}
}

// edgeState: the state on the edge b -> succ (branch condition applied), with succ's phis evaluated
func (e *bndEngine) edgeState(b *ssa.BasicBlock, out *bstate, si int) *bstate {
	st := out.clone()
	if iff, ok := b.Instrs[len(b.Instrs)-1].(*ssa.If); ok {
		e.applyCond(iff.Cond, si == 0, st, 0)
	}
	succ := b.Succs[si]
	// the k-th edge b -> succ among b's successors is the k-th occurrence of b among succ's predecessors
	k := 0
	for j := 0; j < si; j++ {
		if b.Succs[j] == succ {
			k++
		}
	}
	pi := -1
	for i, p := range succ.Preds {
		if p == b {
			if k == 0 {
				pi = i
				break
			}
			k--
		}
	}
	type pf struct {
		phi *ssa.Phi
		f   bfact
		sl  int
		al  ssa.Value
	}
	var facts []pf
	for _, ins := range succ.Instrs {
		phi, ok := ins.(*ssa.Phi)
		if !ok {
			break
		}
		if pi < 0 || pi >= len(phi.Edges) {
			continue
		}
		switch {
		case isIntType(phi.Type()):
			facts = append(facts, pf{phi: phi, f: e.eval(phi.Edges[pi], st, 0), sl: bInf})
		case isStringType(phi.Type()):
			facts = append(facts, pf{phi: phi, f: bTop, sl: e.slenOf(phi.Edges[pi], st, 0)})
		}
	}
	// relations of the incoming values to the cells carry over to the phis
	type pr struct {
		k relKey
		d int
	}
	var rels []pr
	cells := map[ssa.Value]bool{}
	for c := range st.cell {
		cells[c] = true
	}
	for k := range st.rel {
		cells[k.cell] = true
	}
	for _, p := range st.alias {
		cells[p] = true
	}
	for _, x := range facts {
		if !isIntType(x.phi.Type()) {
			continue
		}
		for c := range cells {
			if d := e.relOf(x.phi.Edges[pi], c, st, 0); d < bInf {
				rels = append(rels, pr{relKey{x.phi, c}, d})
			}
		}
	}
	for _, x := range facts {
		for k := range st.rel {
			if k.a == ssa.Value(x.phi) {
				delete(st.rel, k)
			}
		}
	}
	for _, r := range rels {
		st.rel[r.k] = r.d
	}
	// boolean phis: remember what holds on this edge for the value it contributes
	for _, ins := range succ.Instrs {
		phi, ok := ins.(*ssa.Phi)
		if !ok {
			break
		}
		if !isBoolType(phi.Type()) || pi < 0 || pi >= len(phi.Edges) {
			continue
		}
		var c [2]*bstate
		op := phi.Edges[pi]
		if k, isC := op.(*ssa.Const); isC && k.Value != nil && k.Value.Kind() == constant.Bool {
			sn := st.clone()
			sn.cond = nil
			if constant.BoolVal(k.Value) {
				c[1] = sn
			} else {
				c[0] = sn
			}
		} else {
			for t := 0; t < 2; t++ {
				sn := st.clone()
				sn.cond = nil
				saved := st.cond
				_ = saved
				e.applyCondWith(op, t == 1, sn, st.cond)
				if sn.reach {
					c[t] = sn
				}
			}
		}
		if st.cond == nil {
			st.cond = map[*ssa.Phi]*[2]*bstate{}
		}
		st.cond[phi] = &c
	}
	for _, x := range facts {
		delete(st.val, x.phi)
		delete(st.slen, x.phi)
		if isIntType(x.phi.Type()) {
			if x.f != bTop {
				st.val[x.phi] = x.f
			}
		} else if x.sl < bInf {
			st.slen[x.phi] = x.sl
		}
	}
	return st
}

func (e *bndEngine) analyze(f *ssa.Function) {
	entry := e.entryState(f)
	if !entry.reach {
		return
	}
	if n := pathCount(f); n > 0 && n <= 512 {
		// loop-free and small: every path on its own (no joins: contradictory branch conditions prune infeasible paths)
		sum := newBSum(f)
		first := true
		var walk func(b *ssa.BasicBlock, st *bstate)
		walk = func(b *ssa.BasicBlock, st *bstate) {
			e.collect = e.final
			e.transfer(f, b, st, true)
			if len(b.Succs) == 0 {
				e.summarise(f, b, st, sum, &first)
				return
			}
			for si := range b.Succs {
				if es := e.edgeState(b, st, si); es.reach {
					walk(b.Succs[si], es)
				}
			}
		}
		walk(f.Blocks[0], entry.clone())
		e.finish(f, entry, sum, first)
		return
	}
	in := map[*ssa.BasicBlock]*bstate{}
	visits := map[*ssa.BasicBlock]int{}
	for _, b := range f.Blocks {
		in[b] = newBState()
	}
	in[f.Blocks[0]] = entry
	// reverse post-order priorities: forward predecessors are processed before a join block
	rpo := map[*ssa.BasicBlock]int{}
	{
		seen := map[*ssa.BasicBlock]bool{}
		var order []*ssa.BasicBlock
		var dfs func(b *ssa.BasicBlock)
		dfs = func(b *ssa.BasicBlock) {
			seen[b] = true
			for _, s := range b.Succs {
				if !seen[s] {
					dfs(s)
				}
			}
			order = append(order, b)
		}
		dfs(f.Blocks[0])
		for i, b := range order {
			rpo[b] = len(order) - i
		}
	}
	inWork := map[*ssa.BasicBlock]bool{f.Blocks[0]: true}
	e.edgeOut = map[edgeKey]*bstate{}
	steps := 0
	for len(inWork) > 0 {
		steps++
		if steps > 50000 {
			e.giveUp = append(e.giveUp, f.Name())
			break
		}
		var b *ssa.BasicBlock
		for x := range inWork {
			if b == nil || rpo[x] < rpo[b] {
				b = x
			}
		}
		delete(inWork, b)
		st := in[b].clone()
		if !st.reach {
			continue
		}
		e.collect = false
		e.transfer(f, b, st, false)
		for si := range b.Succs {
			e.edgeOut[edgeKey{b, si}] = e.edgeState(b, st, si)
		}
		for _, succ := range b.Succs {
			nw := newBState()
			for _, p := range succ.Preds {
				for sj, s2 := range p.Succs {
					if s2 != succ {
						continue
					}
					if o, ok := e.edgeOut[edgeKey{p, sj}]; ok {
						nw = joinB(nw, o)
					}
				}
			}
			if eqB(nw, in[succ]) {
				continue
			}
			visits[succ]++
			if visits[succ] > 20 && in[succ].reach {
				nw = widenB(in[succ], nw)
			}
			in[succ] = nw
			inWork[succ] = true
		}
	}
	// post pass on the stable states: call-site facts, requirements, summaries, obligations
	sum := newBSum(f)
	first := true
	for _, b := range f.Blocks {
		if !in[b].reach {
			continue
		}
		st := in[b].clone()
		e.collect = e.final
		e.transfer(f, b, st, true)
		e.summarise(f, b, st, sum, &first)
	}
	e.finish(f, entry, sum, first)
}

// pathCount: number of entry-to-exit paths of a loop-free function (0: it has a loop; capped)
func pathCount(f *ssa.Function) int {
	color := map[*ssa.BasicBlock]int{}
	cnt := map[*ssa.BasicBlock]int{}
	cyclic := false
	var dfs func(b *ssa.BasicBlock) int
	dfs = func(b *ssa.BasicBlock) int {
		if color[b] == 1 {
			cyclic = true
			return 0
		}
		if color[b] == 2 {
			return cnt[b]
		}
		color[b] = 1
		n := 0
		if len(b.Succs) == 0 {
			n = 1
		}
		for _, s := range b.Succs {
			n += dfs(s)
			if n > 1<<20 {
				n = 1 << 20
			}
		}
		color[b] = 2
		cnt[b] = n
		return n
	}
	n := dfs(f.Blocks[0])
	if cyclic {
		return 0
	}
	return n
}

func (e *bndEngine) finish(f *ssa.Function, entry *bstate, sum *bsum, first bool) {
	if first {
		// no reachable return: the function does not return normally; nothing to summarise
		sum.set = false
	}
	if !eqSum(e.sum[f], sum) {
		e.sum[f] = sum
		e.changed = true
	}
	if e.dump && e.final {
		fmt.Fprintf(os.Stderr, "BNDFN %s open=%v mods=%v L(entry)=%d", f.Name(), e.open[f], e.mods[f], entry.L)
		if p := e.pre[f]; p != nil && p.set {
			fmt.Fprintf(os.Stderr, " pre.par=%v ge=%v", p.par, p.ge)
		}
		fmt.Fprintf(os.Stderr, " sum.res=%v resStr=%v cell=%v", sum.res, sum.resStr, sum.cell)
		for t := 0; t < 2; t++ {
			for k, im := range sum.when[t] {
				fmt.Fprintf(os.Stderr, " when[%d][%d]={L=%d par=%v ge=%v}", t, k, im.L, im.par, im.ge)
			}
		}
		fmt.Fprintf(os.Stderr, " reqs=%v\n", e.reqs[f])
	}
}

func newBSum(f *ssa.Function) *bsum {
	sum := &bsum{set: true, cell: map[int]bfact{}, cdel: map[int]int{}}
	sum.when[0] = map[int]*bimpl{}
	sum.when[1] = map[int]*bimpl{}
	nres := f.Signature.Results().Len()
	sum.res = make([]bfact, nres)
	sum.resStr = make([]int, nres)
	// "offset in, offset out" (consumeEOL(i int) (int, bool)): the value-returning twin of a growing *int parameter
	sum.resGe = map[int]int{}
	for k := 0; k < nres; k++ {
		if j, ok := resultGeParam(f, k); ok {
			sum.resGe[k] = j
		}
	}
	return sum
}

// summarise: b ends in a return reached with state st: join it into the function summary
func (e *bndEngine) summarise(f *ssa.Function, b *ssa.BasicBlock, st *bstate, sum *bsum, firstp *bool) {
	ret, ok := b.Instrs[len(b.Instrs)-1].(*ssa.Return)
	if !ok {
		return
	}
	for k, r := range ret.Results {
		rf, rs := bTop, bInf
		if isIntType(r.Type()) {
			rf = e.eval(r, st, 0)
		}
		if isStringType(r.Type()) {
			rs = e.slenOf(r, st, 0)
		}
		if *firstp {
			sum.res[k], sum.resStr[k] = rf, rs
		} else {
			sum.res[k] = sum.res[k].join(rf)
			if rs > sum.resStr[k] {
				sum.resStr[k] = rs
			}
		}
		if isBoolType(r.Type()) {
			for t := 0; t < 2; t++ {
				if c, isC := r.(*ssa.Const); isC && c.Value != nil && c.Value.Kind() == constant.Bool && constant.BoolVal(c.Value) != (t == 1) {
					continue
				}
				s2 := st.clone()
				if _, isC := r.(*ssa.Const); !isC {
					e.applyCond(r, t == 1, s2, 0)
				}
				if !s2.reach {
					continue
				}
				im := &bimpl{set: true, L: s2.L, par: make([]bfact, len(f.Params)), ge: make([]bool, len(f.Params))}
				for j, p := range f.Params {
					im.par[j] = bTop
					if isIntType(p.Type()) {
						im.par[j] = e.eval(p, s2, 0)
					}
					if isStringType(p.Type()) {
						im.ge[j] = s2.ge[p]
					}
				}
				if o := sum.when[t][k]; o == nil {
					sum.when[t][k] = im
				} else {
					if im.L < o.L {
						o.L = im.L
					}
					for j := range o.par {
						o.par[j] = o.par[j].join(im.par[j])
						o.ge[j] = o.ge[j] && im.ge[j]
					}
				}
			}
		}
	}
	for j, p := range f.Params {
		if !isIntPtr(p.Type()) {
			continue
		}
		cf, ok := st.cell[p]
		if !ok {
			cf = bTop
		}
		if *firstp {
			sum.cell[j] = cf
			if d, ok := st.cdel[p]; ok {
				sum.cdel[j] = d
			}
		} else {
			sum.cell[j] = sum.cell[j].join(cf)
			if d, ok := st.cdel[p]; ok {
				if o, had := sum.cdel[j]; had && d < o {
					sum.cdel[j] = d
				}
			} else {
				delete(sum.cdel, j)
			}
		}
	}
	*firstp = false
}

type edgeKey struct {
	b  *ssa.BasicBlock
	si int
}

func eqSum(a, b *bsum) bool {
	if a == nil || b == nil {
		return a == b
	}
	if a.set != b.set || len(a.res) != len(b.res) || len(a.cell) != len(b.cell) {
		return false
	}
	for i := range a.res {
		if a.res[i] != b.res[i] || a.resStr[i] != b.resStr[i] {
			return false
		}
	}
	for k, v := range a.cell {
		if w, ok := b.cell[k]; !ok || w != v {
			return false
		}
	}
	if len(a.cdel) != len(b.cdel) {
		return false
	}
	for k, v := range a.cdel {
		if w, ok := b.cdel[k]; !ok || w != v {
			return false
		}
	}
	for t := 0; t < 2; t++ {
		if len(a.when[t]) != len(b.when[t]) {
			return false
		}
		for k, x := range a.when[t] {
			y := b.when[t][k]
			if y == nil || x.L != y.L || len(x.par) != len(y.par) {
				return false
			}
			for j := range x.par {
				if x.par[j] != y.par[j] || x.ge[j] != y.ge[j] {
					return false
				}
			}
		}
	}
	return true
}

// run: iterate all functions to a joint fixpoint of entry facts, summaries and requirements; then one
// collecting pass over the stable facts
func (e *bndEngine) run() (stable bool) {
	for round := 0; round < 40; round++ {
		e.rounds = round + 1
		e.changed = false
		e.preNext = map[*ssa.Function]*bpre{}
		for _, f := range e.fns {
			e.analyze(f)
		}
		if !eqPreMap(e.pre, e.preNext) {
			e.changed = true
		}
		e.pre = e.preNext
		if !e.changed {
			stable = true
			break
		}
	}
	e.final = true
	e.sites = nil
	e.siteIdx = map[siteKey]int{}
	e.changed = false
	e.preNext = map[*ssa.Function]*bpre{}
	for _, f := range e.fns {
		e.analyze(f)
	}
	if !eqPreMap(e.pre, e.preNext) || e.changed {
		stable = false
	}
	return stable && len(e.giveUp) == 0
}

func eqPreMap(a, b map[*ssa.Function]*bpre) bool {
	if len(a) != len(b) {
		return false
	}
	for f, x := range a {
		y := b[f]
		if y == nil || x.set != y.set || x.L != y.L || len(x.par) != len(y.par) {
			return false
		}
		for j := range x.par {
			if x.par[j] != y.par[j] || x.ge[j] != y.ge[j] {
				return false
			}
		}
	}
	return true
}

// resultGeParam: on every return of f, int result k is one int parameter of f plus a non-negative constant (through
// phis): the index of that parameter
func resultGeParam(f *ssa.Function, k int) (int, bool) {
	if f == nil || f.Blocks == nil || k >= f.Signature.Results().Len() || !isIntType(f.Signature.Results().At(k).Type()) {
		return 0, false
	}
	var geParam func(v ssa.Value, p *ssa.Parameter, depth int, seen map[ssa.Value]bool) bool
	geParam = func(v ssa.Value, p *ssa.Parameter, depth int, seen map[ssa.Value]bool) bool {
		if v == ssa.Value(p) {
			return true
		}
		if depth > 8 {
			return false
		}
		if seen[v] {
			return true // a loop-carried value that only comes back to itself adds nothing
		}
		seen[v] = true
		switch x := v.(type) {
		case *ssa.BinOp:
			if x.Op == token.ADD {
				if c, ok := x.Y.(*ssa.Const); ok && c.Value != nil && c.Value.Kind() == constant.Int && constant.Sign(c.Value) >= 0 {
					return geParam(x.X, p, depth+1, seen)
				}
				if c, ok := x.X.(*ssa.Const); ok && c.Value != nil && c.Value.Kind() == constant.Int && constant.Sign(c.Value) >= 0 {
					return geParam(x.Y, p, depth+1, seen)
				}
			}
		case *ssa.Phi:
			for _, e := range x.Edges {
				if e == v {
					continue
				}
				if !geParam(e, p, depth+1, seen) {
					return false
				}
			}
			return true
		}
		return false
	}
	for j, p := range f.Params {
		if !isIntType(p.Type()) {
			continue
		}
		all, n := true, 0
		for _, b := range f.Blocks {
			if ret, ok := b.Instrs[len(b.Instrs)-1].(*ssa.Return); ok && k < len(ret.Results) {
				n++
				if !geParam(ret.Results[k], p, 0, map[ssa.Value]bool{}) {
					all = false
				}
			}
		}
		if all && n > 0 {
			return j, true
		}
	}
	return 0, false
}

// paramResult: bounds of int result k of the plain function g relative to the length of its byte-sequence parameter p,
// computed by the parameter-mode engine for a sequence of at least minLen bytes (cached); bTop when that engine does not
// stabilise
var bndParamResCache = map[[3]interface{}]*bsum{}

func (e *bndEngine) paramResult(g *ssa.Function, p *ssa.Parameter, k int, minLen int) bfact {
	if minLen > 2 {
		minLen = 2 // the scanners only ever need "not empty" / "two bytes": keeps the cache small
	}
	key := [3]interface{}{g, p, minLen}
	sm, ok := bndParamResCache[key]
	if !ok {
		pe := newBndParamEngine(e.c, g, p)
		pe.entryL = minLen
		if pe.run() {
			sm = pe.sum[g]
		}
		bndParamResCache[key] = sm
	}
	if sm == nil || !sm.set || k >= len(sm.res) {
		return bTop
	}
	return sm.res[k]
}
