package main

import (
	"fmt"
	"go/token"
	"go/types"
	"os"
	"sort"
	"strings"

	"golang.org/x/tools/go/ssa"
)

// ---------------------------------------------------------------------------------------------
// DET: inventory of hash-order dependent selections (C09)

type mapLoop struct {
	f      *ssa.Function
	rng    *ssa.Range
	header *ssa.BasicBlock
	body   map[*ssa.BasicBlock]bool
	next   *ssa.Next
}

func mapRangeLoops(c *Ctx) []mapLoop {
	var out []mapLoop
	for _, f := range c.ModFns() {
		loops := loopsOf(f)
		for _, b := range f.Blocks {
			for _, ins := range b.Instrs {
				r, ok := ins.(*ssa.Range)
				if !ok {
					continue
				}
				if _, isMap := r.X.Type().Underlying().(*types.Map); !isMap {
					continue
				}
				// the Next instruction and its loop
				var nx *ssa.Next
				if refs := r.Referrers(); refs != nil {
					for _, rr := range *refs {
						if n, ok := rr.(*ssa.Next); ok {
							nx = n
						}
					}
				}
				if nx == nil {
					continue
				}
				h := nx.Block()
				body := loops[h]
				if body == nil {
					body = map[*ssa.BasicBlock]bool{h: true}
				}
				out = append(out, mapLoop{f: f, rng: r, header: h, body: body, next: nx})
			}
		}
	}
	sort.Slice(out, func(i, j int) bool {
		if fnKey(out[i].f) != fnKey(out[j].f) {
			return fnKey(out[i].f) < fnKey(out[j].f)
		}
		return out[i].rng.Pos() < out[j].rng.Pos()
	})
	return out
}

// elemDependent: v (transitively) depends on the loop's Next tuple.
func (l *mapLoop) elemDependent(v ssa.Value, seen map[ssa.Value]bool, depth int) bool {
	if v == nil || depth > 12 || seen[v] {
		return false
	}
	seen[v] = true
	if v == ssa.Value(l.next) {
		return true
	}
	ins, ok := v.(ssa.Instruction)
	if !ok {
		return false
	}
	if !l.body[ins.Block()] {
		return false
	}
	for _, op := range ins.Operands(nil) {
		if *op != nil && l.elemDependent(*op, seen, depth+1) {
			return true
		}
	}
	// loads of locals stored with element-dependent values inside the loop
	if u, ok := v.(*ssa.UnOp); ok && u.Op == token.MUL {
		if al, ok := u.X.(*ssa.Alloc); ok {
			if refs := al.Referrers(); refs != nil {
				for _, r := range *refs {
					if st, ok := r.(*ssa.Store); ok && st.Addr == al && l.body[st.Block()] && l.elemDependent(st.Val, seen, depth+1) {
						return true
					}
				}
			}
		}
	}
	return false
}

type detEffects struct {
	returnsElem bool     // return carrying an element-dependent value from inside the loop
	exitAssign  []string // element-dependent values live after the loop through a phi at an exit (selection)
	appends     []string // slices appended with element-dependent values
	mapStores   int
	calls       []string // module callees with element-dependent arguments
	sends       int
}

func (l *mapLoop) effects(c *Ctx) detEffects {
	var e detEffects
	dep := func(v ssa.Value) bool { return l.elemDependent(v, map[ssa.Value]bool{}, 0) }
	calls := map[string]bool{}
	apps := map[string]bool{}
	for b := range l.body {
		for _, ins := range b.Instrs {
			switch x := ins.(type) {
			case *ssa.Return:
				for _, r := range x.Results {
					if dep(r) {
						e.returnsElem = true
					}
				}
			case *ssa.MapUpdate:
				e.mapStores++
			case *ssa.Send:
				e.sends++
			case *ssa.Store:
				if call, ok := x.Val.(*ssa.Call); ok {
					if bi, ok := call.Call.Value.(*ssa.Builtin); ok && bi.Name() == "append" {
						for _, a := range call.Call.Args[1:] {
							if dep(a) || true {
								apps[describeAddr(x.Addr)] = true
							}
						}
						continue
					}
				}
			case *ssa.Call:
				if _, isB := x.Call.Value.(*ssa.Builtin); isB {
					continue
				}
				sc := x.Call.StaticCallee()
				if sc == nil || !c.IsModFn(sc) {
					continue
				}
				if strings.HasSuffix(sc.Pkg.Pkg.Path(), "/log") {
					continue
				}
				calls[fnKey(sc)] = true
			}
		}
	}
	// values flowing out of the loop: phis in exit blocks (or uses outside) of element-dependent values
	for b := range l.body {
		for _, ins := range b.Instrs {
			v, ok := ins.(ssa.Value)
			if !ok || !dep(v) {
				continue
			}
			if refs := v.Referrers(); refs != nil {
				for _, r := range *refs {
					if !l.body[r.Block()] {
						if _, isRet := r.(*ssa.Return); isRet {
							e.returnsElem = true
						} else {
							e.exitAssign = append(e.exitAssign, describeValue(v))
						}
					}
				}
			}
		}
	}
	// header phis that carry an element-dependent value around the loop (arg-max / last-wins selection)
	for _, ins := range l.header.Instrs {
		phi, ok := ins.(*ssa.Phi)
		if !ok {
			break
		}
		for i, ed := range phi.Edges {
			if l.body[l.header.Preds[i]] && dep(ed) {
				if _, isInt := phi.Type().Underlying().(*types.Basic); isInt {
					// counters / accumulators are commutative when updated with + ; flagged only if not x = x + e
					if bo, ok := ed.(*ssa.BinOp); ok && bo.Op == token.ADD {
						continue
					}
				}
				e.exitAssign = append(e.exitAssign, "loop-carried "+phi.Comment)
			}
		}
	}
	for k := range calls {
		e.calls = append(e.calls, k)
	}
	sort.Strings(e.calls)
	for k := range apps {
		e.appends = append(e.appends, k)
	}
	sort.Strings(e.appends)
	return e
}

func describeAddr(v ssa.Value) string {
	switch x := v.(type) {
	case *ssa.FieldAddr:
		return describeAddr(x.X) + "." + fieldName(x.X.Type(), x.Field)
	case *ssa.Alloc:
		return "local:" + x.Comment
	case *ssa.Parameter:
		return x.Name()
	case *ssa.UnOp:
		return describeAddr(x.X)
	case *ssa.Global:
		return x.Name()
	case *ssa.IndexAddr:
		return describeAddr(x.X) + "[]"
	}
	return "?"
}

func detDump(c *Ctx) {
	loops := mapRangeLoops(c)
	for _, l := range loops {
		e := l.effects(c)
		// loop-carried values with their types
		var carried []string
		for _, ins := range l.header.Instrs {
			phi, ok := ins.(*ssa.Phi)
			if !ok {
				break
			}
			dep := false
			for i, ed := range phi.Edges {
				if l.body[l.header.Preds[i]] && l.elemDependent(ed, map[ssa.Value]bool{}, 0) {
					dep = true
				}
			}
			if dep {
				carried = append(carried, phi.Comment+":"+types.TypeString(phi.Type(), func(p *types.Package) string { return p.Name() }))
			}
		}
		fmt.Fprintf(os.Stderr, "%s %s range(%s) ret=%v carried=%v app=%v mapst=%d calls=%v\n", c.Pos(l.rng.Pos()), fnKey(l.f), describeValue(l.rng.X), e.returnsElem, carried, e.appends, e.mapStores, e.calls)
	}
	fmt.Fprintf(os.Stderr, "total map-range loops: %d\n", len(loops))
}
