package main

import (
	"fmt"
	"go/token"
	"go/types"
	"sort"
	"strings"

	"golang.org/x/tools/go/ssa"
)

const analysisPkg = modPath + "/langserver/check/analysis"

// mayFollow reports B-instructions reachable after some A-instruction (along any path, loops included).
func mayFollow(f *ssa.Function, isA, isB func(ssa.Instruction) bool) []ssa.Instruction {
	nb := len(f.Blocks)
	in := make([]bool, nb)
	out := make([]bool, nb)
	for changed := true; changed; {
		changed = false
		for _, b := range f.Blocks {
			st := false
			for _, p := range b.Preds {
				st = st || out[p.Index]
			}
			in[b.Index] = st
			for _, ins := range b.Instrs {
				if isA(ins) {
					st = true
				}
			}
			if st != out[b.Index] {
				out[b.Index] = st
				changed = true
			}
		}
	}
	var bad []ssa.Instruction
	for _, b := range f.Blocks {
		st := in[b.Index]
		for _, ins := range b.Instrs {
			if st && isB(ins) {
				bad = append(bad, ins)
			}
			if isA(ins) {
				st = true
			}
		}
	}
	return bad
}

// mustFollow reports A-instructions from which some path reaches a return without executing B.
func mustFollow(f *ssa.Function, isA, isB func(ssa.Instruction) bool) []ssa.Instruction {
	return mustFollowE(f, isA, isB, nil)
}

// mustFollowE: as mustFollow, but an edge for which okEdge holds counts as satisfied (e.g. the branch on
// which the object that B would act on is nil).
func mustFollowE(f *ssa.Function, isA, isB func(ssa.Instruction) bool, okEdge func(from, to *ssa.BasicBlock) bool) []ssa.Instruction {
	// backward must: "B on every path from here to exit"
	nb := len(f.Blocks)
	outOK := make([]bool, nb) // at block end: all paths to exit pass B
	inOK := make([]bool, nb)
	for i := range outOK {
		outOK[i], inOK[i] = true, true
	}
	for changed := true; changed; {
		changed = false
		for i := nb - 1; i >= 0; i-- {
			b := f.Blocks[i]
			st := true
			if len(b.Succs) == 0 {
				// return or panic: a return without B is a failure; a panic is not an exit of interest
				if _, isRet := b.Instrs[len(b.Instrs)-1].(*ssa.Return); isRet {
					st = false
				}
			} else {
				for _, s := range b.Succs {
					st = st && (inOK[s.Index] || (okEdge != nil && okEdge(b, s)))
				}
			}
			if st != outOK[i] {
				outOK[i] = st
				changed = true
			}
			for j := len(b.Instrs) - 1; j >= 0; j-- {
				if isB(b.Instrs[j]) {
					st = true
				}
			}
			if st != inOK[i] {
				inOK[i] = st
				changed = true
			}
		}
	}
	var bad []ssa.Instruction
	for _, b := range f.Blocks {
		st := outOK[b.Index]
		for j := len(b.Instrs) - 1; j >= 0; j-- {
			ins := b.Instrs[j]
			if isA(ins) && !st {
				bad = append(bad, ins)
			}
			if isB(ins) {
				st = true
			}
		}
	}
	return bad
}

func callTo(name string, recv string, pkg string) func(ssa.Instruction) bool {
	return func(ins ssa.Instruction) bool {
		call, ok := ins.(ssa.CallInstruction)
		if !ok {
			return false
		}
		if _, isDefer := ins.(*ssa.Defer); isDefer {
			return false
		}
		sc := call.Common().StaticCallee()
		if sc == nil || sc.Name() != name || sc.Pkg == nil || sc.Pkg.Pkg.Path() != pkg {
			return false
		}
		if recv == "" {
			return sc.Signature.Recv() == nil
		}
		return sc.Signature.Recv() != nil && namedName(sc.Signature.Recv().Type()) == recv
	}
}

type orderRule struct {
	fn   string // method of *Analysis
	kind string // "before": every B is preceded by A on all paths; "never-after": no B after A; "followed": every A is followed by B on all paths to return
	a, b string // callee names: cgExp, cgBlock, cgFuncDefExp, AddLocVar, enterScope, exitScope
	why  string
}

var scopeOrderRules = []orderRule{
	{"cgLocalFuncDefStat", "before", "AddLocVar", "cgFuncDefExp", "a local function is visible inside its own body (local function f() ... f() ... end)"},
	{"cgForNumStat", "never-after", "AddLocVar", "cgExp", "the bounds of a numeric for are evaluated before the loop variable exists"},
	{"cgForInStat", "never-after", "AddLocVar", "cgExp", "the iterator expressions of a generic for are evaluated before the loop variables exist"},
	{"cgLocalVarDeclStat", "never-after", "AddLocVar", "cgExp", "Lua evaluates the whole expression list of `local a, b = e1, e2` before any of the new locals is in scope"},
	{"cgRepeatStat", "before", "cgBlock", "cgExp", "the until-condition sees the locals of the repeat body"},
	{"cgRepeatStat", "followed", "cgExp", "exitScope", "reads in the until-condition happen before the body scope is swept for unused locals"},
	{"cgWhileStat", "before", "cgExp", "cgBlock", "the while-condition is evaluated outside the body scope"},
	{"cgWhileStat", "before", "cgExp", "enterScope", "the while-condition is evaluated outside the body scope"},
	{"cgForNumStat", "before", "AddLocVar", "cgBlock", "the loop variable is in scope in the body"},
}

func isCallee(name string) func(ssa.Instruction) bool {
	switch name {
	case "AddLocVar":
		return callTo("AddLocVar", "ScopeInfo", commonPkg)
	case "enterScope":
		// Analysis.enterScope is the one-liner a.curFunc.EnterScope(): either form opens the scope level
		wrapped, direct := callTo("enterScope", "Analysis", analysisPkg), callTo("EnterScope", "FuncInfo", commonPkg)
		return func(i ssa.Instruction) bool { return wrapped(i) || direct(i) }
	default:
		return callTo(name, "Analysis", analysisPkg)
	}
}

var ruleScopeS1 = &Rule{
	Name:    "SCOPE/S1-ordering",
	NeedSSA: true,
	Text:    "the AST walker shared by the first pass (undefined / unused diagnostics) and the reference traversal (find-references, rename, highlight) declares and analyses in Lua's order: per statement kind, the frozen ordering constraints between AddLocVar, cgExp, cgBlock, cgFuncDefExp, enterScope and exitScope hold on every CFG path (resolved callees, SSA)",
	Run: func(c *Ctx) []Ob {
		var obs []Ob
		for _, r := range scopeOrderRules {
			f := c.SSAFunc(analysisPkg, "Analysis", r.fn)
			key := fmt.Sprintf("SCOPE/S1:%s:%s:%s->%s", r.fn, r.kind, r.a, r.b)
			if f == nil {
				obs = append(obs, Ob{Key: key, Verdict: UNDECIDED, Note: "slot unresolved: Analysis." + r.fn})
				continue
			}
			isA, isB := isCallee(r.a), isCallee(r.b)
			nA, nB := 0, 0
			for _, b := range f.Blocks {
				for _, ins := range b.Instrs {
					if isA(ins) {
						nA++
					}
					if isB(ins) {
						nB++
					}
				}
			}
			if nA == 0 || nB == 0 {
				obs = append(obs, Ob{Key: key, Site: c.Pos(f.Pos()), Verdict: UNDECIDED, Note: fmt.Sprintf("slot unresolved: %s calls %s %d times and %s %d times", r.fn, r.a, nA, r.b, nB)})
				continue
			}
			var bad []ssa.Instruction
			switch r.kind {
			case "before":
				bad = mustPrecede(f, isA, isB)
			case "never-after":
				bad = mayFollow(f, isA, isB)
			case "followed":
				bad = mustFollow(f, isA, isB)
			}
			if len(bad) > 0 && r.kind == "never-after" && r.a == "AddLocVar" && r.b == "cgExp" && storesLoopHead(f) {
				// since the repair of the loop-header visibility (SCOPE/S10) a control variable that is declared early is
				// still invisible to the header expressions: it carries the range of its loop's header, and every lookup
				// (the analysis' own too) asks IsCorrectPosition. The order is no longer a necessary condition here.
				obs = append(obs, Ob{Key: key, Site: c.Pos(f.Pos()), Verdict: OK,
					Note: "the control variables are declared before the header expressions are analysed, but they carry the loop's header range (SCOPE/S10), so the header does not see them"})
				continue
			}
			if len(bad) > 0 {
				obs = append(obs, Ob{Key: key, Site: c.Pos(bad[0].Pos()), Verdict: VIOLATION,
					Note: fmt.Sprintf("ordering '%s %s %s' violated on some path: %s", r.a, map[string]string{"before": "must precede", "never-after": "must never be followed by", "followed": "must be followed by"}[r.kind], r.b, r.why)})
			} else {
				obs = append(obs, Ob{Key: key, Site: c.Pos(f.Pos()), Verdict: OK, Note: r.why})
			}
		}
		return obs
	},
}

var ruleScopeS2 = &Rule{
	Name:    "SCOPE/S2-pairing",
	NeedSSA: true,
	Text:    "in every cg* walker function each enterScope() is followed by exitScope() on all paths to return (the unused-local sweep runs in exitScope), and a function that stores a fresh sub-scope into Analysis.curScope stores another value into it again on all paths before returning (scope restored)",
	Run: func(c *Ctx) []Ob {
		var obs []Ob
		n := 0
		enter, exit := isCallee("enterScope"), isCallee("exitScope")
		for _, f := range c.ModFns() {
			if f.Package() == nil || f.Package().Pkg.Path() != analysisPkg || f.Signature.Recv() == nil || !strings.HasPrefix(f.Name(), "cg") {
				continue
			}
			has := false
			for _, b := range f.Blocks {
				for _, ins := range b.Instrs {
					if enter(ins) {
						has = true
					}
				}
			}
			// curScope stores
			isScopeStore := func(fresh bool) func(ssa.Instruction) bool {
				return func(ins ssa.Instruction) bool {
					// a callee that puts its parameter into curScope (exitScope(saved)) restores the scope when it is handed
					// anything but a freshly created one
					if call, isC := ins.(*ssa.Call); isC && !fresh {
						if g := call.Call.StaticCallee(); g != nil {
							if pi := storesParamIntoField(g, "curScope"); pi >= 0 && pi < len(call.Call.Args) {
								if ac, isCall := call.Call.Args[pi].(*ssa.Call); isCall {
									if sc := ac.Call.StaticCallee(); sc != nil && sc.Name() == "CreateScopeInfo" {
										return false
									}
								}
								return true
							}
						}
					}
					st, ok := ins.(*ssa.Store)
					if !ok {
						return false
					}
					fa, ok := st.Addr.(*ssa.FieldAddr)
					if !ok || fieldName(fa.X.Type(), fa.Field) != "curScope" {
						return false
					}
					_, isCall := st.Val.(*ssa.Call)
					isFresh := false
					if isCall {
						if sc := st.Val.(*ssa.Call).Call.StaticCallee(); sc != nil && sc.Name() == "CreateScopeInfo" {
							isFresh = true
						}
					}
					return isFresh == fresh
				}
			}
			hasFreshStore := false
			for _, b := range f.Blocks {
				for _, ins := range b.Instrs {
					if isScopeStore(true)(ins) {
						hasFreshStore = true
					}
				}
			}
			if !has && !hasFreshStore {
				continue
			}
			n++
			key := "SCOPE/S2:" + f.Name()
			var notes []string
			v := OK
			if has {
				if bad := mustFollow(f, enter, exit); len(bad) > 0 {
					v = VIOLATION
					notes = append(notes, fmt.Sprintf("%s: enterScope() not followed by exitScope() on some path", c.Pos(bad[0].Pos())))
				}
			}
			if hasFreshStore {
				if bad := mustFollow(f, isScopeStore(true), isScopeStore(false)); len(bad) > 0 {
					v = VIOLATION
					notes = append(notes, fmt.Sprintf("%s: curScope set to a new sub-scope and not restored on some path", c.Pos(bad[0].Pos())))
				}
			}
			if v == OK {
				notes = append(notes, "enter/exit paired and curScope restored on all paths")
			}
			obs = append(obs, Ob{Key: key, Site: c.Pos(f.Pos()), Verdict: v, Note: strings.Join(notes, "; ")})
		}
		obs = append(obs, floor("SCOPE/S2-pairing", "walker functions that open a scope", n, 6))
		return obs
	},
}

// node kinds produced by the parser: concrete types converted to an interface of package ast
func parserNodeKinds(c *Ctx, iface string) map[string]bool {
	kinds := map[string]bool{}
	sp := c.SSA[astPkg]
	if sp == nil || sp.Type(iface) == nil {
		return kinds
	}
	it := sp.Type(iface).Type()
	for _, f := range c.ModFns() {
		if f.Package() == nil || f.Package().Pkg.Path() != parserPkg {
			continue
		}
		for _, b := range f.Blocks {
			for _, ins := range b.Instrs {
				mi, ok := ins.(*ssa.MakeInterface)
				if !ok || !types.Identical(types.Unalias(mi.Type()), it) {
					continue
				}
				pp, nn := namedPkgName(mi.X.Type())
				if pp == astPkg {
					kinds[nn] = true
				}
			}
		}
	}
	return kinds
}

// typeSwitchCases: concrete ast types tested (TypeAssert CommaOk) on the function's parameter of interface type iface.
func typeSwitchCases(f *ssa.Function) map[string]bool {
	cases := map[string]bool{}
	for _, b := range f.Blocks {
		for _, ins := range b.Instrs {
			ta, ok := ins.(*ssa.TypeAssert)
			if !ok {
				continue
			}
			pp, nn := namedPkgName(ta.AssertedType)
			if pp == astPkg || pp == annAstPkg {
				cases[nn] = true
			}
		}
	}
	return cases
}

// hasChildField: struct type has a field of an AST interface / node / slice-of-node type
func hasChildField(c *Ctx, pkg, name string) bool {
	sp := c.SSA[pkg]
	if sp == nil || sp.Type(name) == nil {
		return false
	}
	st, ok := sp.Type(name).Type().Underlying().(*types.Struct)
	if !ok {
		return false
	}
	for i := 0; i < st.NumFields(); i++ {
		if isInductiveType(st.Field(i).Type()) {
			return true
		}
	}
	return false
}

var ruleScopeS3 = &Rule{
	Name:    "SCOPE/S3-walker-exhaustive",
	NeedSSA: true,
	Text:    "every statement / expression node kind that the parser produces (concrete types converted to ast.Stat / ast.Exp in package parser) and that has child nodes is dispatched by cgStat / cgExp (type-switch case); a kind without a case is never descended into, so names inside it are neither resolved nor counted as uses",
	Run: func(c *Ctx) []Ob {
		var obs []Ob
		for _, w := range [][2]string{{"Stat", "cgStat"}, {"Exp", "cgExp"}} {
			kinds := parserNodeKinds(c, w[0])
			f := c.SSAFunc(analysisPkg, "Analysis", w[1])
			if f == nil || len(kinds) == 0 {
				obs = append(obs, Ob{Key: "SCOPE/S3:" + w[1], Verdict: UNDECIDED, Note: "slot unresolved: Analysis." + w[1] + " or parser node kinds"})
				continue
			}
			cases := typeSwitchCases(f)
			var names []string
			for k := range kinds {
				names = append(names, k)
			}
			sort.Strings(names)
			for _, k := range names {
				key := fmt.Sprintf("SCOPE/S3:%s:%s", w[1], k)
				switch {
				case cases[k]:
					obs = append(obs, Ob{Key: key, Site: c.Pos(f.Pos()), Verdict: OK, Note: "dispatched"})
				case !hasChildField(c, astPkg, k):
					obs = append(obs, Ob{Key: key, Site: c.Pos(f.Pos()), Verdict: OK, Note: "leaf kind (no child nodes): nothing to descend into"})
				default:
					obs = append(obs, Ob{Key: key, Site: c.Pos(f.Pos()), Verdict: VIOLATION, Note: fmt.Sprintf("parser produces ast.%s (it has child nodes) but %s has no case for it", k, w[1])})
				}
			}
			c.Stats["node_kinds_"+w[0]] = len(kinds)
			obs = append(obs, floor("SCOPE/S3-walker-exhaustive", w[0]+" kinds produced by the parser", len(kinds), 12))
		}
		return obs
	},
}

// ---------------------------------------------------------------------------------------------
// S4: every scope that is created is registered in its parent's SubScopes

var ruleScopeS4 = &Rule{
	Name:    "SCOPE/S4-tree-registration",
	NeedSSA: true,
	Text:    "every scope object created with a parent (call of common.CreateScopeInfo(parent, …)) is registered in that parent's SubScopes (parent.AppendSubScope(result)) on every path to the creating function's return, the only tolerated bypass being the branch on which the parent is nil; the outline, workspace-symbol collection and position→scope lookup reach nested declarations only through SubScopes, so an unregistered scope cuts its whole subtree off; ScopeInfo literals occur only in CreateScopeInfo",
	Run: func(c *Ctx) []Ob {
		var obs []Ob
		commonPkg := modPath + "/langserver/check/common"
		create := c.SSAFunc(commonPkg, "", "CreateScopeInfo")
		app := c.SSAFunc(commonPkg, "ScopeInfo", "AppendSubScope")
		if create == nil || app == nil {
			return []Ob{{Key: "SCOPE/S4:slots", Verdict: UNDECIDED, Note: "slot unresolved: common.CreateScopeInfo / ScopeInfo.AppendSubScope"}}
		}
		// (a) literals only in CreateScopeInfo
		n := 0
		for _, f := range c.ModFns() {
			cnt := 0
			for _, b := range f.Blocks {
				for _, ins := range b.Instrs {
					if al, ok := ins.(*ssa.Alloc); ok && f != create {
						if p, nme := namedPkgName(al.Type().Underlying().(*types.Pointer).Elem()); p == commonPkg && nme == "ScopeInfo" {
							cnt++
							obs = append(obs, Ob{Key: fmt.Sprintf("SCOPE/S4:literal:%s#%d", fnKey(f), cnt), Site: c.Pos(al.Pos()), Verdict: VIOLATION,
								Note: "ScopeInfo allocated outside CreateScopeInfo: the registration rule cannot see it"})
						}
					}
					call, ok := ins.(*ssa.Call)
					if !ok || call.Call.StaticCallee() != create {
						continue
					}
					n++
					cnt++
					key := fmt.Sprintf("SCOPE/S4:%s#%d", fnKey(f), cnt)
					parent := call.Call.Args[0]
					if cst, ok := parent.(*ssa.Const); ok && cst.IsNil() {
						obs = append(obs, Ob{Key: key, Site: c.Pos(call.Pos()), Verdict: OK, Note: "root scope (nil parent)"})
						continue
					}
					// blocks entered only when parent == nil
					nilEdge := map[[2]*ssa.BasicBlock]bool{}
					for _, bb := range f.Blocks {
						iff, ok := bb.Instrs[len(bb.Instrs)-1].(*ssa.If)
						if !ok {
							continue
						}
						bo, ok := iff.Cond.(*ssa.BinOp)
						if !ok {
							continue
						}
						isNilC := func(v ssa.Value) bool { k, ok := v.(*ssa.Const); return ok && k.IsNil() }
						if !((bo.X == parent && isNilC(bo.Y)) || (bo.Y == parent && isNilC(bo.X))) {
							continue
						}
						var nb *ssa.BasicBlock
						if bo.Op.String() == "!=" {
							nb = bb.Succs[1]
						} else if bo.Op.String() == "==" {
							nb = bb.Succs[0]
						}
						if nb != nil {
							nilEdge[[2]*ssa.BasicBlock{bb, nb}] = true
						}
					}
					isA := func(i ssa.Instruction) bool { return i == ssa.Instruction(call) }
					isB := func(i ssa.Instruction) bool {
						c2, ok := i.(*ssa.Call)
						if !ok || c2.Call.StaticCallee() != app || len(c2.Call.Args) != 2 || c2.Call.Args[0] != parent {
							return false
						}
						if c2.Call.Args[1] == ssa.Value(call) {
							return true
						}
						// the new scope read back from the place it was just stored into (x.MainScope = Create…; parent.Append(x.MainScope))
						if ld, ok := c2.Call.Args[1].(*ssa.UnOp); ok && ld.Op == token.MUL && call.Referrers() != nil {
							for _, r := range *call.Referrers() {
								st, ok := r.(*ssa.Store)
								if !ok || st.Val != ssa.Value(call) {
									continue
								}
								if st.Addr == ld.X {
									return true
								}
								fa1, ok1 := st.Addr.(*ssa.FieldAddr)
								fa2, ok2 := ld.X.(*ssa.FieldAddr)
								if ok1 && ok2 && fa1.X == fa2.X && fa1.Field == fa2.Field {
									return true
								}
							}
						}
						return false
					}
					okEdge := func(from, to *ssa.BasicBlock) bool { return nilEdge[[2]*ssa.BasicBlock{from, to}] }
					if bad := mustFollowE(f, isA, isB, okEdge); len(bad) > 0 {
						obs = append(obs, Ob{Key: key, Site: c.Pos(call.Pos()), Verdict: VIOLATION,
							Note: "scope created with a parent but some path to the return of " + f.Name() + " does not register it with parent.AppendSubScope: its subtree is invisible to outline / symbol / position lookups"})
					} else {
						obs = append(obs, Ob{Key: key, Site: c.Pos(call.Pos()), Verdict: OK})
					}
				}
			}
		}
		c.Stats["scope_creation_sites"] = n
		obs = append(obs, floor("SCOPE/S4-tree-registration", "CreateScopeInfo call sites", n, 7))
		return obs
	},
}

// ---------------------------------------------------------------------------------------------
// S5: lookups in the enclosing blocks walk the Parent chain, own scope first

var ruleScopeS5 = &Rule{
	Name:    "SCOPE/S5-lexical-lookup",
	NeedSSA: true,
	Text:    "every method of ScopeInfo that continues its search in the enclosing block (a self-recursive call on its own receiver's Parent) does so only on Parent (never on a sibling or child scope), passes its remaining parameters on unchanged, and — when it searches a table of its receiver (LocVarMap, NotVarMap, MidNotVarMap) — consults that table before it recurses: the nearest enclosing declaration wins, sibling blocks are never searched (lexical scoping of definition, completion candidates and the walker's own name resolution)",
	Run: func(c *Ctx) []Ob {
		var obs []Ob
		commonPkgP := modPath + "/langserver/check/common"
		n := 0
		for _, f := range c.ModFns() {
			if f.Signature.Recv() == nil || len(f.Params) == 0 {
				continue
			}
			if p, nm := namedPkgName(f.Signature.Recv().Type()); p != commonPkgP || nm != "ScopeInfo" {
				continue
			}
			recv := f.Params[0]
			var recCalls []*ssa.Call
			for _, b := range f.Blocks {
				for _, ins := range b.Instrs {
					if call, ok := ins.(*ssa.Call); ok && call.Call.StaticCallee() == f {
						recCalls = append(recCalls, call)
					}
				}
			}
			isParent := func(v ssa.Value) bool {
				ld, ok := canon(v).(*ssa.UnOp)
				if !ok {
					return false
				}
				fa, ok := ld.X.(*ssa.FieldAddr)
				return ok && canon(fa.X) == ssa.Value(recv) && fieldOf(fa).Name() == "Parent"
			}
			up := false
			for _, rc := range recCalls {
				if isParent(rc.Call.Args[0]) {
					up = true
				}
			}
			if !up {
				continue // not an upward lookup (sub-tree traversals are not lookups)
			}
			n++
			// tables of the receiver searched by this method
			isTableRead := func(ins ssa.Instruction) bool {
				var m ssa.Value
				switch x := ins.(type) {
				case *ssa.Lookup:
					m = x.X
				case *ssa.Range:
					m = x.X
				default:
					return false
				}
				ld, ok := m.(*ssa.UnOp)
				if !ok {
					return false
				}
				fa, ok := ld.X.(*ssa.FieldAddr)
				if !ok || canon(fa.X) != ssa.Value(recv) {
					return false
				}
				_, isMap := types.Unalias(fieldOf(fa).Type()).Underlying().(*types.Map)
				return isMap
			}
			searches := false
			for _, b := range f.Blocks {
				for _, ins := range b.Instrs {
					if isTableRead(ins) {
						searches = true
					}
				}
			}
			for i, rc := range recCalls {
				key := fmt.Sprintf("SCOPE/S5:%s#%d", f.Name(), i+1)
				why := ""
				if !isParent(rc.Call.Args[0]) {
					why = "a method that searches the enclosing blocks also recurses into " + describeValue(rc.Call.Args[0]) + ", which is not its receiver's Parent"
				}
				for j := 1; j < len(rc.Call.Args) && why == ""; j++ {
					if canon(rc.Call.Args[j]) != ssa.Value(f.Params[j]) {
						why = fmt.Sprintf("parameter %s is not passed on unchanged to the enclosing scope", f.Params[j].Name())
					}
				}
				if why == "" && searches {
					target := rc
					if bad := mustPrecede(f, isTableRead, func(ins ssa.Instruction) bool { return ins == ssa.Instruction(target) }); len(bad) > 0 {
						why = "the enclosing scope is consulted on a path that has not searched the receiver's own table first (an outer declaration would shadow an inner one)"
					}
				}
				if why == "" {
					obs = append(obs, Ob{Key: key, Site: c.Pos(rc.Pos()), Verdict: OK})
				} else {
					obs = append(obs, Ob{Key: key, Site: c.Pos(rc.Pos()), Verdict: VIOLATION, Note: f.Name() + ": " + why})
				}
			}
		}
		c.Stats["scope_lookup_methods"] = n
		obs = append(obs, floor("SCOPE/S5-lexical-lookup", "upward-recursive lookup methods of ScopeInfo", n, 4))
		return obs
	},
}

// ---------------------------------------------------------------------------------------------
// COMPL: local completion candidates are position-filtered

var ruleComplDeclBefore = &Rule{
	Name:    "COMPL/declared-before-cursor",
	NeedSSA: true,
	Text:    "in the method of ScopeInfo that offers the locals of a scope chain as completion candidates (it ranges over LocVarMap and passes an element of VarVec to a CompleteCache insert method), every such insert is dominated by a comparison between the candidate's own Loc.StartLine and the cursor location parameter's StartLine: a local declared after the cursor is never offered. Together with SCOPE/S5 (only enclosing blocks are searched) this is the structural half of `no local that is declared later or in a block that does not enclose the cursor`",
	Run: func(c *Ctx) []Ob {
		var obs []Ob
		commonPkgP := modPath + "/langserver/check/common"
		n := 0
		for _, f := range c.ModFns() {
			if f.Signature.Recv() == nil || len(f.Params) == 0 {
				continue
			}
			if p, nm := namedPkgName(f.Signature.Recv().Type()); p != commonPkgP || nm != "ScopeInfo" {
				continue
			}
			// cursor parameter: a lexer.Location parameter
			var locParam *ssa.Parameter
			for _, p := range f.Params {
				if pp, nm := namedPkgName(p.Type()); pp == lexerPkgPath && nm == "Location" {
					locParam = p
				}
			}
			if locParam == nil {
				continue
			}
			cnt := 0
			for _, b := range f.Blocks {
				for _, ins := range b.Instrs {
					call, ok := ins.(*ssa.Call)
					if !ok {
						continue
					}
					sc := call.Call.StaticCallee()
					if sc == nil || sc.Signature.Recv() == nil || namedName(sc.Signature.Recv().Type()) != "CompleteCache" || !strings.HasPrefix(sc.Name(), "Insert") {
						continue
					}
					// the candidate: a *VarInfo argument
					var cand ssa.Value
					for _, a := range call.Call.Args[1:] {
						if namedName(a.Type()) == "VarInfo" {
							cand = a
						}
					}
					if cand == nil {
						continue
					}
					n++
					cnt++
					key := fmt.Sprintf("COMPL:%s#%d", f.Name(), cnt)
					guardOK := func(b0 *ssa.BasicBlock, pc, pl string) bool {
						for d := b0; d != nil; d = d.Idom() {
							iff, ok := d.Instrs[len(d.Instrs)-1].(*ssa.If)
							if !ok || d == b0 {
								continue
							}
							bo, ok := iff.Cond.(*ssa.BinOp)
							if !ok {
								continue
							}
							switch bo.Op {
							case token.LSS, token.GTR, token.LEQ, token.GEQ:
							default:
								continue
							}
							x, y := apath(bo.X, 0), apath(bo.Y, 0)
							isCand := func(s string) bool {
								return strings.Contains(s, strings.TrimPrefix(pc, "*")) && strings.HasSuffix(s, ".Loc.StartLine")
							}
							isCur := func(s string) bool { return strings.Contains(s, pl) && strings.HasSuffix(s, ".StartLine") && !strings.Contains(s, ".Loc.") }
							if (isCand(x) && isCur(y)) || (isCand(y) && isCur(x)) {
								return true
							}
						}
						return false
					}
					okG := guardOK(b, apath(cand, 0), strings.TrimPrefix(apath(locParam, 0), "*"))
					if !okG {
						// the candidate is chosen by a private helper that is given the cursor location
						// (findLastVarStartedBefore(list, loc)): every candidate it returns is position-filtered there
						if ex, ok := cand.(*ssa.Extract); ok {
							if hc, ok := ex.Tuple.(*ssa.Call); ok {
								if h := hc.Call.StaticCallee(); h != nil && h.Blocks != nil && c.IsModFn(h) {
									var hLoc *ssa.Parameter
									for i, a := range hc.Call.Args {
										if a == ssa.Value(locParam) && i < len(h.Params) {
											hLoc = h.Params[i]
										}
									}
									if hLoc != nil {
										all, nRet := true, 0
										for _, hb := range h.Blocks {
											ret, ok := hb.Instrs[len(hb.Instrs)-1].(*ssa.Return)
											if !ok || ex.Index >= len(ret.Results) {
												continue
											}
											rv := ret.Results[ex.Index]
											if k, ok := rv.(*ssa.Const); ok && k.IsNil() {
												continue
											}
											nRet++
											if !guardOK(hb, apath(rv, 0), strings.TrimPrefix(apath(hLoc, 0), "*")) {
												all = false
											}
										}
										okG = all && nRet > 0
									}
								}
							}
						}
					}
					if okG {
						obs = append(obs, Ob{Key: key, Site: c.Pos(call.Pos()), Verdict: OK})
					} else {
						obs = append(obs, Ob{Key: key, Site: c.Pos(call.Pos()), Verdict: VIOLATION,
							Note: "a local is offered as completion candidate without a dominating comparison of its declaration line with the cursor line: locals declared after the cursor are offered"})
					}
				}
			}
		}
		obs = append(obs, floor("COMPL/declared-before-cursor", "local completion inserts with a cursor parameter", n, 1))
		return obs
	},
}

// storesLoopHead: f stores VarInfo.LoopHeadLoc (the declared loop variables know where their loop's header is)
func storesLoopHead(f *ssa.Function) bool {
	for _, b := range f.Blocks {
		for _, ins := range b.Instrs {
			if st, ok := ins.(*ssa.Store); ok {
				if fa, ok := st.Addr.(*ssa.FieldAddr); ok && fieldName(fa.X.Type(), fa.Field) == "LoopHeadLoc" {
					return true
				}
			}
		}
	}
	return false
}
