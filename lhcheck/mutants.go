package main

import (
	"encoding/json"
	"fmt"
	"os"
	"os/exec"
	"path/filepath"
	"sort"
	"strings"
	"sync"
)

// A mutant is a scripted edit of one target file, applied in memory (packages overlay) on top of
// /repo's current working tree. It exercises the CHECKER: the rule under test must report a new
// violation whose key contains Expect. A mutant whose Find text is not present (the tree changed)
// is skipped, never failed: the verdict on the property comes from the rules, not from this self-test.
type mutant struct {
	ID       string   `json:"id"`
	Props    []string `json:"properties"`
	File     string   `json:"file"` // relative to the repository root
	Find     string   `json:"find"`
	Replace  string   `json:"replace"`
	Find2    string   `json:"find2,omitempty"` // optional second edit in the same file
	Replace2 string   `json:"replace2,omitempty"`
	FileB    string   `json:"file_b,omitempty"` // optional edit in a second file (e.g. a struct field the first edit uses)
	FindB    string   `json:"find_b,omitempty"`
	ReplaceB string   `json:"replace_b,omitempty"`
	Expect   string   `json:"expect"` // substring of the violation key that must appear
	What     string   `json:"what"`
}

func loadMutants(vdir string) ([]mutant, error) {
	b, err := os.ReadFile(filepath.Join(vdir, "mutants.json"))
	if err != nil {
		return nil, err
	}
	var ms []mutant
	if err := json.Unmarshal(b, &ms); err != nil {
		return nil, err
	}
	return ms, nil
}

type mutantResult struct {
	ID     string `json:"id"`
	Status string `json:"status"` // killed | survived | skipped | broken
	Detail string `json:"detail,omitempty"`
}

// runMutantChild: executed in a sub-process (`lhcheck -mutant ID -property P`): applies the overlay,
// runs the property's rules and prints the violation keys.
func runMutantChild(spec *propSpec, repo string, m mutant) int {
	path := filepath.Join(repo, m.File)
	src, err := os.ReadFile(path)
	if err != nil {
		fmt.Println("MUTANT-SKIP cannot read", m.File)
		return 0
	}
	if strings.Count(string(src), m.Find) != 1 {
		fmt.Printf("MUTANT-SKIP find text occurs %d times in %s\n", strings.Count(string(src), m.Find), m.File)
		return 0
	}
	text := strings.Replace(string(src), m.Find, m.Replace, 1)
	if m.Find2 != "" {
		if strings.Count(text, m.Find2) != 1 {
			fmt.Printf("MUTANT-SKIP second find text occurs %d times in %s\n", strings.Count(text, m.Find2), m.File)
			return 0
		}
		text = strings.Replace(text, m.Find2, m.Replace2, 1)
	}
	overlayFiles = map[string][]byte{path: []byte(text)}
	if m.FileB != "" {
		pathB := filepath.Join(repo, m.FileB)
		srcB, err := os.ReadFile(pathB)
		if err != nil || strings.Count(string(srcB), m.FindB) != 1 {
			fmt.Printf("MUTANT-SKIP second file %s: find text not present exactly once\n", m.FileB)
			return 0
		}
		overlayFiles[pathB] = []byte(strings.Replace(string(srcB), m.FindB, m.ReplaceB, 1))
	}
	needSSA := false
	for _, r := range spec.Rules {
		if r.NeedSSA {
			needSSA = true
		}
	}
	c, err := Load(repo, "quick", needSSA)
	if err != nil {
		fmt.Println("MUTANT-BROKEN", strings.Split(err.Error(), "\n")[0])
		return 0
	}
	for _, r := range spec.Rules {
		func() {
			defer func() {
				if rec := recover(); rec != nil {
					fmt.Println("MUTANT-KEY", r.Name+":panic")
				}
			}()
			for _, o := range r.Run(c) {
				if o.Verdict != OK {
					fmt.Println("MUTANT-KEY", o.Key)
				}
			}
		}()
	}
	return 0
}

// selfValidate runs every mutant of the property (≤ 4 sub-processes at a time) and compares the
// violation keys with the unmutated baseline.
func selfValidate(spec *propSpec, repo, vdir string, baseline map[string]bool) ([]mutantResult, error) {
	ms, err := loadMutants(vdir)
	if err != nil {
		return nil, err
	}
	var mine []mutant
	for _, m := range ms {
		for _, p := range m.Props {
			if p == spec.ID {
				mine = append(mine, m)
			}
		}
	}
	exe, _ := os.Executable()
	res := make([]mutantResult, len(mine))
	sem := make(chan struct{}, 4)
	var wg sync.WaitGroup
	for i, m := range mine {
		wg.Add(1)
		go func(i int, m mutant) {
			defer wg.Done()
			sem <- struct{}{}
			defer func() { <-sem }()
			cmd := exec.Command(exe, "-property", spec.ID, "-repo", repo, "-mutant", m.ID)
			cmd.Env = append(os.Environ(), "LH_VERIF="+vdir)
			out, _ := cmd.CombinedOutput()
			r := mutantResult{ID: m.ID}
			var newKeys []string
			for _, line := range strings.Split(string(out), "\n") {
				switch {
				case strings.HasPrefix(line, "MUTANT-SKIP"):
					r.Status, r.Detail = "skipped", strings.TrimPrefix(line, "MUTANT-SKIP ")
				case strings.HasPrefix(line, "MUTANT-BROKEN"):
					r.Status, r.Detail = "broken", strings.TrimPrefix(line, "MUTANT-BROKEN ")
				case strings.HasPrefix(line, "MUTANT-KEY "):
					k := strings.TrimPrefix(line, "MUTANT-KEY ")
					if !baseline[k] {
						newKeys = append(newKeys, k)
					}
				}
			}
			if r.Status == "" {
				sort.Strings(newKeys)
				hit := false
				for _, k := range newKeys {
					if strings.Contains(k, m.Expect) {
						hit = true
					}
				}
				if hit {
					r.Status, r.Detail = "killed", strings.Join(newKeys, "; ")
				} else {
					r.Status, r.Detail = "survived", "new keys: "+strings.Join(newKeys, "; ")
				}
			}
			res[i] = r
		}(i, m)
	}
	wg.Wait()
	return res, nil
}
