package main

// DET engine (C09): order-dependent selections.
//
// Sources of an unspecified order:
//   S1  range over a Go map (hash order, randomised per run);
//   S2  the receive loop of a worker pool (results arrive in completion order: scheduling, GOMAXPROCS);
//       includes `for x := range ch` fed by several goroutines (directory walk);
//   S3  (derived) a loop over a slice that was filled, unsorted, inside an S1/S2/S3 loop.
// A result is a function of the workspace only if nothing is SELECTED by that order. The engine
// enumerates every source loop and every way a value chosen by the iteration order can leave it:
//   first-match   an early exit (return / break) carrying an element-dependent value;
//   last-wins     a variable assigned an element-dependent value and live after the loop;
//   arg-max       the same, conditional on a comparison (ties are broken by the order);
//   partial       an early exit from a loop that accumulates (which elements were seen depends on order);
//   index         a constant index / truncating slice of an order-tainted slice.
// Commutative effects (map inserts, counters, monotone flags, appends that are sorted before they leave
// the function, appends whose consumers treat the list as a set) are not selections.

import (
	"fmt"
	"go/constant"
	"go/token"
	"go/types"
	"sort"
	"strings"

	"golang.org/x/tools/go/ssa"
)

type orderLoop struct {
	f      *ssa.Function
	header *ssa.BasicBlock
	body   map[*ssa.BasicBlock]bool
	roots  map[ssa.Value]bool // values that ARE the current element (Next tuple, received value, X[i])
	kind   string             // "map", "pool", "chan", "tainted-slice"
	src    string
	pos    token.Pos
}

func (l *orderLoop) dep(v ssa.Value) bool { return l.depR(v, map[ssa.Value]bool{}, 0) }

func (l *orderLoop) depR(v ssa.Value, seen map[ssa.Value]bool, d int) bool {
	if v == nil || d > 14 || seen[v] {
		return false
	}
	seen[v] = true
	if l.roots[v] {
		return true
	}
	if al, ok := v.(*ssa.Alloc); ok {
		// a local variable (or a variadic argument array): element-dependent if it is assigned an
		// element-dependent value inside the loop
		if refs := al.Referrers(); refs != nil {
			for _, r := range *refs {
				switch y := r.(type) {
				case *ssa.Store:
					if y.Addr == ssa.Value(al) && l.body[y.Block()] && l.depR(y.Val, seen, d+1) {
						return true
					}
				case *ssa.IndexAddr, *ssa.FieldAddr:
					if rr := y.(ssa.Value).Referrers(); rr != nil {
						for _, u := range *rr {
							if st, ok := u.(*ssa.Store); ok && st.Addr == y.(ssa.Value) && l.body[st.Block()] && l.depR(st.Val, seen, d+1) {
								return true
							}
						}
					}
				}
			}
		}
		return false
	}
	ins, ok := v.(ssa.Instruction)
	if !ok || !l.body[ins.Block()] {
		return false
	}
	if _, isPhi := v.(*ssa.Phi); isPhi && ins.Block() == l.header {
		return false // loop-carried state is judged separately
	}
	for _, op := range ins.Operands(nil) {
		if *op != nil && l.depR(*op, seen, d+1) {
			return true
		}
	}
	if u, ok := v.(*ssa.UnOp); ok && u.Op == token.MUL {
		if al, ok := u.X.(*ssa.Alloc); ok {
			if refs := al.Referrers(); refs != nil {
				for _, r := range *refs {
					if st, ok := r.(*ssa.Store); ok && st.Addr == ssa.Value(al) && l.body[st.Block()] && l.depR(st.Val, seen, d+1) {
						return true
					}
				}
			}
		}
	}
	return false
}

// ---------------------------------------------------------------------------------------------
// slice groups: SSA values that denote "the same slice variable" within a function

type sliceGroups struct {
	parent map[ssa.Value]ssa.Value
}

func (g *sliceGroups) find(v ssa.Value) ssa.Value {
	p, ok := g.parent[v]
	if !ok || p == v {
		g.parent[v] = v
		return v
	}
	r := g.find(p)
	g.parent[v] = r
	return r
}
func (g *sliceGroups) union(a, b ssa.Value) {
	ra, rb := g.find(a), g.find(b)
	if ra != rb {
		g.parent[ra] = rb
	}
}

func isSliceT(t types.Type) bool {
	_, ok := types.Unalias(t).Underlying().(*types.Slice)
	return ok
}

func appendCall(v ssa.Value) *ssa.Call {
	call, ok := v.(*ssa.Call)
	if !ok {
		return nil
	}
	if bi, ok := call.Call.Value.(*ssa.Builtin); ok && bi.Name() == "append" {
		return call
	}
	return nil
}

func groupsOf(f *ssa.Function) *sliceGroups {
	g := &sliceGroups{parent: map[ssa.Value]ssa.Value{}}
	for _, b := range f.Blocks {
		for _, ins := range b.Instrs {
			switch x := ins.(type) {
			case *ssa.Phi:
				if isSliceT(x.Type()) {
					for _, e := range x.Edges {
						if _, isC := e.(*ssa.Const); !isC {
							g.union(x, e)
						}
					}
				}
			case *ssa.Call:
				if ac := appendCall(x); ac != nil {
					if _, isC := ac.Call.Args[0].(*ssa.Const); !isC {
						g.union(x, ac.Call.Args[0])
					}
				}
			case *ssa.Slice:
				if isSliceT(x.Type()) && isSliceT(x.X.Type()) {
					g.union(x, x.X)
				}
			case *ssa.Store:
				// through a local (non-lifted) variable or a field: the address is the identity
				if isSliceT(x.Val.Type()) {
					if _, isC := x.Val.(*ssa.Const); !isC {
						g.union(x.Val, addrIdentity(x.Addr))
					}
				}
			case *ssa.UnOp:
				if x.Op == token.MUL && isSliceT(x.Type()) {
					g.union(x, addrIdentity(x.X))
				}
			case *ssa.ChangeType:
				if isSliceT(x.Type()) {
					g.union(x, x.X)
				}
			}
		}
	}
	return g
}

// addrIdentity: canonical value standing for the variable behind an address (Alloc itself; for a field
// address, the first FieldAddr instruction with the same base+field in the function is not tracked — fields
// are handled by the field-taint table instead, so each FieldAddr is its own identity).
func addrIdentity(a ssa.Value) ssa.Value { return a }

// fslot: a struct field qualified by the container field through which its owner object was reached
// ("GlobalVarMaps/VarVec" vs "LocVarMap/VarVec"): the same struct type is used for lists that are filled in
// source order and lists that are filled in map order.
type fslot string

func slotLabel(s fslot) string { return string(s) }

// outersOf: names of the container fields (maps / slices held in a struct field) from which the object
// v points to was fetched; "" when it is not fetched from a container in this function
func outersOf(v ssa.Value, seen map[ssa.Value]bool, d int) []string {
	if v == nil || d > 7 || seen[v] {
		return nil
	}
	seen[v] = true
	contOf := func(m ssa.Value) []string {
		if ld, ok := m.(*ssa.UnOp); ok && ld.Op == token.MUL {
			if fa, ok := ld.X.(*ssa.FieldAddr); ok {
				return []string{fieldOf(fa).Name()}
			}
		}
		if ph, ok := m.(*ssa.Phi); ok {
			var out []string
			for _, e := range ph.Edges {
				if ld, ok := e.(*ssa.UnOp); ok && ld.Op == token.MUL {
					if fa, ok := ld.X.(*ssa.FieldAddr); ok {
						out = append(out, fieldOf(fa).Name())
					}
				}
			}
			return out
		}
		return nil
	}
	switch x := v.(type) {
	case *ssa.Lookup:
		if c := contOf(x.X); len(c) > 0 {
			return c
		}
		return []string{""}
	case *ssa.Extract:
		return outersOf(x.Tuple, seen, d+1)
	case *ssa.UnOp:
		if x.Op == token.MUL {
			switch y := x.X.(type) {
			case *ssa.IndexAddr:
				if c := contOf(y.X); len(c) > 0 {
					return c
				}
				return []string{""}
			case *ssa.Alloc:
				return outersOf(y, seen, d+1)
			}
		}
		return []string{""}
	case *ssa.Alloc:
		var out []string
		if refs := x.Referrers(); refs != nil {
			for _, r := range *refs {
				if st, ok := r.(*ssa.Store); ok && st.Addr == ssa.Value(x) {
					out = append(out, outersOf(st.Val, seen, d+1)...)
				}
			}
		}
		if len(out) == 0 {
			return []string{""}
		}
		return out
	case *ssa.Phi:
		var out []string
		for _, e := range x.Edges {
			if k, ok := e.(*ssa.Const); ok && k.IsNil() {
				continue
			}
			out = append(out, outersOf(e, seen, d+1)...)
		}
		if len(out) == 0 {
			return []string{""}
		}
		return out
	}
	return []string{""}
}

// slotsOfAddr: the qualified slots behind a field address
func slotsOfAddr(a ssa.Value) []fslot {
	fa, ok := a.(*ssa.FieldAddr)
	if !ok {
		return nil
	}
	fk := fieldKey(fieldOf(fa))
	uniq := map[fslot]bool{}
	var out []fslot
	for _, o := range outersOf(fa.X, map[ssa.Value]bool{}, 0) {
		s := fslot(o + "/" + fieldOf(fa).Name() + "#" + fk)
		if !uniq[s] {
			uniq[s] = true
			out = append(out, s)
		}
	}
	sort.Slice(out, func(i, j int) bool { return out[i] < out[j] })
	return out
}

func slotShort(s fslot) string {
	x := string(s)
	if i := strings.Index(x, "#"); i >= 0 {
		x = x[:i]
	}
	return strings.TrimPrefix(x, "/")
}

// fieldOfAddr: the struct field behind an address (x.F or &x.F), else nil
func fieldOfAddr(a ssa.Value) *types.Var {
	if fa, ok := a.(*ssa.FieldAddr); ok {
		return fieldOf(fa)
	}
	return nil
}

// ---------------------------------------------------------------------------------------------
// sort recognition

// sortedFieldsOf: fields (slices) permuted by the Swap method of type t (sort.Interface implementations)
func sortedFieldsOf(c *Ctx, t types.Type) []*types.Var {
	mset := c.Prog.MethodSets.MethodSet(t)
	sel := mset.Lookup(nil, "Swap")
	if sel == nil {
		for i := 0; i < mset.Len(); i++ {
			if mset.At(i).Obj().Name() == "Swap" {
				sel = mset.At(i)
			}
		}
	}
	if sel == nil {
		return nil
	}
	fn := c.Prog.MethodValue(sel)
	if fn == nil {
		return nil
	}
	var out []*types.Var
	for _, b := range fn.Blocks {
		for _, ins := range b.Instrs {
			if fa, ok := ins.(*ssa.FieldAddr); ok && isSliceT(fieldOf(fa).Type()) {
				out = append(out, fieldOf(fa))
			}
		}
	}
	return out
}

// singleKeyLess: the comparator orders by one key only (one ordering comparison, no tie-break): elements with
// equal keys keep an order that depends on the input order (sort.Sort is not stable, and a stable sort would
// preserve the unspecified input order)
func singleKeyLess(fn *ssa.Function) bool {
	if fn == nil || fn.Blocks == nil {
		return false
	}
	cmp := 0
	for _, b := range fn.Blocks {
		for _, ins := range b.Instrs {
			if bo, ok := ins.(*ssa.BinOp); ok {
				switch bo.Op {
				case token.LSS, token.GTR, token.LEQ, token.GEQ, token.EQL, token.NEQ:
					cmp++
				}
			}
			if call, ok := ins.(*ssa.Call); ok {
				if sc := call.Call.StaticCallee(); sc != nil && sc.Blocks != nil {
					cmp += 2 // delegates to another comparison: assume a composite order
				}
			}
		}
	}
	return cmp <= 1
}

func lessOf(c *Ctx, t types.Type) *ssa.Function {
	mset := c.Prog.MethodSets.MethodSet(t)
	for i := 0; i < mset.Len(); i++ {
		if mset.At(i).Obj().Name() == "Less" {
			return c.Prog.MethodValue(mset.At(i))
		}
	}
	return nil
}

type sortCall struct {
	ins    ssa.Instruction
	direct ssa.Value    // slice value sorted directly (sort.Strings(x), sort.Slice(x, …))
	fields []*types.Var // fields sorted through a sort.Interface wrapper
	wrap   ssa.Value    // the wrapper object (pointer) for sort.Sort(w)
}

func sortCallsOf(c *Ctx, f *ssa.Function) []sortCall {
	var out []sortCall
	for _, b := range f.Blocks {
		for _, ins := range b.Instrs {
			call, ok := ins.(*ssa.Call)
			if !ok {
				continue
			}
			sc := call.Call.StaticCallee()
			if sc == nil || sc.Pkg == nil || sc.Pkg.Pkg.Path() != "sort" || len(call.Call.Args) == 0 {
				continue
			}
			arg := call.Call.Args[0]
			switch sc.Name() {
			case "Strings", "Ints", "Float64s":
				out = append(out, sortCall{ins: ins, direct: arg})
			case "Slice", "SliceStable":
				if len(call.Call.Args) > 1 {
					if mc, ok := call.Call.Args[1].(*ssa.MakeClosure); ok {
						if lf, ok := mc.Fn.(*ssa.Function); ok && singleKeyLess(lf) {
							continue // partial order: does not make the slice's order a function of its content
						}
					}
				}
				out = append(out, sortCall{ins: ins, direct: unwrapIface(arg)})
			case "Sort", "Stable":
				w := unwrapIface(arg)
				if singleKeyLess(lessOf(c, w.Type())) {
					continue
				}
				if isSliceT(w.Type()) {
					// a named slice type that implements sort.Interface itself: the slice value is sorted directly
					out = append(out, sortCall{ins: ins, direct: w})
					continue
				}
				out = append(out, sortCall{ins: ins, wrap: w, fields: sortedFieldsOf(c, w.Type())})
			}
		}
	}
	return out
}

// ---------------------------------------------------------------------------------------------
// the engine

type detSite struct {
	key  string
	kind string
	pos  token.Pos
	note string
}

type detEngine struct {
	c            *Ctx
	putM         map[*ssa.Function][2]int // keyed-store methods: parameter indices of key and value
	loops        []*orderLoop
	sites        []detSite
	taintedField map[fslot]string // qualified field -> where it was filled in unspecified order
	taintedRet   map[*ssa.Function]string
	groups       map[*ssa.Function]*sliceGroups
	sorts        map[*ssa.Function][]sortCall
	appendTarget map[*ssa.Function]map[fslot]int
	appendKey    map[*ssa.Function]map[fslot]int // parameter used as the map key that selects the target list (-1: none)
	appendsTo    map[*ssa.Function]map[fslot]bool // summary: fields the function (transitively) appends parameter-derived data to
	nLoops       map[string]int
	cleanField   map[*types.Var]string // fields sorted by their owner after every fill (reason)
}

func newDetEngine(c *Ctx) *detEngine {
	return &detEngine{c: c, taintedField: map[fslot]string{}, taintedRet: map[*ssa.Function]string{},
		groups: map[*ssa.Function]*sliceGroups{}, sorts: map[*ssa.Function][]sortCall{}, nLoops: map[string]int{}, cleanField: map[*types.Var]string{}}
}

func (e *detEngine) grp(f *ssa.Function) *sliceGroups {
	if g, ok := e.groups[f]; ok {
		return g
	}
	g := groupsOf(f)
	e.groups[f] = g
	e.sorts[f] = sortCallsOf(e.c, f)
	return g
}

func fieldKey(v *types.Var) string {
	if v == nil {
		return "?"
	}
	return v.Pkg().Name() + "." + v.Name() + "@" + fmt.Sprint(v.Pos())
}

func fieldLabel(c *Ctx, v *types.Var) string {
	// owner type name is not recorded on types.Var: use declaration position's file base + name
	p := c.Pos(v.Pos())
	if i := strings.LastIndex(p, "/"); i >= 0 {
		p = p[i+1:]
	}
	if i := strings.Index(p, ":"); i >= 0 {
		p = p[:i]
	}
	return strings.TrimSuffix(p, ".go") + "." + v.Name()
}

// baseSources: S1 and S2 loops
func (e *detEngine) baseSources() {
	c := e.c
	for _, ml := range mapRangeLoops(c) {
		l := &orderLoop{f: ml.f, header: ml.header, body: ml.body, roots: map[ssa.Value]bool{ml.next: true}, kind: "map",
			src: "range over map " + describeValue(ml.rng.X), pos: ml.rng.Pos()}
		e.loops = append(e.loops, l)
	}
	for _, f := range c.ModFns() {
		loops := loopsOf(f)
		if len(loops) == 0 {
			continue
		}
		hasGo := false
		for _, b := range f.Blocks {
			for _, ins := range b.Instrs {
				if _, ok := ins.(*ssa.Go); ok {
					hasGo = true
				}
			}
		}
		if !hasGo {
			continue
		}
		var hs []*ssa.BasicBlock
		for h := range loops {
			hs = append(hs, h)
		}
		sort.Slice(hs, func(i, j int) bool { return hs[i].Index < hs[j].Index })
		for _, h := range hs {
			body := loops[h]
			roots := map[ssa.Value]bool{}
			var pos token.Pos
			kind := ""
			for b := range body {
				for _, ins := range b.Instrs {
					switch x := ins.(type) {
					case *ssa.Call:
						if sc := x.Call.StaticCallee(); sc != nil && sc.Pkg != nil && sc.Pkg.Pkg.Path() == "reflect" && sc.Name() == "Select" {
							roots[x] = true
							pos, kind = x.Pos(), "pool"
						}
					case *ssa.UnOp:
						if x.Op == token.ARROW {
							roots[x] = true
							pos, kind = x.Pos(), "chan"
						}
					case *ssa.Select:
						roots[x] = true
						pos, kind = x.Pos(), "chan"
					}
				}
			}
			if len(roots) == 0 {
				continue
			}
			e.loops = append(e.loops, &orderLoop{f: f, header: h, body: body, roots: roots, kind: kind,
				src: "receive loop of the goroutines launched by " + f.Name() + " (completion order)", pos: pos})
		}
	}
}

// taintedLoops: loops that iterate a slice value belonging to a tainted group / field / call result
func (e *detEngine) taintedSliceLoops(f *ssa.Function, isTainted func(v ssa.Value) (string, bool), have map[string]bool) []*orderLoop {
	var out []*orderLoop
	loops := loopsOf(f)
	var hs []*ssa.BasicBlock
	for h := range loops {
		hs = append(hs, h)
	}
	sort.Slice(hs, func(i, j int) bool { return hs[i].Index < hs[j].Index })
	for _, h := range hs {
		body := loops[h]
		roots := map[ssa.Value]bool{}
		why := ""
		var pos token.Pos
		for b := range body {
			for _, ins := range b.Instrs {
				ia, ok := ins.(*ssa.IndexAddr)
				if !ok || !isSliceT(ia.X.Type()) {
					continue
				}
				if _, isC := ia.Index.(*ssa.Const); isC {
					continue
				}
				if w, ok := isTainted(ia.X); ok {
					// the index must vary with the loop (a phi of the header or derived from it)
					roots[ia] = true
					why, pos = w, ia.Pos()
				}
			}
		}
		if len(roots) == 0 {
			continue
		}
		k := fmt.Sprintf("%s@%d", fnKey(f), h.Index)
		if have[k] {
			continue
		}
		have[k] = true
		// element = load of the IndexAddr
		for r := range roots {
			if refs := r.Referrers(); refs != nil {
				for _, u := range *refs {
					if ld, ok := u.(*ssa.UnOp); ok && ld.Op == token.MUL {
						roots[ld] = true
					}
				}
			}
		}
		out = append(out, &orderLoop{f: f, header: h, body: body, roots: roots, kind: "tainted-slice", src: "loop over a slice filled in unspecified order (" + why + ")", pos: pos})
	}
	return out
}

// exits of a loop: edges body -> outside
func (l *orderLoop) exitEdges() [][2]*ssa.BasicBlock {
	var out [][2]*ssa.BasicBlock
	for b := range l.body {
		for _, s := range b.Succs {
			if !l.body[s] {
				out = append(out, [2]*ssa.BasicBlock{b, s})
			}
		}
	}
	sort.Slice(out, func(i, j int) bool { return out[i][0].Index < out[j][0].Index })
	return out
}

// direction of an index loop over a slice: "fwd" (index increases), "rev" (index decreases), "?" otherwise
func (l *orderLoop) direction() string {
	for r := range l.roots {
		ia, ok := r.(*ssa.IndexAddr)
		if !ok {
			continue
		}
		idx := ia.Index
		// index is a header phi (or derived from it by +0); find its increment edge
		var phi *ssa.Phi
		switch x := idx.(type) {
		case *ssa.Phi:
			phi = x
		case *ssa.BinOp:
			if p, ok := x.X.(*ssa.Phi); ok {
				phi = p
			}
		}
		if phi == nil {
			continue
		}
		for _, e := range phi.Edges {
			if bo, ok := e.(*ssa.BinOp); ok {
				if k, ok := bo.Y.(*ssa.Const); ok && k.Value != nil {
					switch {
					case bo.Op == token.ADD && k.Value.String() == "1":
						return "fwd"
					case bo.Op == token.SUB && k.Value.String() == "1":
						return "rev"
					case bo.Op == token.ADD && k.Value.String() == "-1":
						return "rev"
					}
				}
			}
		}
	}
	return "?"
}

// onlyLogged: every use of v (through interface conversions / variadic packing) ends in a call into the
// module's log package
func onlyLogged(v ssa.Value, d int) bool {
	refs := v.Referrers()
	if refs == nil || d > 8 {
		return false
	}
	n := 0
	for _, r := range *refs {
		switch x := r.(type) {
		case *ssa.DebugRef:
		case *ssa.MakeInterface:
			if !onlyLogged(x, d+1) {
				return false
			}
			n++
		case *ssa.FieldAddr, *ssa.Field, *ssa.UnOp, *ssa.Extract, *ssa.ChangeType, *ssa.Convert:
			if !onlyLogged(x.(ssa.Value), d+1) {
				return false
			}
			n++
		case *ssa.Store:
			// packed into the variadic array of a log call
			ia, ok := x.Addr.(*ssa.IndexAddr)
			if !ok {
				return false
			}
			al, ok := ia.X.(*ssa.Alloc)
			if !ok {
				return false
			}
			okAll := false
			if ar := al.Referrers(); ar != nil {
				for _, u := range *ar {
					if sl, ok := u.(*ssa.Slice); ok {
						if sr := sl.Referrers(); sr != nil {
							for _, uu := range *sr {
								if call, ok := uu.(*ssa.Call); ok {
									if sc := call.Call.StaticCallee(); sc != nil && sc.Pkg != nil && strings.HasSuffix(sc.Pkg.Pkg.Path(), "/log") {
										okAll = true
									} else {
										return false
									}
								}
							}
						}
					}
				}
			}
			if !okAll {
				return false
			}
			n++
		case *ssa.Call:
			if sc := x.Call.StaticCallee(); sc != nil && sc.Pkg != nil && strings.HasSuffix(sc.Pkg.Pkg.Path(), "/log") {
				n++
			} else {
				return false
			}
		default:
			return false
		}
	}
	return n > 0
}

// invariantExit: the branch that leaves the loop from block b tests a value that cannot change during the
// loop (a field of an object defined outside the loop that the loop body never stores to): the loop either
// stops at its first iteration or never — not a function of the order
func (l *orderLoop) invariantExit(b *ssa.BasicBlock) bool {
	iff, ok := b.Instrs[len(b.Instrs)-1].(*ssa.If)
	if !ok {
		return false
	}
	var inv func(v ssa.Value, d int) bool
	inv = func(v ssa.Value, d int) bool {
		if d > 5 {
			return false
		}
		switch x := v.(type) {
		case *ssa.Const, *ssa.Parameter, *ssa.FreeVar, *ssa.Global:
			return true
		case *ssa.UnOp:
			if x.Op == token.NOT {
				return inv(x.X, d+1)
			}
			if x.Op == token.MUL {
				fa, ok := x.X.(*ssa.FieldAddr)
				if !ok || !inv(fa.X, d+1) {
					return false
				}
				fv := fieldOf(fa)
				for bb := range l.body {
					for _, ins := range bb.Instrs {
						if st, ok := ins.(*ssa.Store); ok {
							if fa2, ok := st.Addr.(*ssa.FieldAddr); ok && fieldOf(fa2) == fv {
								return false
							}
						}
					}
				}
				return true
			}
		case *ssa.BinOp:
			return inv(x.X, d+1) && inv(x.Y, d+1)
		}
		if ins, ok := v.(ssa.Instruction); ok && !l.body[ins.Block()] {
			return true
		}
		return false
	}
	return inv(iff.Cond, 0)
}

// keyTieBreak: some branch condition inside the loop compares the (unique) map key with a loop-carried
// value by an ordering operator: an arg-max / arg-min whose ties are broken by the key is a total selection.
func (l *orderLoop) keyTieBreak() bool {
	var key ssa.Value
	for r := range l.roots {
		if refs := r.Referrers(); refs != nil {
			for _, u := range *refs {
				if ex, ok := u.(*ssa.Extract); ok && ex.Index == 1 { // Next yields (ok, key, value)
					key = ex
				}
			}
		}
	}
	if key == nil {
		return false
	}
	fromKey := func(v ssa.Value) bool {
		for i := 0; i < 4; i++ {
			if v == key {
				return true
			}
			switch x := v.(type) {
			case *ssa.ChangeType:
				v = x.X
			case *ssa.Convert:
				v = x.X
			default:
				return false
			}
		}
		return false
	}
	carried := func(v ssa.Value) bool {
		p, ok := v.(*ssa.Phi)
		return ok && p.Block() == l.header
	}
	for b := range l.body {
		for _, ins := range b.Instrs {
			bo, ok := ins.(*ssa.BinOp)
			if !ok {
				continue
			}
			switch bo.Op {
			case token.LSS, token.GTR, token.LEQ, token.GEQ:
				if (fromKey(bo.X) && carried(bo.Y)) || (fromKey(bo.Y) && carried(bo.X)) {
					return true
				}
			}
		}
	}
	return false
}

// perElementTarget: the slice v lives in the current element itself (elem.List) or in a map entry looked up
// with THIS loop's own (unique) key: each iteration then appends to a different list.
func (l *orderLoop) perElementTarget(v ssa.Value, d int) bool {
	if d > 8 || v == nil {
		return false
	}
	if l.roots[v] {
		return true
	}
	switch x := v.(type) {
	case *ssa.Extract:
		if l.roots[x.Tuple] {
			return l.kind != "map" || x.Index == 2 || x.Index == 1 // value or key of this loop's Next
		}
		return l.perElementTarget(x.Tuple, d+1)
	case *ssa.Lookup:
		if ex, ok := x.Index.(*ssa.Extract); ok && l.roots[ex.Tuple] && ex.Index == 1 {
			return true
		}
		return false
	case *ssa.UnOp:
		if x.Op == token.MUL {
			return l.perElementTarget(x.X, d+1)
		}
	case *ssa.FieldAddr:
		return l.perElementTarget(x.X, d+1)
	case *ssa.Field:
		return l.perElementTarget(x.X, d+1)
	case *ssa.IndexAddr:
		if l.roots[x] {
			return true
		}
		return false
	case *ssa.Alloc:
		// local copy: every store into it inside the loop must be per-element
		refs := x.Referrers()
		if refs == nil {
			return false
		}
		n := 0
		for _, r := range *refs {
			if st, ok := r.(*ssa.Store); ok && st.Addr == ssa.Value(x) {
				if !l.body[st.Block()] || !l.perElementTarget(st.Val, d+1) {
					return false
				}
				n++
			}
		}
		return n > 0
	case *ssa.Phi:
		if x.Block() == l.header {
			return false
		}
		for _, e := range x.Edges {
			if !l.perElementTarget(e, d+1) {
				return false
			}
		}
		return len(x.Edges) > 0
	}
	return false
}

// isOwnKey: v is the key of this map-range loop
// projectionOfElement: v is the current element or a field of it (read through field selections, type assertions and
// loads only): msg.strFile, msg.returnSecond
func (l *orderLoop) projectionOfElement(v ssa.Value, d int) bool {
	if v == nil || d > 8 {
		return false
	}
	if l.roots[v] {
		return true
	}
	switch x := v.(type) {
	case *ssa.Field:
		return l.projectionOfElement(x.X, d+1)
	case *ssa.FieldAddr:
		return l.projectionOfElement(x.X, d+1)
	case *ssa.UnOp:
		if x.Op == token.MUL {
			return l.projectionOfElement(x.X, d+1)
		}
	case *ssa.TypeAssert:
		return l.projectionOfElement(x.X, d+1)
	case *ssa.Extract:
		return l.projectionOfElement(x.Tuple, d+1)
	case *ssa.Call:
		// recv.Interface(): the value carried by a reflect.Select result
		if x.Call.IsInvoke() || len(x.Call.Args) == 0 {
			return false
		}
		if g := x.Call.StaticCallee(); g != nil && g.Pkg != nil && g.Pkg.Pkg.Path() == "reflect" && g.Name() == "Interface" {
			return l.projectionOfElement(x.Call.Args[0], d+1)
		}
	case *ssa.Alloc:
		// a local copy of the element (projectChan := recv.Interface().(T)): every store into it is a projection
		if refs := x.Referrers(); refs != nil {
			n := 0
			for _, r := range *refs {
				if st, ok := r.(*ssa.Store); ok && st.Addr == ssa.Value(x) {
					n++
					if !l.projectionOfElement(st.Val, d+1) {
						return false
					}
				}
			}
			return n > 0
		}
	}
	return false
}

func (l *orderLoop) isOwnKey(v ssa.Value) bool {
	ex, ok := v.(*ssa.Extract)
	return ok && l.roots[ex.Tuple] && ex.Index == 1
}

// readAfter: is the local variable behind al read in a block reachable from a loop exit?
func (l *orderLoop) readAfter(al *ssa.Alloc) bool {
	reach := map[*ssa.BasicBlock]bool{}
	var stack []*ssa.BasicBlock
	for _, ed := range l.exitEdges() {
		if !reach[ed[1]] {
			reach[ed[1]] = true
			stack = append(stack, ed[1])
		}
	}
	for len(stack) > 0 {
		b := stack[len(stack)-1]
		stack = stack[:len(stack)-1]
		for _, s := range b.Succs {
			if !reach[s] && !l.body[s] {
				reach[s] = true
				stack = append(stack, s)
			}
		}
	}
	refs := al.Referrers()
	if refs == nil {
		return false
	}
	for _, r := range *refs {
		if st, ok := r.(*ssa.Store); ok && st.Addr == ssa.Value(al) {
			continue
		}
		if _, ok := r.(*ssa.DebugRef); ok {
			continue
		}
		if reach[r.Block()] && !l.body[r.Block()] {
			return true
		}
	}
	return false
}

// naturalExit: the exit taken when the iteration is exhausted (from the header for map/slice loops)
func (l *orderLoop) naturalExitFrom(b *ssa.BasicBlock) bool {
	if b == l.header {
		return true
	}
	// map range: header holds Next, the `ok` test may sit in the header itself (it does in go/ssa)
	return false
}

func isConstOrNil(v ssa.Value) bool {
	_, ok := v.(*ssa.Const)
	return ok
}


// putMethods: functions that store one of their parameters into a map field of another parameter (usually the
// receiver) under a key that is a parameter too: obj.F[k] = v. Returns the parameter indices (key, value).
func (e *detEngine) putMethods() map[*ssa.Function][2]int {
	if e.putM != nil {
		return e.putM
	}
	e.putM = map[*ssa.Function][2]int{}
	for _, f := range e.c.ModFns() {
		if len(f.Params) < 3 {
			continue
		}
		pidx := func(v ssa.Value) int {
			for i, p := range f.Params {
				if ssa.Value(p) == v {
					return i
				}
			}
			return -1
		}
		for _, b := range f.Blocks {
			for _, ins := range b.Instrs {
				mu, ok := ins.(*ssa.MapUpdate)
				if !ok {
					continue
				}
				ld, ok := mu.Map.(*ssa.UnOp)
				if !ok || ld.Op != token.MUL {
					continue
				}
				fa, ok := ld.X.(*ssa.FieldAddr)
				if !ok || pidx(fa.X) < 0 {
					continue
				}
				k, v := pidx(mu.Key), pidx(mu.Value)
				if k >= 0 && v >= 0 {
					e.putM[f] = [2]int{k, v}
				}
			}
		}
	}
	return e.putM
}

// keyedWrites: (container object, key, value, position) of every keyed store executed in the loop body: a direct
// map update, or a call of a keyed-store method
func (e *detEngine) keyedWrites(l *orderLoop) [][4]interface{} {
	var out [][4]interface{}
	puts := e.putMethods()
	for b := range l.body {
		for _, ins := range b.Instrs {
			switch x := ins.(type) {
			case *ssa.MapUpdate:
				out = append(out, [4]interface{}{x.Map, x.Key, x.Value, x.Pos()})
			case *ssa.Call:
				if g := x.Call.StaticCallee(); g != nil {
					if kv, ok := puts[g]; ok && kv[0] < len(x.Call.Args) && kv[1] < len(x.Call.Args) {
						out = append(out, [4]interface{}{x.Call.Args[0], x.Call.Args[kv[0]], x.Call.Args[kv[1]], x.Pos()})
					}
				}
			}
		}
	}
	return out
}


// orderInsensitiveMerge: the value stored under the key is the entry's previous value merged with the element in a way
// that does not depend on the order of the elements, and the entry created for the first element of a key is brought
// to the same result by those merges:
//
//	if e, ok := m[k]; ok { e.List = append(e.List, x); if less(x.f, e.f) { e.f = x.f }; m[k] = e } else { m[k] = T{f: x.f, List: [x]} }
//
// read-modify-write: the stored struct local is initialised from m[k] (same map, same key) and changed only by appends
// to its slice fields (accumulation; the order of a list is not part of the answer, C09 "not covered") and by stores
// that sit behind a comparison involving the old value of the very field they overwrite (selection by a content
// order, min / max). creation: every field of the fresh struct that is set from the loop element is one the
// read-modify-write sibling of the same map and key merges in one of those two ways.
func (e *detEngine) orderInsensitiveMerge(l *orderLoop, obj, key, val ssa.Value) bool {
	structLocal := func(v ssa.Value) *ssa.Alloc {
		ld, ok := v.(*ssa.UnOp)
		if !ok || ld.Op != token.MUL {
			return nil
		}
		al, ok := ld.X.(*ssa.Alloc)
		if !ok {
			return nil
		}
		if _, isStruct := al.Type().Underlying().(*types.Pointer).Elem().Underlying().(*types.Struct); !isStruct {
			return nil
		}
		return al
	}
	// fields of the struct local al and how they are written: "append", "cmp" (compare-and-replace), "elem" (set from the
	// loop element, unconditionally), "other"
	fieldWrites := func(al *ssa.Alloc) (map[int]string, bool) {
		out := map[int]string{}
		fromEntry := false
		if al.Referrers() == nil {
			return out, false
		}
		for _, r := range *al.Referrers() {
			switch x := r.(type) {
			case *ssa.Store:
				if x.Addr == ssa.Value(al) {
					// whole-struct initialisation: from m[k]?
					v := x.Val
					if ex, ok := v.(*ssa.Extract); ok {
						v = ex.Tuple
					}
					if lk, ok := v.(*ssa.Lookup); ok && canon(lk.X) == canon(obj) && canon(lk.Index) == canon(key) {
						fromEntry = true
					}
				}
			case *ssa.FieldAddr:
				if x.Referrers() == nil {
					continue
				}
				for _, rr := range *x.Referrers() {
					st, ok := rr.(*ssa.Store)
					if !ok || st.Addr != ssa.Value(x) {
						continue
					}
					kind := "other"
					if appendCall(st.Val) != nil {
						kind = "append"
					} else {
						// behind a comparison that reads the old value of this field?
						for _, ed := range dominatingEdges(st.Block()) {
							var ops [8]*ssa.Value
							if ci, ok := ed.cond.(ssa.Instruction); ok {
								for _, op := range ci.Operands(ops[:0]) {
									if op == nil || *op == nil {
										continue
									}
									if ld, ok := (*op).(*ssa.UnOp); ok && ld.Op == token.MUL {
										if fa2, ok := ld.X.(*ssa.FieldAddr); ok && fa2.X == ssa.Value(al) && fa2.Field == x.Field {
											kind = "cmp"
										}
									}
									// struct field passed by value to a comparison method: IsBeforeLoc(symbols.Loc)
									if fv, ok := (*op).(*ssa.UnOp); ok && fv.Op == token.MUL {
										if fa2, ok := fv.X.(*ssa.FieldAddr); ok && fa2.X == ssa.Value(al) && fa2.Field == x.Field {
											kind = "cmp"
										}
									}
								}
							}
						}
						if kind == "other" && l.dep(st.Val) && canon(st.Val) != canon(key) {
							kind = "elem" // (the key itself is the same for every writer of this entry)
						}
					}
					if old, had := out[x.Field]; !had || old == "append" || kind == "other" || kind == "elem" {
						out[x.Field] = kind
					}
				}
			}
		}
		return out, fromEntry
	}
	al := structLocal(val)
	if al == nil {
		return false
	}
	w, fromEntry := fieldWrites(al)
	if fromEntry {
		for _, k := range w {
			if k != "append" && k != "cmp" {
				return false
			}
		}
		return true
	}
	// creation: find the read-modify-write sibling for the same map and key in this loop
	var sib map[int]string
	for _, w2 := range e.keyedWrites(l) {
		o2, k2, v2 := w2[0].(ssa.Value), w2[1].(ssa.Value), w2[2].(ssa.Value)
		if canon(o2) != canon(obj) || canon(k2) != canon(key) || v2 == val {
			continue
		}
		if al2 := structLocal(v2); al2 != nil {
			if ws, ok := fieldWrites(al2); ok {
				sib = ws
			}
		}
	}
	if sib == nil {
		return false
	}
	for f, k := range w {
		switch k {
		case "elem", "append":
			if sk := sib[f]; sk != "append" && sk != "cmp" {
				return false // set from the first element seen and never merged afterwards: first writer wins
			}
		case "other", "cmp":
			// not element-dependent (constants, values of the key) or itself guarded
		}
	}
	for _, sk := range sib {
		if sk != "append" && sk != "cmp" {
			return false
		}
	}
	return true
}

// lookedUpByOwnKey: obj is the result of a module function called with this loop's own key, and every pointer that
// function returns is read out of a map entry selected by that parameter (m[k], an element of m[k], a field of it):
// different keys of the loop give different containers
func (e *detEngine) lookedUpByOwnKey(l *orderLoop, obj ssa.Value) bool {
	v := obj
	if ex, ok := v.(*ssa.Extract); ok {
		v = ex.Tuple
	}
	call, ok := v.(*ssa.Call)
	if !ok {
		return false
	}
	g := call.Call.StaticCallee()
	if g == nil || g.Blocks == nil || !e.c.IsModFn(g) {
		return false
	}
	pj := -1
	for j, a := range call.Call.Args {
		if l.isOwnKey(a) {
			pj = j
		}
	}
	if pj < 0 || pj >= len(g.Params) {
		return false
	}
	par := g.Params[pj]
	var fromLookup func(v ssa.Value, d int) bool
	fromLookup = func(v ssa.Value, d int) bool {
		if d > 12 {
			return false
		}
		switch x := v.(type) {
		case *ssa.Lookup:
			return x.Index == ssa.Value(par)
		case *ssa.Extract:
			return fromLookup(x.Tuple, d+1)
		case *ssa.UnOp:
			if x.Op == token.MUL {
				return fromLookup(x.X, d+1)
			}
		case *ssa.IndexAddr:
			return fromLookup(x.X, d+1)
		case *ssa.FieldAddr:
			return fromLookup(x.X, d+1)
		case *ssa.Field:
			return fromLookup(x.X, d+1)
		case *ssa.Phi:
			for _, ed := range x.Edges {
				if c, isC := ed.(*ssa.Const); isC && c.IsNil() {
					continue
				}
				if !fromLookup(ed, d+1) {
					return false
				}
			}
			return len(x.Edges) > 0
		}
		return false
	}
	n := 0
	for _, b := range g.Blocks {
		ret, ok := b.Instrs[len(b.Instrs)-1].(*ssa.Return)
		if !ok {
			continue
		}
		for i := range ret.Results {
			r := retOperand(ret, i)
			if _, isPtr := r.Type().Underlying().(*types.Pointer); !isPtr {
				continue
			}
			if c, isC := r.(*ssa.Const); isC && c.IsNil() {
				continue
			}
			if !fromLookup(r, 0) {
				return false
			}
			n++
		}
	}
	return n > 0
}

// accumulates: does the loop body have effects that build up a result (append, map store, effectful call)?
func (e *detEngine) accumulates(l *orderLoop) bool {
	for b := range l.body {
		for _, ins := range b.Instrs {
			switch x := ins.(type) {
			case *ssa.MapUpdate:
				return true
			case *ssa.Call:
				if appendCall(x) != nil {
					return true
				}
				for _, cal := range e.calleesMod(x) {
					if len(e.appendsTo[cal]) > 0 {
						return true
					}
				}
			}
		}
	}
	return false
}

func (e *detEngine) calleesMod(ci ssa.CallInstruction) []*ssa.Function {
	if sc := ci.Common().StaticCallee(); sc != nil {
		if e.c.IsModFn(sc) {
			return []*ssa.Function{sc}
		}
		return nil
	}
	var out []*ssa.Function
	for _, f := range calleesOf(e.c.VTA(), ci) {
		if e.c.IsModFn(f) {
			out = append(out, f)
		}
	}
	return out
}

// computeAppendSummaries: fields to which a function appends PARAMETER-derived data on an object that
// itself is reached from one of its parameters / the receiver (a "collector" such as cache.Insert(x)). The
// summary records which parameter the target object comes from; wrappers that forward one of their own
// parameters as that target (and parameter-derived payload) are followed two levels.
func (e *detEngine) computeAppendSummaries() {
	e.appendsTo = map[*ssa.Function]map[fslot]bool{}
	e.appendTarget = map[*ssa.Function]map[fslot]int{}
	e.appendKey = map[*ssa.Function]map[fslot]int{}
	// keyParam: the object path of v passes through a map lookup whose key is (a copy of) parameter j
	var keyParam func(v ssa.Value, d int) int
	keyParam = func(v ssa.Value, d int) int {
		if v == nil || d > 8 {
			return -1
		}
		switch x := v.(type) {
		case *ssa.Lookup:
			if p, ok := x.Index.(*ssa.Parameter); ok {
				for i, pp := range p.Parent().Params {
					if pp == p {
						return i
					}
				}
			}
			return keyParam(x.X, d+1)
		case *ssa.UnOp:
			return keyParam(x.X, d+1)
		case *ssa.FieldAddr:
			return keyParam(x.X, d+1)
		case *ssa.Extract:
			return keyParam(x.Tuple, d+1)
		case *ssa.Phi:
			for _, ed := range x.Edges {
				if i := keyParam(ed, d+1); i >= 0 {
					return i
				}
			}
		case *ssa.Alloc:
			if refs := x.Referrers(); refs != nil {
				for _, r := range *refs {
					if st, ok := r.(*ssa.Store); ok && st.Addr == ssa.Value(x) {
						if i := keyParam(st.Val, d+1); i >= 0 {
							return i
						}
					}
				}
			}
		}
		return -1
	}
	// paramOf: index of the parameter v is derived from (through loads, field / element selection, lookups), -1 if none
	var paramOf func(v ssa.Value, seen map[ssa.Value]bool, d int) int
	paramOf = func(v ssa.Value, seen map[ssa.Value]bool, d int) int {
		if v == nil || d > 8 || seen[v] {
			return -1
		}
		seen[v] = true
		switch x := v.(type) {
		case *ssa.Parameter:
			for i, p := range x.Parent().Params {
				if p == x {
					return i
				}
			}
			return -1
		case *ssa.Alloc:
			if refs := x.Referrers(); refs != nil {
				for _, r := range *refs {
					switch y := r.(type) {
					case *ssa.Store:
						if y.Addr == ssa.Value(x) {
							if i := paramOf(y.Val, seen, d+1); i >= 0 {
								return i
							}
						}
					case *ssa.IndexAddr, *ssa.FieldAddr:
						if rr := y.(ssa.Value).Referrers(); rr != nil {
							for _, u := range *rr {
								if st, ok := u.(*ssa.Store); ok && st.Addr == y.(ssa.Value) {
									if i := paramOf(st.Val, seen, d+1); i >= 0 {
										return i
									}
								}
							}
						}
					}
				}
			}
			return -1
		case *ssa.Call:
			return -1 // results of calls are not the caller's objects
		}
		if ins, ok := v.(ssa.Instruction); ok {
			for _, op := range ins.Operands(nil) {
				if *op != nil {
					if i := paramOf(*op, seen, d+1); i >= 0 {
						return i
					}
				}
			}
		}
		return -1
	}
	pOf := func(v ssa.Value) int { return paramOf(v, map[ssa.Value]bool{}, 0) }
	// target base: follow only the object path (not lookup keys)
	var baseParam func(v ssa.Value, d int) int
	baseParam = func(v ssa.Value, d int) int {
		if v == nil || d > 8 {
			return -1
		}
		switch x := v.(type) {
		case *ssa.Parameter:
			for i, p := range x.Parent().Params {
				if p == x {
					return i
				}
			}
		case *ssa.UnOp:
			return baseParam(x.X, d+1)
		case *ssa.FieldAddr:
			return baseParam(x.X, d+1)
		case *ssa.Field:
			return baseParam(x.X, d+1)
		case *ssa.IndexAddr:
			return baseParam(x.X, d+1)
		case *ssa.Lookup:
			return baseParam(x.X, d+1)
		case *ssa.Extract:
			return baseParam(x.Tuple, d+1)
		case *ssa.Phi:
			for _, ed := range x.Edges {
				if i := baseParam(ed, d+1); i >= 0 {
					return i
				}
			}
		case *ssa.Alloc:
			if refs := x.Referrers(); refs != nil {
				for _, r := range *refs {
					if st, ok := r.(*ssa.Store); ok && st.Addr == ssa.Value(x) {
						if i := baseParam(st.Val, d+1); i >= 0 {
							return i
						}
					}
				}
			}
		}
		return -1
	}
	set := func(f *ssa.Function, sl fslot, idx int, key int) {
		if e.appendsTo[f] == nil {
			e.appendsTo[f] = map[fslot]bool{}
			e.appendTarget[f] = map[fslot]int{}
			e.appendKey[f] = map[fslot]int{}
		}
		e.appendsTo[f][sl] = true
		e.appendTarget[f][sl] = idx
		e.appendKey[f][sl] = key
	}
	for _, f := range e.c.ModFns() {
		for _, b := range f.Blocks {
			for _, ins := range b.Instrs {
				st, ok := ins.(*ssa.Store)
				if !ok {
					continue
				}
				ac := appendCall(st.Val)
				if ac == nil {
					continue
				}
				fa, ok := st.Addr.(*ssa.FieldAddr)
				if !ok || freshObject(fa.X) {
					continue
				}
				ti := baseParam(fa.X, 0)
				if ti < 0 {
					continue
				}
				dep := false
				for _, a := range ac.Call.Args[1:] {
					if pOf(a) >= 0 {
						dep = true
					}
				}
				if !dep {
					continue
				}
				for _, sl := range slotsOfAddr(fa) {
					set(f, sl, ti, keyParam(fa.X, 0))
				}
			}
		}
	}
	// wrappers: static calls only, two levels
	for iter := 0; iter < 2; iter++ {
		type add struct {
			f   *ssa.Function
			sl  fslot
			idx int
			key int
		}
		var adds []add
		for _, f := range e.c.ModFns() {
			for _, b := range f.Blocks {
				for _, ins := range b.Instrs {
					call, ok := ins.(*ssa.Call)
					if !ok {
						continue
					}
					sc := call.Call.StaticCallee()
					if sc == nil || len(e.appendsTo[sc]) == 0 || sc == f {
						continue
					}
					for sl := range e.appendsTo[sc] {
						ti := e.appendTarget[sc][sl]
						if ti < 0 || ti >= len(call.Call.Args) {
							continue
						}
						myTarget := baseParam(call.Call.Args[ti], 0)
						if myTarget < 0 || freshObject(call.Call.Args[ti]) {
							continue
						}
						payload := false
						for i, a := range call.Call.Args {
							if i != ti && pOf(a) >= 0 {
								payload = true
							}
						}
						if payload {
							key := -1
							if kj := e.appendKey[sc][sl]; kj >= 0 && kj < len(call.Call.Args) {
								if p, ok := call.Call.Args[kj].(*ssa.Parameter); ok {
									for i, pp := range f.Params {
										if pp == p {
											key = i
										}
									}
								}
							}
							adds = append(adds, add{f, sl, myTarget, key})
						}
					}
				}
			}
		}
		for _, a := range adds {
			if !e.appendsTo[a.f][a.sl] {
				set(a.f, a.sl, a.idx, a.key)
			}
		}
	}
}

// freshObject: v points to an object allocated in the current function (composite literal / new)
func freshObject(v ssa.Value) bool {
	switch x := v.(type) {
	case *ssa.Alloc:
		return true
	case *ssa.UnOp:
		if al, ok := x.X.(*ssa.Alloc); ok && x.Op == token.MUL {
			// pointer variable holding a fresh object: every store into it is an Alloc
			if refs := al.Referrers(); refs != nil {
				n, fresh := 0, 0
				for _, r := range *refs {
					if st, ok := r.(*ssa.Store); ok && st.Addr == ssa.Value(al) {
						n++
						if _, ok := st.Val.(*ssa.Alloc); ok {
							fresh++
						}
					}
				}
				return n > 0 && n == fresh
			}
		}
	case *ssa.Phi:
		for _, e := range x.Edges {
			if !freshObject(e) {
				return false
			}
		}
		return len(x.Edges) > 0
	}
	return false
}

// analyseLoop records the selection sites of one source loop and the slices it taints.
func (e *detEngine) analyseLoop(l *orderLoop) (taintLocal []ssa.Value, taintFields []fslot) {
	c := e.c
	f := l.f
	e.nLoops[l.kind]++
	idx := 0
	for _, o := range e.loops {
		if o.f == f {
			idx++
		}
		if o == l {
			break
		}
	}
	kindLabel := l.kind
	if l.kind == "tainted-slice" {
		kindLabel += "," + l.direction()
	}
	base := fmt.Sprintf("DET:%s:loop%d(%s)", fnKey(f), idx, kindLabel)
	add := func(kind string, pos token.Pos, note string) {
		n := 1
		for _, s := range e.sites {
			if strings.HasPrefix(s.key, base+":"+kind) {
				n++
			}
		}
		k := base + ":" + kind
		if n > 1 {
			k = fmt.Sprintf("%s#%d", k, n)
		}
		e.sites = append(e.sites, detSite{key: k, kind: kind, pos: pos, note: note + " — source: " + l.src})
	}
	g := e.grp(f)

	// (0) keyed writes: in a loop of unspecified order, storing an element-dependent value under a key that is not
	// the loop's own key, into a container that outlives the iteration, lets the iteration order decide which
	// value a key ends up with (last writer wins; with an "only if absent" test: first writer wins)
	for _, w := range e.keyedWrites(l) {
		obj, key, val, pos := w[0].(ssa.Value), w[1].(ssa.Value), w[2].(ssa.Value), w[3].(token.Pos)
		if l.isOwnKey(key) || l.perElementTarget(key, 0) && l.kind == "map" && l.isOwnKey(key) {
			continue
		}
		if !l.dep(val) || !l.dep(key) && !l.dep(obj) {
			continue // the same value whatever the order, or one fixed slot written with ... (handled as last-wins variable elsewhere)
		}
		if definedInBody(l, obj) && freshObject(obj) {
			continue // a container made in this iteration
		}
		if l.perElementTarget(obj, 0) || e.lookedUpByOwnKey(l, obj) {
			continue // the container belongs to the element (one per key of this loop)
		}
		if _, isC := key.(*ssa.Const); isC {
			continue
		}
		if (l.kind == "pool" || l.kind == "chan") && l.projectionOfElement(key, 0) && l.projectionOfElement(val, 0) {
			// the result of a task stored under the task's own name (msg.strFile -> msg.result): every task writes its
			// own entry (distinct tasks carry distinct names: "distinct elements write distinct objects")
			continue
		}
		if e.orderInsensitiveMerge(l, obj, key, val) {
			continue // entry accumulated / merged by a content order: the same in any order (see orderInsensitiveMerge)
		}
		add("keyed-write", pos, "stores an element-dependent value under a key that other iterations may produce too: which value the key ends up with depends on the iteration order")
	}

	// (1) early exits
	accum := e.accumulates(l)
	for _, ed := range l.exitEdges() {
		from, to := ed[0], ed[1]
		if from == l.header {
			continue // exhausted
		}
		_ = to
		if l.invariantExit(from) {
			continue
		}
		if accum {
			add("partial", from.Instrs[len(from.Instrs)-1].Pos(), "the loop leaves early while it accumulates results: which elements were processed before the exit depends on the iteration order")
		}
	}
	for b := range l.body {
		for _, ins := range b.Instrs {
			ret, ok := ins.(*ssa.Return)
			if !ok {
				continue
			}
			for _, r := range ret.Results {
				if !isConstOrNil(r) && l.dep(r) {
					add("first-match", ret.Pos(), "returns the first element that satisfies the test: with several candidates the answer depends on the iteration order")
					break
				}
			}
			if accum {
				add("partial", ret.Pos(), "returns from inside a loop that accumulates results")
			}
		}
	}
	// (2) values carried around / out of the loop
	for _, ins := range l.header.Instrs {
		phi, ok := ins.(*ssa.Phi)
		if !ok {
			continue
		}
		if isSliceT(phi.Type()) {
			continue // appends: handled below
		}
		for i, ed := range phi.Edges {
			if !l.body[l.header.Preds[i]] || !l.dep(ed) {
				continue
			}
			if bt, ok := phi.Type().Underlying().(*types.Basic); ok {
				if bo, ok := ed.(*ssa.BinOp); ok && (bo.Op == token.ADD || bo.Op == token.OR || bo.Op == token.LOR || bo.Op == token.LAND) && bt.Info()&(types.IsNumeric|types.IsBoolean|types.IsString) != 0 && bt.Kind() != types.String {
					continue // commutative accumulation
				}
			}
			usedAfter := false
			if refs := phi.Referrers(); refs != nil {
				for _, r := range *refs {
					if !l.body[r.Block()] {
						usedAfter = true
					}
				}
			}
			if !usedAfter {
				// still order dependent if consulted inside the loop, but then it only steers this loop
				continue
			}
			if l.kind == "map" && l.keyTieBreak() {
				continue
			}
			add("selected", phi.Pos(), fmt.Sprintf("variable %s is assigned an element-dependent value inside the loop and read after it (last-wins / arg-max with ties): its final value depends on the iteration order", phi.Comment))
			break
		}
	}
	// values defined in the body (not in the header) and used outside it: such a use is only reachable through
	// an early exit (break / return), i.e. the element found first wins
	flagged := map[ssa.Instruction]bool{}
	for b := range l.body {
		if b == l.header {
			continue
		}
		for _, ins := range b.Instrs {
			v, ok := ins.(ssa.Value)
			if !ok {
				continue
			}
			refs := v.Referrers()
			if refs == nil {
				continue
			}
			for _, r := range *refs {
				if l.body[r.Block()] || flagged[r] {
					continue
				}
				if _, isDbg := r.(*ssa.DebugRef); isDbg {
					continue
				}
				if !l.dep(v) {
					continue
				}
				if rv, ok := r.(ssa.Value); ok {
					if _, isCall := r.(*ssa.Call); !isCall && onlyLogged(rv, 0) {
						continue
					}
				}
				if bt, ok := v.Type().Underlying().(*types.Basic); ok && bt.Kind() == types.Bool {
					if _, isRet := r.(*ssa.Return); !isRet {
						continue // a boolean steering control flow after the loop: existence test
					}
				}
				flagged[r] = true
				add("first-match", r.Pos(), "an element-dependent value leaves the loop through an early exit (return / break): with several candidates the one met first wins")
			}
		}
	}
	// non-lifted locals (address-taken / captured) assigned in the loop
	for b := range l.body {
		for _, ins := range b.Instrs {
			st, ok := ins.(*ssa.Store)
			if !ok {
				continue
			}
			al, ok := st.Addr.(*ssa.Alloc)
			if !ok || l.body[al.Block()] || isSliceT(st.Val.Type()) {
				continue
			}
			if !l.dep(st.Val) {
				continue
			}
			if _, isMap := types.Unalias(st.Val.Type()).Underlying().(*types.Map); isMap {
				continue
			}
			if !l.readAfter(al) {
				continue
			}
			add("selected", st.Pos(), fmt.Sprintf("variable %s (declared outside the loop) is overwritten with an element-dependent value: the last iteration wins", al.Comment))
		}
	}
	// (3) appends
	seenG := map[ssa.Value]bool{}
	seenF := map[fslot]bool{}
	for b := range l.body {
		for _, ins := range b.Instrs {
			switch x := ins.(type) {
			case *ssa.Call:
				if ac := appendCall(x); ac != nil {
					if l.perElementTarget(ac.Call.Args[0], 0) {
						continue // the list appended to belongs to the current element (e.g. m[key].List): no order among elements is recorded
					}
					r := g.find(x)
					if !seenG[r] {
						seenG[r] = true
						taintLocal = append(taintLocal, x)
					}
					continue
				}
				depArg := false
				for _, a := range x.Call.Args {
					if l.dep(a) {
						depArg = true
					}
				}
				if !depArg {
					continue
				}
				for _, cal := range e.calleesMod(x) {
					for fv := range e.appendsTo[cal] {
						ti := e.appendTarget[cal][fv]
						if ti >= 0 && ti < len(x.Call.Args) {
							tgt := x.Call.Args[ti]
							if l.perElementTarget(tgt, 0) || (freshObject(tgt) && definedInBody(l, tgt)) {
								continue // collects into an object that belongs to the current element
							}
							if e.localObjectSorted(l.f, tgt, x) {
								continue // collects into a local object that is sorted (total order) before it is used
							}
							if kj := e.appendKey[cal][fv]; l.kind == "map" && kj >= 0 && kj < len(x.Call.Args) && l.isOwnKey(x.Call.Args[kj]) {
								continue // the callee selects the list by this loop's own (unique) key: one append per list
							}
							payload := false
							for i, a := range x.Call.Args {
								if i != ti && l.dep(a) {
									payload = true
								}
							}
							if !payload {
								continue
							}
						}
						if !seenF[fv] {
							seenF[fv] = true
							taintFields = append(taintFields, fv)
						}
					}
				}
			case *ssa.Store:
				if appendCall(st2val(x)) != nil {
					if fa, ok := x.Addr.(*ssa.FieldAddr); ok && (!freshObject(fa.X) || !definedInBody(l, fa.X)) && !l.perElementTarget(fa.X, 0) {
						for _, sl := range slotsOfAddr(fa) {
							if !seenF[sl] {
								seenF[sl] = true
								taintFields = append(taintFields, sl)
							}
						}
					}
				}
			}
		}
	}
	_ = c
	return
}

func st2val(s *ssa.Store) ssa.Value { return s.Val }

func definedInBody(l *orderLoop, v ssa.Value) bool {
	if ins, ok := v.(ssa.Instruction); ok {
		return l.body[ins.Block()]
	}
	return false
}

// localSorted: every append of group root r in f is followed on all paths to return by a sort of that group
func (e *detEngine) localSorted(f *ssa.Function, member ssa.Value) bool {
	g := e.grp(f)
	r := g.find(member)
	isAppend := func(i ssa.Instruction) bool {
		call, ok := i.(*ssa.Call)
		return ok && appendCall(call) != nil && g.find(call) == r
	}
	isSort := func(i ssa.Instruction) bool {
		for _, sc := range e.sorts[f] {
			if sc.ins != i {
				continue
			}
			if sc.direct != nil && g.find(sc.direct) == r {
				return true
			}
			if sc.wrap != nil {
				// wrapper allocated here with a field holding the group
				if al, ok := sc.wrap.(*ssa.Alloc); ok {
					if refs := al.Referrers(); refs != nil {
						for _, u := range *refs {
							if fa, ok := u.(*ssa.FieldAddr); ok {
								if frefs := fa.Referrers(); frefs != nil {
									for _, uu := range *frefs {
										if st, ok := uu.(*ssa.Store); ok && st.Addr == ssa.Value(fa) && isSliceT(st.Val.Type()) && g.find(st.Val) == r {
											return true
										}
									}
								}
								// appended directly into the wrapper's field
								if g.find(fa) == r {
									return true
								}
							}
						}
					}
				}
			}
		}
		return false
	}
	return len(mustFollow(f, isAppend, isSort)) == 0
}

// run: fixpoint over sources
func (e *detEngine) run() {
	c := e.c
	e.computeAppendSummaries()
	e.baseSources()
	// fields whose owner sorts them: a function that sorts field F through sort.Sort(wrapper) / direct
	ownerSorted := map[*types.Var][]*ssa.Function{}
	for _, f := range c.ModFns() {
		e.grp(f)
		for _, sc := range e.sorts[f] {
			for _, fv := range sc.fields {
				ownerSorted[fv] = append(ownerSorted[fv], f)
			}
			if sc.direct != nil {
				if ld, ok := sc.direct.(*ssa.UnOp); ok {
					if fv := fieldOfAddr(ld.X); fv != nil {
						ownerSorted[fv] = append(ownerSorted[fv], f)
					}
				}
			}
		}
	}
	done := map[*orderLoop]bool{}
	have := map[string]bool{}
	for _, l := range e.loops {
		have[fmt.Sprintf("%s@%d", fnKey(l.f), l.header.Index)] = true
	}
	localTaint := map[*ssa.Function]map[ssa.Value]string{} // group root -> why
	for iter := 0; iter < 8; iter++ {
		progress := false
		for _, l := range e.loops {
			if done[l] {
				continue
			}
			done[l] = true
			progress = true
			tl, tf := e.analyseLoop(l)
			for _, v := range tl {
				if e.localSorted(l.f, v) {
					continue
				}
				if localTaint[l.f] == nil {
					localTaint[l.f] = map[ssa.Value]string{}
				}
				localTaint[l.f][e.grp(l.f).find(v)] = fmt.Sprintf("appended in %s at %s", l.kind, c.Pos(l.pos))
			}
			for _, fv := range tf {
				if _, ok := e.taintedField[fv]; !ok {
					e.taintedField[fv] = fmt.Sprintf("appended inside the %s loop at %s", l.kind, c.Pos(l.pos))
				}
			}
		}
		// propagate local taint: returned -> function result; stored to field -> field
		for f, m := range localTaint {
			g := e.grp(f)
			for _, b := range f.Blocks {
				for _, ins := range b.Instrs {
					switch x := ins.(type) {
					case *ssa.Return:
						for _, r := range x.Results {
							if isSliceT(r.Type()) {
								if why, ok := m[g.find(r)]; ok {
									if _, had := e.taintedRet[f]; !had {
										e.taintedRet[f] = why
										progress = true
									}
								}
							}
						}
					case *ssa.Store:
						if isSliceT(x.Val.Type()) {
							if why, ok := m[g.find(x.Val)]; ok {
								for _, sl := range slotsOfAddr(x.Addr) {
									if _, had := e.taintedField[sl]; !had {
										e.taintedField[sl] = why
										progress = true
									}
								}
							}
						}
					}
				}
			}
		}
		// call results of tainted functions taint the receiving group
		for _, f := range c.ModFns() {
			g := e.grp(f)
			for _, b := range f.Blocks {
				for _, ins := range b.Instrs {
					call, ok := ins.(*ssa.Call)
					if !ok {
						continue
					}
					for _, cal := range e.calleesMod(call) {
						why, ok := e.taintedRet[cal]
						if !ok {
							continue
						}
						mark := func(v ssa.Value) {
							if !isSliceT(v.Type()) {
								return
							}
							if localTaint[f] == nil {
								localTaint[f] = map[ssa.Value]string{}
							}
							r := g.find(v)
							if _, had := localTaint[f][r]; !had && !e.localSorted(f, v) {
								localTaint[f][r] = "result of " + cal.Name() + " (" + why + ")"
								progress = true
							}
						}
						mark(call)
						if refs := call.Referrers(); refs != nil {
							for _, u := range *refs {
								if ex, ok := u.(*ssa.Extract); ok {
									mark(ex)
								}
							}
						}
					}
				}
			}
		}
		// new S3 loops
		for _, f := range c.ModFns() {
			g := e.grp(f)
			isT := func(v ssa.Value) (string, bool) {
				if m := localTaint[f]; m != nil {
					if why, ok := m[g.find(v)]; ok {
						return why, true
					}
				}
				// load of a tainted field
				if ld, ok := v.(*ssa.UnOp); ok && ld.Op == token.MUL {
					if fv := fieldOfAddr(ld.X); fv != nil && !e.sortedBefore(f, fv, ld) {
						for _, sl := range slotsOfAddr(ld.X) {
							if why, ok := e.taintedField[sl]; ok {
								return slotShort(sl) + " " + why, true
							}
						}
					}
				}
				return "", false
			}
			for _, nl := range e.taintedSliceLoops(f, isT, have) {
				e.loops = append(e.loops, nl)
				progress = true
			}
		}
		if !progress {
			break
		}
	}
	// (4) constant-index reads / truncations of tainted slices
	for _, f := range c.ModFns() {
		g := e.grp(f)
		cnt := 0
		for _, b := range f.Blocks {
			for _, ins := range b.Instrs {
				var x ssa.Value
				what := ""
				switch v := ins.(type) {
				case *ssa.IndexAddr:
					if k, ok := v.Index.(*ssa.Const); ok && isSliceT(v.X.Type()) && k.Value != nil && k.Value.Kind() == constant.Int {
						x, what = v.X, "element at constant index "+k.Value.String()
					}
				case *ssa.Slice:
					if isSliceT(v.X.Type()) && v.High != nil {
						x, what = v.X, "truncation [:n]"
					}
				}
				if x == nil {
					continue
				}
				if lenOneGuard(g, ins.Block(), x) {
					continue // the slice is known to hold exactly one element here
				}
				if sl, ok := ins.(*ssa.Slice); ok && compactionCut(f, g, sl) {
					continue // S = S[:j] closing an in-place filter that visited every element: the kept SET is order independent
				}
				why := ""
				if m := localTaint[f]; m != nil {
					why = m[g.find(x)]
				}
				if why == "" {
					if ld, ok := x.(*ssa.UnOp); ok && ld.Op == token.MUL {
						if fv := fieldOfAddr(ld.X); fv != nil && !e.sortedBefore(f, fv, ld) {
							for _, sl := range slotsOfAddr(ld.X) {
								if w, ok := e.taintedField[sl]; ok {
									why = slotShort(sl) + " " + w
								}
							}
						}
					}
				}
				if why == "" {
					continue
				}
				cnt++
				e.sites = append(e.sites, detSite{key: fmt.Sprintf("DET:%s:index#%d", fnKey(f), cnt), kind: "index", pos: ins.Pos(),
					note: what + " of a slice whose order is unspecified (" + why + "): which element is taken depends on hash / completion order"})
			}
		}
	}
	for fv, fs := range ownerSorted {
		for sl := range e.taintedField {
			if strings.HasSuffix(string(sl), "#"+fieldKey(fv)) {
				e.cleanField[fv] = "sorted by " + fs[0].Name()
			}
		}
	}
}

// sortedBefore: in f, on every path to ins a sort call that permutes field fv (through a sort.Interface whose
// Swap touches fv, or sort.Slice/Strings on a load of fv) has executed. Methods of the sort.Interface
// implementation itself (Len / Less / Swap) are exempt.
func (e *detEngine) sortedBefore(f *ssa.Function, fv *types.Var, ins ssa.Instruction) bool {
	switch f.Name() {
	case "Len", "Less", "Swap":
		return true
	}
	isSort := func(i ssa.Instruction) bool {
		for _, sc := range e.sorts[f] {
			if sc.ins != i {
				continue
			}
			for _, x := range sc.fields {
				if x == fv {
					return true
				}
			}
			if sc.direct != nil {
				if ld, ok := sc.direct.(*ssa.UnOp); ok && fieldOfAddr(ld.X) == fv {
					return true
				}
			}
		}
		return false
	}
	has := false
	for _, sc := range e.sorts[f] {
		if isSort(sc.ins) {
			has = true
		}
	}
	if !has {
		return false
	}
	return len(mustPrecede(f, isSort, func(i ssa.Instruction) bool { return i == ins })) == 0
}

// localObjectSorted: tgt is (the address of) a local struct of f and, after `at`, every path to a return of f
// passes a sort.Sort / sort.Stable call on that very object (whose comparator is not single-key)
func (e *detEngine) localObjectSorted(f *ssa.Function, tgt ssa.Value, at ssa.Instruction) bool {
	al, ok := tgt.(*ssa.Alloc)
	if !ok {
		return false
	}
	e.grp(f)
	isSort := func(i ssa.Instruction) bool {
		for _, sc := range e.sorts[f] {
			if sc.ins == i && sc.wrap == ssa.Value(al) {
				return true
			}
		}
		return false
	}
	isAt := func(i ssa.Instruction) bool { return i == at }
	return len(mustFollow(f, isAt, isSort)) == 0
}

// lenOneGuard: block b is dominated by the true edge of `len(X) == 1` for X in the same slice group as x
func lenOneGuard(g *sliceGroups, b *ssa.BasicBlock, x ssa.Value) bool {
	r := g.find(x)
	for d := b; d != nil; d = d.Idom() {
		id := d.Idom()
		if id == nil {
			break
		}
		iff, ok := id.Instrs[len(id.Instrs)-1].(*ssa.If)
		if !ok || id.Succs[0] != d || len(d.Preds) != 1 {
			continue
		}
		bo, ok := iff.Cond.(*ssa.BinOp)
		if !ok || bo.Op != token.EQL {
			continue
		}
		k, ok := bo.Y.(*ssa.Const)
		if !ok || k.Value == nil || k.Value.String() != "1" {
			continue
		}
		lc, ok := bo.X.(*ssa.Call)
		if !ok {
			continue
		}
		if bi, ok := lc.Call.Value.(*ssa.Builtin); ok && bi.Name() == "len" && g.find(lc.Call.Args[0]) == r {
			return true
		}
	}
	return false
}

// compactionCut: sl = X[:j] where j counts the elements that a complete range loop over X (exits only from its
// header) stored back into X[j] — the in-place filter idiom
func compactionCut(f *ssa.Function, g *sliceGroups, sl *ssa.Slice) bool {
	if sl.High == nil || sl.Low != nil {
		return false
	}
	loops := loopsOf(f)
	root := g.find(sl.X)
	fieldOfLoad := func(v ssa.Value) (*types.Var, ssa.Value) {
		if ld, ok := v.(*ssa.UnOp); ok && ld.Op == token.MUL {
			if fa, ok := ld.X.(*ssa.FieldAddr); ok {
				return fieldOf(fa), fa.X
			}
		}
		return nil, nil
	}
	sameVar := func(v ssa.Value) bool {
		if g.find(v) == root {
			return true
		}
		f1, b1 := fieldOfLoad(v)
		f2, b2 := fieldOfLoad(sl.X)
		return f1 != nil && f1 == f2 && b1 == b2
	}
	for h, body := range loops {
		// counter: a header phi that reaches sl.High
		var counter *ssa.Phi
		for _, ins := range h.Instrs {
			phi, ok := ins.(*ssa.Phi)
			if !ok {
				break
			}
			if ssa.Value(phi) == sl.High {
				counter = phi
			}
		}
		if counter == nil {
			continue
		}
		// complete iteration: every exit edge leaves from the header
		complete := true
		for b := range body {
			for _, s := range b.Succs {
				if !body[s] && b != h {
					complete = false
				}
			}
		}
		if !complete {
			return false
		}
		// the header's exit test must be the exhaustion of a range over X (index < len), not an element predicate
		rangesX, storesBack := false, false
		for b := range body {
			for _, ins := range b.Instrs {
				switch x := ins.(type) {
				case *ssa.IndexAddr:
					if !sameVar(x.X) {
						continue
					}
					if x.Index == ssa.Value(counter) {
						if refs := x.Referrers(); refs != nil {
							for _, u := range *refs {
								if st, ok := u.(*ssa.Store); ok && st.Addr == ssa.Value(x) {
									storesBack = true
								}
							}
						}
					} else if _, isPhi := x.Index.(*ssa.Phi); isPhi {
						rangesX = true
					} else if bo, ok := x.Index.(*ssa.BinOp); ok {
						if p, ok := bo.X.(*ssa.Phi); ok && p.Block() == h {
							rangesX = true
						}
					}
				}
			}
		}
		return rangesX && storesBack
	}
	return false
}
