package main

import (
	"fmt"
	"go/ast"
	"go/token"
	"go/types"
)

const lexerPkg = modPath + "/langserver/check/compiler/lexer"
const protoPkg = modPath + "/langserver/protocol"

// enclosing function name for AST sites (stable key component)
func enclosingFuncName(file *ast.File, pos token.Pos) string {
	for _, d := range file.Decls {
		if fd, ok := d.(*ast.FuncDecl); ok && fd.Pos() <= pos && pos <= fd.End() {
			if fd.Recv != nil && len(fd.Recv.List) > 0 {
				return recvTypeName(fd.Recv.List[0].Type) + "." + fd.Name.Name
			}
			return fd.Name.Name
		}
	}
	return "<file-scope>"
}

// locField returns the Location field name if sel selects a field of lexer.Location.
func locField(info *types.Info, e ast.Expr) string {
	sel, ok := ast.Unparen(e).(*ast.SelectorExpr)
	if !ok {
		return ""
	}
	return locFieldObj(info.Uses[sel.Sel])
}

func locFieldObj(o types.Object) string {
	v, ok := o.(*types.Var)
	if !ok || !v.IsField() || v.Pkg() == nil || v.Pkg().Path() != lexerPkg {
		return ""
	}
	switch v.Name() {
	case "StartLine", "StartColumn", "EndLine", "EndColumn":
		// make sure it is Location's field (and not another struct's)
		if loc := v.Pkg().Scope().Lookup("Location"); loc != nil {
			if st, ok := loc.Type().Underlying().(*types.Struct); ok {
				for i := 0; i < st.NumFields(); i++ {
					if st.Field(i) == v {
						return v.Name()
					}
				}
			}
		}
	}
	return ""
}

func dimOf(f string) string {
	switch f {
	case "StartLine", "EndLine":
		return "line"
	case "StartColumn", "EndColumn":
		return "column"
	}
	return ""
}
func roleOf(f string) string {
	switch f {
	case "StartLine", "StartColumn":
		return "start"
	case "EndLine", "EndColumn":
		return "end"
	}
	return ""
}

// directLocReads collects Location field reads that flow arithmetically into e (through parens,
// conversions, unary/binary arithmetic) — not through function calls. pure reports whether e is a
// plain copy (only parens/conversions around one field read).
func directLocReads(info *types.Info, e ast.Expr) (fields []string, pure bool) {
	pure = true
	var walk func(e ast.Expr)
	walk = func(e ast.Expr) {
		switch x := e.(type) {
		case *ast.ParenExpr:
			walk(x.X)
		case *ast.SelectorExpr:
			if f := locField(info, x); f != "" {
				fields = append(fields, f)
			}
		case *ast.BinaryExpr:
			pure = false
			walk(x.X)
			walk(x.Y)
		case *ast.UnaryExpr:
			pure = false
			walk(x.X)
		case *ast.CallExpr:
			// conversion T(x)?
			if tv, ok := info.Types[x.Fun]; ok && tv.IsType() && len(x.Args) == 1 {
				walk(x.Args[0])
			} else {
				pure = false
			}
		default:
			pure = false
		}
	}
	walk(e)
	return
}

var ruleLOC = &Rule{
	Name: "LOC/role-flow",
	Text: "in every assignment / composite-literal element whose destination is a field of lexer.Location (or of lsp.Position inside an lsp.Range) and whose source reads Location fields directly: line fields flow only to line fields and column fields to column fields; a Start* destination (or Range.Start) is never a plain copy of an End* source; every comparison whose two operands are Location field reads compares the same dimension",
	Run:  runLOC,
}

func runLOC(c *Ctx) []Ob {
	var obs []Ob
	writes, cmps, conv := 0, 0, 0
	seen := map[string]int{}
	mk := func(p *token.Pos, file *ast.File, kind, dst, src string, verdict, note string) {
		fn := enclosingFuncName(file, *p)
		key := fmt.Sprintf("LOC/%s:%s:%s<-%s", kind, fn, dst, src)
		seen[key]++
		if seen[key] > 1 {
			key = fmt.Sprintf("%s#%d", key, seen[key])
		}
		obs = append(obs, Ob{Key: key, Site: c.Pos(*p), Verdict: verdict, Note: note})
	}
	checkFlow := func(info *types.Info, file *ast.File, pos token.Pos, dst string, rhs ast.Expr) {
		srcs, pure := directLocReads(info, rhs)
		if len(srcs) == 0 {
			return
		}
		for _, s := range srcs {
			v, note := OK, ""
			if dimOf(s) != dimOf(dst) {
				v, note = VIOLATION, fmt.Sprintf("%s value flows into %s field %s", dimOf(s), dimOf(dst), dst)
			} else if roleOf(dst) == "start" && roleOf(s) == "end" && pure {
				v, note = VIOLATION, fmt.Sprintf("%s is a plain copy of %s: the range then starts where something ends and no longer contains its own start", dst, s)
			}
			mk(&pos, file, "write", dst, s, v, note)
		}
	}
	for _, p := range c.Pkgs {
		info := p.TypesInfo
		for _, file := range p.Syntax {
			ast.Inspect(file, func(n ast.Node) bool {
				switch x := n.(type) {
				case *ast.AssignStmt:
					if len(x.Lhs) != len(x.Rhs) {
						return true
					}
					for i, l := range x.Lhs {
						if f := locField(info, l); f != "" {
							writes++
							checkFlow(info, file, x.Pos(), f, x.Rhs[i])
						}
						// r.Start.Line = … / r.End.Character = … on an lsp.Range: the field-by-field form of the literal below
						if sel, ok := ast.Unparen(l).(*ast.SelectorExpr); ok {
							if inner, ok := ast.Unparen(sel.X).(*ast.SelectorExpr); ok {
								if tv, ok := info.Types[inner.X]; ok {
									if pp, nn := namedPkgName(tv.Type); pp == protoPkg && nn == "Range" &&
										(inner.Sel.Name == "Start" || inner.Sel.Name == "End") && (sel.Sel.Name == "Line" || sel.Sel.Name == "Character") {
										srcs, _ := directLocReads(info, x.Rhs[i])
										for _, s := range srcs {
											conv++
											wantDim := map[string]string{"Line": "line", "Character": "column"}[sel.Sel.Name]
											wantRole := map[string]string{"Start": "start", "End": "end"}[inner.Sel.Name]
											v, note := OK, ""
											if wantDim != dimOf(s) || wantRole != roleOf(s) {
												v, note = VIOLATION, fmt.Sprintf("lsp.Range.%s.%s is fed from Location.%s", inner.Sel.Name, sel.Sel.Name, s)
											}
											pos := x.Pos()
											mk(&pos, file, "to-lsp", inner.Sel.Name+"."+sel.Sel.Name, s, v, note)
										}
									}
								}
							}
						}
					}
				case *ast.CompositeLit:
					tv, ok := info.Types[x]
					if !ok {
						return true
					}
					pp, nn := namedPkgName(tv.Type)
					if pp == lexerPkg && nn == "Location" {
						for _, el := range x.Elts {
							kv, ok := el.(*ast.KeyValueExpr)
							if !ok {
								continue
							}
							if id, ok := kv.Key.(*ast.Ident); ok {
								if f := locFieldObj(info.Uses[id]); f != "" {
									writes++
									checkFlow(info, file, kv.Pos(), f, kv.Value)
								}
							}
						}
					}
					if pp == protoPkg && nn == "Range" {
						// Range{Start: Position{Line:..,Character:..}, End: ...}
						for _, el := range x.Elts {
							kv, ok := el.(*ast.KeyValueExpr)
							if !ok {
								continue
							}
							kid, ok := kv.Key.(*ast.Ident)
							if !ok {
								continue
							}
							inner, ok := ast.Unparen(kv.Value).(*ast.CompositeLit)
							if !ok {
								continue
							}
							for _, el2 := range inner.Elts {
								kv2, ok := el2.(*ast.KeyValueExpr)
								if !ok {
									continue
								}
								k2, ok := kv2.Key.(*ast.Ident)
								if !ok {
									continue
								}
								srcs, _ := directLocReads(info, kv2.Value)
								for _, s := range srcs {
									conv++
									wantDim := map[string]string{"Line": "line", "Character": "column"}[k2.Name]
									wantRole := map[string]string{"Start": "start", "End": "end"}[kid.Name]
									v, note := OK, ""
									if wantDim != dimOf(s) || wantRole != roleOf(s) {
										v, note = VIOLATION, fmt.Sprintf("lsp.Range.%s.%s is fed from Location.%s", kid.Name, k2.Name, s)
									}
									pos := kv2.Pos()
									mk(&pos, file, "to-lsp", kid.Name+"."+k2.Name, s, v, note)
								}
							}
						}
					}
				case *ast.BinaryExpr:
					switch x.Op {
					case token.LSS, token.GTR, token.LEQ, token.GEQ, token.EQL, token.NEQ:
						a, pa := directLocReads(info, x.X)
						b, pb := directLocReads(info, x.Y)
						if len(a) == 1 && len(b) == 1 && pa && pb {
							cmps++
							v, note := OK, ""
							if dimOf(a[0]) != dimOf(b[0]) {
								v, note = VIOLATION, fmt.Sprintf("comparison of a %s (%s) with a %s (%s)", dimOf(a[0]), a[0], dimOf(b[0]), b[0])
							}
							pos := x.Pos()
							mk(&pos, file, "cmp", a[0], b[0], v, note)
						}
					}
				}
				return true
			})
		}
	}
	c.Stats["loc_field_writes"] = writes
	c.Stats["loc_field_comparisons"] = cmps
	c.Stats["loc_to_lsp_conversions"] = conv
	obs = append(obs, floor("LOC/role-flow", "Location field writes", writes, 90))
	obs = append(obs, floor("LOC/role-flow", "Location-vs-Location comparisons", cmps, 10))
	obs = append(obs, floor("LOC/role-flow", "Location->lsp.Range conversions", conv, 4))
	return obs
}
