package main

import (
	"fmt"
	"go/constant"
	"go/token"
	"go/types"
	"sort"

	"golang.org/x/tools/go/ssa"
)

// ---------------------------------------------------------------------------------------------
// Round-7 rules

func isNilConst(v ssa.Value) bool {
	c, ok := v.(*ssa.Const)
	return ok && c.Value == nil && !isBasicType(c.Type())
}

func isBasicType(t types.Type) bool {
	_, ok := types.Unalias(t).Underlying().(*types.Basic)
	return ok
}

// edgesInto lists the conditional edges that dominate block b: (condition, truth) pairs such that b is only reached
// with `condition == truth`.
type condEdge struct {
	cond  ssa.Value
	truth bool
}

func dominatingEdges(b *ssa.BasicBlock) []condEdge {
	var out []condEdge
	for d := b; d != nil; d = d.Idom() {
		id := d.Idom()
		if id == nil {
			break
		}
		iff, ok := id.Instrs[len(id.Instrs)-1].(*ssa.If)
		if !ok || len(d.Preds) != 1 || d.Preds[0] != id {
			continue
		}
		if id.Succs[0] == d && id.Succs[1] == d {
			continue
		}
		out = append(out, condEdge{iff.Cond, id.Succs[0] == d})
	}
	return out
}

// stripNot: !c with truth t is c with truth !t
func stripNot(e condEdge) condEdge {
	for {
		u, ok := e.cond.(*ssa.UnOp)
		if !ok || u.Op != token.NOT {
			return e
		}
		e = condEdge{u.X, !e.truth}
	}
}

// sameAccess: two SSA values that denote the same storage read (go/ssa does no CSE): identical values, loads of the
// same field of the same base, the same component of the same call.
func sameAccess(a, b ssa.Value, depth int) bool {
	if a == b {
		return true
	}
	if depth > 4 {
		return false
	}
	switch x := a.(type) {
	case *ssa.UnOp:
		y, ok := b.(*ssa.UnOp)
		if !ok || x.Op != token.MUL || y.Op != token.MUL {
			return false
		}
		fx, ok1 := x.X.(*ssa.FieldAddr)
		fy, ok2 := y.X.(*ssa.FieldAddr)
		return ok1 && ok2 && fx.Field == fy.Field && sameAccess(fx.X, fy.X, depth+1)
	case *ssa.Field:
		y, ok := b.(*ssa.Field)
		return ok && x.Field == y.Field && sameAccess(x.X, y.X, depth+1)
	case *ssa.Convert:
		y, ok := b.(*ssa.Convert)
		return ok && sameAccess(x.X, y.X, depth+1)
	}
	return false
}

// ---------------------------------------------------------------------------------------------
// PANIC/P7: a comparison of an index with the length of the indexed sequence that admits index == length

var rulePanicP7 = &Rule{
	Name:    "PANIC/P7-index-guard-strength",
	NeedSSA: true,
	Text: "an element access s[i] that is dominated by an ordering comparison of this very i with len(s) of this very s is dominated by one that excludes i == len(s) " +
		"(`i < len(s)` taken, `i >= len(s)` not taken, or the weak form together with `i != len(s)`): the comparison states the author's belief that i can reach " +
		"the length, and `i > len(s)` / `i <= len(s)` lets exactly the first invalid index through — an index panic inside a request handler ends the server",
	Run: func(c *Ctx) []Ob {
		var obs []Ob
		nGuarded := 0
		for _, f := range c.ModFns() {
			if f.Blocks == nil {
				continue
			}
			ord := 0
			for _, b := range f.Blocks {
				var edges []condEdge
				got := false
				for _, ins := range b.Instrs {
					var seq, idx ssa.Value
					switch x := ins.(type) {
					case *ssa.IndexAddr:
						seq, idx = x.X, x.Index
					case *ssa.Index:
						seq, idx = x.X, x.Index
					default:
						continue
					}
					if _, isC := idx.(*ssa.Const); isC {
						continue
					}
					if !got {
						edges, got = dominatingEdges(b), true
					}
					strong, weak, ne := false, false, false
					for _, e0 := range edges {
						e := stripNot(e0)
						bo, ok := e.cond.(*ssa.BinOp)
						if !ok {
							continue
						}
						// normalise to  i OP len(s)
						op := bo.Op
						var iv, lv ssa.Value = bo.X, bo.Y
						if s, isLen := isLenCall(bo.X); isLen && sameAccess(s, seq, 0) {
							iv, lv = bo.Y, bo.X
							switch op {
							case token.LSS:
								op = token.GTR
							case token.GTR:
								op = token.LSS
							case token.LEQ:
								op = token.GEQ
							case token.GEQ:
								op = token.LEQ
							}
						}
						s, isLen := isLenCall(lv)
						if !isLen || !sameAccess(s, seq, 0) || !sameAccess(iv, idx, 0) {
							continue
						}
						if !e.truth { // negate
							switch op {
							case token.LSS:
								op = token.GEQ
							case token.GEQ:
								op = token.LSS
							case token.GTR:
								op = token.LEQ
							case token.LEQ:
								op = token.GTR
							case token.EQL:
								op = token.NEQ
							case token.NEQ:
								op = token.EQL
							}
						}
						switch op {
						case token.LSS:
							strong = true
						case token.LEQ:
							weak = true
						case token.NEQ:
							ne = true
						}
					}
					if !strong && !weak {
						continue
					}
					nGuarded++
					ord++
					key := fmt.Sprintf("PANIC/P7:%s:index#%d", fnKey(f), ord)
					if strong || (weak && ne) {
						obs = append(obs, Ob{Key: key, Site: c.Pos(ins.Pos()), Verdict: OK, Note: "guard excludes index == length"})
					} else {
						obs = append(obs, Ob{Key: key, Site: c.Pos(ins.Pos()), Verdict: VIOLATION,
							Note: "the only comparison of this index with the length of the indexed sequence that dominates the access is `index <= len`: index == len passes the guard and the access panics"})
					}
				}
			}
		}
		obs = append(obs, floor("PANIC/P7", "element accesses dominated by a comparison of the index with the sequence length", nGuarded, 427))
		return obs
	},
}

// ---------------------------------------------------------------------------------------------
// PANIC/P8: pointer result dereferenced under a flag result of the same call

// mayBeNilAt: v is nil, or the function itself tests v against nil somewhere (its author believes it can be nil) and
// block `at` is not reached only through the non-nil outcome of such a test
func mayBeNilAt(v ssa.Value, at *ssa.BasicBlock, depth int) (bool, string) {
	if isNilConst(v) {
		return true, "nil"
	}
	if depth > 3 {
		return false, ""
	}
	if ph, ok := v.(*ssa.Phi); ok {
		for i, e := range ph.Edges {
			if e == v {
				continue
			}
			if y, why := mayBeNilAt(e, ph.Block().Preds[i], depth+1); y {
				return true, why
			}
		}
		return false, ""
	}
	if v.Referrers() == nil {
		return false, ""
	}
	tested := false
	for _, r := range *v.Referrers() {
		bo, ok := r.(*ssa.BinOp)
		if !ok || (bo.Op != token.EQL && bo.Op != token.NEQ) {
			continue
		}
		if !(isNilConst(bo.X) || isNilConst(bo.Y)) {
			continue
		}
		tested = true
	}
	if !tested {
		return false, ""
	}
	for _, e0 := range dominatingEdges(at) {
		e := stripNot(e0)
		bo, ok := e.cond.(*ssa.BinOp)
		if !ok || !(bo.X == v || bo.Y == v) || !(isNilConst(bo.X) || isNilConst(bo.Y)) {
			continue
		}
		if (bo.Op == token.NEQ && e.truth) || (bo.Op == token.EQL && !e.truth) {
			return false, ""
		}
	}
	return true, "a value the function compares with nil elsewhere, returned on a path that does not pass the non-nil outcome of that test"
}

var rulePanicP8 = &Rule{
	Name:    "PANIC/P8-flag-correlated-nil",
	NeedSSA: true,
	Text: "where a caller dereferences a pointer result of a module function only under a test of a bool result of the same call and without a nil test of its own, " +
		"every return of the callee that is consistent with that flag value returns a pointer that is not nil on the callee's own evidence: not the literal nil, and " +
		"not a value the callee compares with nil elsewhere unless this return lies behind the non-nil outcome of that comparison. The first pass runs such a caller " +
		"in bare worker goroutines, where a nil dereference ends the process",
	Run: func(c *Ctx) []Ob {
		var obs []Ob
		n := 0
		for _, f := range c.ModFns() {
			if f.Blocks == nil {
				continue
			}
			seen := map[string]bool{}
			for _, b := range f.Blocks {
				for _, ins := range b.Instrs {
					var base ssa.Value
					switch x := ins.(type) {
					case *ssa.FieldAddr:
						base = x.X
					case *ssa.UnOp:
						if x.Op == token.MUL {
							base = x.X
						}
					}
					ex, ok := base.(*ssa.Extract)
					if !ok {
						continue
					}
					if _, isPtr := types.Unalias(ex.Type()).Underlying().(*types.Pointer); !isPtr {
						continue
					}
					call, ok := ex.Tuple.(*ssa.Call)
					if !ok {
						continue
					}
					g := call.Call.StaticCallee()
					if g == nil || g.Blocks == nil || !c.IsModFn(g) {
						continue
					}
					// guards of the dereference
					type flag struct {
						idx   int
						truth bool
					}
					var flags []flag
					nilTested := false
					for _, e0 := range dominatingEdges(b) {
						e := stripNot(e0)
						if fx, ok := e.cond.(*ssa.Extract); ok && fx.Tuple == ex.Tuple && isBoolType(fx.Type()) {
							flags = append(flags, flag{fx.Index, e.truth})
						}
						if bo, ok := e.cond.(*ssa.BinOp); ok && (bo.X == ssa.Value(ex) || bo.Y == ssa.Value(ex)) && (isNilConst(bo.X) || isNilConst(bo.Y)) {
							if (bo.Op == token.NEQ && e.truth) || (bo.Op == token.EQL && !e.truth) {
								nilTested = true
							}
						}
					}
					if nilTested || len(flags) == 0 {
						continue
					}
					key := fmt.Sprintf("PANIC/P8:%s:%s#%d", fnKey(f), g.Name(), ex.Index)
					if seen[key] {
						continue
					}
					seen[key] = true
					n++
					bad := ""
					var badPos token.Pos
					for _, gb := range g.Blocks {
						ret, ok := gb.Instrs[len(gb.Instrs)-1].(*ssa.Return)
						if !ok || len(ret.Results) <= ex.Index {
							continue
						}
						consistent := true
						for _, fl := range flags {
							if cst, ok := ret.Results[fl.idx].(*ssa.Const); ok && cst.Value != nil && cst.Value.Kind() == constant.Bool {
								if constant.BoolVal(cst.Value) != fl.truth {
									consistent = false
								}
							}
						}
						if !consistent {
							continue
						}
						if y, why := mayBeNilAt(ret.Results[ex.Index], gb, 0); y {
							bad, badPos = why, ret.Pos()
							break
						}
					}
					if bad != "" {
						obs = append(obs, Ob{Key: key, Site: c.Pos(badPos), Verdict: VIOLATION,
							Note: fmt.Sprintf("%s dereferences result #%d of %s under a flag test only (%s); this return is consistent with the flag and hands back %s", fnKey(f), ex.Index, fnKey(g), c.Pos(ins.Pos()), bad)})
					} else {
						obs = append(obs, Ob{Key: key, Site: c.Pos(ins.Pos()), Verdict: OK, Note: "every return consistent with the caller's flag test returns a pointer the callee has established"})
					}
				}
			}
		}
		obs = append(obs, floor("PANIC/P8", "pointer results dereferenced under a flag result of the same call", n, 27))
		return obs
	},
}

// ---------------------------------------------------------------------------------------------
// REENT: a recursive method must not keep per-activation data in a container owned by its receiver

var ruleReentScratch = &Rule{
	Name:    "REENT/scratch-container",
	NeedSSA: true,
	Text: "a method that can call itself again (directly or through the walkers it dispatches to) does not keep the data of one activation in a map or slice that " +
		"hangs off its receiver and that the same method empties (delete-all loop, clear, or a fresh container stored into the field without putting the previous " +
		"one back): the inner activation wipes what the outer one recorded and leaves its own entries behind, so everything the outer activation reads from the " +
		"container after the nested call belongs to another construct (duplicate-key detection of nested table constructors is the instance)",
	Run: func(c *Ctx) []Ob {
		var obs []Ob
		edges := c.modEdges(c.VTA())
		_, compOf := c.recursiveSCCs(edges)
		nRec, nCont := 0, 0
		for _, f := range c.ModFns() {
			if f.Blocks == nil || f.Signature.Recv() == nil || len(f.Params) == 0 {
				continue
			}
			ci, isRec := compOf[f]
			if !isRec {
				continue
			}
			recSite := map[ssa.Instruction]bool{}
			for _, e := range edges[f] {
				if cj, ok := compOf[e.To]; ok && cj == ci {
					recSite[e.Site] = true
				}
			}
			if len(recSite) == 0 {
				continue
			}
			nRec++
			recv := f.Params[0]
			// containers read from receiver fields
			taint := map[ssa.Value]int{} // value -> field index
			fields := map[int]bool{}
			for _, b := range f.Blocks {
				for _, ins := range b.Instrs {
					ld, ok := ins.(*ssa.UnOp)
					if !ok || ld.Op != token.MUL {
						continue
					}
					fa, ok := ld.X.(*ssa.FieldAddr)
					if !ok || fa.X != ssa.Value(recv) {
						continue
					}
					switch types.Unalias(ld.Type()).Underlying().(type) {
					case *types.Map, *types.Slice:
						taint[ld] = fa.Field
						fields[fa.Field] = true
					}
				}
			}
			if len(fields) == 0 {
				continue
			}
			for changed := true; changed; {
				changed = false
				for _, b := range f.Blocks {
					for _, ins := range b.Instrs {
						ph, ok := ins.(*ssa.Phi)
						if !ok {
							continue
						}
						if _, done := taint[ph]; done {
							continue
						}
						for _, e := range ph.Edges {
							if fi, ok := taint[e]; ok {
								taint[ph] = fi
								changed = true
								break
							}
						}
					}
				}
			}
			// emptied fields
			emptied := map[int]string{}
			restored := map[int]bool{}
			for _, b := range f.Blocks {
				for _, ins := range b.Instrs {
					switch x := ins.(type) {
					case *ssa.Call:
						if bi, ok := x.Call.Value.(*ssa.Builtin); ok && len(x.Call.Args) > 0 {
							fi, isT := taint[x.Call.Args[0]]
							if !isT {
								continue
							}
							if bi.Name() == "clear" {
								emptied[fi] = "clear()"
							}
							if bi.Name() == "delete" {
								// inside a range over the same container
								for v, fj := range taint {
									if fj != fi || v.Referrers() == nil {
										continue
									}
									for _, r := range *v.Referrers() {
										if _, isRange := r.(*ssa.Range); isRange {
											emptied[fi] = "delete of every key"
										}
									}
								}
							}
						}
					case *ssa.Store:
						fa, ok := x.Addr.(*ssa.FieldAddr)
						if !ok || fa.X != ssa.Value(recv) || !fields[fa.Field] {
							continue
						}
						switch v := x.Val.(type) {
						case *ssa.MakeMap, *ssa.MakeSlice:
							emptied[fa.Field] = "a fresh container stored into the field"
						case *ssa.Const:
							if v.Value == nil {
								emptied[fa.Field] = "nil stored into the field"
							}
						case *ssa.Slice:
							if h, ok := v.High.(*ssa.Const); ok && h.Value != nil && constant.Sign(h.Value) == 0 {
								if _, isT := taint[v.X]; isT {
									emptied[fa.Field] = "truncation to length 0"
								}
							}
						default:
							if fj, isT := taint[x.Val]; isT && fj == fa.Field {
								restored[fa.Field] = true
							}
						}
					}
				}
			}
			var fis []int
			for fi := range fields {
				fis = append(fis, fi)
			}
			sort.Ints(fis)
			for _, fi := range fis {
				nCont++
				how, isEmptied := emptied[fi]
				if !isEmptied || restored[fi] {
					continue
				}
				uses := mayFollow(f,
					func(i ssa.Instruction) bool { return recSite[i] },
					func(i ssa.Instruction) bool {
						if recSite[i] {
							return false
						}
						for _, op := range i.Operands(nil) {
							if op == nil || *op == nil {
								continue
							}
							if fj, ok := taint[*op]; ok && fj == fi {
								if _, isPhi := i.(*ssa.Phi); isPhi {
									return false
								}
								return true
							}
						}
						return false
					})
				fname := fieldName(recv.Type(), fi)
				key := fmt.Sprintf("REENT/scratch-container:%s:%s", fnKey(f), fname)
				if len(uses) > 0 {
					obs = append(obs, Ob{Key: key, Site: c.Pos(uses[0].Pos()), Verdict: VIOLATION,
						Note: fmt.Sprintf("%s empties the container in receiver field %s (%s) and reads or writes it again after a call that can re-enter %s: the nested activation has emptied and refilled it", fnKey(f), fname, how, f.Name())})
				} else {
					obs = append(obs, Ob{Key: key, Site: c.Pos(f.Pos()), Verdict: OK, Note: "emptied, but not used after a re-entering call"})
				}
			}
		}
		obs = append(obs, Ob{Key: "REENT/scratch-container:scan", Site: "luahelper-lsp", Verdict: OK,
			Note: fmt.Sprintf("%d re-entrant methods examined, %d receiver-held containers read in them", nRec, nCont)})
		obs = append(obs, floor("REENT/scratch-container", "re-entrant methods examined", nRec, 120))
		return obs
	},
}

// ---------------------------------------------------------------------------------------------
// EQ/all-fields: structural equality of syntax nodes looks at the content of every field

func isLocationType(t types.Type) bool {
	_, nm := namedPkgName(t)
	return nm == "Location"
}

// derive: forward closure of values computed from the seeds; elem: the subset reached through an element access
func deriveFrom(seeds []ssa.Value) (all map[ssa.Value]bool, elem map[ssa.Value]bool) {
	all, elem = map[ssa.Value]bool{}, map[ssa.Value]bool{}
	var q []ssa.Value
	add := func(v ssa.Value, viaElem bool) {
		if !all[v] || (viaElem && !elem[v]) {
			all[v] = true
			if viaElem {
				elem[v] = true
			}
			q = append(q, v)
		}
	}
	for _, s := range seeds {
		add(s, false)
	}
	for len(q) > 0 {
		v := q[0]
		q = q[1:]
		if v.Referrers() == nil {
			continue
		}
		e := elem[v]
		for _, r := range *v.Referrers() {
			switch x := r.(type) {
			case *ssa.BinOp:
				if isNilConst(x.X) || isNilConst(x.Y) {
					continue // a nil test says nothing about the content
				}
				switch x.Op {
				case token.EQL, token.NEQ, token.LSS, token.GTR, token.LEQ, token.GEQ:
				default:
					add(x, e)
				}
			case *ssa.Call:
				if bi, ok := x.Call.Value.(*ssa.Builtin); ok {
					if bi.Name() == "len" {
						continue // the length is not the content
					}
				}
				add(x, e)
			case *ssa.IndexAddr:
				if x.X == v {
					add(x, true)
				}
			case *ssa.Index:
				if x.X == v {
					add(x, true)
				}
			case *ssa.UnOp:
				if x.Op == token.MUL || x.Op == token.SUB {
					add(x, e)
				}
			case *ssa.FieldAddr:
				add(x, e)
			case *ssa.Field:
				add(x, e)
			case *ssa.Convert:
				add(x, e)
			case *ssa.ChangeType:
				add(x, e)
			case *ssa.MakeInterface:
				add(x, e)
			case *ssa.Phi:
				add(x, e)
			case *ssa.Extract:
				add(x, e)
			}
		}
	}
	return
}

var ruleEqAllFields = &Rule{
	Name:    "EQ/all-fields",
	NeedSSA: true,
	Text: "a structural equality of syntax nodes — func(a, b I) bool that narrows both arguments to the same node type *T — lets the content of every field of T " +
		"other than source positions decide: a value read from a's field and a value read from b's field meet in a comparison or in a call that receives both " +
		"(for a list field: values read from its elements); a nil test or a length alone is not the content. Otherwise two nodes that differ only in that field " +
		"are reported as the same condition / the same expression",
	Run: func(c *Ctx) []Ob {
		var obs []Ob
		nCases := 0
		for _, f := range c.ModFns() {
			if f.Blocks == nil || f.Signature.Recv() != nil || len(f.Params) != 2 || f.Signature.Results().Len() != 1 || !isBoolType(f.Signature.Results().At(0).Type()) {
				continue
			}
			pa, pb := f.Params[0], f.Params[1]
			if !types.Identical(pa.Type(), pb.Type()) || !types.IsInterface(pa.Type()) {
				continue
			}
			type narrow struct {
				val ssa.Value       // the narrowed value
				ok  ssa.Value       // its ok flag (nil for a plain assertion)
				at  *ssa.BasicBlock // block of the assertion
			}
			narrowed := func(p *ssa.Parameter) map[string][]narrow {
				out := map[string][]narrow{}
				if p.Referrers() == nil {
					return out
				}
				for _, r := range *p.Referrers() {
					ta, ok := r.(*ssa.TypeAssert)
					if !ok {
						continue
					}
					if _, isPtr := types.Unalias(ta.AssertedType).(*types.Pointer); !isPtr {
						continue
					}
					k := types.TypeString(ta.AssertedType, nil)
					if !ta.CommaOk {
						out[k] = append(out[k], narrow{ta, nil, ta.Block()})
						continue
					}
					var v0, v1 ssa.Value
					if ta.Referrers() != nil {
						for _, rr := range *ta.Referrers() {
							if ex, ok := rr.(*ssa.Extract); ok {
								if ex.Index == 0 {
									v0 = ex
								} else {
									v1 = ex
								}
							}
						}
					}
					if v0 != nil {
						out[k] = append(out[k], narrow{v0, v1, ta.Block()})
					}
				}
				return out
			}
			// a joint narrowing: b is narrowed to T where a is already known to be a T
			na0, nb0 := narrowed(pa), narrowed(pb)
			na, nb := map[string][]ssa.Value{}, map[string][]ssa.Value{}
			for k, as := range na0 {
				for _, a := range as {
					for _, b := range nb0[k] {
						joint := a.ok == nil && a.at.Dominates(b.at)
						if a.ok != nil {
							for _, e := range dominatingEdges(b.at) {
								if e.cond == a.ok && e.truth {
									joint = true
								}
							}
						}
						if joint {
							na[k] = append(na[k], a.val)
							nb[k] = append(nb[k], b.val)
						}
					}
				}
			}
			var tkeys []string
			for k := range na {
				if len(nb[k]) > 0 {
					tkeys = append(tkeys, k)
				}
			}
			sort.Strings(tkeys)
			for _, k := range tkeys {
				pt := types.Unalias(na[k][0].Type()).(*types.Pointer)
				st, ok := types.Unalias(pt.Elem()).Underlying().(*types.Struct)
				if !ok {
					continue
				}
				_, tname := namedPkgName(pt)
				identity := false
				for _, va := range na[k] {
					if va.Referrers() == nil {
						continue
					}
					for _, r := range *va.Referrers() {
						if bo, ok := r.(*ssa.BinOp); ok {
							for _, vb := range nb[k] {
								if bo.X == vb || bo.Y == vb {
									identity = true // the nodes themselves are compared: nothing is left out
								}
							}
						}
					}
				}
				if identity {
					continue
				}
				for fi := 0; fi < st.NumFields(); fi++ {
					fld := st.Field(fi)
					if isLocationType(fld.Type()) {
						continue
					}
					nCases++
					loads := func(vs []ssa.Value) []ssa.Value {
						var out []ssa.Value
						for _, v := range vs {
							if v.Referrers() == nil {
								continue
							}
							for _, r := range *v.Referrers() {
								fa, ok := r.(*ssa.FieldAddr)
								if !ok || fa.Field != fi || fa.Referrers() == nil {
									continue
								}
								for _, rr := range *fa.Referrers() {
									if ld, ok := rr.(*ssa.UnOp); ok && ld.Op == token.MUL {
										out = append(out, ld)
									}
								}
							}
						}
						return out
					}
					la, lb := loads(na[k]), loads(nb[k])
					key := fmt.Sprintf("EQ/all-fields:%s:%s.%s", fnKey(f), tname, fld.Name())
					if len(la) == 0 || len(lb) == 0 {
						obs = append(obs, Ob{Key: key, Site: c.Pos(f.Pos()), Verdict: VIOLATION,
							Note: fmt.Sprintf("%s narrows both arguments to *%s but never reads field %s of both: nodes differing only there compare equal", f.Name(), tname, fld.Name())})
						continue
					}
					da, ea := deriveFrom(la)
					db, eb := deriveFrom(lb)
					_, isList := types.Unalias(fld.Type()).Underlying().(*types.Slice)
					if isList {
						da, db = ea, eb
					}
					meets := false
					for _, b := range f.Blocks {
						for _, ins := range b.Instrs {
							switch x := ins.(type) {
							case *ssa.BinOp:
								if (da[x.X] && db[x.Y]) || (da[x.Y] && db[x.X]) {
									meets = true
								}
							case *ssa.Call:
								if _, isB := x.Call.Value.(*ssa.Builtin); isB {
									continue
								}
								ha, hb := false, false
								for _, a := range x.Call.Args {
									if da[a] {
										ha = true
									} else if db[a] {
										hb = true
									}
								}
								if ha && hb {
									meets = true
								}
							}
						}
					}
					if meets {
						obs = append(obs, Ob{Key: key, Site: c.Pos(la[0].Pos()), Verdict: OK, Note: "content of the field of both nodes meets in a comparison"})
						// a content comparison that runs only when both fields are non-nil leaves "one is nil, the other is not"
						// to somebody else: a mixed pair of nil tests, a comparison of the two presence flags, or a direct
						// comparison of the two field values
						inSet := func(vs []ssa.Value, v ssa.Value) bool {
							for _, x := range vs {
								if x == v {
									return true
								}
							}
							return false
						}
						var ta, tb []*ssa.BinOp
						direct := false
						for _, b := range f.Blocks {
							for _, ins := range b.Instrs {
								bo, ok := ins.(*ssa.BinOp)
								if !ok || (bo.Op != token.EQL && bo.Op != token.NEQ) {
									continue
								}
								if (inSet(la, bo.X) && inSet(lb, bo.Y)) || (inSet(la, bo.Y) && inSet(lb, bo.X)) {
									direct = true
								}
								if isNilConst(bo.Y) && inSet(la, bo.X) {
									ta = append(ta, bo)
								}
								if isNilConst(bo.Y) && inSet(lb, bo.X) {
									tb = append(tb, bo)
								}
							}
						}
						if len(ta) > 0 && len(tb) > 0 && !direct {
							nCases++
							mixed := false
							for _, x := range ta {
								for _, y := range tb {
									if x.Op != y.Op {
										mixed = true
									}
								}
							}
							for _, b := range f.Blocks {
								for _, ins := range b.Instrs {
									if bo, ok := ins.(*ssa.BinOp); ok && (bo.Op == token.EQL || bo.Op == token.NEQ) {
										isA := func(v ssa.Value) bool {
											for _, x := range ta {
												if ssa.Value(x) == v {
													return true
												}
											}
											return false
										}
										isB := func(v ssa.Value) bool {
											for _, x := range tb {
												if ssa.Value(x) == v {
													return true
												}
											}
											return false
										}
										if (isA(bo.X) && isB(bo.Y)) || (isA(bo.Y) && isB(bo.X)) {
											mixed = true
										}
									}
								}
							}
							akey := key + ":one-sided-nil"
							if mixed {
								obs = append(obs, Ob{Key: akey, Site: c.Pos(ta[0].Pos()), Verdict: OK, Note: "a node with the field and a node without it are told apart"})
							} else {
								obs = append(obs, Ob{Key: akey, Site: c.Pos(ta[0].Pos()), Verdict: VIOLATION,
									Note: fmt.Sprintf("%s compares field %s of two *%s nodes only when both are non-nil and nothing tells a node that has it from one that has not: `obj:m(x)` equals `obj(x)`", f.Name(), fld.Name(), tname)})
							}
						}
					} else {
						what := "content"
						if isList {
							what = "elements"
						}
						obs = append(obs, Ob{Key: key, Site: c.Pos(la[0].Pos()), Verdict: VIOLATION,
							Note: fmt.Sprintf("%s reads field %s of both *%s nodes but their %s never meet in a comparison (only nil tests / lengths): nodes differing only there compare equal", f.Name(), fld.Name(), tname, what)})
					}
				}
			}
		}
		obs = append(obs, floor("EQ/all-fields", "fields of node types narrowed on both sides of a structural equality", nCases, 20))
		return obs
	},
}

// ---------------------------------------------------------------------------------------------
// ENC/lead-lengths: the UTF-8 detector lets every lead-byte length of well-formed UTF-8 through

const codingconvPkg = modPath + "/langserver/codingconv"

var ruleEncLeadLengths = &Rule{
	Name:    "ENC/lead-lengths",
	NeedSSA: true,
	Text: "ConvertStrToUtf8 returns its argument unchanged exactly when its detector accepts it; in the detector the number of bytes announced by a lead byte is used " +
		"only through comparisons with constants, so for each of the announced lengths 2, 3 and 4 of well-formed UTF-8 the outcome of those comparisons is fixed: " +
		"none of them may lead, through decided branches alone, to the detector's `return false` (text of that script would be decoded as GBK and shown as mojibake). " +
		"A detector that delegates to unicode/utf8.Valid is accepted as it stands",
	Run: func(c *Ctx) []Ob {
		conv := c.SSAFunc(codingconvPkg, "", "ConvertStrToUtf8")
		if conv == nil {
			return []Ob{{Key: "ENC/lead-lengths:slots", Verdict: UNDECIDED, Note: "slot unresolved: codingconv.ConvertStrToUtf8"}}
		}
		isStdValid := func(g *ssa.Function) bool {
			return g != nil && g.Pkg != nil && g.Pkg.Pkg.Path() == "unicode/utf8" && (g.Name() == "Valid" || g.Name() == "ValidString")
		}
		// the detector: the call whose result decides the branch that returns the parameter itself
		var det *ssa.Function
		for _, b := range conv.Blocks {
			iff, ok := b.Instrs[len(b.Instrs)-1].(*ssa.If)
			if !ok {
				continue
			}
			call, ok := iff.Cond.(*ssa.Call)
			if !ok {
				continue
			}
			ret, ok := b.Succs[0].Instrs[len(b.Succs[0].Instrs)-1].(*ssa.Return)
			if !ok || len(ret.Results) != 1 || ret.Results[0] != ssa.Value(conv.Params[0]) {
				continue
			}
			det = call.Call.StaticCallee()
		}
		if det == nil {
			return []Ob{{Key: "ENC/lead-lengths:detector", Site: c.Pos(conv.Pos()), Verdict: UNDECIDED, Note: "no call found in ConvertStrToUtf8 whose true outcome returns the argument unchanged"}}
		}
		if isStdValid(det) {
			return []Ob{{Key: "ENC/lead-lengths:detector", Site: c.Pos(conv.Pos()), Verdict: OK, Note: "detector is unicode/utf8." + det.Name()}}
		}
		if det.Blocks == nil {
			return []Ob{{Key: "ENC/lead-lengths:detector", Site: c.Pos(conv.Pos()), Verdict: UNDECIDED, Note: "detector " + det.String() + " has no body in the program"}}
		}
		// announced length: an int call result compared with constants in branch conditions
		isCmp := func(op token.Token) bool {
			switch op {
			case token.EQL, token.NEQ, token.LSS, token.GTR, token.LEQ, token.GEQ:
				return true
			}
			return false
		}
		cmpOf := func(cond ssa.Value, num ssa.Value) (token.Token, int64, bool) {
			bo, ok := cond.(*ssa.BinOp)
			if !ok || !isCmp(bo.Op) {
				return 0, 0, false
			}
			if cst, ok := bo.Y.(*ssa.Const); ok && bo.X == num && cst.Value != nil && cst.Value.Kind() == constant.Int {
				return bo.Op, cst.Int64(), true
			}
			if cst, ok := bo.X.(*ssa.Const); ok && bo.Y == num && cst.Value != nil && cst.Value.Kind() == constant.Int {
				op := bo.Op
				switch op {
				case token.LSS:
					op = token.GTR
				case token.GTR:
					op = token.LSS
				case token.LEQ:
					op = token.GEQ
				case token.GEQ:
					op = token.LEQ
				}
				return op, cst.Int64(), true
			}
			return 0, 0, false
		}
		// the announced length: an `int` value (the result of a bit-counting helper, or the phi of the counting loop once that
		// helper is inlined) that a branch compares with a constant between 1 and 6
		var nums []ssa.Value
		for _, b := range det.Blocks {
			for _, ins := range b.Instrs {
				v, ok := ins.(ssa.Value)
				if !ok || v.Referrers() == nil {
					continue
				}
				switch ins.(type) {
				case *ssa.Call, *ssa.Phi:
				default:
					continue
				}
				if bt, ok := types.Unalias(v.Type()).Underlying().(*types.Basic); !ok || bt.Kind() != types.Int {
					continue
				}
				if call, ok := ins.(*ssa.Call); ok {
					if _, isB := call.Call.Value.(*ssa.Builtin); isB {
						continue
					}
				}
				for _, r := range *v.Referrers() {
					if bo, ok := r.(*ssa.BinOp); ok && bo.Referrers() != nil {
						if _, cv, ok := cmpOf(bo, v); ok && cv >= 1 && cv <= 6 {
							for _, rr := range *bo.Referrers() {
								if _, isIf := rr.(*ssa.If); isIf {
									nums = append(nums, v)
								}
							}
						}
					}
				}
			}
		}
		if len(nums) == 0 {
			return []Ob{{Key: "ENC/lead-lengths:detector", Site: c.Pos(det.Pos()), Verdict: UNDECIDED,
				Note: det.Name() + " neither delegates to unicode/utf8.Valid nor branches on a computed sequence length compared with constants: its treatment of 2-, 3- and 4-byte sequences cannot be read off its comparisons"}}
		}
		var obs []Ob
		num := nums[0]
		for _, k := range []int64{2, 3, 4} {
			key := fmt.Sprintf("ENC/lead-lengths:%s:%d-byte", det.Name(), k)
			// follow decided branches from the first branch that tests num
			var b *ssa.BasicBlock
			for _, blk := range det.Blocks {
				if iff, ok := blk.Instrs[len(blk.Instrs)-1].(*ssa.If); ok && b == nil {
					if _, _, ok := cmpOf(iff.Cond, num); ok {
						b = blk
					}
				}
			}
			var from *ssa.BasicBlock
			verdict, note, site := OK, "not rejected by the length comparisons alone", c.Pos(det.Pos())
			for steps := 0; steps < 64 && b != nil; steps++ {
				last := b.Instrs[len(b.Instrs)-1]
				switch x := last.(type) {
				case *ssa.Return:
					if len(x.Results) == 1 {
						rv := x.Results[0]
						if ph, ok := rv.(*ssa.Phi); ok && ph.Block() == b && from != nil {
							for i, p := range b.Preds {
								if p == from {
									rv = ph.Edges[i]
								}
							}
						}
						if cst, ok := rv.(*ssa.Const); ok && cst.Value != nil && cst.Value.Kind() == constant.Bool && !constant.BoolVal(cst.Value) {
							verdict, site = VIOLATION, c.Pos(x.Pos())
							note = fmt.Sprintf("a lead byte announcing a %d-byte sequence reaches `return false` through comparisons of the announced length with constants only: every %d-byte UTF-8 character makes the whole text count as not UTF-8", k, k)
						}
					}
					b = nil
				case *ssa.Jump:
					from, b = b, b.Succs[0]
				case *ssa.If:
					op, cv, ok := cmpOf(x.Cond, num)
					if !ok {
						b = nil // data-dependent from here on
						break
					}
					var t bool
					switch op {
					case token.EQL:
						t = k == cv
					case token.NEQ:
						t = k != cv
					case token.LSS:
						t = k < cv
					case token.GTR:
						t = k > cv
					case token.LEQ:
						t = k <= cv
					case token.GEQ:
						t = k >= cv
					}
					from = b
					if t {
						b = b.Succs[0]
					} else {
						b = b.Succs[1]
					}
				default:
					b = nil
				}
			}
			obs = append(obs, Ob{Key: key, Site: site, Verdict: verdict, Note: note})
		}
		return obs
	},
}

// ---------------------------------------------------------------------------------------------
// SCOPE/S11: a scope or function created by the walker hangs under the scope that is current where it is created

var ruleScopeS11 = &Rule{
	Name:    "SCOPE/S11-lexical-parent",
	NeedSSA: true,
	Text: "in package analysis every scope (common.CreateScopeInfo) and every function (common.CreateFuncInfo) is created with, as parent scope, the value read from " +
		"Analysis.curScope before the creating walker has stored anything into that field: Lua resolves a name in a nested block or closure through the chain of " +
		"enclosing blocks at the point of creation, so any other parent (the function's main scope, a scope already replaced) hides the enclosing block's locals",
	Run: func(c *Ctx) []Ob {
		var obs []Ob
		n := 0
		for _, f := range c.ModFns() {
			if f.Blocks == nil || f.Pkg == nil || f.Pkg.Pkg.Path() != analysisPkg {
				continue
			}
			ord := 0
			for _, b := range f.Blocks {
				for _, ins := range b.Instrs {
					call, ok := ins.(*ssa.Call)
					if !ok {
						continue
					}
					g := call.Call.StaticCallee()
					if g == nil || g.Pkg == nil || g.Pkg.Pkg.Path() != commonPkg {
						continue
					}
					var parent ssa.Value
					switch g.Name() {
					case "CreateScopeInfo":
						parent = call.Call.Args[0]
					case "CreateFuncInfo":
						for i, p := range g.Params {
							if _, nm := namedPkgName(p.Type()); nm == "ScopeInfo" && i < len(call.Call.Args) {
								parent = call.Call.Args[i]
							}
						}
					default:
						continue
					}
					if parent == nil {
						continue
					}
					n++
					ord++
					key := fmt.Sprintf("SCOPE/S11:%s:%s#%d", f.Name(), g.Name(), ord)
					// judge: the parent value is curScope as the walker found it; a helper that receives the parent as a
					// parameter (newSubScope(parent, loc)) is judged at each of its call sites
					var judge func(fn *ssa.Function, parent ssa.Value, depth int) string
					judge = func(fn *ssa.Function, parent ssa.Value, depth int) string {
						if pm, isP := parent.(*ssa.Parameter); isP && depth < 2 {
							sites, closed := closedCallSites(c, fn)
							pi := paramIndex(fn, pm)
							if closed && len(sites) > 0 && pi >= 0 {
								for _, cs := range sites {
									if pi >= len(cs.Call.Args) {
										return "parent scope of the new " + g.Name()[6:] + " is not the value of Analysis.curScope: names of the enclosing block are not found from inside it"
									}
									if why := judge(cs.Parent(), cs.Call.Args[pi], depth+1); why != "" {
										return why
									}
								}
								return ""
							}
						}
						ld, ok := parent.(*ssa.UnOp)
						var fa *ssa.FieldAddr
						if ok && ld.Op == token.MUL {
							fa, _ = ld.X.(*ssa.FieldAddr)
						}
						if fa == nil || fieldName(fa.X.Type(), fa.Field) != "curScope" {
							return "parent scope of the new " + g.Name()[6:] + " is not the value of Analysis.curScope: names of the enclosing block are not found from inside it"
						}
						isCur := func(i ssa.Instruction) bool {
							st, ok := i.(*ssa.Store)
							if !ok {
								return false
							}
							fa, ok := st.Addr.(*ssa.FieldAddr)
							return ok && fieldName(fa.X.Type(), fa.Field) == "curScope"
						}
						if stale := mayFollow(fn, isCur, func(i ssa.Instruction) bool { return i == ssa.Instruction(ld) }); len(stale) > 0 {
							return "parent scope is read from Analysis.curScope after this walker has already replaced it"
						}
						return ""
					}
					if why := judge(f, parent, 0); why != "" {
						obs = append(obs, Ob{Key: key, Site: c.Pos(call.Pos()), Verdict: VIOLATION, Note: why})
						continue
					}
					obs = append(obs, Ob{Key: key, Site: c.Pos(call.Pos()), Verdict: OK, Note: "parent = curScope as found on entry"})
				}
			}
		}
		obs = append(obs, floor("SCOPE/S11", "scope / function creations in package analysis", n, 7))
		return obs
	},
}

// ---------------------------------------------------------------------------------------------
// DOC/D9: a successful edit is always stored

var ruleDocD9 = &Rule{
	Name:    "DOC/D9-edit-stored-on-success",
	NeedSSA: true,
	Text: "in the didChange handler every path from a call of FileMapCache.ApplyContentChanges to a return passes FileMapCache.SetFileContent, except through the branch " +
		"taken when the error result of that call is not nil: whatever the new text is (the empty document included) the server's copy must become the client's copy, " +
		"or every later range edit is applied to a stale text",
	Run: func(c *Ctx) []Ob {
		hs, err := c.Handlers()
		if err != nil {
			return []Ob{{Key: "DOC/D9:handlers", Verdict: UNDECIDED, Note: err.Error()}}
		}
		setF := c.SSAFunc(lspcommonPkg, "FileMapCache", "SetFileContent")
		applyF := c.SSAFunc(lspcommonPkg, "FileMapCache", "ApplyContentChanges")
		var f *ssa.Function
		for _, h := range hs {
			if h.Method == "textDocument/didChange" {
				f = h.Fn
			}
		}
		if f == nil || setF == nil || applyF == nil {
			return []Ob{{Key: "DOC/D9:slots", Verdict: UNDECIDED, Note: "slot unresolved: didChange handler / SetFileContent / ApplyContentChanges"}}
		}
		isCallTo := func(t *ssa.Function) func(ssa.Instruction) bool {
			return func(i ssa.Instruction) bool {
				call, ok := i.(*ssa.Call)
				return ok && call.Call.StaticCallee() == t
			}
		}
		nApply := 0
		for _, b := range f.Blocks {
			for _, ins := range b.Instrs {
				if isCallTo(applyF)(ins) {
					nApply++
				}
			}
		}
		if nApply == 0 {
			return []Ob{{Key: "DOC/D9:TextDocumentDidChange", Site: c.Pos(f.Pos()), Verdict: UNDECIDED, Note: "the handler does not call ApplyContentChanges itself"}}
		}
		errEdge := func(from, to *ssa.BasicBlock) bool {
			iff, ok := from.Instrs[len(from.Instrs)-1].(*ssa.If)
			if !ok {
				return false
			}
			e := stripNot(condEdge{iff.Cond, from.Succs[0] == to})
			bo, ok := e.cond.(*ssa.BinOp)
			if !ok || !(isNilConst(bo.X) || isNilConst(bo.Y)) {
				return false
			}
			v := bo.X
			if isNilConst(v) {
				v = bo.Y
			}
			ex, ok := v.(*ssa.Extract)
			if !ok {
				return false
			}
			call, ok := ex.Tuple.(*ssa.Call)
			if !ok || call.Call.StaticCallee() != applyF {
				return false
			}
			return (bo.Op == token.NEQ && e.truth) || (bo.Op == token.EQL && !e.truth)
		}
		bad := mustFollowE(f, isCallTo(applyF), isCallTo(setF), errEdge)
		if len(bad) > 0 {
			return []Ob{{Key: "DOC/D9:TextDocumentDidChange", Site: c.Pos(bad[0].Pos()), Verdict: VIOLATION,
				Note: "after a successful ApplyContentChanges some path returns without SetFileContent: the edit is dropped and the server keeps the previous text"}}
		}
		obs := []Ob{{Key: "DOC/D9:TextDocumentDidChange", Site: c.Pos(f.Pos()), Verdict: OK, Note: fmt.Sprintf("%d edit application(s): every non-error path stores the result", nApply)}}
		// and the edit is applied at all: from the entry, a return before ApplyContentChanges is reached only through the
		// branch on which the document is not handled (a bool method of the project answered false) or is not open
		// (the found result of GetFileContent is false) — never on a condition over the notification's own content
		getF := c.SSAFunc(lspcommonPkg, "FileMapCache", "GetFileContent")
		first := f.Blocks[0].Instrs[0]
		notOurs := func(from, to *ssa.BasicBlock) bool {
			iff, ok := from.Instrs[len(from.Instrs)-1].(*ssa.If)
			if !ok {
				return false
			}
			e := stripNot(condEdge{iff.Cond, from.Succs[0] == to})
			if e.truth {
				return false
			}
			switch x := e.cond.(type) {
			case *ssa.Call:
				g := x.Call.StaticCallee()
				if g == nil || g.Signature.Recv() == nil || len(x.Call.Args) != 2 {
					return false
				}
				_, nm := namedPkgName(g.Signature.Recv().Type())
				return nm == "AllProject" // IsNeedHandle(file): a question about the file, not about the change
			case *ssa.Extract:
				call, ok := x.Tuple.(*ssa.Call)
				return ok && getF != nil && call.Call.StaticCallee() == getF && x.Index == 1
			}
			return false
		}
		bad2 := mustFollowE(f, func(i ssa.Instruction) bool { return i == first }, isCallTo(applyF), notOurs)
		if len(bad2) > 0 {
			obs = append(obs, Ob{Key: "DOC/D9:TextDocumentDidChange:applied", Site: c.Pos(f.Pos()), Verdict: VIOLATION,
				Note: "some path returns before the edit is applied although the document is handled and open: a change notification is dropped on a condition over its own content (an optional field, an empty text), and the server keeps the previous text"})
		} else {
			obs = append(obs, Ob{Key: "DOC/D9:TextDocumentDidChange:applied", Site: c.Pos(f.Pos()), Verdict: OK, Note: "an edit is skipped only for a document that is not handled or not open"})
		}
		return obs
	},
}

// ---------------------------------------------------------------------------------------------
// KEY/M6: removing one file from the name index removes that file only

var ruleKeyM6 = &Rule{
	Name:    "KEY/M6-index-removal-keyed-by-file",
	NeedSSA: true,
	Text: "FileIndexInfo.RemoveOneFile deletes from the name buckets (fileNameMap / freFileNameMap: name -> set of full paths) with the removed file's full path as key; " +
		"a delete that drops a whole bucket (key: the base name) is tolerated only behind a test that the bucket has become empty (len(bucket) == 0): other files " +
		"of the same name in other directories live in the same bucket and must stay resolvable",
	Run: func(c *Ctx) []Ob {
		f := c.SSAFunc(commonPkg, "FileIndexInfo", "RemoveOneFile")
		if f == nil || len(f.Params) < 2 {
			return []Ob{{Key: "KEY/M6:slots", Verdict: UNDECIDED, Note: "slot unresolved: FileIndexInfo.RemoveOneFile"}}
		}
		var obs []Ob
		nDel := 0
		file := f.Params[1]
		// the function itself and the private helpers it calls (arguments followed back to RemoveOneFile)
		type frame struct {
			fn   *ssa.Function
			site *ssa.Call // call in RemoveOneFile (nil for RemoveOneFile itself)
		}
		frames := []frame{{f, nil}}
		for _, b := range f.Blocks {
			for _, ins := range b.Instrs {
				if call, ok := ins.(*ssa.Call); ok {
					if g := call.Call.StaticCallee(); g != nil && g.Blocks != nil && g.Pkg == f.Pkg && g.Object() != nil && !g.Object().Exported() {
						frames = append(frames, frame{g, call})
					}
				}
			}
		}
		actual := func(fr frame, v ssa.Value) ssa.Value {
			if p, ok := v.(*ssa.Parameter); ok && fr.site != nil {
				if i := paramIndex(fr.fn, p); i >= 0 && i < len(fr.site.Call.Args) {
					return fr.site.Call.Args[i]
				}
			}
			return v
		}
		for _, fr := range frames {
			for _, b := range fr.fn.Blocks {
				for _, ins := range b.Instrs {
					call, ok := ins.(*ssa.Call)
					if !ok {
						continue
					}
					bi, ok := call.Call.Value.(*ssa.Builtin)
					if !ok || bi.Name() != "delete" {
						continue
					}
					nDel++
					key := fmt.Sprintf("KEY/M6:RemoveOneFile:delete#%d", nDel)
					m, k := actual(fr, call.Call.Args[0]), actual(fr, call.Call.Args[1])
					if k == ssa.Value(file) {
						obs = append(obs, Ob{Key: key, Site: c.Pos(call.Pos()), Verdict: OK, Note: "keyed by the removed file"})
						continue
					}
					// whole bucket: must be proven empty
					outer := false
					if ld, ok := m.(*ssa.UnOp); ok && ld.Op == token.MUL {
						if fa, ok := ld.X.(*ssa.FieldAddr); ok && fa.X == ssa.Value(f.Params[0]) {
							outer = true
						}
					}
					empty := false
					for _, e0 := range dominatingEdges(b) {
						e := stripNot(e0)
						bo, ok := e.cond.(*ssa.BinOp)
						if !ok {
							continue
						}
						_, xl := isLenCall(bo.X)
						cst, yc := bo.Y.(*ssa.Const)
						if xl && yc && cst.Value != nil && cst.Value.Kind() == constant.Int && cst.Int64() == 0 {
							if (bo.Op == token.EQL && e.truth) || (bo.Op == token.NEQ && !e.truth) || (bo.Op == token.GTR && !e.truth) || (bo.Op == token.LEQ && e.truth) {
								empty = true
							}
						}
					}
					switch {
					case outer && empty:
						obs = append(obs, Ob{Key: key, Site: c.Pos(call.Pos()), Verdict: OK, Note: "drops a bucket proven empty"})
					case outer:
						obs = append(obs, Ob{Key: key, Site: c.Pos(call.Pos()), Verdict: VIOLATION,
							Note: "a whole name bucket is dropped without a test that it is empty: a file of the same name in another directory disappears from the index with it"})
					default:
						obs = append(obs, Ob{Key: key, Site: c.Pos(call.Pos()), Verdict: VIOLATION,
							Note: "delete from a name bucket with a key that is not the removed file"})
					}
				}
			}
		}
		// sibling agreement: a removal is skipped only where the insertion is skipped too
		ins := c.SSAFunc(commonPkg, "FileIndexInfo", "InsertOneFile")
		if ins == nil {
			obs = append(obs, Ob{Key: "KEY/M6:sibling", Verdict: UNDECIDED, Note: "slot unresolved: FileIndexInfo.InsertOneFile"})
		} else {
			insConds := map[string]bool{}
			for _, b := range ins.Blocks {
				if iff, ok := b.Instrs[len(b.Instrs)-1].(*ssa.If); ok {
					if t, opaque := termOf(iff.Cond, 0); !opaque {
						insConds[t] = true
					}
				}
			}
			nSib := 0
			for _, fr := range frames {
				for _, b := range fr.fn.Blocks {
					for _, in2 := range b.Instrs {
						call, ok := in2.(*ssa.Call)
						if !ok {
							continue
						}
						bi, ok := call.Call.Value.(*ssa.Builtin)
						if !ok || bi.Name() != "delete" || actual(fr, call.Call.Args[1]) != ssa.Value(file) {
							continue
						}
						// the field the bucket comes from
						rootOf := func(v ssa.Value) string {
							for d := 0; d < 6; d++ {
								switch x := v.(type) {
								case *ssa.Extract:
									v = x.Tuple
									continue
								case *ssa.Lookup:
									v = actual(fr, x.X)
									continue
								case *ssa.UnOp:
									if fa, ok := x.X.(*ssa.FieldAddr); ok && x.Op == token.MUL {
										return fieldName(fa.X.Type(), fa.Field)
									}
								}
								break
							}
							return ""
						}
						field := rootOf(call.Call.Args[0])
						if field == "" {
							continue
						}
						nSib++
						key := "KEY/M6:RemoveOneFile:always-removes:" + field
						var conds []condEdge
						conds = append(conds, dominatingEdges(b)...)
						if fr.site != nil {
							conds = append(conds, dominatingEdges(fr.site.Block())...)
						}
						bad := ""
						for _, e0 := range conds {
							e := stripNot(e0)
							// the bucket of this very map exists
							if ex, ok := e.cond.(*ssa.Extract); ok && ex.Index == 1 {
								if lk, ok := ex.Tuple.(*ssa.Lookup); ok && rootOf(lk) == field {
									continue
								}
							}
							if t, opaque := termOf(e.cond, 0); !opaque && insConds[t] {
								continue // InsertOneFile branches on the same condition
							}
							bad = c.Pos(e.cond.Pos())
						}
						if bad != "" {
							obs = append(obs, Ob{Key: key, Site: bad, Verdict: VIOLATION,
								Note: "the removal from " + field + " depends on a condition (" + bad + ") that InsertOneFile does not test before inserting there: on the other outcome the deleted file stays in this index"})
						} else {
							obs = append(obs, Ob{Key: key, Site: c.Pos(call.Pos()), Verdict: OK, Note: "skipped only where the insertion is skipped"})
						}
					}
				}
			}
			obs = append(obs, floor("KEY/M6-sibling", "removals compared with their insertion", nSib, 2))
		}
		obs = append(obs, floor("KEY/M6", "deletes in RemoveOneFile", nDel, 2))
		return obs
	},
}

// ---------------------------------------------------------------------------------------------
// DET/comparator-key: a comparator with a tie-break ends in a key that tells the elements apart

// comparators whose last key is a source position (reviewed: the elements are declarations / diagnostics of ONE file,
// and (line, column) identifies such an element)
var positionKeyedComparators = map[string]string{
	"(*check/common.AnnotateFile).Less":  "annotation diagnostics of one file, ordered by (line, column)",
	"(*check/common.resultSortVar).Less": "declarations of one file: line, then containment, then column",
	"(*check/common.EnumVacList).Less":   "enum members of one file, ordered by (line, column) of the declaration",
}

var ruleDetComparatorKey = &Rule{
	Name:    "DET/comparator-key",
	NeedSSA: true,
	Text: "a sort.Interface comparator that ranks by more than one key (a score first, then a tie-break) settles ties with a key that distinguishes the elements: an " +
		"ordering comparison of string keys (lexicographic order is injective on the key; strings.Compare counts), or a source position for the reviewed comparators " +
		"over the entities of one file. The collections it orders are gathered by ranging over maps, and sort.Sort is not stable, so a tie-break on a derived quantity " +
		"(a length, a second score) leaves the order of ties — and with it the first element, which is the answer — to map iteration order",
	Run: func(c *Ctx) []Ob {
		var obs []Ob
		n := 0
		done := map[*ssa.Function]bool{}
		for _, f := range c.ModFns() {
			if f.Blocks == nil {
				continue
			}
			for _, b := range f.Blocks {
				for _, ins := range b.Instrs {
					call, ok := ins.(*ssa.Call)
					if !ok {
						continue
					}
					sc := call.Call.StaticCallee()
					if sc == nil || sc.Pkg == nil || sc.Pkg.Pkg.Path() != "sort" || len(call.Call.Args) == 0 {
						continue
					}
					var less *ssa.Function
					switch sc.Name() {
					case "Sort", "Stable":
						less = lessOf(c, unwrapIface(call.Call.Args[0]).Type())
					case "Slice", "SliceStable":
						if len(call.Call.Args) > 1 {
							if mc, ok := call.Call.Args[1].(*ssa.MakeClosure); ok {
								less, _ = mc.Fn.(*ssa.Function)
							}
						}
					}
					if less == nil || less.Blocks == nil || done[less] {
						continue
					}
					nCmp := 0
					for _, lb := range less.Blocks {
						for _, li := range lb.Instrs {
							if bo, ok := li.(*ssa.BinOp); ok {
								switch bo.Op {
								case token.LSS, token.GTR, token.LEQ, token.GEQ, token.EQL, token.NEQ:
									nCmp++
								}
							}
						}
					}
					if nCmp < 2 {
						continue // one key only: not a sanitiser of map order (DET does not accept it as one)
					}
					done[less] = true
					n++
					key := "DET/comparator-key:" + fnKey(less)
					stringKey := false
					for _, lb := range less.Blocks {
						for _, li := range lb.Instrs {
							switch x := li.(type) {
							case *ssa.BinOp:
								switch x.Op {
								case token.LSS, token.GTR, token.LEQ, token.GEQ:
									if isStringType(x.X.Type()) && isStringType(x.Y.Type()) {
										stringKey = true
									}
								}
							case *ssa.Call:
								if g := x.Call.StaticCallee(); g != nil && g.Pkg != nil && g.Pkg.Pkg.Path() == "strings" && g.Name() == "Compare" {
									stringKey = true
								}
							}
						}
					}
					switch {
					case stringKey:
						obs = append(obs, Ob{Key: key, Site: c.Pos(less.Pos()), Verdict: OK, Note: "ties end in a lexicographic comparison of a string key"})
					case positionKeyedComparators[fnKey(less)] != "":
						obs = append(obs, Ob{Key: key, Site: c.Pos(less.Pos()), Verdict: OK, Note: "reviewed: " + positionKeyedComparators[fnKey(less)]})
					default:
						obs = append(obs, Ob{Key: key, Site: c.Pos(less.Pos()), Verdict: VIOLATION,
							Note: fnKey(less) + " ranks by several keys but none of them is a string key compared lexicographically (nor a reviewed source position): elements that tie on all of them keep the order in which the maps were walked"})
					}
				}
			}
		}
		obs = append(obs, floor("DET/comparator-key", "multi-key comparators", n, 5))
		return obs
	},
}

// ---------------------------------------------------------------------------------------------
// VISITED/sibling-skip: an element already seen is skipped, the remaining siblings are still processed

var ruleVisitedSiblingSkip = &Rule{
	Name:    "VISITED/sibling-skip",
	NeedSSA: true,
	Text: "inside a loop over sibling declarations / parents / members, the outcome `already seen` of a visited-set test (the tests the termination argument relies on) " +
		"leads to the next iteration, not out of the loop: the visited set exists to cut cycles and duplicates, and an element reached before over another path says " +
		"nothing about the siblings that follow it (the declarations of one class in other files, the other parents of a class) — leaving the loop drops their members",
	Run: func(c *Ctx) []Ob {
		var obs []Ob
		ge := newGuardEngine(c)
		n := 0
		for _, f := range c.ModFns() {
			if f.Blocks == nil {
				continue
			}
			evs := ge.eventsOf(f)
			if len(evs) == 0 {
				continue
			}
			loops := allLoops(f)
			ord := 0
			for _, ev := range evs {
				if ev.insert || ev.found == nil || ev.instr == nil || ev.instr.Block() == nil {
					continue
				}
				// a visited set: the same function also inserts into the set it tests
				inserts := false
				for _, e2 := range evs {
					if e2.insert && e2.gl.String() == ev.gl.String() {
						inserts = true
					}
				}
				if !inserts {
					continue
				}
				// innermost loop containing the test
				var in *loopInfo
				for i := range loops {
					l := &loops[i]
					if l.body[ev.instr.Block()] && (in == nil || len(l.body) < len(in.body)) {
						in = l
					}
				}
				if in == nil {
					continue
				}
				n++
				ord++
				key := fmt.Sprintf("VISITED/sibling-skip:%s:test#%d", fnKey(f), ord)
				if in.body[ev.found] || ev.found == in.header {
					obs = append(obs, Ob{Key: key, Site: c.Pos(ev.instr.Pos()), Verdict: OK, Note: "already-seen outcome stays in the loop"})
				} else {
					obs = append(obs, Ob{Key: key, Site: c.Pos(ev.instr.Pos()), Verdict: VIOLATION,
						Note: "the already-seen outcome of this visited-set test leaves the loop over the siblings: the elements after a repeated one are never looked at"})
				}
			}
		}
		obs = append(obs, floor("VISITED/sibling-skip", "visited-set tests inside loops", n, 30))
		return obs
	},
}

// ---------------------------------------------------------------------------------------------
// LOC/ascii-advance: the column-advancing helper is not fed bytes known to be no characters of their own


var ruleLocAsciiAdvance = &Rule{
	Name:    "LOC/ascii-advance",
	NeedSSA: true,
	Text: "Lexer.next(n) drops n bytes of the input and adds n to the character cursor, which is right only when the n bytes are n characters. A call next(k) with a " +
		"constant k must therefore not sit behind a test that one of those k bytes equals a constant ≥ 0x80 (chunk[j] == c with j < k, or a HasPrefix with such a byte " +
		"among the first k): a byte ≥ 0x80 is never a character of its own in UTF-8 or GBK, so every column on that line would be shifted (the byte-order mark is the " +
		"instance: three bytes, no column)",
	Run: func(c *Ctx) []Ob {
		next := c.SSAFunc(lexerPkgPath, "Lexer", "next")
		if next == nil {
			return []Ob{{Key: "LOC/ascii-advance:slots", Verdict: UNDECIDED, Note: "slot unresolved: Lexer.next"}}
		}
		var obs []Ob
		n := 0
		isChunkLoad := func(v ssa.Value) bool {
			ld, ok := v.(*ssa.UnOp)
			if !ok || ld.Op != token.MUL {
				return false
			}
			fa, ok := ld.X.(*ssa.FieldAddr)
			return ok && fieldName(fa.X.Type(), fa.Field) == "chunk"
		}
		for _, f := range c.ModFns() {
			if f.Blocks == nil || f.Pkg == nil || f.Pkg.Pkg.Path() != lexerPkgPath {
				continue
			}
			ord := 0
			for _, b := range f.Blocks {
				for _, ins := range b.Instrs {
					call, ok := ins.(*ssa.Call)
					if !ok || call.Call.StaticCallee() != next || len(call.Call.Args) < 2 {
						continue
					}
					kc, ok := call.Call.Args[1].(*ssa.Const)
					if !ok || kc.Value == nil || kc.Value.Kind() != constant.Int {
						continue
					}
					k := kc.Int64()
					n++
					ord++
					key := fmt.Sprintf("LOC/ascii-advance:%s:next#%d", fnKey(f), ord)
					bad := ""
					for _, e0 := range dominatingEdges(b) {
						e := stripNot(e0)
						switch x := e.cond.(type) {
						case *ssa.BinOp:
							if !((x.Op == token.EQL && e.truth) || (x.Op == token.NEQ && !e.truth)) {
								continue
							}
							for _, pr := range [][2]ssa.Value{{x.X, x.Y}, {x.Y, x.X}} {
								ix, ok1 := pr[0].(*ssa.Index)
								cv, ok2 := pr[1].(*ssa.Const)
								if !ok1 || !ok2 || cv.Value == nil || cv.Value.Kind() != constant.Int || !isChunkLoad(ix.X) {
									continue
								}
								jc, ok := ix.Index.(*ssa.Const)
								if !ok || jc.Value == nil || jc.Value.Kind() != constant.Int {
									continue
								}
								if jc.Int64() < k && cv.Int64() >= 0x80 {
									bad = fmt.Sprintf("chunk[%d] == 0x%X", jc.Int64(), cv.Int64())
								}
							}
						case *ssa.Call:
							g := x.Call.StaticCallee()
							if g == nil || g.Pkg == nil || g.Pkg.Pkg.Path() != "strings" || g.Name() != "HasPrefix" || !e.truth {
								continue
							}
							if pc, ok := x.Call.Args[1].(*ssa.Const); ok && pc.Value != nil && pc.Value.Kind() == constant.String && isChunkLoad(x.Call.Args[0]) {
								p := constant.StringVal(pc.Value)
								for j := 0; j < len(p) && int64(j) < k; j++ {
									if p[j] >= 0x80 {
										bad = fmt.Sprintf("HasPrefix(chunk, %q)", p)
									}
								}
							}
						}
					}
					if bad != "" {
						obs = append(obs, Ob{Key: key, Site: c.Pos(call.Pos()), Verdict: VIOLATION,
							Note: fmt.Sprintf("next(%d) adds %d columns for bytes known not to be %d characters (%s holds on every path to this call)", k, k, k, bad)})
					} else {
						obs = append(obs, Ob{Key: key, Site: c.Pos(call.Pos()), Verdict: OK})
					}
				}
			}
		}
		obs = append(obs, floor("LOC/ascii-advance", "constant advances of the lexer cursor", n, 39))
		return obs
	},
}

// ---------------------------------------------------------------------------------------------
// LOC/line-only-skip: a scan over located elements does not skip or stop on a line-only test when the lines are equal

var ruleLocLineOnlySkip = &Rule{
	Name:    "LOC/line-only-skip",
	NeedSSA: true,
	Text: "a position is a (line, column) pair. In a loop over located elements (scopes, symbols), a branch that is decided by an ordering comparison of an element's " +
		"Location line field (StartLine / EndLine) with a line value that is not itself a Location field — the cursor line — and that either skips the element " +
		"(goes on to the next iteration) or leaves the loop is not taken when the two lines are equal: on the cursor's own line only the columns can tell whether " +
		"the element lies before, around or after the cursor, so `StartLine >= line → break` hides every later element that starts on that line " +
		"(two blocks on one source line: the second one's locals are never found)",
	Run: func(c *Ctx) []Ob {
		var obs []Ob
		n := 0
		lineField := func(v ssa.Value) (string, bool) {
			ld, ok := v.(*ssa.UnOp)
			if !ok || ld.Op != token.MUL {
				return "", false
			}
			fa, ok := ld.X.(*ssa.FieldAddr)
			if !ok || !isLocationType(types.Unalias(fa.X.Type()).Underlying().(*types.Pointer).Elem()) {
				return "", false
			}
			nm := fieldName(fa.X.Type(), fa.Field)
			return nm, nm == "StartLine" || nm == "EndLine"
		}
		for _, f := range c.ModFns() {
			if f.Blocks == nil {
				continue
			}
			loops := allLoops(f)
			if len(loops) == 0 {
				continue
			}
			ord := 0
			for _, b := range f.Blocks {
				iff, ok := b.Instrs[len(b.Instrs)-1].(*ssa.If)
				if !ok {
					continue
				}
				bo, ok := iff.Cond.(*ssa.BinOp)
				if !ok {
					continue
				}
				switch bo.Op {
				case token.LSS, token.GTR, token.LEQ, token.GEQ:
				default:
					continue
				}
				fx, isX := lineField(bo.X)
				fy, isY := lineField(bo.Y)
				if isX == isY {
					continue // no Location line, or two Locations compared with each other
				}
				// the other side must be a plain int that is not read from a Location
				other := bo.Y
				fname := fx
				if isY {
					other, fname = bo.X, fy
				}
				if ld, ok := other.(*ssa.UnOp); ok && ld.Op == token.MUL {
					if fa, ok := ld.X.(*ssa.FieldAddr); ok {
						if pt, ok := types.Unalias(fa.X.Type()).Underlying().(*types.Pointer); ok && isLocationType(pt.Elem()) {
							continue
						}
					}
				}
				// innermost loop containing the branch
				var in *loopInfo
				for i := range loops {
					l := &loops[i]
					if l.body[b] && (in == nil || len(l.body) < len(in.body)) {
						in = l
					}
				}
				if in == nil {
					continue
				}
				// which successor is taken when the lines are equal?
				eqTaken := 1
				if bo.Op == token.LEQ || bo.Op == token.GEQ {
					eqTaken = 0
				}
				classify := func(tgt *ssa.BasicBlock) string {
					switch {
					case !in.body[tgt] && tgt != in.header:
						return "exit"
					case tgt == in.header:
						return "skip"
					case len(tgt.Instrs) == 1 && len(tgt.Succs) == 1 && tgt.Succs[0] == in.header:
						return "skip"
					case isRangeLatch(tgt, in):
						return "skip"
					}
					return "examine"
				}
				eqK, otherK := classify(b.Succs[eqTaken]), classify(b.Succs[1-eqTaken])
				n++
				ord++
				key := fmt.Sprintf("LOC/line-only-skip:%s:%s#%d", fnKey(f), fname, ord)
				switch {
				case eqK == "exit":
					obs = append(obs, Ob{Key: key, Site: c.Pos(bo.Pos()), Verdict: VIOLATION,
						Note: fmt.Sprintf("when the element's %s equals the cursor line the scan stops: later elements that start on the same line are never looked at", fname)})
				case eqK == "skip" && otherK == "examine":
					obs = append(obs, Ob{Key: key, Site: c.Pos(bo.Pos()), Verdict: VIOLATION,
						Note: fmt.Sprintf("when the element's %s equals the cursor line the element is skipped without a look at the columns", fname)})
				default:
					obs = append(obs, Ob{Key: key, Site: c.Pos(bo.Pos()), Verdict: OK, Note: "on equal lines the scan goes on / the element is examined (" + eqK + ")"})
				}
			}
		}
		obs = append(obs, floor("LOC/line-only-skip", "line-only comparisons of element locations inside scans", n, 7))
		return obs
	},
}

// isRangeLatch: block b only advances the loop (jumps to the header, possibly through the index increment block)
func isRangeLatch(b *ssa.BasicBlock, l *loopInfo) bool {
	for steps := 0; steps < 3 && b != nil; steps++ {
		if b == l.header {
			return true
		}
		for _, ins := range b.Instrs {
			switch ins.(type) {
			case *ssa.Jump, *ssa.BinOp, *ssa.Phi:
			default:
				return false
			}
		}
		if len(b.Succs) != 1 {
			return false
		}
		b = b.Succs[0]
	}
	return false
}

// ---------------------------------------------------------------------------------------------
// KEY/M7: a file with an unresolved require is re-resolved on every create / delete

var ruleKeyM7 = &Rule{
	Name:    "KEY/M7-unresolved-always-rescanned",
	NeedSSA: true,
	Text: "FileResult.ReanalyseReferInfo (called for every analysed file when a file is created or deleted) reaches the rebuild of the file's reference diagnostics " +
		"(the store into CheckErrVec that drops the old `not find file` entries, followed by the re-resolution of every reference) on every path, except through the " +
		"branch taken when isHasErrorNoFile() is false: a file that carries an unresolved require must be looked at again whatever was created — the textual match of " +
		"the changed path against the require string (dotted names, init.lua packages) is only an optimisation for files without one",
	Run: func(c *Ctx) []Ob {
		f := c.SSAFunc(resultsPkg, "FileResult", "ReanalyseReferInfo")
		has := c.SSAFunc(resultsPkg, "FileResult", "isHasErrorNoFile")
		if f == nil || has == nil {
			return []Ob{{Key: "KEY/M7:slots", Verdict: UNDECIDED, Note: "slot unresolved: FileResult.ReanalyseReferInfo / isHasErrorNoFile"}}
		}
		first := f.Blocks[0].Instrs[0]
		isRebuild := func(i ssa.Instruction) bool {
			st, ok := i.(*ssa.Store)
			if !ok {
				return false
			}
			fa, ok := st.Addr.(*ssa.FieldAddr)
			return ok && fieldName(fa.X.Type(), fa.Field) == "CheckErrVec"
		}
		n := 0
		for _, b := range f.Blocks {
			for _, ins := range b.Instrs {
				if isRebuild(ins) {
					n++
				}
			}
		}
		if n == 0 {
			return []Ob{{Key: "KEY/M7:ReanalyseReferInfo", Site: c.Pos(f.Pos()), Verdict: UNDECIDED, Note: "no store into CheckErrVec found: the rebuild of the reference diagnostics is not recognisable"}}
		}
		// Paths from the entry to a return that do not pass the rebuild, followed over (block, predecessor) pairs so that a
		// condition kept in a named local (`need := has() || contains(); if !need { return }`) is read like the inline form:
		// a phi tested by the branch takes the value of the edge it was entered through. The edge on which
		// isHasErrorNoFile() is false is the only pardon.
		_ = first
		hasRebuild := func(b *ssa.BasicBlock) bool {
			for _, ins := range b.Instrs {
				if isRebuild(ins) {
					return true
				}
			}
			return false
		}
		// value of cond when known: (truth known, truth, is the negated/plain result of has())
		type cv struct {
			known, val bool
			isHas      bool // the value IS has() (val = polarity: true means equals has())
		}
		var evalCond func(v ssa.Value, cur, prev *ssa.BasicBlock, d int) cv
		evalCond = func(v ssa.Value, cur, prev *ssa.BasicBlock, d int) cv {
			if d > 4 {
				return cv{}
			}
			switch x := v.(type) {
			case *ssa.Const:
				if x.Value != nil && x.Value.Kind() == constant.Bool {
					return cv{known: true, val: constant.BoolVal(x.Value)}
				}
			case *ssa.Call:
				if x.Call.StaticCallee() == has {
					return cv{isHas: true, val: true}
				}
			case *ssa.UnOp:
				if x.Op == token.NOT {
					r := evalCond(x.X, cur, prev, d+1)
					r.val = !r.val
					return r
				}
			case *ssa.Phi:
				if x.Block() == cur && prev != nil {
					for i, p := range cur.Preds {
						if p == prev {
							return evalCond(x.Edges[i], nil, nil, d+1)
						}
					}
				}
			}
			return cv{}
		}
		type st struct{ b, prev *ssa.BasicBlock }
		seen := map[st]bool{}
		var bad []*ssa.BasicBlock
		var dfs func(cur, prev *ssa.BasicBlock)
		dfs = func(cur, prev *ssa.BasicBlock) {
			k := st{cur, prev}
			if seen[k] || hasRebuild(cur) {
				return
			}
			seen[k] = true
			switch t := cur.Instrs[len(cur.Instrs)-1].(type) {
			case *ssa.Return:
				bad = append(bad, cur)
			case *ssa.If:
				r := evalCond(t.Cond, cur, prev, 0)
				for i, s := range cur.Succs {
					edgeTruth := i == 0
					if r.known && r.val != edgeTruth {
						continue // infeasible
					}
					if r.isHas && (r.val == edgeTruth) == false {
						continue // has() is false on this edge: pardoned
					}
					dfs(s, cur)
				}
			default:
				for _, s := range cur.Succs {
					dfs(s, cur)
				}
			}
		}
		dfs(f.Blocks[0], nil)
		if len(bad) > 0 {
			return []Ob{{Key: "KEY/M7:ReanalyseReferInfo", Site: c.Pos(f.Pos()), Verdict: VIOLATION,
				Note: "some path returns without rebuilding the reference diagnostics although isHasErrorNoFile() was not found false on it: a file whose require could not be resolved keeps its stale `not find file` diagnostic after the module is created"}}
		}
		obs := []Ob{{Key: "KEY/M7:ReanalyseReferInfo", Site: c.Pos(f.Pos()), Verdict: OK, Note: "the rebuild is skipped only when the file has no unresolved reference"}}
		// the re-resolution starts from "valid": CheckReferFile only ever clears the flag of a reference it cannot resolve,
		// so a reference that was unresolved before the file appeared stays invalid (and is not followed by the project
		// pass) unless the flag is set again before the call
		chk := c.SSAFunc(resultsPkg, "FileResult", "CheckReferFile")
		if chk == nil {
			return append(obs, Ob{Key: "KEY/M7:valid-reset", Verdict: UNDECIDED, Note: "slot unresolved: FileResult.CheckReferFile"})
		}
		setsTrueItself := false
		for _, ins := range chk.Blocks[0].Instrs {
			if st, ok := ins.(*ssa.Store); ok {
				if fa, ok := st.Addr.(*ssa.FieldAddr); ok && fieldName(fa.X.Type(), fa.Field) == "Valid" {
					if k, ok := st.Val.(*ssa.Const); ok && k.Value != nil && k.Value.Kind() == constant.Bool && constant.BoolVal(k.Value) {
						setsTrueItself = true
					}
				}
			}
		}
		nCalls := 0
		// the re-scan and the private helpers of its package it hands the work to (two levels)
		scan := []*ssa.Function{f}
		for lvl, from := 0, 0; lvl < 2; lvl++ {
			end := len(scan)
			for _, g := range scan[from:end] {
				for _, b := range g.Blocks {
					for _, ins := range b.Instrs {
						if call, ok := ins.(*ssa.Call); ok {
							h := call.Call.StaticCallee()
							if h == nil || h == chk || h.Blocks == nil || h.Pkg != f.Pkg || (h.Object() != nil && h.Object().Exported()) {
								continue
							}
							dup := false
							for _, x := range scan {
								if x == h {
									dup = true
								}
							}
							if !dup {
								scan = append(scan, h)
							}
						}
					}
				}
			}
			from = end
		}
		var allBlocks []*ssa.BasicBlock
		for _, g := range scan {
			allBlocks = append(allBlocks, g.Blocks...)
		}
		for _, b := range allBlocks {
			for _, ins := range b.Instrs {
				call, ok := ins.(*ssa.Call)
				if !ok || call.Call.StaticCallee() != chk || len(call.Call.Args) < 2 {
					continue
				}
				nCalls++
				elem := call.Call.Args[1]
				// a store of true into elem.Valid in a block that dominates the call; when the element is a parameter of a
				// helper, the same at every call of the helper
				var resetBefore func(at ssa.Instruction, elem ssa.Value, depth int) bool
				resetBefore = func(at ssa.Instruction, elem ssa.Value, depth int) bool {
					for d := at.Block(); d != nil; d = d.Idom() {
						for _, i2 := range d.Instrs {
							if i2 == at {
								break
							}
							st, ok := i2.(*ssa.Store)
							if !ok {
								continue
							}
							fa, ok := st.Addr.(*ssa.FieldAddr)
							if !ok || fa.X != elem || fieldName(fa.X.Type(), fa.Field) != "Valid" {
								continue
							}
							if k, ok := st.Val.(*ssa.Const); ok && k.Value != nil && k.Value.Kind() == constant.Bool && constant.BoolVal(k.Value) {
								return true
							}
						}
					}
					p, ok := elem.(*ssa.Parameter)
					if !ok || depth > 2 || p.Parent() == f {
						return false
					}
					pi := -1
					for i, q := range p.Parent().Params {
						if q == p {
							pi = i
						}
					}
					sites := 0
					for _, g := range scan {
						for _, gb := range g.Blocks {
							for _, gi := range gb.Instrs {
								if gc, ok := gi.(*ssa.Call); ok && gc.Call.StaticCallee() == p.Parent() && pi >= 0 && pi < len(gc.Call.Args) {
									sites++
									if !resetBefore(gc, gc.Call.Args[pi], depth+1) {
										return false
									}
								}
							}
						}
					}
					return sites > 0
				}
				reset := setsTrueItself || resetBefore(ins, elem, 0)
				key := fmt.Sprintf("KEY/M7:valid-reset#%d", nCalls)
				if reset {
					obs = append(obs, Ob{Key: key, Site: c.Pos(call.Pos()), Verdict: OK, Note: "the reference is marked valid before it is resolved again"})
				} else {
					obs = append(obs, Ob{Key: key, Site: c.Pos(call.Pos()), Verdict: VIOLATION,
						Note: "a reference is resolved again without being marked valid first: CheckReferFile only clears the flag, so a require that was unresolved once stays invalid after its file has been created"})
				}
			}
		}
		if nCalls == 0 {
			obs = append(obs, Ob{Key: "KEY/M7:valid-reset", Site: c.Pos(f.Pos()), Verdict: UNDECIDED, Note: "neither ReanalyseReferInfo nor a private helper it calls calls CheckReferFile"})
		}
		return obs
	},
}

// ---------------------------------------------------------------------------------------------
// LOC/cr-at-end: a lone CR that is the last byte of the text ends a line

var ruleLocCRAtEnd = &Rule{
	Name:    "LOC/cr-at-end",
	NeedSSA: true,
	Text: "in the position-to-offset converters a byte equal to '\\r' ends a line unless the byte after it is '\\n'; when there is no byte after it (the bounds test on the " +
		"next index fails) the CR is a lone one and ends the line too. Decided on the branch structure: from the branch taken when the byte equals '\\r', following the " +
		"outcome `next index is not inside the text` of every bounds comparison on the way, the code reaches the same block as for a byte equal to '\\n'. (`c == '\\r' && " +
		"i+1 < len && s[i+1] != '\\n'` is the De Morgan slip: a document whose last byte is a lone CR loses its last, empty line, and an edit on that line is rejected)",
	Run: func(c *Ctx) []Ob {
		var obs []Ob
		n := 0
		for _, lc := range lineCounters {
			f := c.SSAFunc(lc[0], lc[1], lc[2])
			if f == nil {
				obs = append(obs, Ob{Key: "LOC/cr-at-end:" + lc[2], Verdict: UNDECIDED, Note: "slot unresolved: " + lc[2]})
				continue
			}
			// the function and the private helpers of its package it calls (isLineEnd(contents, index, c))
			fns := []*ssa.Function{f}
			for _, b := range f.Blocks {
				for _, ins := range b.Instrs {
					if call, ok := ins.(*ssa.Call); ok {
						if h := call.Call.StaticCallee(); h != nil && h.Blocks != nil && h.Pkg == f.Pkg && h != f {
							fns = append(fns, h)
						}
					}
				}
			}
			found := false
			for _, g := range fns {
				// byteTest: the block ends in a comparison of a byte with ch; it returns the compared value and the index of
				// the successor taken when the byte equals ch (`c == ch` and `c != ch` forms)
				byteTest := func(b *ssa.BasicBlock, ch int64) (ssa.Value, int, bool) {
					iff, ok := b.Instrs[len(b.Instrs)-1].(*ssa.If)
					if !ok {
						return nil, 0, false
					}
					bo, ok := iff.Cond.(*ssa.BinOp)
					if !ok || (bo.Op != token.EQL && bo.Op != token.NEQ) {
						return nil, 0, false
					}
					eqEdge := 0
					if bo.Op == token.NEQ {
						eqEdge = 1
					}
					if k, ok := bo.Y.(*ssa.Const); ok && k.Value != nil && k.Value.Kind() == constant.Int && k.Int64() == ch {
						return bo.X, eqEdge, true
					}
					if k, ok := bo.X.(*ssa.Const); ok && k.Value != nil && k.Value.Kind() == constant.Int && k.Int64() == ch {
						return bo.Y, eqEdge, true
					}
					return nil, 0, false
				}
				var bn, br *ssa.BasicBlock
				var vn, vr ssa.Value
				var en, er int
				for _, b := range g.Blocks {
					if v, e, ok := byteTest(b, '\n'); ok && bn == nil {
						bn, vn, en = b, v, e
					}
					if v, e, ok := byteTest(b, '\r'); ok && br == nil {
						br, vr, er = b, v, e
					}
				}
				if bn == nil || br == nil {
					continue
				}
				found = true
				n++
				key := "LOC/cr-at-end:" + lc[2]
				// Both bytes are followed from the true edge of their test to the first block that does something (anything
				// but phis, negations and decided branches) or to a return; boolean phis and negations are evaluated along the
				// way, so the same walk reads `return c == '\n' || (c == '\r' && !(i+1 < n && s[i+1] == '\n'))` in a helper.
				// A comparison with len(...) is decided as "the next index is not inside the text".
				walk := func(from, start *ssa.BasicBlock, kv ssa.Value, kch int64) (*ssa.BasicBlock, *bool) {
					env := map[ssa.Value]bool{}
					val := func(v ssa.Value) (bool, bool) {
						if k, ok := v.(*ssa.Const); ok && k.Value != nil && k.Value.Kind() == constant.Bool {
							return constant.BoolVal(k.Value), true
						}
						x, ok := env[v]
						return x, ok
					}
					prev, cur := from, start
					for step := 0; step < 24; step++ {
						pi := -1
						for i, p := range cur.Preds {
							if p == prev {
								pi = i
							}
						}
						passive, effect := true, false
						for _, ins := range cur.Instrs[:len(cur.Instrs)-1] {
							switch x := ins.(type) {
							case *ssa.Store, *ssa.MapUpdate, *ssa.Send, *ssa.Go, *ssa.Defer, *ssa.Panic, *ssa.RunDefers:
								passive, effect = false, true
							case *ssa.Call:
								if _, isB := x.Call.Value.(*ssa.Builtin); !isB {
									effect = true
								}
								passive = false
							case *ssa.Phi:
								if pi >= 0 {
									if bv, ok := val(x.Edges[pi]); ok {
										env[x] = bv
									}
								}
							case *ssa.UnOp:
								if x.Op == token.NOT {
									if bv, ok := val(x.X); ok {
										env[x] = !bv
									}
								} else {
									passive = false
								}
							case *ssa.DebugRef:
							default:
								passive = false
							}
						}
						switch t := cur.Instrs[len(cur.Instrs)-1].(type) {
						case *ssa.Return:
							if len(t.Results) == 1 {
								if bv, ok := val(t.Results[0]); ok {
									return cur, &bv
								}
							}
							return cur, nil
						case *ssa.Jump:
							if !passive {
								return cur, nil
							}
							prev, cur = cur, cur.Succs[0]
						case *ssa.If:
							if effect {
								return cur, nil
							}
							if bv, ok := val(t.Cond); ok {
								next := cur.Succs[1]
								if bv {
									next = cur.Succs[0]
								}
								prev, cur = cur, next
								continue
							}
							bo, ok := t.Cond.(*ssa.BinOp)
							if !ok {
								return cur, nil
							}
							// a further comparison of the byte this walk is about with a constant
							if bo.Op == token.EQL || bo.Op == token.NEQ {
								var k *ssa.Const
								if bo.X == kv {
									k, _ = bo.Y.(*ssa.Const)
								} else if bo.Y == kv {
									k, _ = bo.X.(*ssa.Const)
								}
								if k != nil && k.Value != nil && k.Value.Kind() == constant.Int {
									truth := (k.Int64() == kch) == (bo.Op == token.EQL)
									next := cur.Succs[1]
									if truth {
										next = cur.Succs[0]
									}
									prev, cur = cur, next
									continue
								}
							}
							_, lenY := isLenCall(bo.Y)
							_, lenX := isLenCall(bo.X)
							var truth bool
							switch {
							case lenY && (bo.Op == token.LSS || bo.Op == token.LEQ): // i+1 < len
								truth = false
							case lenY && (bo.Op == token.GEQ || bo.Op == token.GTR):
								truth = true
							case lenX && (bo.Op == token.GTR || bo.Op == token.GEQ): // len > i+1
								truth = false
							case lenX && (bo.Op == token.LSS || bo.Op == token.LEQ):
								truth = true
							default:
								return cur, nil // reads the next byte (or something else) although there is none
							}
							next := cur.Succs[1]
							if truth {
								next = cur.Succs[0]
							}
							prev, cur = cur, next
						default:
							return cur, nil
						}
					}
					return cur, nil
				}
				nBlock, nRet := walk(bn, bn.Succs[en], vn, '\n')
				rBlock, rRet := walk(br, br.Succs[er], vr, '\r')
				verdict, note := VIOLATION, "a '\\r' that is the last byte of the text does not reach the line-end branch: the last, empty line of a CR-terminated document does not exist for the server"
				switch {
				case nRet != nil && rRet != nil && *nRet == *rRet:
					verdict, note = OK, "a '\\r' with no byte after it yields the same result as a '\\n'"
				case nRet == nil && rRet == nil && nBlock == rBlock:
					verdict, note = OK, "a '\\r' with no byte after it takes the line-end branch"
				}
				obs = append(obs, Ob{Key: key, Site: c.Pos(br.Instrs[len(br.Instrs)-1].Pos()), Verdict: verdict, Note: note})
			}
			if !found {
				obs = append(obs, Ob{Key: "LOC/cr-at-end:" + lc[2], Site: c.Pos(f.Pos()), Verdict: UNDECIDED, Note: "no byte tests for '\\n' and '\\r' found in " + lc[2] + " or its helpers"})
			}
		}
		obs = append(obs, floor("LOC/cr-at-end", "converters with a CR test", n, 2))
		return obs
	},
}
