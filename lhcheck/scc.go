package main

import (
	"sort"

	"golang.org/x/tools/go/callgraph"
	"golang.org/x/tools/go/ssa"
)

// callEdge is one intra-module call edge with its site.
type callEdge struct {
	From, To *ssa.Function
	Site     ssa.CallInstruction
}

// modEdges returns all call edges between module functions in graph g, deterministic order.
func (c *Ctx) modEdges(g *callgraph.Graph) map[*ssa.Function][]callEdge {
	out := map[*ssa.Function][]callEdge{}
	for _, f := range c.modFns {
		n := g.Nodes[f]
		if n == nil {
			continue
		}
		seen := map[[2]interface{}]bool{}
		for _, e := range n.Out {
			t := e.Callee.Func
			if !c.IsModFn(t) {
				continue
			}
			k := [2]interface{}{e.Site, t}
			if seen[k] {
				continue
			}
			seen[k] = true
			out[f] = append(out[f], callEdge{From: f, To: t, Site: e.Site})
		}
		es := out[f]
		sort.SliceStable(es, func(i, j int) bool {
			pi, pj := es[i].Site.Pos(), es[j].Site.Pos()
			if pi != pj {
				return pi < pj
			}
			return fnKey(es[i].To) < fnKey(es[j].To)
		})
	}
	return out
}

// sccs computes the strongly connected components (Tarjan) of the module call graph and returns
// only the recursive ones (size > 1 or a self loop), each sorted, list sorted by first member.
func (c *Ctx) recursiveSCCs(edges map[*ssa.Function][]callEdge) ([][]*ssa.Function, map[*ssa.Function]int) {
	index := map[*ssa.Function]int{}
	low := map[*ssa.Function]int{}
	on := map[*ssa.Function]bool{}
	var stack []*ssa.Function
	var comps [][]*ssa.Function
	idx := 0
	var strong func(v *ssa.Function)
	strong = func(v *ssa.Function) {
		index[v] = idx
		low[v] = idx
		idx++
		stack = append(stack, v)
		on[v] = true
		for _, e := range edges[v] {
			w := e.To
			if _, ok := index[w]; !ok {
				strong(w)
				if low[w] < low[v] {
					low[v] = low[w]
				}
			} else if on[w] && index[w] < low[v] {
				low[v] = index[w]
			}
		}
		if low[v] == index[v] {
			var comp []*ssa.Function
			for {
				w := stack[len(stack)-1]
				stack = stack[:len(stack)-1]
				on[w] = false
				comp = append(comp, w)
				if w == v {
					break
				}
			}
			comps = append(comps, comp)
		}
	}
	for _, f := range c.modFns {
		if _, ok := index[f]; !ok {
			strong(f)
		}
	}
	var rec [][]*ssa.Function
	for _, comp := range comps {
		if len(comp) == 1 {
			self := false
			for _, e := range edges[comp[0]] {
				if e.To == comp[0] {
					self = true
				}
			}
			if !self {
				continue
			}
		}
		sort.Slice(comp, func(i, j int) bool { return fnKey(comp[i]) < fnKey(comp[j]) })
		rec = append(rec, comp)
	}
	sort.Slice(rec, func(i, j int) bool { return fnKey(rec[i][0]) < fnKey(rec[j][0]) })
	sccOf := map[*ssa.Function]int{}
	for i, comp := range rec {
		for _, f := range comp {
			sccOf[f] = i
		}
	}
	return rec, sccOf
}
