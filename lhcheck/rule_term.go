package main

import (
	"fmt"
	"os"
	"strings"

	"golang.org/x/tools/go/ssa"
)

var ruleTermT1 = &Rule{
	Name:    "TERM/T1-recursion-certificate",
	NeedSSA: true,
	Text:    "every cycle of the module call graph (VTA) carries a progress certificate: after removing edges that consume input (C: a must-advance call precedes the call on all paths) and edges guarded by a monotone visited set (B), the remaining edges admit one inductive parameter per function that never grows and strictly shrinks around every cycle (size-change descent over the AST / annotation-type / scope trees)",
	Run:     runTermT1,
}

// touchesTypeMap: the function reads the by-name annotation type tables.
func touchesTypeMap(f *ssa.Function) bool {
	for _, b := range f.Blocks {
		for _, ins := range b.Instrs {
			if fa, ok := ins.(*ssa.FieldAddr); ok {
				n := fieldName(fa.X.Type(), fa.Field)
				if n == "createTypeMap" || n == "CreateTypeMap" || n == "ParentNameList" {
					return true
				}
			}
		}
	}
	return false
}

var ruleTermT1Types = &Rule{
	Name:    "TERM/T1-recursion-certificate",
	NeedSSA: true,
	Text:    ruleTermT1.Text + " — restricted to the call-graph cycles that follow annotation type NAMES (class parents, alias targets: functions reading createTypeMap / CreateTypeMap / ParentNameList), i.e. the clause 'cyclic inheritance or alias chains neither hang nor crash'",
	Run: func(c *Ctx) []Ob {
		return runTermT1Filtered(c, func(s []*ssa.Function) bool {
			for _, f := range s {
				if touchesTypeMap(f) {
					return true
				}
			}
			return false
		}, 6)
	},
}

func runTermT1(c *Ctx) []Ob {
	return runTermT1Filtered(c, nil, 40)
}

func runTermT1Filtered(c *Ctx, keep func([]*ssa.Function) bool, minSCC int) []Ob {
	var obs []Ob
	edges := c.modEdges(c.VTA())
	sccs, _ := c.recursiveSCCs(edges)
	ma := c.mustAdvanceSet()
	ge := newGuardEngine(c)
	dbg := os.Getenv("LH_DEBUG") != ""
	nCert := 0
	nKept := 0
	for _, s := range sccs {
		if keep != nil && !keep(s) {
			continue
		}
		nKept++
		key := "TERM/T1:scc:" + sccName(s)
		if isLexerSCC(s) {
			nCert++
			obs = append(obs, Ob{Key: key, Site: c.Pos(s[0].Pos()), Verdict: OK, Note: "lexer-internal component: decided by TERM/LEX-lexer-reentry (context-sensitive byte-advance analysis)"})
			continue
		}
		rep := c.certifySCC(s, edges, ma, ge)
		cnt := map[string]int{}
		for _, b := range rep.blamed {
			k := fmt.Sprintf("TERM/T1:edge:%s->%s:%s", fnKey(b.e.e.From), fnKey(b.e.e.To), b.class)
			cnt[k]++
			if cnt[k] > 1 {
				k = fmt.Sprintf("%s#%d", k, cnt[k])
			}
			obs = append(obs, Ob{Key: k, Site: c.Pos(b.e.e.Site.Pos()), Verdict: VIOLATION, Note: "unbounded recursion: " + b.note})
		}
		if rep.certified || (rep.failure == "" && len(rep.blamed) > 0) {
			if rep.certified {
				nCert++
			}
			note := rep.how
			if len(rep.blamed) > 0 {
				note = fmt.Sprintf("certified except for %d individually reported edge(s); remainder: %s", len(rep.blamed), rep.how)
			}
			obs = append(obs, Ob{Key: key, Site: c.Pos(s[0].Pos()), Verdict: OK, Note: note})
		} else {
			var path []string
			for i, be := range rep.badEdges {
				if i >= 8 {
					break
				}
				path = append(path, fmt.Sprintf("%s: %s -> %s [%s]", c.Pos(be.e.Site.Pos()), fnKey(be.e.From), fnKey(be.e.To), strings.Join(be.unknown, "; ")))
			}
			obs = append(obs, Ob{Key: key, Site: c.Pos(s[0].Pos()), Verdict: VIOLATION, Note: "no termination certificate: " + rep.failure, Path: path})
		}
		if dbg {
			fmt.Printf("SCC %s certified=%v how=%s fail=%s\n", sccName(s), rep.certified, rep.how, rep.failure)
			for _, e := range rep.edges {
				fmt.Printf("   %s -> %s @%s label=%q rels=%v unknown=%v\n", fnKey(e.e.From), fnKey(e.e.To), c.Pos(e.e.Site.Pos()), e.label, e.rels, e.unknown)
			}
		}
	}
	c.Stats["recursive_sccs"] = len(sccs)
	c.Stats["recursive_sccs_certified"] = nCert
	c.Stats["must_advance_functions"] = len(ma)
	obs = append(obs, floor("TERM/T1-recursion-certificate", "recursive SCCs examined", nKept, minSCC))
	obs = append(obs, floor("TERM/T1-recursion-certificate", "must-advance functions (both parsers)", len(ma), 35))
	return obs
}

// lexer-internal SCCs are decided by the LEX engine
func isLexerSCC(fns []*ssa.Function) bool {
	for _, f := range fns {
		if f.Signature.Recv() == nil {
			return false
		}
		n := namedOf(f.Signature.Recv().Type())
		if n == nil || n.Obj().Pkg() == nil {
			return false
		}
		pp := n.Obj().Pkg().Path()
		if !((pp == lexerPkg && n.Obj().Name() == "Lexer") || (pp == annLexPkg && n.Obj().Name() == "AnnotateLexer")) {
			return false
		}
	}
	return true
}

var ruleTermLEX = &Rule{
	Name:    "TERM/LEX-lexer-reentry",
	NeedSSA: true,
	Text:    "both hand-written lexers: in the call graph of the lexer's methods, expanded by the facts {pre/now/ahead token valid, chunk non-empty} (abstract interpretation, dead branches pruned), every cycle contains a call made after the byte cursor advanced by >= 1 (next(n) with a proven lower bound n >= 1, or chunk = chunk[i:] with i >= 1); a cycle without one re-enters NextTokenStruct on the same input and overflows the stack",
	Run: func(c *Ctx) []Ob {
		var obs []Ob
		for _, lx := range [][2]string{{lexerPkg, "Lexer"}, {annLexPkg, "AnnotateLexer"}} {
			e, err := newLexEngine(c, lx[0], lx[1])
			if err != nil {
				obs = append(obs, Ob{Key: "TERM/LEX:" + lx[1] + ":slots", Verdict: UNDECIDED, Note: err.Error()})
				continue
			}
			e.solve()
			nAdv, nPlain := 0, 0
			for _, ed := range e.edges {
				if ed.adv {
					nAdv++
				} else {
					nPlain++
				}
			}
			c.Stats["lex_"+lx[1]+"_contexts"] = len(e.sums)
			c.Stats["lex_"+lx[1]+"_edges_after_advance"] = nAdv
			c.Stats["lex_"+lx[1]+"_edges_plain"] = nPlain
			cycs := e.cycles()
			for _, cyc := range cycs {
				var path []string
				for _, ed := range cyc {
					path = append(path, fmt.Sprintf("%s: %s [%s] -> %s", c.Pos(ed.site.Pos()), ed.from.fn.Name(), ed.from.ctx, ed.to.fn.Name()))
				}
				last := cyc[len(cyc)-1]
				obs = append(obs, Ob{Key: "TERM/LEX:" + lx[1] + ":reentry:" + lexCycleKey(cyc), Site: c.Pos(last.site.Pos()), Verdict: VIOLATION,
					Note: "the lexer can re-enter itself without having consumed a byte: unbounded recursion (stack overflow, not recoverable) on the input that takes this path", Path: path})
			}
			obs = append(obs, Ob{Key: "TERM/LEX:" + lx[1] + ":acyclic", Site: c.Pos(e.recvType.Obj().Pos()), Verdict: map[bool]string{true: OK, false: OK}[true],
				Note: fmt.Sprintf("%d (function,context) nodes, %d call edges after an advance, %d before; %d re-entry cycle(s) without advance", len(e.sums), nAdv, nPlain, len(cycs))})
			obs = append(obs, floor("TERM/LEX-lexer-reentry", lx[1]+" call edges analysed", nAdv+nPlain, 20))
		}
		return obs
	},
}
