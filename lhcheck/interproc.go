package main

import (
	"go/constant"
	"go/token"
	"go/types"

	"golang.org/x/tools/go/ssa"
)

// Helpers that let intraprocedural rules see through private helper functions: a maintainer who extracts a few
// statements into a helper must not silence (or trip) a rule.

type callSiteInfo struct {
	sites  []*ssa.Call
	closed bool // every use of the function is a plain static call from module code (not exported, not a value, not go/defer)
}

// closedCallSites: the static call sites of f in the module, and whether they are all there is
func closedCallSites(c *Ctx, f *ssa.Function) ([]*ssa.Call, bool) {
	if c.csCache == nil {
		c.csCache = map[*ssa.Function]*callSiteInfo{}
		get := func(g *ssa.Function) *callSiteInfo {
			ci := c.csCache[g]
			if ci == nil {
				ci = &callSiteInfo{closed: true}
				if g.Parent() != nil || g.Object() == nil || g.Object().Exported() || g.Name() == "init" || g.Name() == "main" {
					ci.closed = false
				}
				c.csCache[g] = ci
			}
			return ci
		}
		for _, h := range c.ModFns() {
			for _, b := range h.Blocks {
				for _, ins := range b.Instrs {
					var ops [16]*ssa.Value
					for _, op := range ins.Operands(ops[:0]) {
						g, ok := (*op).(*ssa.Function)
						if !ok || !c.IsModFn(g) {
							continue
						}
						ci := get(g)
						if call, ok := ins.(*ssa.Call); ok && call.Call.StaticCallee() == g && call.Call.Value == *op {
							ci.sites = append(ci.sites, call)
							continue
						}
						ci.closed = false
					}
				}
			}
		}
		for _, h := range c.ModFns() {
			get(h)
		}
	}
	ci := c.csCache[f]
	if ci == nil {
		return nil, false
	}
	return ci.sites, ci.closed
}

// soleCaller: f is a private helper with exactly one call site: that call (nil otherwise)
func soleCaller(c *Ctx, f *ssa.Function) *ssa.Call {
	sites, closed := closedCallSites(c, f)
	if !closed || len(sites) != 1 {
		return nil
	}
	return sites[0]
}

// ownerOf: the function whose body a private single-use helper is part of (f itself when it is not such a helper)
func ownerOf(c *Ctx, f *ssa.Function) *ssa.Function {
	for i := 0; i < 4; i++ {
		call := soleCaller(c, f)
		if call == nil || call.Parent() == f {
			return f
		}
		f = call.Parent()
	}
	return f
}

// paramAlwaysConst: p is a parameter of a private function and every call site passes a constant for it
func paramAlwaysConst(c *Ctx, p *ssa.Parameter) bool {
	f := p.Parent()
	sites, closed := closedCallSites(c, f)
	if !closed || len(sites) == 0 {
		return false
	}
	idx := -1
	for i, q := range f.Params {
		if q == p {
			idx = i
		}
	}
	if idx < 0 {
		return false
	}
	for _, s := range sites {
		if idx >= len(s.Call.Args) {
			return false
		}
		if _, ok := s.Call.Args[idx].(*ssa.Const); !ok {
			return false
		}
	}
	return true
}

// dominatedByTrueEdge: b is reached only through the true edge of an If whose condition satisfies ev
func dominatedByTrueEdge(b *ssa.BasicBlock, ev func(cond ssa.Value) bool) bool {
	for d := b; d != nil; d = d.Idom() {
		id := d.Idom()
		if id == nil {
			break
		}
		iff, ok := id.Instrs[len(id.Instrs)-1].(*ssa.If)
		if !ok || id.Succs[0] != d {
			continue
		}
		if len(d.Preds) != 1 {
			continue // d is also reached from elsewhere: not only through this edge
		}
		if ev(iff.Cond) {
			return true
		}
	}
	return false
}

var _ = token.NoPos

// constIntResults: v is the result of a call to a module function with a single integer result whose every return
// operand is an integer constant (lineBreakLen: 2, 1 or 0). The value is then one of a fixed set of small numbers —
// as good as a literal for rules that ask whether an amount is fixed.
func constIntResults(v ssa.Value) ([]int64, bool) {
	call, ok := v.(*ssa.Call)
	if !ok {
		return nil, false
	}
	g := call.Call.StaticCallee()
	if g == nil || g.Blocks == nil || g.Signature.Results().Len() != 1 {
		return nil, false
	}
	if b, ok := g.Signature.Results().At(0).Type().Underlying().(*types.Basic); !ok || b.Info()&types.IsInteger == 0 {
		return nil, false
	}
	var out []int64
	var add func(x ssa.Value, d int) bool
	add = func(x ssa.Value, d int) bool {
		switch y := x.(type) {
		case *ssa.Const:
			if y.Value == nil || y.Value.Kind() != constant.Int {
				return false
			}
			out = append(out, y.Int64())
			return true
		case *ssa.Phi:
			if d > 3 {
				return false
			}
			for _, e := range y.Edges {
				if !add(e, d+1) {
					return false
				}
			}
			return true
		}
		return false
	}
	n := 0
	for _, b := range g.Blocks {
		if r, ok := b.Instrs[len(b.Instrs)-1].(*ssa.Return); ok && len(r.Results) == 1 {
			n++
			if !add(r.Results[0], 0) {
				return nil, false
			}
		}
	}
	return out, n > 0
}

// positiveAt: the integer value v is known positive in block b — every value it can take is a positive constant, or a
// dominating branch tested v > 0 / v != 0 / v >= 1 (for a value that is never negative)
func positiveAt(v ssa.Value, b *ssa.BasicBlock) bool {
	vals, ok := constIntResults(v)
	if !ok {
		return false
	}
	allPos, nonNeg := true, true
	for _, k := range vals {
		if k <= 0 {
			allPos = false
		}
		if k < 0 {
			nonNeg = false
		}
	}
	if allPos {
		return true
	}
	for _, e0 := range dominatingEdges(b) {
		e := stripNot(e0)
		bo, ok := e.cond.(*ssa.BinOp)
		if !ok || !e.truth {
			continue
		}
		k, isC := bo.Y.(*ssa.Const)
		if bo.X != v || !isC || k.Value == nil || k.Value.Kind() != constant.Int {
			continue
		}
		switch {
		case bo.Op == token.GTR && k.Int64() >= 0:
			return true
		case bo.Op == token.GEQ && k.Int64() >= 1:
			return true
		case bo.Op == token.NEQ && k.Int64() == 0 && nonNeg:
			return true
		}
	}
	return false
}


// storesParamIntoField: g stores one of its parameters into the field named fld of its receiver (exitScope(restore)
// doing `a.curScope = restore` itself); it returns the parameter's index, or -1
func storesParamIntoField(g *ssa.Function, fld string) int {
	if g == nil || g.Blocks == nil {
		return -1
	}
	for _, b := range g.Blocks {
		for _, ins := range b.Instrs {
			st, ok := ins.(*ssa.Store)
			if !ok {
				continue
			}
			fa, ok := st.Addr.(*ssa.FieldAddr)
			if !ok || fieldName(fa.X.Type(), fa.Field) != fld {
				continue
			}
			if pm, ok := st.Val.(*ssa.Parameter); ok {
				return paramIndex(g, pm)
			}
		}
	}
	return -1
}
