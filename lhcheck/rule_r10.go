package main

import (
	"fmt"
	"go/constant"
	"go/token"
	"go/types"
	"reflect"
	"sort"
	"strings"

	"golang.org/x/tools/go/ssa"
)

// CFG/G12: a client setting of one name reaches the same configuration state whichever message delivered it.
//
// The settings arrive in two shapes — the initialization options and the workspace/didChangeConfiguration payload —
// as JSON-tagged structs of the langserver package that repeat the same field names. For every leaf field name that
// occurs in two of those structs, the set of configuration locations (fields of named structs reached through a
// receiver / parameter / global, and package-level variables) that the field's value flows into is computed by a
// forward value-flow over SSA (parameter → callee with a per-(function, parameter) summary, so a helper shared by
// two settings does not merge them; result → the call that produced it; stores into locals are followed through the
// local). The two sets must be comparable (one contains the other): two lists of the same type swapped at one call
// site send each of them to the other one's tables, which nothing else in the build notices.

type sinkSet map[string]bool

type flowEngine struct {
	c       *Ctx
	memo    map[string]*flowSummary
	active  map[string]bool
	callers map[*ssa.Function][]ssa.CallInstruction
}

type flowSummary struct {
	sinks sinkSet
	ret   bool
}

func newFlowEngine(c *Ctx) *flowEngine {
	e := &flowEngine{c: c, memo: map[string]*flowSummary{}, active: map[string]bool{}, callers: map[*ssa.Function][]ssa.CallInstruction{}}
	for _, f := range c.ModFns() {
		for _, b := range f.Blocks {
			for _, ins := range b.Instrs {
				if ci, ok := ins.(ssa.CallInstruction); ok {
					if cal := ci.Common().StaticCallee(); cal != nil && c.IsModFn(cal) {
						e.callers[cal] = append(e.callers[cal], ci)
					}
				}
			}
		}
	}
	return e
}

func addrRoot(v ssa.Value) ssa.Value {
	for {
		switch x := v.(type) {
		case *ssa.FieldAddr:
			v = x.X
		case *ssa.IndexAddr:
			v = x.X
		default:
			return v
		}
	}
}

// sinkName names a configuration location written through addr, or "" when addr is local state.
func sinkName(addr ssa.Value) string {
	switch x := addr.(type) {
	case *ssa.Global:
		return "var " + x.Pkg.Pkg.Name() + "." + x.Name()
	case *ssa.FieldAddr:
		if _, isAlloc := addrRoot(x).(*ssa.Alloc); isAlloc {
			return ""
		}
		_, n := namedPkgName(x.X.Type())
		if n == "" {
			return ""
		}
		return n + "." + fieldName(x.X.Type(), x.Field)
	case *ssa.IndexAddr:
		if ld, ok := x.X.(*ssa.UnOp); ok {
			return sinkName(ld.X)
		}
		return sinkName(x.X)
	}
	return ""
}

// flowFrom propagates from the seed values inside fn; it returns the sinks reached and whether a seed reaches a result.
func (e *flowEngine) flowFrom(fn *ssa.Function, seeds []ssa.Value) *flowSummary {
	sum := &flowSummary{sinks: sinkSet{}}
	seen := map[ssa.Value]bool{}
	var work []ssa.Value
	push := func(v ssa.Value) {
		if v != nil && !seen[v] {
			seen[v] = true
			work = append(work, v)
		}
	}
	// a local struct is tainted field by field: a store into one field does not taint what is read from another
	allocFields := map[*ssa.Alloc]map[int]bool{}
	taintAlloc := func(a *ssa.Alloc, addr ssa.Value) {
		fld := -1
		if fa, ok := addr.(*ssa.FieldAddr); ok && fa.X == ssa.Value(a) {
			fld = fa.Field
		}
		if allocFields[a] == nil {
			allocFields[a] = map[int]bool{}
		}
		if allocFields[a][fld] {
			return
		}
		allocFields[a][fld] = true
		if seen[a] {
			work = append(work, a) // look at its referrers again with the new field
		} else {
			push(a)
		}
	}
	for _, s := range seeds {
		push(s)
	}
	for len(work) > 0 {
		v := work[len(work)-1]
		work = work[:len(work)-1]
		refs := v.Referrers()
		if refs == nil {
			continue
		}
		for _, ins := range *refs {
			switch x := ins.(type) {
			case *ssa.Store:
				if x.Val != v {
					continue
				}
				if n := sinkName(x.Addr); n != "" {
					sum.sinks[n] = true
				} else if a, ok := addrRoot(x.Addr).(*ssa.Alloc); ok {
					taintAlloc(a, x.Addr)
				}
			case *ssa.MapUpdate:
				if x.Key != v && x.Value != v {
					continue
				}
				if ld, ok := x.Map.(*ssa.UnOp); ok {
					if n := sinkName(ld.X); n != "" {
						sum.sinks[n] = true
						continue
					}
					if a, ok := addrRoot(ld.X).(*ssa.Alloc); ok {
						push(a)
						continue
					}
				}
				push(x.Map)
			case *ssa.Return:
				sum.ret = true
			case ssa.CallInstruction:
				com := x.Common()
				cal := com.StaticCallee()
				val, _ := x.(ssa.Value)
				if cal == nil || !e.c.IsModFn(cal) || len(cal.Blocks) == 0 {
					if val != nil && com.Value != v {
						push(val) // library code: the result may carry any argument
					}
					continue
				}
				for i, a := range com.Args {
					if a != v || i >= len(cal.Params) {
						continue
					}
					s := e.paramSummary(cal, i)
					for k := range s.sinks {
						sum.sinks[k] = true
					}
					if s.ret && val != nil {
						push(val)
					}
				}
			case *ssa.MakeClosure:
				if cf, ok := x.Fn.(*ssa.Function); ok {
					for i, b := range x.Bindings {
						if b == v && i < len(cf.FreeVars) {
							s := e.flowFrom(cf, []ssa.Value{cf.FreeVars[i]})
							for k := range s.sinks {
								sum.sinks[k] = true
							}
						}
					}
				}
			case *ssa.If, *ssa.Jump, *ssa.Panic, *ssa.RunDefers, *ssa.DebugRef, *ssa.Send:
			default:
				if val, ok := ins.(ssa.Value); ok {
					if fa, ok := val.(*ssa.FieldAddr); ok {
						if a, ok := v.(*ssa.Alloc); ok && fa.X == v {
							if fs := allocFields[a]; fs != nil && !fs[-1] && !fs[fa.Field] {
								continue
							}
						}
					}
					push(val)
				}
			}
		}
	}
	return sum
}

func (e *flowEngine) paramSummary(fn *ssa.Function, i int) *flowSummary {
	key := fmt.Sprintf("%s#%d", fnKey(fn), i)
	if s, ok := e.memo[key]; ok {
		return s
	}
	if e.active[key] {
		return &flowSummary{sinks: sinkSet{}}
	}
	e.active[key] = true
	s := e.flowFrom(fn, []ssa.Value{fn.Params[i]})
	delete(e.active, key)
	e.memo[key] = s
	return s
}

// sinksOfSource follows one read of a setting, upwards through the results of the functions it is returned from.
func (e *flowEngine) sinksOfSource(fn *ssa.Function, seed ssa.Value, depth int, out sinkSet) {
	s := e.flowFrom(fn, []ssa.Value{seed})
	for k := range s.sinks {
		out[k] = true
	}
	if !s.ret || depth > 4 {
		return
	}
	for _, ci := range e.callers[fn] {
		if val, ok := ci.(ssa.Value); ok {
			e.sinksOfSource(ci.Parent(), val, depth+1, out)
		}
	}
}

var ruleCfgG12 = &Rule{
	Name:    "CFG/G12-setting-role",
	NeedSSA: true,
	Text:    "for every leaf field name that two JSON-tagged settings structs of the langserver package share (the initialization options and the didChangeConfiguration payload): the sets of configuration locations the two fields' values flow into (forward value-flow over SSA with per-parameter callee summaries) are comparable, one containing the other — a setting delivered by a later settings change must not land in another setting's tables (identically whether given at start-up or by a later settings change)",
	Run: func(c *Ctx) []Ob {
		lsPkg := modPath + "/langserver"
		e := newFlowEngine(c)
		type src struct {
			owner string
			sinks sinkSet
			pos   string
			reads int
		}
		byName := map[string]map[string]*src{}
		isSettingsLeaf := func(st *types.Struct, named *types.Named, idx int) bool {
			if named == nil || named.Obj().Pkg() == nil || named.Obj().Pkg().Path() != lsPkg {
				return false
			}
			if _, ok := reflect.StructTag(st.Tag(idx)).Lookup("json"); !ok {
				return false
			}
			ft := st.Field(idx).Type()
			if p, ok := ft.(*types.Pointer); ok {
				ft = p.Elem()
			}
			if _, ok := ft.Underlying().(*types.Struct); ok {
				return false
			}
			return true
		}
		structOf := func(t types.Type) (*types.Struct, *types.Named) {
			if p, ok := t.Underlying().(*types.Pointer); ok {
				t = p.Elem()
			}
			n, _ := t.(*types.Named)
			st, _ := t.Underlying().(*types.Struct)
			return st, n
		}
		for _, f := range c.ModFns() {
			if f.Pkg == nil || f.Pkg.Pkg.Path() != lsPkg {
				continue
			}
			for _, b := range f.Blocks {
				for _, ins := range b.Instrs {
					var st *types.Struct
					var named *types.Named
					var idx int
					var seed ssa.Value
					switch x := ins.(type) {
					case *ssa.FieldAddr:
						st, named = structOf(x.X.Type())
						idx, seed = x.Field, x
					case *ssa.Field:
						st, named = structOf(x.X.Type())
						idx, seed = x.Field, x
					default:
						continue
					}
					if st == nil || !isSettingsLeaf(st, named, idx) {
						continue
					}
					// a field address that is only written (decoding, defaults) is not a read of the setting
					if fa, ok := seed.(*ssa.FieldAddr); ok {
						read := false
						for _, r := range *fa.Referrers() {
							if u, ok := r.(*ssa.UnOp); ok && u.X == fa {
								read = true
							}
						}
						if !read {
							continue
						}
					}
					name := st.Field(idx).Name()
					owner := named.Obj().Name()
					if byName[name] == nil {
						byName[name] = map[string]*src{}
					}
					s := byName[name][owner]
					if s == nil {
						s = &src{owner: owner, sinks: sinkSet{}, pos: c.Pos(ins.Pos())}
						byName[name][owner] = s
					}
					s.reads++
					if fa, ok := seed.(*ssa.FieldAddr); ok {
						for _, r := range *fa.Referrers() {
							if u, ok := r.(*ssa.UnOp); ok && u.X == fa {
								e.sinksOfSource(f, u, 0, s.sinks)
							}
						}
					} else {
						e.sinksOfSource(f, seed, 0, s.sinks)
					}
				}
			}
		}
		var names []string
		for n := range byName {
			names = append(names, n)
		}
		sort.Strings(names)
		var obs []Ob
		pairs := 0
		list := func(s sinkSet) string {
			var l []string
			for k := range s {
				l = append(l, k)
			}
			sort.Strings(l)
			return strings.Join(l, ", ")
		}
		for _, n := range names {
			var owners []string
			for o, s := range byName[n] {
				if len(s.sinks) > 0 {
					owners = append(owners, o)
				}
			}
			sort.Strings(owners)
			for i := 0; i < len(owners); i++ {
				for j := i + 1; j < len(owners); j++ {
					a, b := byName[n][owners[i]], byName[n][owners[j]]
					pairs++
					key := fmt.Sprintf("CFG/G12:%s:%s~%s", n, owners[i], owners[j])
					aInB, bInA := true, true
					for k := range a.sinks {
						if !b.sinks[k] {
							aInB = false
						}
					}
					for k := range b.sinks {
						if !a.sinks[k] {
							bInA = false
						}
					}
					if aInB || bInA {
						obs = append(obs, Ob{Key: key, Site: b.pos, Verdict: OK, Note: "reaches: " + list(a.sinks)})
					} else {
						obs = append(obs, Ob{Key: key, Site: b.pos, Verdict: VIOLATION,
							Note: fmt.Sprintf("the setting %s reaches {%s} when it comes from %s and {%s} when it comes from %s: neither contains the other, so one of the two messages stores it in another setting's place", n, list(a.sinks), a.owner, list(b.sinks), b.owner)})
					}
				}
			}
		}
		c.Stats["setting_role_pairs"] = pairs
		obs = append(obs, floor("CFG/G12-setting-role", "settings delivered both at initialization and by a settings change", pairs, 4))
		return obs
	},
}

// MATCH/anchored-suffix: a contradiction rule on fuzzy path matching. When a function tests paths against a pattern with
// strings.HasSuffix / HasPrefix and, for one pattern value P, at least one test uses P behind (before) a constant that
// carries a path separator ("/" + P), then every such test on P in that function is anchored: a raw suffix test on the
// same P accepts "xab.lua" for `require "ab"` — the component boundary the sibling test insists on.
var ruleMatchAnchor = &Rule{
	Name:    "MATCH/anchored-suffix",
	NeedSSA: true,
	Text:    "in every function of the module: the strings.HasSuffix / strings.HasPrefix tests whose pattern is built from one value P are either all anchored with a constant containing a path separator ('/' + P, P + '/') or none is — one branch that matches a required name against file paths without the component boundary its sibling branch uses resolves `require \"ab\"` to xab.lua",
	Run: func(c *Ctx) []Ob {
		var obs []Ob
		sites, groups := 0, 0
		type use struct {
			call     *ssa.Call
			anchored bool
		}
		for _, f := range c.ModFns() {
			type grp struct {
				base ssa.Value
				kind string
			}
			byBase := map[grp][]use{}
			var order []grp
			for _, b := range f.Blocks {
				for _, ins := range b.Instrs {
					call, ok := ins.(*ssa.Call)
					if !ok {
						continue
					}
					cal := call.Call.StaticCallee()
					if cal == nil || cal.Pkg == nil || cal.Pkg.Pkg.Path() != "strings" || (cal.Name() != "HasSuffix" && cal.Name() != "HasPrefix") || len(call.Call.Args) != 2 {
						continue
					}
					sites++
					pat := call.Call.Args[1]
					base, anchored := pat, false
					if bo, ok := pat.(*ssa.BinOp); ok && bo.Op == token.ADD {
						if k, ok := bo.X.(*ssa.Const); ok && k.Value != nil && k.Value.Kind() == constant.String && strings.ContainsAny(constant.StringVal(k.Value), "/\\") && cal.Name() == "HasSuffix" {
							base, anchored = bo.Y, true
						} else if k, ok := bo.Y.(*ssa.Const); ok && k.Value != nil && k.Value.Kind() == constant.String && strings.ContainsAny(constant.StringVal(k.Value), "/\\") && cal.Name() == "HasPrefix" {
							base, anchored = bo.X, true
						}
					}
					if _, isConst := base.(*ssa.Const); isConst {
						continue
					}
					gk := grp{base, cal.Name()}
					if _, seen := byBase[gk]; !seen {
						order = append(order, gk)
					}
					byBase[gk] = append(byBase[gk], use{call, anchored})
				}
			}
			for _, gk := range order {
				us := byBase[gk]
				base := gk.base
				anyA := false
				for _, u := range us {
					if u.anchored {
						anyA = true
					}
				}
				if !anyA {
					continue
				}
				groups++
				n := 0
				for _, u := range us {
					n++
					key := fmt.Sprintf("MATCH/anchored-suffix:%s:%s#%d", fnKey(f), base.Name(), n)
					if u.anchored {
						obs = append(obs, Ob{Key: key, Site: c.Pos(u.call.Pos()), Verdict: OK})
					} else {
						obs = append(obs, Ob{Key: key, Site: c.Pos(u.call.Pos()), Verdict: VIOLATION,
							Note: "this test matches paths against the bare pattern while a sibling test in the same function anchors the same pattern at a path separator: a longer file name that merely ends in the required name is accepted"})
					}
				}
			}
		}
		c.Stats["suffix_prefix_tests"] = sites
		c.Stats["anchored_pattern_groups"] = groups
		obs = append(obs, floor("MATCH/anchored-suffix", "strings.HasSuffix / HasPrefix tests examined", sites, 30))
		return obs
	},
}
