package main

import (
	"fmt"
	"go/constant"
	"go/token"
	"go/types"
	"reflect"
	"sort"
	"strings"

	"golang.org/x/tools/go/ssa"
)

// CFG/G12: a client setting of one name reaches the same configuration state whichever message delivered it.
//
// The settings arrive in two shapes — the initialization options and the workspace/didChangeConfiguration payload —
// as JSON-tagged structs of the langserver package that repeat the same field names. For every leaf field name that
// occurs in two of those structs, the set of configuration locations (fields of named structs reached through a
// receiver / parameter / global, and package-level variables) that the field's value flows into is computed by a
// forward value-flow over SSA (parameter → callee with a per-(function, parameter) summary, so a helper shared by
// two settings does not merge them; result → the call that produced it; stores into locals are followed through the
// local). The two sets must be comparable (one contains the other): two lists of the same type swapped at one call
// site send each of them to the other one's tables, which nothing else in the build notices.

type sinkSet map[string]bool

type flowEngine struct {
	c       *Ctx
	memo    map[string]*flowSummary
	active  map[string]bool
	callers map[*ssa.Function][]ssa.CallInstruction
}

type flowSummary struct {
	sinks sinkSet
	ret   bool
}

func newFlowEngine(c *Ctx) *flowEngine {
	e := &flowEngine{c: c, memo: map[string]*flowSummary{}, active: map[string]bool{}, callers: map[*ssa.Function][]ssa.CallInstruction{}}
	for _, f := range c.ModFns() {
		for _, b := range f.Blocks {
			for _, ins := range b.Instrs {
				if ci, ok := ins.(ssa.CallInstruction); ok {
					if cal := ci.Common().StaticCallee(); cal != nil && c.IsModFn(cal) {
						e.callers[cal] = append(e.callers[cal], ci)
					}
				}
			}
		}
	}
	return e
}

func addrRoot(v ssa.Value) ssa.Value {
	for {
		switch x := v.(type) {
		case *ssa.FieldAddr:
			v = x.X
		case *ssa.IndexAddr:
			v = x.X
		default:
			return v
		}
	}
}

// sinkName names a configuration location written through addr, or "" when addr is local state.
func sinkName(addr ssa.Value) string {
	switch x := addr.(type) {
	case *ssa.Global:
		return "var " + x.Pkg.Pkg.Name() + "." + x.Name()
	case *ssa.FieldAddr:
		if _, isAlloc := addrRoot(x).(*ssa.Alloc); isAlloc {
			return ""
		}
		_, n := namedPkgName(x.X.Type())
		if n == "" {
			return ""
		}
		return n + "." + fieldName(x.X.Type(), x.Field)
	case *ssa.IndexAddr:
		if ld, ok := x.X.(*ssa.UnOp); ok {
			return sinkName(ld.X)
		}
		return sinkName(x.X)
	}
	return ""
}

// flowFrom propagates from the seed values inside fn; it returns the sinks reached and whether a seed reaches a result.
func (e *flowEngine) flowFrom(fn *ssa.Function, seeds []ssa.Value) *flowSummary {
	sum := &flowSummary{sinks: sinkSet{}}
	seen := map[ssa.Value]bool{}
	var work []ssa.Value
	push := func(v ssa.Value) {
		if v != nil && !seen[v] {
			seen[v] = true
			work = append(work, v)
		}
	}
	// a local struct is tainted field by field: a store into one field does not taint what is read from another
	allocFields := map[*ssa.Alloc]map[int]bool{}
	taintAlloc := func(a *ssa.Alloc, addr ssa.Value) {
		fld := -1
		if fa, ok := addr.(*ssa.FieldAddr); ok && fa.X == ssa.Value(a) {
			fld = fa.Field
		}
		if allocFields[a] == nil {
			allocFields[a] = map[int]bool{}
		}
		if allocFields[a][fld] {
			return
		}
		allocFields[a][fld] = true
		if seen[a] {
			work = append(work, a) // look at its referrers again with the new field
		} else {
			push(a)
		}
	}
	for _, s := range seeds {
		push(s)
	}
	for len(work) > 0 {
		v := work[len(work)-1]
		work = work[:len(work)-1]
		refs := v.Referrers()
		if refs == nil {
			continue
		}
		for _, ins := range *refs {
			switch x := ins.(type) {
			case *ssa.Store:
				if x.Val != v {
					continue
				}
				if n := sinkName(x.Addr); n != "" {
					sum.sinks[n] = true
				} else if a, ok := addrRoot(x.Addr).(*ssa.Alloc); ok {
					taintAlloc(a, x.Addr)
				}
			case *ssa.MapUpdate:
				if x.Key != v && x.Value != v {
					continue
				}
				if ld, ok := x.Map.(*ssa.UnOp); ok {
					if n := sinkName(ld.X); n != "" {
						sum.sinks[n] = true
						continue
					}
					if a, ok := addrRoot(ld.X).(*ssa.Alloc); ok {
						push(a)
						continue
					}
				}
				push(x.Map)
			case *ssa.Return:
				sum.ret = true
			case ssa.CallInstruction:
				com := x.Common()
				cal := com.StaticCallee()
				val, _ := x.(ssa.Value)
				if cal == nil || !e.c.IsModFn(cal) || len(cal.Blocks) == 0 {
					if val != nil && com.Value != v {
						push(val) // library code: the result may carry any argument
					}
					continue
				}
				for i, a := range com.Args {
					if a != v || i >= len(cal.Params) {
						continue
					}
					s := e.paramSummary(cal, i)
					for k := range s.sinks {
						sum.sinks[k] = true
					}
					if s.ret && val != nil {
						push(val)
					}
				}
			case *ssa.MakeClosure:
				if cf, ok := x.Fn.(*ssa.Function); ok {
					for i, b := range x.Bindings {
						if b == v && i < len(cf.FreeVars) {
							s := e.flowFrom(cf, []ssa.Value{cf.FreeVars[i]})
							for k := range s.sinks {
								sum.sinks[k] = true
							}
						}
					}
				}
			case *ssa.If, *ssa.Jump, *ssa.Panic, *ssa.RunDefers, *ssa.DebugRef, *ssa.Send:
			default:
				if val, ok := ins.(ssa.Value); ok {
					if fa, ok := val.(*ssa.FieldAddr); ok {
						if a, ok := v.(*ssa.Alloc); ok && fa.X == v {
							if fs := allocFields[a]; fs != nil && !fs[-1] && !fs[fa.Field] {
								continue
							}
						}
					}
					push(val)
				}
			}
		}
	}
	return sum
}

func (e *flowEngine) paramSummary(fn *ssa.Function, i int) *flowSummary {
	key := fmt.Sprintf("%s#%d", fnKey(fn), i)
	if s, ok := e.memo[key]; ok {
		return s
	}
	if e.active[key] {
		return &flowSummary{sinks: sinkSet{}}
	}
	e.active[key] = true
	s := e.flowFrom(fn, []ssa.Value{fn.Params[i]})
	delete(e.active, key)
	e.memo[key] = s
	return s
}

// sinksOfSource follows one read of a setting, upwards through the results of the functions it is returned from.
func (e *flowEngine) sinksOfSource(fn *ssa.Function, seed ssa.Value, depth int, out sinkSet) {
	s := e.flowFrom(fn, []ssa.Value{seed})
	for k := range s.sinks {
		out[k] = true
	}
	if !s.ret || depth > 4 {
		return
	}
	for _, ci := range e.callers[fn] {
		if val, ok := ci.(ssa.Value); ok {
			e.sinksOfSource(ci.Parent(), val, depth+1, out)
		}
	}
}

var ruleCfgG12 = &Rule{
	Name:    "CFG/G12-setting-role",
	NeedSSA: true,
	Text:    "for every leaf field name that two JSON-tagged settings structs of the langserver package share (the initialization options and the didChangeConfiguration payload): the sets of configuration locations the two fields' values flow into (forward value-flow over SSA with per-parameter callee summaries) are comparable, one containing the other — a setting delivered by a later settings change must not land in another setting's tables (identically whether given at start-up or by a later settings change)",
	Run: func(c *Ctx) []Ob {
		lsPkg := modPath + "/langserver"
		e := newFlowEngine(c)
		type src struct {
			owner string
			sinks sinkSet
			pos   string
			reads int
		}
		byName := map[string]map[string]*src{}
		isSettingsLeaf := func(st *types.Struct, named *types.Named, idx int) bool {
			if named == nil || named.Obj().Pkg() == nil || named.Obj().Pkg().Path() != lsPkg {
				return false
			}
			if _, ok := reflect.StructTag(st.Tag(idx)).Lookup("json"); !ok {
				return false
			}
			ft := st.Field(idx).Type()
			if p, ok := ft.(*types.Pointer); ok {
				ft = p.Elem()
			}
			if _, ok := ft.Underlying().(*types.Struct); ok {
				return false
			}
			return true
		}
		structOf := func(t types.Type) (*types.Struct, *types.Named) {
			if p, ok := t.Underlying().(*types.Pointer); ok {
				t = p.Elem()
			}
			n, _ := t.(*types.Named)
			st, _ := t.Underlying().(*types.Struct)
			return st, n
		}
		for _, f := range c.ModFns() {
			if f.Pkg == nil || f.Pkg.Pkg.Path() != lsPkg {
				continue
			}
			for _, b := range f.Blocks {
				for _, ins := range b.Instrs {
					var st *types.Struct
					var named *types.Named
					var idx int
					var seed ssa.Value
					switch x := ins.(type) {
					case *ssa.FieldAddr:
						st, named = structOf(x.X.Type())
						idx, seed = x.Field, x
					case *ssa.Field:
						st, named = structOf(x.X.Type())
						idx, seed = x.Field, x
					default:
						continue
					}
					if st == nil || !isSettingsLeaf(st, named, idx) {
						continue
					}
					// a field address that is only written (decoding, defaults) is not a read of the setting
					if fa, ok := seed.(*ssa.FieldAddr); ok {
						read := false
						for _, r := range *fa.Referrers() {
							if u, ok := r.(*ssa.UnOp); ok && u.X == fa {
								read = true
							}
						}
						if !read {
							continue
						}
					}
					name := st.Field(idx).Name()
					owner := named.Obj().Name()
					if byName[name] == nil {
						byName[name] = map[string]*src{}
					}
					s := byName[name][owner]
					if s == nil {
						s = &src{owner: owner, sinks: sinkSet{}, pos: c.Pos(ins.Pos())}
						byName[name][owner] = s
					}
					s.reads++
					if fa, ok := seed.(*ssa.FieldAddr); ok {
						for _, r := range *fa.Referrers() {
							if u, ok := r.(*ssa.UnOp); ok && u.X == fa {
								e.sinksOfSource(f, u, 0, s.sinks)
							}
						}
					} else {
						e.sinksOfSource(f, seed, 0, s.sinks)
					}
				}
			}
		}
		var names []string
		for n := range byName {
			names = append(names, n)
		}
		sort.Strings(names)
		var obs []Ob
		pairs := 0
		list := func(s sinkSet) string {
			var l []string
			for k := range s {
				l = append(l, k)
			}
			sort.Strings(l)
			return strings.Join(l, ", ")
		}
		for _, n := range names {
			var owners []string
			for o, s := range byName[n] {
				if len(s.sinks) > 0 {
					owners = append(owners, o)
				}
			}
			sort.Strings(owners)
			for i := 0; i < len(owners); i++ {
				for j := i + 1; j < len(owners); j++ {
					a, b := byName[n][owners[i]], byName[n][owners[j]]
					pairs++
					key := fmt.Sprintf("CFG/G12:%s:%s~%s", n, owners[i], owners[j])
					aInB, bInA := true, true
					for k := range a.sinks {
						if !b.sinks[k] {
							aInB = false
						}
					}
					for k := range b.sinks {
						if !a.sinks[k] {
							bInA = false
						}
					}
					if aInB || bInA {
						obs = append(obs, Ob{Key: key, Site: b.pos, Verdict: OK, Note: "reaches: " + list(a.sinks)})
					} else {
						obs = append(obs, Ob{Key: key, Site: b.pos, Verdict: VIOLATION,
							Note: fmt.Sprintf("the setting %s reaches {%s} when it comes from %s and {%s} when it comes from %s: neither contains the other, so one of the two messages stores it in another setting's place", n, list(a.sinks), a.owner, list(b.sinks), b.owner)})
					}
				}
			}
		}
		c.Stats["setting_role_pairs"] = pairs
		obs = append(obs, floor("CFG/G12-setting-role", "settings delivered both at initialization and by a settings change", pairs, 4))
		return obs
	},
}

// MATCH/anchored-suffix: a contradiction rule on fuzzy path matching. When a function tests paths against a pattern with
// strings.HasSuffix / HasPrefix and, for one pattern value P, at least one test uses P behind (before) a constant that
// carries a path separator ("/" + P), then every such test on P in that function is anchored: a raw suffix test on the
// same P accepts "xab.lua" for `require "ab"` — the component boundary the sibling test insists on.
var ruleMatchAnchor = &Rule{
	Name:    "MATCH/anchored-suffix",
	NeedSSA: true,
	Text:    "in every function of the module: the strings.HasSuffix / strings.HasPrefix tests whose pattern is built from one value P are either all anchored with a constant containing a path separator ('/' + P, P + '/') or none is — one branch that matches a required name against file paths without the component boundary its sibling branch uses resolves `require \"ab\"` to xab.lua",
	Run: func(c *Ctx) []Ob {
		var obs []Ob
		sites, groups := 0, 0
		type use struct {
			call     *ssa.Call
			anchored bool
		}
		for _, f := range c.ModFns() {
			type grp struct {
				base ssa.Value
				kind string
			}
			byBase := map[grp][]use{}
			var order []grp
			for _, b := range f.Blocks {
				for _, ins := range b.Instrs {
					call, ok := ins.(*ssa.Call)
					if !ok {
						continue
					}
					cal := call.Call.StaticCallee()
					if cal == nil || cal.Pkg == nil || cal.Pkg.Pkg.Path() != "strings" || (cal.Name() != "HasSuffix" && cal.Name() != "HasPrefix") || len(call.Call.Args) != 2 {
						continue
					}
					sites++
					pat := call.Call.Args[1]
					base, anchored := pat, false
					if bo, ok := pat.(*ssa.BinOp); ok && bo.Op == token.ADD {
						if k, ok := bo.X.(*ssa.Const); ok && k.Value != nil && k.Value.Kind() == constant.String && strings.ContainsAny(constant.StringVal(k.Value), "/\\") && cal.Name() == "HasSuffix" {
							base, anchored = bo.Y, true
						} else if k, ok := bo.Y.(*ssa.Const); ok && k.Value != nil && k.Value.Kind() == constant.String && strings.ContainsAny(constant.StringVal(k.Value), "/\\") && cal.Name() == "HasPrefix" {
							base, anchored = bo.X, true
						}
					}
					if _, isConst := base.(*ssa.Const); isConst {
						continue
					}
					gk := grp{base, cal.Name()}
					if _, seen := byBase[gk]; !seen {
						order = append(order, gk)
					}
					byBase[gk] = append(byBase[gk], use{call, anchored})
				}
			}
			for _, gk := range order {
				us := byBase[gk]
				base := gk.base
				anyA := false
				for _, u := range us {
					if u.anchored {
						anyA = true
					}
				}
				if !anyA {
					continue
				}
				groups++
				n := 0
				for _, u := range us {
					n++
					key := fmt.Sprintf("MATCH/anchored-suffix:%s:%s#%d", fnKey(f), base.Name(), n)
					if u.anchored {
						obs = append(obs, Ob{Key: key, Site: c.Pos(u.call.Pos()), Verdict: OK})
					} else {
						obs = append(obs, Ob{Key: key, Site: c.Pos(u.call.Pos()), Verdict: VIOLATION,
							Note: "this test matches paths against the bare pattern while a sibling test in the same function anchors the same pattern at a path separator: a longer file name that merely ends in the required name is accepted"})
					}
				}
			}
		}
		c.Stats["suffix_prefix_tests"] = sites
		c.Stats["anchored_pattern_groups"] = groups
		obs = append(obs, floor("MATCH/anchored-suffix", "strings.HasSuffix / HasPrefix tests examined", sites, 30))
		return obs
	},
}

// PANIC/P9: a configuration map is created before it is written.
//
// Writing into a nil map panics; reading from one does not, which is why a table that is only created on some paths of
// the settings code survives every test that never takes the other path. Definite assignment, interprocedurally: the
// state is the set of map-typed fields of common.GlobalConfig that have certainly been assigned a non-nil value; a store
// sets the bit (a store of nil clears it), a call adds the callee's must-assign summary (intersection over its
// returns), a map update on a field whose bit is clear is a violation. Start state: what the two start-up functions
// main() calls assign on every path; the initialize handler is walked from there, every other handler from the state
// at initialize's successful returns (a client may not send anything else before). Callees are walked in the caller's
// state (memoised on function × state), so a writer is judged in each state it can be reached in.
type p9Engine struct {
	c       *Ctx
	fields  []*types.Var
	bit     map[*types.Var]uint64
	must    map[*ssa.Function]uint64
	mustOK  map[*ssa.Function]uint64
	active  map[*ssa.Function]bool
	seen    map[string]bool
	hasW    map[*ssa.Function]bool
	results map[string]*Ob
	order   []string
}

func (e *p9Engine) cfgField(addr ssa.Value) (*types.Var, bool) {
	fa, ok := addr.(*ssa.FieldAddr)
	if !ok {
		return nil, false
	}
	p, n := namedPkgName(fa.X.Type())
	if n != "GlobalConfig" || p != modPath+"/langserver/check/common" {
		return nil, false
	}
	fv := fieldOf(fa)
	if _, isMap := fv.Type().Underlying().(*types.Map); !isMap {
		return nil, false
	}
	return fv, true
}

func (e *p9Engine) bitOf(fv *types.Var) uint64 {
	if b, ok := e.bit[fv]; ok {
		return b
	}
	if len(e.fields) >= 64 {
		return 0
	}
	b := uint64(1) << uint(len(e.fields))
	e.fields = append(e.fields, fv)
	e.bit[fv] = b
	return b
}

// run walks f from state in; check = report map updates on unassigned fields. It returns the state at the returns
// (intersection; only returns whose trailing error result is nil when okOnly is set).
func (e *p9Engine) run(f *ssa.Function, in uint64, check bool, okOnly bool) uint64 {
	if len(f.Blocks) == 0 {
		return in
	}
	const top = ^uint64(0)
	inS := make([]uint64, len(f.Blocks))
	outS := make([]uint64, len(f.Blocks))
	for i := range inS {
		inS[i], outS[i] = top, top
	}
	inS[0] = in
	transfer := func(b *ssa.BasicBlock, st uint64, report bool) uint64 {
		for _, ins := range b.Instrs {
			switch x := ins.(type) {
			case *ssa.Store:
				if fv, ok := e.cfgField(x.Addr); ok {
					if k, isC := x.Val.(*ssa.Const); isC && k.Value == nil {
						st &^= e.bitOf(fv)
					} else {
						st |= e.bitOf(fv)
					}
				}
			case *ssa.MapUpdate:
				if ld, ok := x.Map.(*ssa.UnOp); ok {
					if fv, ok := e.cfgField(ld.X); ok && report {
						key := "PANIC/P9:" + fnKey(f) + ":" + fv.Name()
						ob := e.results[key]
						if ob == nil {
							ob = &Ob{Key: key, Site: e.c.Pos(x.Pos()), Verdict: OK}
							e.results[key] = ob
							e.order = append(e.order, key)
						}
						if st&e.bitOf(fv) == 0 && ob.Verdict == OK {
							ob.Verdict = VIOLATION
							ob.Site = e.c.Pos(x.Pos())
							ob.Note = "GlobalConfig." + fv.Name() + " is written here, and on some path from a request entry it has not been created yet: assignment to an entry of a nil map panics"
						}
					}
				}
			case ssa.CallInstruction:
				g := x.Common().StaticCallee()
				if g == nil || !e.c.IsModFn(g) || len(g.Blocks) == 0 {
					continue
				}
				if report && e.hasW[g] {
					k := fmt.Sprintf("%s@%x", fnKey(g), st)
					if !e.seen[k] {
						e.seen[k] = true
						e.run(g, st, true, false)
					}
				}
				if _, isCall := x.(*ssa.Call); isCall {
					st |= e.mustAssign(g)
				}
			}
		}
		return st
	}
	for changed := true; changed; {
		changed = false
		for i, b := range f.Blocks {
			st := inS[i]
			if i != 0 {
				st = top
				for _, p := range b.Preds {
					po := outS[p.Index]
					if po != top {
						po |= e.okEdgeGain(p, b)
					}
					st &= po
				}
			}
			o := transfer(b, st, false)
			if st != inS[i] || o != outS[i] {
				inS[i], outS[i] = st, o
				changed = true
			}
		}
	}
	ret := top
	any := false
	for i, b := range f.Blocks {
		if inS[i] == top && i != 0 {
			continue // unreachable
		}
		if check {
			transfer(b, inS[i], true)
		}
		r, ok := b.Instrs[len(b.Instrs)-1].(*ssa.Return)
		if !ok {
			continue
		}
		if okOnly && len(r.Results) > 0 {
			last := r.Results[len(r.Results)-1]
			if types.Identical(last.Type(), types.Universe.Lookup("error").Type()) {
				if k, isC := last.(*ssa.Const); !isC || k.Value != nil {
					continue
				}
			}
		}
		ret &= outS[i]
		any = true
	}
	if !any {
		return in
	}
	return ret
}

// okEdgeGain: on the edge on which the error result of a call is known to be nil, what the callee assigns on its
// successful returns is assigned (`if err := g.ReadConfig(...); err != nil { return err }`).
func (e *p9Engine) okEdgeGain(p, b *ssa.BasicBlock) uint64 {
	iff, ok := p.Instrs[len(p.Instrs)-1].(*ssa.If)
	if !ok || len(p.Succs) != 2 || p.Succs[0] == p.Succs[1] {
		return 0
	}
	bo, ok := iff.Cond.(*ssa.BinOp)
	if !ok || (bo.Op != token.NEQ && bo.Op != token.EQL) {
		return 0
	}
	v := bo.X
	if k, isC := bo.Y.(*ssa.Const); !isC || k.Value != nil {
		if k2, isC2 := bo.X.(*ssa.Const); !isC2 || k2.Value != nil {
			return 0
		}
		v = bo.Y
	}
	nilEdge := p.Succs[0]
	if bo.Op == token.NEQ {
		nilEdge = p.Succs[1]
	}
	if nilEdge != b {
		return 0
	}
	var call *ssa.Call
	switch x := v.(type) {
	case *ssa.Call:
		call = x
	case *ssa.Extract:
		if c2, ok := x.Tuple.(*ssa.Call); ok && x.Index == c2.Call.Signature().Results().Len()-1 {
			call = c2
		}
	}
	if call == nil {
		return 0
	}
	g := call.Call.StaticCallee()
	if g == nil || !e.c.IsModFn(g) || len(g.Blocks) == 0 {
		return 0
	}
	if m, ok := e.mustOK[g]; ok {
		return m
	}
	if e.active[g] {
		return 0
	}
	e.active[g] = true
	m := e.run(g, 0, false, true)
	delete(e.active, g)
	e.mustOK[g] = m
	return m
}

func (e *p9Engine) mustAssign(g *ssa.Function) uint64 {
	if m, ok := e.must[g]; ok {
		return m
	}
	if e.active[g] {
		return 0
	}
	e.active[g] = true
	m := e.run(g, 0, false, false)
	delete(e.active, g)
	e.must[g] = m
	return m
}

var rulePanicP9 = &Rule{
	Name:    "PANIC/P9-config-map-created",
	NeedSSA: true,
	Text:    "definite assignment of the map-typed fields of common.GlobalConfig, interprocedurally (forward must-analysis with callee must-assign summaries, callees walked in the caller's state): on every path from the initialize handler — started in the state the start-up functions called by main() establish — and from every other handler — started in the state at initialize's successful returns — a map update on such a field is preceded by an assignment of a non-nil map to it (no diagnostic or query may take the server down)",
	Run: func(c *Ctx) []Ob {
		e := &p9Engine{c: c, bit: map[*types.Var]uint64{}, must: map[*ssa.Function]uint64{}, mustOK: map[*ssa.Function]uint64{}, active: map[*ssa.Function]bool{}, seen: map[string]bool{}, hasW: map[*ssa.Function]bool{}, results: map[string]*Ob{}}
		hs, err := c.Handlers()
		if err != nil {
			return []Ob{{Key: "PANIC/P9:slots", Verdict: UNDECIDED, Note: err.Error()}}
		}
		commonP := modPath + "/langserver/check/common"
		start := []*ssa.Function{c.SSAFunc(commonP, "", "GlobalConfigDefautInit"), c.SSAFunc(commonP, "GlobalConfig", "IntialGlobalVar")}
		mainFn := c.SSAFunc(modPath, "", "main")
		if start[0] == nil || start[1] == nil || mainFn == nil {
			return []Ob{{Key: "PANIC/P9:slots", Verdict: UNDECIDED, Note: "slot unresolved: main / GlobalConfigDefautInit / GlobalConfig.IntialGlobalVar"}}
		}
		called := map[*ssa.Function]bool{}
		for _, b := range mainFn.Blocks {
			for _, ins := range b.Instrs {
				if ci, ok := ins.(ssa.CallInstruction); ok {
					if g := ci.Common().StaticCallee(); g != nil {
						called[g] = true
					}
				}
			}
		}
		if !called[start[0]] || !called[start[1]] {
			return []Ob{{Key: "PANIC/P9:slots", Site: c.Pos(mainFn.Pos()), Verdict: UNDECIDED, Note: "main() no longer calls both start-up functions directly"}}
		}
		// functions from which a map update on a configuration field can be reached through static calls
		direct := map[*ssa.Function]bool{}
		callers := map[*ssa.Function][]*ssa.Function{}
		for _, f := range c.ModFns() {
			for _, b := range f.Blocks {
				for _, ins := range b.Instrs {
					switch x := ins.(type) {
					case *ssa.MapUpdate:
						if ld, ok := x.Map.(*ssa.UnOp); ok {
							if _, ok := e.cfgField(ld.X); ok {
								direct[f] = true
							}
						}
					case ssa.CallInstruction:
						if g := x.Common().StaticCallee(); g != nil {
							callers[g] = append(callers[g], f)
						}
					}
				}
			}
		}
		var work []*ssa.Function
		for f := range direct {
			e.hasW[f] = true
			work = append(work, f)
		}
		for len(work) > 0 {
			f := work[len(work)-1]
			work = work[:len(work)-1]
			for _, p := range callers[f] {
				if !e.hasW[p] {
					e.hasW[p] = true
					work = append(work, p)
				}
			}
		}
		st := e.mustAssign(start[0]) | e.mustAssign(start[1])
		var initH *ssa.Function
		for _, h := range hs {
			if h.Method == "initialize" {
				initH = h.Fn
			}
		}
		if initH == nil {
			return []Ob{{Key: "PANIC/P9:slots", Verdict: UNDECIDED, Note: "slot unresolved: initialize handler"}}
		}
		after := e.run(initH, st, true, true)
		for _, h := range hs {
			if h.Fn != initH {
				e.run(h.Fn, after, true, false)
			}
		}
		var obs []Ob
		sort.Strings(e.order)
		for _, k := range e.order {
			obs = append(obs, *e.results[k])
		}
		c.Stats["config_map_writers_checked"] = len(e.order)
		obs = append(obs, floor("PANIC/P9-config-map-created", "(function, configuration map) writers reached from the handlers", len(e.order), 6))
		return obs
	},
}

// ---------------------------------------------------------------------------------------------
// LOCK/L7: every mutex of the module is released on every path

func mutexCall(ins ssa.Instruction, names ...string) (recv string, ok bool) {
	var com *ssa.CallCommon
	switch x := ins.(type) {
	case *ssa.Call:
		com = &x.Call
	case *ssa.Defer:
		com = &x.Call
	default:
		return "", false
	}
	g := com.StaticCallee()
	if g == nil || g.Pkg == nil || g.Pkg.Pkg.Path() != "sync" || len(com.Args) == 0 {
		return "", false
	}
	hit := false
	for _, n := range names {
		if g.Name() == n {
			hit = true
		}
	}
	if !hit {
		return "", false
	}
	return describeValue(com.Args[0]), true
}

var ruleLockL7 = &Rule{
	Name:    "LOCK/L7-release-on-every-path",
	NeedSSA: true,
	Text:    "for every call of sync.Mutex.Lock / sync.RWMutex.Lock / RLock in a function of the module: every path from the call to a return of that function passes an Unlock / RUnlock on the same mutex expression, or a defer of one (backward must-analysis on the SSA control-flow graph; panics are not exits of interest) — a path that returns with an analysis mutex held blocks the next request for ever (a hang is as fatal as a crash)",
	Run: func(c *Ctx) []Ob {
		var obs []Ob
		n := 0
		for _, f := range c.ModFns() {
			cnt := map[string]int{}
			for _, b := range f.Blocks {
				for _, ins := range b.Instrs {
					if _, isDefer := ins.(*ssa.Defer); isDefer {
						continue
					}
					recv, ok := mutexCall(ins, "Lock", "RLock")
					if !ok {
						continue
					}
					n++
					cnt[recv]++
					key := fmt.Sprintf("LOCK/L7:%s:%s#%d", fnKey(f), recv, cnt[recv])
					lock := ins
					bad := mustFollow(f, func(i ssa.Instruction) bool { return i == lock }, func(i ssa.Instruction) bool {
						r, ok := mutexCall(i, "Unlock", "RUnlock")
						return ok && r == recv
					})
					if len(bad) == 0 {
						obs = append(obs, Ob{Key: key, Site: c.Pos(ins.Pos()), Verdict: OK})
					} else {
						obs = append(obs, Ob{Key: key, Site: c.Pos(ins.Pos()), Verdict: VIOLATION,
							Note: "some path from this Lock returns without releasing " + recv + ": the next caller that needs the mutex blocks for ever"})
					}
				}
			}
		}
		c.Stats["mutex_lock_sites"] = n
		obs = append(obs, floor("LOCK/L7-release-on-every-path", "Lock / RLock call sites in the module", n, 12))
		return obs
	},
}

// ---------------------------------------------------------------------------------------------
// KEY/M8: the map whose bucket is tested is the map the new bucket is put into

var ruleKeyM8 = &Rule{
	Name:    "KEY/M8-test-and-insert-same-map",
	NeedSSA: true,
	Text:    "get-or-create on a struct-field map of maps: where a branch tests the presence of a bucket with `v, ok := F[k]` and the not-found side stores a new bucket under the same key value k into a struct-field map of the same type, that map is F itself — testing one index and creating the bucket in its sibling (fileNameMap / freFileNameMap) replaces the sibling's bucket on every insertion, so only the last file of a name survives in it",
	Run: func(c *Ctx) []Ob {
		var obs []Ob
		n := 0
		for _, f := range c.ModFns() {
			cnt := 0
			for _, b := range f.Blocks {
				iff, ok := b.Instrs[len(b.Instrs)-1].(*ssa.If)
				if !ok {
					continue
				}
				e := stripNot(condEdge{iff.Cond, true})
				ex, ok := e.cond.(*ssa.Extract)
				if !ok || ex.Index != 1 {
					continue
				}
				lk, ok := ex.Tuple.(*ssa.Lookup)
				if !ok || !lk.CommaOk {
					continue
				}
				// the map is a struct field, or — in a helper the get-or-create was moved into — a map parameter
				type morigin struct {
					id, owner string
					t         types.Type
				}
				originOf := func(m ssa.Value) (morigin, bool) {
					if fld, owner, nest, ok := mapOrigin(m, 0); ok && nest == 0 {
						return morigin{owner + "." + fld.Name(), owner, fld.Type()}, true
					}
					if pm, ok := m.(*ssa.Parameter); ok {
						return morigin{"parameter " + pm.Name(), "parameters of " + f.Name(), pm.Type()}, true
					}
					return morigin{}, false
				}
				o1, ok := originOf(lk.X)
				if !ok {
					continue
				}
				mt, isMap := o1.t.Underlying().(*types.Map)
				if !isMap {
					continue
				}
				if _, isMapOfMap := mt.Elem().Underlying().(*types.Map); !isMapOfMap {
					continue
				}
				// the not-found side
				miss := b.Succs[1]
				if !e.truth {
					miss = b.Succs[0]
				}
				// blocks dominated by the not-found side
				for _, mb := range f.Blocks {
					if !miss.Dominates(mb) {
						continue
					}
					for _, ins := range mb.Instrs {
						mu, ok := ins.(*ssa.MapUpdate)
						if !ok || mu.Key != lk.Index {
							continue
						}
						o2, ok := originOf(mu.Map)
						if !ok || o2.owner != o1.owner || !types.Identical(o2.t, o1.t) {
							continue
						}
						n++
						cnt++
						short := o1.id[strings.LastIndex(o1.id, ".")+1:]
						key := fmt.Sprintf("KEY/M8:%s:%s#%d", fnKey(f), short, cnt)
						if o2.id == o1.id {
							obs = append(obs, Ob{Key: key, Site: c.Pos(mu.Pos()), Verdict: OK})
						} else {
							obs = append(obs, Ob{Key: key, Site: c.Pos(mu.Pos()), Verdict: VIOLATION,
								Note: fmt.Sprintf("the bucket is looked up in %s but, when it is missing, created in %s under the same key: the lookup (almost) never hits and every insertion replaces the bucket of %s", o1.id, o2.id, o2.id)})
						}
					}
				}
			}
		}
		c.Stats["get_or_create_sites"] = n
		obs = append(obs, floor("KEY/M8-test-and-insert-same-map", "get-or-create sites on struct-field maps of maps", n, 2))
		return obs
	},
}

// ---------------------------------------------------------------------------------------------
// SCOPE/S12: the saved scope is put back only after the scope was closed

var ruleScopeS12 = &Rule{
	Name:    "SCOPE/S12-restore-after-exit",
	NeedSSA: true,
	Text:    "in every analysis function that calls exitScope(): a store that puts a saved scope back into Analysis.curScope (the stored value is an earlier load of curScope) is preceded, on every path from the function's entry, by an exitScope() call — exitScope sweeps the scope curScope points at (unused locals, pending uses), so restoring first sweeps the enclosing scope and never the block's own",
	Run: func(c *Ctx) []Ob {
		var obs []Ob
		n := 0
		isExit := func(i ssa.Instruction) bool {
			call, ok := i.(*ssa.Call)
			if !ok {
				return false
			}
			g := call.Call.StaticCallee()
			return g != nil && (g.Name() == "exitScope" || g.Name() == "ExitScope")
		}
		for _, f := range c.ModFns() {
			if f.Pkg == nil || !strings.HasSuffix(f.Pkg.Pkg.Path(), "/check/analysis") {
				continue
			}
			has := false
			for _, b := range f.Blocks {
				for _, ins := range b.Instrs {
					if isExit(ins) {
						has = true
					}
				}
			}
			if !has {
				continue
			}
			isRestore := func(i ssa.Instruction) bool {
				st, ok := i.(*ssa.Store)
				if !ok {
					return false
				}
				fa, ok := st.Addr.(*ssa.FieldAddr)
				if !ok || fieldName(fa.X.Type(), fa.Field) != "curScope" {
					return false
				}
				ld, ok := st.Val.(*ssa.UnOp)
				if !ok || ld.Op != token.MUL {
					return false
				}
				fa2, ok := ld.X.(*ssa.FieldAddr)
				return ok && fieldName(fa2.X.Type(), fa2.Field) == "curScope"
			}
			any := false
			viaExit := 0
			viaExitBad := ""
			for _, b := range f.Blocks {
				for _, ins := range b.Instrs {
					if isRestore(ins) {
						any = true
					}
					// exitScope(saved): the callee restores the scope itself — then inside it nothing may run after the store
					if call, ok := ins.(*ssa.Call); ok && isExit(ins) {
						g := call.Call.StaticCallee()
						if pi := storesParamIntoField(g, "curScope"); pi >= 0 {
							viaExit++
							isSt := func(i ssa.Instruction) bool {
								st, ok := i.(*ssa.Store)
								if !ok {
									return false
								}
								fa, ok := st.Addr.(*ssa.FieldAddr)
								return ok && fieldName(fa.X.Type(), fa.Field) == "curScope"
							}
							isCall := func(i ssa.Instruction) bool {
								cc, ok := i.(*ssa.Call)
								if !ok {
									return false
								}
								_, builtin := cc.Call.Value.(*ssa.Builtin)
								return !builtin
							}
							if late := mayFollow(g, isSt, isCall); len(late) > 0 {
								viaExitBad = c.Pos(late[0].Pos())
							}
						}
					}
				}
			}
			if !any && viaExit == 0 {
				continue
			}
			n++
			key := "SCOPE/S12:" + f.Name()
			if !any {
				if viaExitBad != "" {
					obs = append(obs, Ob{Key: key, Site: viaExitBad, Verdict: VIOLATION,
						Note: "exitScope puts the saved scope back itself and then still calls something: the sweep works on the enclosing scope"})
				} else {
					obs = append(obs, Ob{Key: key, Site: c.Pos(f.Pos()), Verdict: OK, Note: "exitScope restores the saved scope as its last step"})
				}
				continue
			}
			bad := mustPrecede(f, isExit, isRestore)
			if len(bad) == 0 {
				obs = append(obs, Ob{Key: key, Site: c.Pos(f.Pos()), Verdict: OK})
			} else {
				obs = append(obs, Ob{Key: key, Site: c.Pos(bad[0].Pos()), Verdict: VIOLATION,
					Note: f.Name() + " puts the saved scope back into curScope on a path on which exitScope() has not run yet: the sweep at the end of the block then works on the enclosing scope"})
			}
		}
		obs = append(obs, floor("SCOPE/S12-restore-after-exit", "functions that close a scope and restore the saved one", n, 6))
		return obs
	},
}

// ---------------------------------------------------------------------------------------------
// ANN/A8: an element is removed from index-paired lists together

var ruleAnnA8 = &Rule{
	Name:    "ANN/A8-paired-removal",
	NeedSSA: true,
	Text:    "two slice fields of one struct are index-paired when some function of the module indexes both with the same index value (for i, s := range f.Stats { … f.Lines[i] … }). Wherever an element is cut out of one of them (the field is assigned append(F[:i], F[j:]...) built from itself), the same block cuts the paired field too — otherwise every later entry is paired with its predecessor's partner (a dropped annotation must not disturb its neighbours)",
	Run: func(c *Ctx) []Ob {
		var obs []Ob
		fieldOfSlice := func(v ssa.Value) (*types.Var, ssa.Value) {
			// v is a load of a slice field (possibly resliced)
			for i := 0; i < 3; i++ {
				if sl, ok := v.(*ssa.Slice); ok {
					v = sl.X
					continue
				}
				break
			}
			ld, ok := v.(*ssa.UnOp)
			if !ok || ld.Op != token.MUL {
				return nil, nil
			}
			fa, ok := ld.X.(*ssa.FieldAddr)
			if !ok || !isSliceT(fieldOf(fa).Type()) {
				return nil, nil
			}
			return fieldOf(fa), fa.X
		}
		paired := map[*types.Var]map[*types.Var]bool{}
		for _, f := range c.ModFns() {
			byIdx := map[ssa.Value][]*types.Var{}
			for _, b := range f.Blocks {
				for _, ins := range b.Instrs {
					ia, ok := ins.(*ssa.IndexAddr)
					if !ok {
						continue
					}
					if _, isConst := ia.Index.(*ssa.Const); isConst {
						continue
					}
					if fv, _ := fieldOfSlice(ia.X); fv != nil {
						byIdx[ia.Index] = append(byIdx[ia.Index], fv)
					}
				}
			}
			for _, fs := range byIdx {
				for _, a := range fs {
					for _, b := range fs {
						if a != b && a.Pkg() == b.Pkg() {
							if paired[a] == nil {
								paired[a] = map[*types.Var]bool{}
							}
							paired[a][b] = true
						}
					}
				}
			}
		}
		// removal sites
		cutOf := func(ins ssa.Instruction) *types.Var {
			st, ok := ins.(*ssa.Store)
			if !ok {
				return nil
			}
			fa, ok := st.Addr.(*ssa.FieldAddr)
			if !ok || !isSliceT(fieldOf(fa).Type()) {
				return nil
			}
			call := appendCall(st.Val)
			if call == nil || len(call.Call.Args) < 2 {
				return nil
			}
			sl, ok := call.Call.Args[0].(*ssa.Slice)
			if !ok || sl.High == nil {
				return nil
			}
			if fv, _ := fieldOfSlice(sl); fv != fieldOf(fa) {
				return nil
			}
			if fv2, _ := fieldOfSlice(call.Call.Args[1]); fv2 != fieldOf(fa) {
				return nil
			}
			return fieldOf(fa)
		}
		n := 0
		for _, f := range c.ModFns() {
			cnt := 0
			for _, b := range f.Blocks {
				cuts := map[*types.Var]bool{}
				var first = map[*types.Var]ssa.Instruction{}
				for _, ins := range b.Instrs {
					if fv := cutOf(ins); fv != nil {
						cuts[fv] = true
						if first[fv] == nil {
							first[fv] = ins
						}
					}
				}
				for fv := range cuts {
					if len(paired[fv]) == 0 {
						continue
					}
					var partners []string
					missing := ""
					for p := range paired[fv] {
						partners = append(partners, p.Name())
						if !cuts[p] {
							missing = p.Name()
						}
					}
					sort.Strings(partners)
					n++
					cnt++
					key := fmt.Sprintf("ANN/A8:%s:%s#%d", fnKey(f), fv.Name(), cnt)
					if missing == "" {
						obs = append(obs, Ob{Key: key, Site: c.Pos(first[fv].Pos()), Verdict: OK, Note: "cut together with " + strings.Join(partners, ", ")})
					} else {
						obs = append(obs, Ob{Key: key, Site: c.Pos(first[fv].Pos()), Verdict: VIOLATION,
							Note: fmt.Sprintf("an element is cut out of %s but not out of %s, which is indexed with the same positions elsewhere: every later entry is paired with the wrong partner", fv.Name(), missing)})
					}
				}
			}
		}
		c.Stats["paired_list_removals"] = n
		obs = append(obs, floor("ANN/A8-paired-removal", "removals from index-paired lists", n, 1))
		return obs
	},
}

// ---------------------------------------------------------------------------------------------
// ANN/A9: the type printer writes the element type of an array as a primary

var ruleAnnA9 = &Rule{
	Name:    "ANN/A9-array-item-parenthesised",
	NeedSSA: true,
	Text:    "the annotation grammar gives `[]` to a primary type, so a union or function type that is the element of an array was written in parentheses. The type printer (annotateast.TypeConvertStr) must write it the same way: the value it concatenates with \"[]\" is, on some path, built with a \"(\" — and the function tests the array's ItemType for *MultiType (a type assertion or type-switch arm on a value loaded from the ItemType field). Without both, `(string|number)[]` is printed as `string | number[]`, which reads back as another type (printing the understood type and reading it again gives the same type)",
	Run: func(c *Ctx) []Ob {
		f := c.SSAFunc(modPath+"/langserver/check/annotation/annotateast", "", "TypeConvertStr")
		if f == nil {
			return []Ob{{Key: "ANN/A9:slot", Verdict: UNDECIDED, Note: "slot unresolved: annotateast.TypeConvertStr"}}
		}
		isStr := func(v ssa.Value, s string) bool {
			k, ok := v.(*ssa.Const)
			return ok && k.Value != nil && k.Value.Kind() == constant.String && constant.StringVal(k.Value) == s
		}
		// (1) the concatenation with "[]"
		var arr *ssa.BinOp
		for _, b := range f.Blocks {
			for _, ins := range b.Instrs {
				if bo, ok := ins.(*ssa.BinOp); ok && bo.Op == token.ADD && isStr(bo.Y, "[]") {
					arr = bo
				}
			}
		}
		if arr == nil {
			return []Ob{{Key: "ANN/A9:TypeConvertStr", Site: c.Pos(f.Pos()), Verdict: UNDECIDED, Note: "no concatenation with \"[]\" found: the array case of the printer is not recognisable"}}
		}
		// (2) its left operand can be a string that starts with "("
		paren := false
		seen := map[ssa.Value]bool{}
		var walk func(v ssa.Value, d int)
		walk = func(v ssa.Value, d int) {
			if d > 8 || seen[v] || paren {
				return
			}
			seen[v] = true
			switch x := v.(type) {
			case *ssa.Phi:
				for _, e := range x.Edges {
					walk(e, d+1)
				}
			case *ssa.BinOp:
				if x.Op == token.ADD {
					if isStr(x.X, "(") {
						paren = true
						return
					}
					walk(x.X, d+1)
				}
			case *ssa.UnOp:
				if al, ok := x.X.(*ssa.Alloc); ok && x.Op == token.MUL && al.Referrers() != nil {
					for _, r := range *al.Referrers() {
						if st, ok := r.(*ssa.Store); ok && st.Addr == al {
							walk(st.Val, d+1)
						}
					}
				}
			case *ssa.Call:
				// a helper that wraps the element (parenthesise(s))
				if g := x.Call.StaticCallee(); g != nil && g.Blocks != nil && g != f {
					for _, gb := range g.Blocks {
						if r, ok := gb.Instrs[len(gb.Instrs)-1].(*ssa.Return); ok && len(r.Results) == 1 {
							walk(r.Results[0], d+1)
						}
					}
				}
			}
		}
		walk(arr.X, 0)
		// (3) the item type is tested for *MultiType
		tested := false
		fromItem := func(v ssa.Value) bool {
			s2 := map[ssa.Value]bool{}
			var w func(v ssa.Value, d int) bool
			w = func(v ssa.Value, d int) bool {
				if d > 8 || s2[v] {
					return false
				}
				s2[v] = true
				switch x := v.(type) {
				case *ssa.UnOp:
					if fa, ok := x.X.(*ssa.FieldAddr); ok && fieldName(fa.X.Type(), fa.Field) == "ItemType" {
						return true
					}
					if al, ok := x.X.(*ssa.Alloc); ok && al.Referrers() != nil {
						for _, r := range *al.Referrers() {
							if st, ok := r.(*ssa.Store); ok && st.Addr == al && w(st.Val, d+1) {
								return true
							}
						}
					}
				case *ssa.Phi:
					for _, e := range x.Edges {
						if w(e, d+1) {
							return true
						}
					}
				case *ssa.Extract:
					return w(x.Tuple, d+1)
				case *ssa.TypeAssert:
					return w(x.X, d+1)
				case *ssa.Index:
					return w(x.X, d+1)
				case *ssa.IndexAddr:
					return w(x.X, d+1)
				case *ssa.FieldAddr:
					return w(x.X, d+1)
				}
				return false
			}
			return w(v, 0)
		}
		for _, b := range f.Blocks {
			for _, ins := range b.Instrs {
				ta, ok := ins.(*ssa.TypeAssert)
				if !ok {
					continue
				}
				if _, nm := namedPkgName(ta.AssertedType); nm == "MultiType" && fromItem(ta.X) {
					tested = true
				}
			}
		}
		key := "ANN/A9:TypeConvertStr"
		if paren && tested {
			return []Ob{{Key: key, Site: c.Pos(arr.Pos()), Verdict: OK, Note: "the array case tests the element type for a union and can write it in parentheses"}}
		}
		why := "the text in front of \"[]\" is never built with \"(\""
		if paren {
			why = "the element type is never tested for *MultiType"
		}
		return []Ob{{Key: key, Site: c.Pos(arr.Pos()), Verdict: VIOLATION,
			Note: "the type printer writes an array as <element>[] and " + why + ": `(string|number)[]` is printed as `string | number[]`, which reads back as a different type"}}
	},
}

// ---------------------------------------------------------------------------------------------
// ANN/A10: what the type printer writes in front of "(" is a word the annotation lexer reads as a type keyword

var ruleAnnA10 = &Rule{
	Name:    "ANN/A10-printer-keyword-readable",
	NeedSSA: true,
	Text:    "writer and reader agree on spellings: every string constant of the type printer (annotateast.TypeConvertStr) of the form `word(` or `word<` — the opening of a function or table type — has its word in the annotation lexer's keyword table (annotatelexer.keywords), so that the printed type is read back as the same kind of type (printing the understood type and reading it again gives the same type)",
	Run: func(c *Ctx) []Ob {
		f := c.SSAFunc(modPath+"/langserver/check/annotation/annotateast", "", "TypeConvertStr")
		lexPkg := c.Prog.ImportedPackage(modPath + "/langserver/check/annotation/annotatelexer")
		if f == nil || lexPkg == nil {
			return []Ob{{Key: "ANN/A10:slot", Verdict: UNDECIDED, Note: "slot unresolved: annotateast.TypeConvertStr / annotatelexer"}}
		}
		g, _ := lexPkg.Members["keywords"].(*ssa.Global)
		if g == nil {
			return []Ob{{Key: "ANN/A10:slot", Verdict: UNDECIDED, Note: "slot unresolved: annotatelexer.keywords"}}
		}
		tab, ok := constTableOf(g)
		if !ok {
			return []Ob{{Key: "ANN/A10:keywords", Site: c.Pos(g.Pos()), Verdict: UNDECIDED, Note: "the keyword table is not a constant table any more"}}
		}
		var obs []Ob
		n := 0
		seen := map[string]bool{}
		for _, b := range f.Blocks {
			for _, ins := range b.Instrs {
				for _, op := range ins.Operands(nil) {
					k, ok := (*op).(*ssa.Const)
					if !ok || k.Value == nil || k.Value.Kind() != constant.String {
						continue
					}
					s := constant.StringVal(k.Value)
					if len(s) < 2 || (s[len(s)-1] != '(' && s[len(s)-1] != '<') {
						continue
					}
					word := s[:len(s)-1]
					isWord := true
					for _, r := range word {
						if r < 'a' || r > 'z' {
							isWord = false
						}
					}
					if !isWord || seen[s] {
						continue
					}
					seen[s] = true
					n++
					key := "ANN/A10:TypeConvertStr:" + s
					if _, ok := tab[constant.MakeString(word).ExactString()]; ok {
						obs = append(obs, Ob{Key: key, Site: c.Pos(ins.Pos()), Verdict: OK})
					} else {
						obs = append(obs, Ob{Key: key, Site: c.Pos(ins.Pos()), Verdict: VIOLATION,
							Note: fmt.Sprintf("the printer opens a type with %q, but %q is not a keyword of the annotation lexer: the printed text is read back as the plain type name %q followed by a comment", s, word, word)})
					}
				}
			}
		}
		obs = append(obs, floor("ANN/A10-printer-keyword-readable", "type openings written by the printer", n, 2))
		return obs
	},
}

// ---------------------------------------------------------------------------------------------
// PARSE/vararg-last: nothing is read into a parameter list after `...`

var ruleParseVarargLast = &Rule{
	Name:    "PARSE/vararg-last",
	NeedSSA: true,
	Text:    "parlist ::= namelist [',' '...'] | '...': in the parser function that reads a parameter list (Parser.parseParList) no token-consuming call of the lexer can follow, on any path inside the function, the call that consumes the `...` token (NextTokenKind with the constant TkVararg) — a loop that goes on after the vararg accepts `function f(a, ..., b) end`",
	Run: func(c *Ctx) []Ob {
		f := c.SSAFunc(modPath+"/langserver/check/compiler/parser", "Parser", "parseParList")
		vk, okV := constIntValue(c, lexerPkgPath, "TkVararg")
		if f == nil || !okV {
			return []Ob{{Key: "PARSE/vararg-last:slots", Verdict: UNDECIDED, Note: "slot unresolved: Parser.parseParList / lexer.TkVararg"}}
		}
		isVararg := func(i ssa.Instruction) bool {
			call, ok := i.(*ssa.Call)
			if !ok {
				return false
			}
			g := call.Call.StaticCallee()
			if g == nil || g.Name() != "NextTokenKind" || len(call.Call.Args) != 2 {
				return false
			}
			k, ok := call.Call.Args[1].(*ssa.Const)
			return ok && k.Value != nil && k.Value.Kind() == constant.Int && k.Int64() == vk
		}
		ma := c.mustAdvanceSet()
		isStep := func(i ssa.Instruction) bool {
			call, ok := i.(*ssa.Call)
			if !ok {
				return false
			}
			g := call.Call.StaticCallee()
			return g != nil && (isTokenStep(g) || ma[g])
		}
		n := 0
		for _, b := range f.Blocks {
			for _, ins := range b.Instrs {
				if isVararg(ins) {
					n++
				}
			}
		}
		if n == 0 {
			return []Ob{{Key: "PARSE/vararg-last:parseParList", Site: c.Pos(f.Pos()), Verdict: UNDECIDED, Note: "no NextTokenKind(TkVararg) call found in parseParList"}}
		}
		bad := mayFollow(f, isVararg, isStep)
		if len(bad) > 0 {
			return []Ob{{Key: "PARSE/vararg-last:parseParList", Site: c.Pos(bad[0].Pos()), Verdict: VIOLATION,
				Note: "a token is consumed after the `...` of a parameter list: `function f(a, ..., b) end` is accepted"}}
		}
		return []Ob{{Key: "PARSE/vararg-last:parseParList", Site: c.Pos(f.Pos()), Verdict: OK, Note: "nothing is read after `...`"}}
	},
}

// ---------------------------------------------------------------------------------------------
// LOC/exp-loc-exhaustive: the location accessor knows every expression kind the parser produces

var ruleLocExpLoc = &Rule{
	Name:    "LOC/exp-loc-exhaustive",
	NeedSSA: true,
	Text:    "common.GetExpLoc — the accessor through which checks and queries obtain the source range of an expression — has a type-switch arm for every concrete expression type the parser converts to ast.Exp and that carries a Loc field (the kinds are collected from the parser's MakeInterface instructions): a kind without an arm has the zero location, and every caller that tests IsInitialLoc() silently drops it (`nil or true` was not reported because nil had no location)",
	Run: func(c *Ctx) []Ob {
		f := c.SSAFunc(commonPkg, "", "GetExpLoc")
		if f == nil {
			return []Ob{{Key: "LOC/exp-loc:slot", Verdict: UNDECIDED, Note: "slot unresolved: common.GetExpLoc"}}
		}
		kinds := parserNodeKinds(c, "Exp")
		cases := typeSwitchCases(f)
		var names []string
		for k := range kinds {
			names = append(names, k)
		}
		sort.Strings(names)
		var obs []Ob
		n := 0
		for _, k := range names {
			// only kinds that have a location to give
			sp := c.SSA[astPkg]
			if sp == nil || sp.Type(k) == nil {
				continue
			}
			st, ok := sp.Type(k).Type().Underlying().(*types.Struct)
			if !ok {
				continue
			}
			hasLoc := false
			for i := 0; i < st.NumFields(); i++ {
				if st.Field(i).Name() == "Loc" && isLocationType(st.Field(i).Type()) {
					hasLoc = true
				}
			}
			if !hasLoc {
				continue
			}
			n++
			key := "LOC/exp-loc:GetExpLoc:" + k
			if cases[k] {
				obs = append(obs, Ob{Key: key, Site: c.Pos(f.Pos()), Verdict: OK})
			} else if why, ok := reviewedNoExpLoc[k]; ok {
				obs = append(obs, Ob{Key: key, Site: c.Pos(f.Pos()), Verdict: OK, Note: "reviewed: " + why})
			} else {
				obs = append(obs, Ob{Key: key, Site: c.Pos(f.Pos()), Verdict: VIOLATION,
					Note: "GetExpLoc has no arm for *ast." + k + ", which the parser produces and which carries a Loc: such an expression has the zero location and callers that test IsInitialLoc() skip it"})
			}
		}
		obs = append(obs, floor("LOC/exp-loc-exhaustive", "expression kinds with a location produced by the parser", n, 12))
		return obs
	},
}

// expression kinds that may keep the zero location in GetExpLoc (kind: reason)
var reviewedNoExpLoc = map[string]string{
	"BadExpr": "placeholder for an expression with a syntax error: the error was reported where it was found, and no check should fire on it",
}

// ---------------------------------------------------------------------------------------------
// ALIAS/loop-shared-object: one record per iteration

var ruleAliasLoopShared = &Rule{
	Name:    "ALIAS/loop-shared-object",
	NeedSSA: true,
	Text:    "a heap-allocated record (&T{…}, new(T)) that a loop both changes (a store into one of its fields inside the loop) and hands on for keeping inside the loop (stored as a map value or slice element, or passed to a module function through which the argument reaches a struct field or a map — forward value-flow summary) is allocated inside that loop: allocated before it, every entry made by the loop points at one record, which ends up holding the last iteration's values (the sibling of CFG/G8, which says the same for maps)",
	Run: func(c *Ctx) []Ob {
		var obs []Ob
		e := newFlowEngine(c)
		n := 0
		for _, f := range c.ModFns() {
			loops := loopsOf(f)
			if len(loops) == 0 {
				continue
			}
			cnt := 0
			for _, ab := range f.Blocks {
				for _, ins := range ab.Instrs {
					al, ok := ins.(*ssa.Alloc)
					if !ok || !al.Heap || al.Referrers() == nil {
						continue
					}
					if _, isStruct := al.Type().Underlying().(*types.Pointer).Elem().Underlying().(*types.Struct); !isStruct {
						continue
					}
					for h, body := range loops {
						if body[ab] {
							continue
						}
						written, kept := false, ""
						for _, r := range *al.Referrers() {
							if r.Block() == nil || !body[r.Block()] {
								continue
							}
							switch x := r.(type) {
							case *ssa.FieldAddr:
								if x.Referrers() != nil {
									for _, rr := range *x.Referrers() {
										st, ok := rr.(*ssa.Store)
										if !ok || st.Addr != x || !body[st.Block()] {
											continue
										}
										// an overwrite with this iteration's value — not the growth of an accumulator field
										// (F = append(F, …), F = F + …), which is what a record shared by design looks like
										grows := false
										var fromOwn func(v ssa.Value, d int) bool
										fromOwn = func(v ssa.Value, d int) bool {
											if d > 4 {
												return false
											}
											switch y := v.(type) {
											case *ssa.UnOp:
												if fa2, ok := y.X.(*ssa.FieldAddr); ok && fa2.X == x.X && fa2.Field == x.Field {
													return true
												}
											case *ssa.Call:
												if len(y.Call.Args) > 0 {
													return fromOwn(y.Call.Args[0], d+1)
												}
											case *ssa.BinOp:
												return fromOwn(y.X, d+1) || fromOwn(y.Y, d+1)
											case *ssa.Slice:
												return fromOwn(y.X, d+1)
											}
											return false
										}
										grows = fromOwn(st.Val, 0)
										if !grows {
											written = true
										}
									}
								}
							case *ssa.MapUpdate:
								if x.Value == ssa.Value(al) {
									kept = "stored as a map value"
								}
							case *ssa.Store:
								if x.Val == ssa.Value(al) {
									if _, local := addrRoot(x.Addr).(*ssa.Alloc); !local || true {
										if _, isIdx := x.Addr.(*ssa.IndexAddr); isIdx {
											kept = "stored as a slice element"
										}
									}
								}
							case ssa.CallInstruction:
								g := x.Common().StaticCallee()
								if g == nil || !c.IsModFn(g) || len(g.Blocks) == 0 {
									continue
								}
								for i, a := range x.Common().Args {
									if a == ssa.Value(al) && i < len(g.Params) {
										if s := e.paramSummary(g, i); len(s.sinks) > 0 {
											for k := range s.sinks {
												kept = "handed to " + g.Name() + ", which keeps it in " + k
											}
										}
									}
								}
							}
						}
						if !written {
							continue
						}
						n++
						cnt++
						key := fmt.Sprintf("ALIAS/loop-shared:%s#%d", fnKey(f), cnt)
						if kept == "" {
							obs = append(obs, Ob{Key: key, Site: c.Pos(al.Pos()), Verdict: OK, Note: "changed in the loop, not kept by it"})
						} else {
							obs = append(obs, Ob{Key: key, Site: c.Pos(al.Pos()), Verdict: VIOLATION,
								Note: fmt.Sprintf("the record allocated here, before the loop at %s, is changed in every iteration and %s in every iteration: all entries share one record", c.Pos(h.Instrs[0].Pos()), kept)})
						}
					}
				}
			}
		}
		c.Stats["records_changed_in_loops_allocated_outside"] = n
		obs = append(obs, Ob{Key: "ALIAS/loop-shared:scan", Site: "luahelper-lsp", Verdict: OK, Note: fmt.Sprintf("%d records allocated outside a loop and changed inside it examined", n)})
		return obs
	},
}

// ---------------------------------------------------------------------------------------------
// DOC/D10: the text an edit produces is never the nil slice

var ruleDocD10 = &Rule{
	Name:    "DOC/D10-edited-text-not-nil",
	NeedSSA: true,
	Text:    "nil content means `read the file from disk` to the analysis (check_first_hanlde: content == nil). In FileMapCache.ApplyContentChanges every value obtained from (*bytes.Buffer).Bytes() — nil for a buffer nothing was written to, i.e. for an edit that empties the document — is compared with nil before it can become the returned text (a nil test on that very value exists in the function): otherwise the emptied buffer is analysed with the saved file's text",
	Run: func(c *Ctx) []Ob {
		f := c.SSAFunc(lspcommonPkg, "FileMapCache", "ApplyContentChanges")
		if f == nil {
			return []Ob{{Key: "DOC/D10:slot", Verdict: UNDECIDED, Note: "slot unresolved: FileMapCache.ApplyContentChanges"}}
		}
		var obs []Ob
		n := 0
		for _, b := range f.Blocks {
			for _, ins := range b.Instrs {
				call, ok := ins.(*ssa.Call)
				if !ok {
					continue
				}
				g := call.Call.StaticCallee()
				if g == nil || g.Name() != "Bytes" || g.Pkg == nil || g.Pkg.Pkg.Path() != "bytes" {
					continue
				}
				n++
				key := fmt.Sprintf("DOC/D10:ApplyContentChanges:Bytes#%d", n)
				tested := false
				if call.Referrers() != nil {
					for _, r := range *call.Referrers() {
						if bo, ok := r.(*ssa.BinOp); ok && (bo.Op == token.EQL || bo.Op == token.NEQ) && (isNilConst(bo.X) || isNilConst(bo.Y)) {
							tested = true
						}
					}
				}
				if tested {
					obs = append(obs, Ob{Key: key, Site: c.Pos(call.Pos()), Verdict: OK, Note: "the buffer's bytes are tested for nil before they become the text"})
				} else {
					obs = append(obs, Ob{Key: key, Site: c.Pos(call.Pos()), Verdict: VIOLATION,
						Note: "the bytes of the buffer become the new text without a nil test: an edit that empties the document yields nil, which the analysis reads as `no content, use the file on disk`"})
				}
			}
		}
		if n == 0 {
			obs = append(obs, Ob{Key: "DOC/D10:ApplyContentChanges", Site: c.Pos(f.Pos()), Verdict: OK, Note: "no bytes.Buffer result becomes the text"})
		}
		return obs
	},
}

// ---------------------------------------------------------------------------------------------
// WALK/child-list-exhaustive: a loop that walks a list of child expressions walks all of them

var ruleWalkChildList = &Rule{
	Name:    "WALK/child-list-exhaustive",
	NeedSSA: true,
	Text:    "in package analysis, a loop over a slice field of a syntax node ([]ast.Exp of a statement or expression) whose body hands the current element to the expression walker (Analysis.cgExp with the element as its first argument) is left only when the list is exhausted: every expression of a list is evaluated by Lua, so a `break` / early return in such a loop leaves reads unseen — a local read only there is reported as unused, an unbound name there is never reported",
	Run: func(c *Ctx) []Ob {
		var obs []Ob
		n := 0
		for _, f := range c.ModFns() {
			if f.Pkg == nil || f.Pkg.Pkg.Path() != analysisPkg || f.Blocks == nil {
				continue
			}
			loops := loopsOf(f)
			cnt := 0
			var hs []*ssa.BasicBlock
			for h := range loops {
				hs = append(hs, h)
			}
			sort.Slice(hs, func(i, j int) bool { return hs[i].Index < hs[j].Index })
			for _, h := range hs {
				body := loops[h]
				// the element of a range over a slice loaded from a field of an *ast node, handed to cgExp
				visits := false
				var site token.Pos
				for b := range body {
					for _, ins := range b.Instrs {
						call, ok := ins.(*ssa.Call)
						if !ok {
							continue
						}
						g := call.Call.StaticCallee()
						if g == nil || g.Name() != "cgExp" || len(call.Call.Args) < 2 {
							continue
						}
						ld, ok := call.Call.Args[1].(*ssa.UnOp)
						if !ok || ld.Op != token.MUL {
							continue
						}
						ia, ok := ld.X.(*ssa.IndexAddr)
						if !ok || !body[ia.Block()] {
							continue
						}
						sl, ok := ia.X.(*ssa.UnOp)
						if !ok {
							continue
						}
						fa, ok := sl.X.(*ssa.FieldAddr)
						if !ok {
							continue
						}
						if pp, _ := namedPkgName(fa.X.Type()); pp != astPkg {
							continue
						}
						// the index is the loop's own counter
						if _, isConst := ia.Index.(*ssa.Const); isConst {
							continue
						}
						visits = true
						site = call.Pos()
					}
				}
				if !visits {
					continue
				}
				// innermost only: skip if a nested loop inside also visits (the inner one is judged itself)
				n++
				cnt++
				key := fmt.Sprintf("WALK/child-list:%s#%d", fnKey(f), cnt)
				early := ""
				for b := range body {
					if b == h {
						continue
					}
					for _, s := range b.Succs {
						if !body[s] {
							// an exit from the middle of the loop; a panic block is not an exit of interest
							if _, isPanic := s.Instrs[len(s.Instrs)-1].(*ssa.Panic); isPanic {
								continue
							}
							early = c.Pos(b.Instrs[len(b.Instrs)-1].Pos())
						}
					}
				}
				if early == "" {
					obs = append(obs, Ob{Key: key, Site: c.Pos(site), Verdict: OK, Note: "left only when the list is exhausted"})
				} else {
					obs = append(obs, Ob{Key: key, Site: c.Pos(site), Verdict: VIOLATION,
						Note: "the loop that walks this expression list can be left before the list is exhausted (" + early + "): the remaining expressions are never analysed"})
				}
			}
		}
		obs = append(obs, floor("WALK/child-list-exhaustive", "loops that walk a child expression list", n, 6))
		return obs
	},
}

// ---------------------------------------------------------------------------------------------
// NUM/range-not-syntax: a numeral that overflows is not a malformed numeral

var ruleNumRange = &Rule{
	Name:    "NUM/range-not-syntax",
	NeedSSA: true,
	Text:    "strconv.ParseFloat answers a well-formed numeral that does not fit a double with an error too (ErrRange, and ±Inf / 0 as the value). In the parser's numeral conversion every function whose boolean `is a number` result depends on the error of strconv.ParseFloat also reads strconv.ErrRange — otherwise valid Lua such as `1e999` is reported as a syntax error (well-formed programs produce no syntax diagnostics)",
	Run: func(c *Ctx) []Ob {
		var obs []Ob
		n := 0
		for _, f := range c.ModFns() {
			if f.Pkg == nil || f.Pkg.Pkg.Path() != modPath+"/langserver/check/compiler/parser" {
				continue
			}
			var site token.Pos
			readsRange := false
			for _, b := range f.Blocks {
				for _, ins := range b.Instrs {
					if call, ok := ins.(*ssa.Call); ok {
						if g := call.Call.StaticCallee(); g != nil && g.Pkg != nil && g.Pkg.Pkg.Path() == "strconv" && g.Name() == "ParseFloat" {
							site = call.Pos()
						}
					}
					for _, op := range ins.Operands(nil) {
						if gl, ok := (*op).(*ssa.Global); ok && gl.Pkg != nil && gl.Pkg.Pkg.Path() == "strconv" && gl.Name() == "ErrRange" {
							readsRange = true
						}
					}
				}
			}
			if site == token.NoPos {
				continue
			}
			n++
			key := "NUM/range-not-syntax:" + f.Name()
			if readsRange {
				obs = append(obs, Ob{Key: key, Site: c.Pos(site), Verdict: OK, Note: "a range error is told from a syntax error"})
			} else {
				obs = append(obs, Ob{Key: key, Site: c.Pos(site), Verdict: VIOLATION,
					Note: f.Name() + " decides `is a number` from the error of strconv.ParseFloat without looking at strconv.ErrRange: a well-formed numeral outside the range of a double (1e999) is reported as malformed"})
			}
		}
		obs = append(obs, floor("NUM/range-not-syntax", "numeral conversions through strconv.ParseFloat in the parser", n, 1))
		return obs
	},
}

// ---------------------------------------------------------------------------------------------
// PARSE/bad-expr-reported: a placeholder expression is never made silently

var ruleParseBadExpr = &Rule{
	Name:    "PARSE/bad-expr-reported",
	NeedSSA: true,
	Text:    "every place in the parser that creates an *ast.BadExpr — the placeholder for something that is not a valid expression / assignment target — reports a syntax error: either the creating function calls insertParserErr on every path through the creation (before or after it), or, following the placeholder to the callers (closed call sites, closures to their enclosing function, three levels), some function on the way tests for *ast.BadExpr and that function or a later one on the way calls insertParserErr. Otherwise an invalid file is reported clean (`(a) = 1`)",
	Run: func(c *Ctx) []Ob {
		var obs []Ob
		parserP := modPath + "/langserver/check/compiler/parser"
		isErr := func(i ssa.Instruction) bool {
			call, ok := i.(*ssa.Call)
			if !ok {
				return false
			}
			g := call.Call.StaticCallee()
			return g != nil && g.Name() == "insertParserErr"
		}
		hasErr := func(f *ssa.Function) bool {
			for _, b := range f.Blocks {
				for _, ins := range b.Instrs {
					if isErr(ins) {
						return true
					}
				}
			}
			return false
		}
		testsBad := func(f *ssa.Function) bool {
			for _, b := range f.Blocks {
				for _, ins := range b.Instrs {
					if ta, ok := ins.(*ssa.TypeAssert); ok {
						if _, nm := namedPkgName(ta.AssertedType); nm == "BadExpr" {
							return true
						}
					}
				}
			}
			return false
		}
		n := 0
		for _, f := range c.ModFns() {
			if f.Pkg == nil || f.Pkg.Pkg.Path() != parserP {
				continue
			}
			cnt := 0
			for _, b := range f.Blocks {
				for _, ins := range b.Instrs {
					al, ok := ins.(*ssa.Alloc)
					if !ok {
						continue
					}
					if _, nm := namedPkgName(al.Type()); nm != "BadExpr" {
						continue
					}
					n++
					cnt++
					key := fmt.Sprintf("PARSE/bad-expr:%s#%d", f.Name(), cnt)
					isAl := func(i ssa.Instruction) bool { return i == ssa.Instruction(al) }
					local := len(mustPrecede(f, isErr, isAl)) == 0 || len(mustFollow(f, isAl, isErr)) == 0
					ok2 := local && hasErr(f)
					if !ok2 {
						// up the callers
						level := []*ssa.Function{f}
						tested := false
						for d := 0; d < 3 && !ok2; d++ {
							var next []*ssa.Function
							for _, g := range level {
								if d > 0 && testsBad(g) { // the creating function's own arms do not count
									tested = true
								}
								if tested && hasErr(g) {
									ok2 = true
								}
								if g.Parent() != nil {
									next = append(next, g.Parent())
								}
								if sites, closed := closedCallSites(c, g); closed {
									for _, cs := range sites {
										next = append(next, cs.Parent())
									}
								}
							}
							level = next
						}
						for _, g := range level {
							if testsBad(g) {
								tested = true
							}
							if tested && hasErr(g) {
								ok2 = true
							}
						}
					}
					if ok2 {
						obs = append(obs, Ob{Key: key, Site: c.Pos(al.Pos()), Verdict: OK})
					} else {
						obs = append(obs, Ob{Key: key, Site: c.Pos(al.Pos()), Verdict: VIOLATION,
							Note: f.Name() + " creates a placeholder expression, and neither it nor a caller that recognises the placeholder reports a syntax error: the invalid construct is accepted silently"})
					}
				}
			}
		}
		obs = append(obs, floor("PARSE/bad-expr-reported", "placeholder expressions created by the parser", n, 2))
		return obs
	},
}
