package main

import (
	"fmt"
	"sort"
	"strings"

	"golang.org/x/tools/go/ssa"
)

// siteFn: function key inside "DET:<fnKey>:loopN(kind):..." / "DET:<fnKey>:index#n"
func siteFn(key string) string {
	k := strings.TrimPrefix(key, "DET:")
	if i := strings.Index(k, ":loop"); i >= 0 {
		return k[:i]
	}
	if i := strings.Index(k, ":index#"); i >= 0 {
		return k[:i]
	}
	return k
}

// reviewed selection sites: key -> reason the selection cannot depend on the order
var reviewedDetSites = map[string]string{
	"DET:(*check.AllProject).getVarInfoMapStr:loop2(map):keyed-write":     "priority merge, the same in any order: every iteration offers for a key either `name: any,` (never replaces) or `name: table,` (replaces by a rule that looks at the old string only); whichever iteration writes, the string written for a key is the same",
	"DET:(*check.AllProject).getVarInfoMapStr:loop2(map):keyed-write#2":   "same merge: first insertion of a key; all candidates for a key of one kind are the same string",
	"DET:check.getVarInfoExpandStrHover:loop1(map):keyed-write":            "same priority merge as getVarInfoMapStr (needReplaceMapStr looks at the old string and the new kind only)",
	"DET:check.getVarInfoExpandStrHover:loop1(map):keyed-write#2":          "same merge: first insertion of a key",
	"DET:(*check/common.AnnotateFile).GetBestFragementInfo:loop1(map):first-match":         "unique match: a source line belongs to at most one comment fragment (fragments are disjoint comment blocks, LineVec lists their own lines)",
	"DET:(*check/common.ScopeInfo).FindTableKeyReferVarName:loop1(map):first-match":       "unique match: the test is containment of the cursor position (line, column) in the key's own source range; two table keys cannot occupy the same position",
	"DET:(*check/common.ScopeInfo).GetTableKeyVar:loop1(map):first-match":                 "unique match: position-keyed (IsHasReferTableKey compares the key's source range with the cursor position)",
	"DET:(*check/common.ScopeInfo).IsExistLocVarTableStrKey:loop1(map):first-match":       "unique match: position-keyed (source range of the key vs cursor position); only the variable NAME owning that key is returned",
	"DET:(*check/results.FileResult).GetGlobalVarTableStrKey:loop1(map):first-match":      "unique match: position-keyed (IsHasReferTableKey)",
	"DET:(*check/results.FileResult).IsExistGlobalVarTableStrKey:loop1(map):first-match":  "unique match: position-keyed (GetSubMapStrKey)",
	"DET:check/common.GetSubMapStrKey:loop1(map):first-match":                             "unique match: key name AND its source range must contain the cursor position",
}

var ruleDet = &Rule{
	Name:    "DET/selection",
	NeedSSA: true,
	Text:    "no result is selected by an unspecified iteration order. Sources: every range over a Go map, every receive loop of a worker pool / multi-producer channel, and (to a fixpoint) every loop over a slice that was filled inside such a loop and not sorted before leaving its function (through locals, returned slices and struct fields). For each source loop: no early exit carries an element-dependent value out (first match), no variable assigned an element-dependent value is read after the loop (last-wins / arg-max ties), no early exit cuts an accumulating loop short (partial result); and no constant-index read or truncation is applied to an order-tainted slice. Sites where the candidate is unique by construction are listed in a reviewed table with the reason",
	Run: func(c *Ctx) []Ob {
		e := newDetEngine(c)
		e.run()
		var obs []Ob
		sort.Slice(e.sites, func(i, j int) bool { return e.sites[i].key < e.sites[j].key })
		seen := map[string]bool{}
		live := map[string]bool{}
		if hs, err := c.Handlers(); err == nil {
			var roots []*ssa.Function
			for _, h := range hs {
				roots = append(roots, h.Fn)
			}
			_, reachable := reach(c.CHA(), roots, nil)
			for f := range reachable {
				live[fnKey(f)] = true
			}
		}
		for _, s := range e.sites {
			if seen[s.key] {
				continue
			}
			seen[s.key] = true
			if fk := siteFn(s.key); len(live) > 0 && !live[fk] {
				obs = append(obs, Ob{Key: s.key, Site: c.Pos(s.pos), Verdict: OK, Note: "function not reachable from any handler (CHA call graph): " + fk})
				continue
			}
			if why, ok := reviewedDetSites[s.key]; ok {
				obs = append(obs, Ob{Key: s.key, Site: c.Pos(s.pos), Verdict: OK, Note: "reviewed: " + why})
			} else {
				obs = append(obs, Ob{Key: s.key, Site: c.Pos(s.pos), Verdict: VIOLATION, Note: s.note})
			}
		}
		for k := range reviewedDetSites {
			if !seen[k] {
				obs = append(obs, Ob{Key: k, Verdict: OK, Note: "reviewed site no longer present"})
			}
		}
		// every source loop without a site is an OK obligation
		nClean := 0
		for _, l := range e.loops {
			has := false
			for _, s := range e.sites {
				if s.pos != 0 && len(s.key) > 0 && containsLoop(s.key, l, e) {
					has = true
				}
			}
			if !has {
				nClean++
			}
		}
		c.Stats["det_source_loops_map"] = e.nLoops["map"]
		c.Stats["det_source_loops_pool"] = e.nLoops["pool"] + e.nLoops["chan"]
		c.Stats["det_source_loops_tainted_slice"] = e.nLoops["tainted-slice"]
		c.Stats["det_tainted_fields"] = len(e.taintedField)
		c.Stats["det_selection_sites"] = len(seen)
		obs = append(obs, Ob{Key: "DET:scan", Site: "luahelper-lsp", Verdict: OK,
			Note: fmt.Sprintf("%d map-range loops, %d receive loops, %d loops over order-tainted slices analysed; %d order-tainted fields (%d sorted by their owner); %d selection sites", e.nLoops["map"], e.nLoops["pool"]+e.nLoops["chan"], e.nLoops["tainted-slice"], len(e.taintedField), len(e.cleanField), len(seen))})
		obs = append(obs, floor("DET/selection", "map-range loops", e.nLoops["map"], 100))
		obs = append(obs, floor("DET/selection", "pool / channel receive loops", e.nLoops["pool"]+e.nLoops["chan"], 5))
		return obs
	},
}

func containsLoop(key string, l *orderLoop, e *detEngine) bool { return false }
