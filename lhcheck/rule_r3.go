package main

// Rules written after the third seeding round. Each states a general structural condition, measured on
// the whole module (or on a derived / frozen slot set), never a match on a seed's text.

import (
	"fmt"
	"go/constant"
	"go/token"
	"go/types"
	"sort"
	"strings"

	"golang.org/x/tools/go/ssa"
)

// retOperand resolves defer-spilled results: with a deferred call in the function go/ssa compiles `return x` to
// `*r = x; rundefers; t = *r; return t`; the value stored last in the returning block is the operand.
func retOperand(ret *ssa.Return, i int) ssa.Value {
	v := ret.Results[i]
	ld, ok := v.(*ssa.UnOp)
	if !ok || ld.Op != token.MUL {
		return v
	}
	al, ok := ld.X.(*ssa.Alloc)
	if !ok {
		return v
	}
	var last ssa.Value
	for _, ins := range ret.Block().Instrs {
		if st, ok := ins.(*ssa.Store); ok && st.Addr == ssa.Value(al) {
			last = st.Val
		}
	}
	if last != nil {
		return last
	}
	return v
}

// ---------------------------------------------------------------------------------------------
// RETPAIR: (…, flag, ptr) results — the pointer is dereferenced by callers under a value of the flag for which
// the callee returns the nil constant

var ruleRetPair = &Rule{
	Name:    "PANIC/P5-flag-pointer-contract",
	NeedSSA: true,
	Text:    "where a caller dereferences a pointer result of a module function only on the branch on which a boolean result of the same call has a given value (and without a nil test of its own), the callee never returns that boolean value as a constant together with the nil constant for the pointer: `unchanged => previous struct present` style contracts between two results; a violation is a nil dereference (in a pool worker: the whole process dies)",
	Run: func(c *Ctx) []Ob {
		var obs []Ob
		n := 0
		for _, f := range c.ModFns() {
			cnt := 0
			for _, b := range f.Blocks {
				for _, ins := range b.Instrs {
					call, ok := ins.(*ssa.Call)
					if !ok {
						continue
					}
					g := call.Call.StaticCallee()
					if g == nil || !c.IsModFn(g) || g.Blocks == nil {
						continue
					}
					tup, ok := call.Type().(*types.Tuple)
					if !ok || tup.Len() < 2 {
						continue
					}
					refs := call.Referrers()
					if refs == nil {
						continue
					}
					ext := map[int]*ssa.Extract{}
					for _, r := range *refs {
						if ex, ok := r.(*ssa.Extract); ok {
							ext[ex.Index] = ex
						}
					}
					for j, pe := range ext {
						if _, isPtr := types.Unalias(pe.Type()).Underlying().(*types.Pointer); !isPtr {
							continue
						}
						// dereference sites of result j
						prefs := pe.Referrers()
						if prefs == nil {
							continue
						}
						for _, u := range *prefs {
							var db *ssa.BasicBlock
							switch x := u.(type) {
							case *ssa.FieldAddr:
								if x.X == ssa.Value(pe) {
									db = x.Block()
								}
							case *ssa.UnOp:
								if x.Op == token.MUL && x.X == ssa.Value(pe) {
									db = x.Block()
								}
							}
							if db == nil {
								continue
							}
							// own nil test?
							nilGuard := false
							for d := db; d != nil; d = d.Idom() {
								id := d.Idom()
								if id == nil {
									break
								}
								if iff, ok := id.Instrs[len(id.Instrs)-1].(*ssa.If); ok {
									if bo, ok := iff.Cond.(*ssa.BinOp); ok && (bo.X == ssa.Value(pe) || bo.Y == ssa.Value(pe)) {
										nilGuard = true
									}
								}
							}
							if nilGuard {
								continue
							}
							// flag condition dominating the dereference
							for i, be := range ext {
								bt, ok := be.Type().Underlying().(*types.Basic)
								if !ok || bt.Kind() != types.Bool {
									continue
								}
								req, found := false, false
								for d := db; d != nil && !found; d = d.Idom() {
									id := d.Idom()
									if id == nil {
										break
									}
									iff, ok := id.Instrs[len(id.Instrs)-1].(*ssa.If)
									if !ok {
										continue
									}
									cond, neg := iff.Cond, false
									if un, ok := cond.(*ssa.UnOp); ok && un.Op == token.NOT {
										cond, neg = un.X, true
									}
									if cond != ssa.Value(be) {
										continue
									}
									switch d {
									case id.Succs[0]:
										req, found = !neg, true
									case id.Succs[1]:
										req, found = neg, true
									}
								}
								if !found {
									continue
								}
								n++
								cnt++
								key := fmt.Sprintf("PANIC/P5:%s->%s#%d", fnKey(f), g.Name(), cnt)
								bad := ""
								for _, gb := range g.Blocks {
									ret, ok := gb.Instrs[len(gb.Instrs)-1].(*ssa.Return)
									if !ok || len(ret.Results) <= i || len(ret.Results) <= j {
										continue
									}
									kb, ok1 := retOperand(ret, i).(*ssa.Const)
									kp, ok2 := retOperand(ret, j).(*ssa.Const)
									if ok1 && ok2 && kb.Value != nil && kb.Value.Kind() == constant.Bool && constant.BoolVal(kb.Value) == req && kp.IsNil() {
										bad = c.Pos(ret.Pos())
									}
								}
								if bad == "" {
									obs = append(obs, Ob{Key: key, Site: c.Pos(u.Pos()), Verdict: OK})
								} else {
									obs = append(obs, Ob{Key: key, Site: c.Pos(u.Pos()), Verdict: VIOLATION,
										Note: fmt.Sprintf("%s dereferences result #%d of %s on the branch where result #%d is %v, but %s returns (%v, nil) at %s: nil dereference", f.Name(), j, g.Name(), i, req, g.Name(), req, bad)})
								}
							}
						}
					}
				}
			}
		}
		c.Stats["flag_pointer_contract_sites"] = n
		obs = append(obs, floor("PANIC/P5-flag-pointer-contract", "pointer results dereferenced under a flag result of the same call", n, 1))
		return obs
	},
}

// ---------------------------------------------------------------------------------------------
// BATCH: loops that must process every element of their input

// batch loops (function -> what is iterated and why every element counts); frozen by reading
var batchLoops = map[string]string{
	"(*lspcommon.FileMapCache).ApplyContentChanges":          "the content changes of ONE didChange notification: the LSP requires all of them to be applied in order",
	"check/annotation/annotateparser.ParseCommentFragment": "the lines of one comment block: a malformed line must not disturb the annotations on the following lines",
}

var ruleBatch = &Rule{
	Name:    "BATCH/all-elements",
	NeedSSA: true,
	Text:    "in the listed batch functions (all content changes of a notification; all lines of a comment block) the loop over the input leaves only when the input is exhausted or through a return that carries a non-nil error: no break, no successful early return — and (derived, module-wide) every in-place filter loop (range over S storing the kept elements back to S[j], followed by S = S[:j]) has no early exit",
	Run: func(c *Ctx) []Ob {
		var obs []Ob
		var names []string
		for k := range batchLoops {
			names = append(names, k)
		}
		sort.Strings(names)
		for _, name := range names {
			var f *ssa.Function
			for _, g := range c.ModFns() {
				if fnKey(g) == name {
					f = g
				}
			}
			if f == nil {
				obs = append(obs, Ob{Key: "BATCH:" + name, Verdict: UNDECIDED, Note: "slot unresolved: " + name})
				continue
			}
			loops := loopsOf(f)
			// the outermost loop that ranges over a parameter-derived slice
			var hs []*ssa.BasicBlock
			for h := range loops {
				hs = append(hs, h)
			}
			sort.Slice(hs, func(i, j int) bool { return hs[i].Index < hs[j].Index })
			if len(hs) == 0 {
				obs = append(obs, Ob{Key: "BATCH:" + name, Site: c.Pos(f.Pos()), Verdict: VIOLATION, Note: "no loop over the batch input left in " + f.Name()})
				continue
			}
			h := hs[0]
			body := loops[h]
			bad := ""
			for b := range body {
				for _, s := range b.Succs {
					if body[s] || b == h {
						continue
					}
					// an exit edge from inside the loop: allowed only into a block that returns a non-nil error
					okExit := false
					if ret, ok := s.Instrs[len(s.Instrs)-1].(*ssa.Return); ok {
						for ri := range ret.Results {
							r := retOperand(ret, ri)
							if types.Identical(ret.Results[ri].Type(), types.Universe.Lookup("error").Type()) {
								if k, isC := r.(*ssa.Const); !isC || !k.IsNil() {
									okExit = true
								}
							}
						}
					}
					if !okExit {
						bad = c.Pos(b.Instrs[len(b.Instrs)-1].Pos())
					}
				}
			}
			if bad == "" {
				obs = append(obs, Ob{Key: "BATCH:" + name, Site: c.Pos(f.Pos()), Verdict: OK, Note: batchLoops[name]})
			} else {
				obs = append(obs, Ob{Key: "BATCH:" + name, Site: bad, Verdict: VIOLATION,
					Note: "the loop over the batch input is left early without an error (" + batchLoops[name] + "): the remaining elements are silently dropped"})
			}
		}
		return obs
	},
}

// ---------------------------------------------------------------------------------------------
// PARSELOC: a node's range is closed after its last child has been parsed

var ruleParseLoc = &Rule{
	Name:    "LOC/node-range-covers-children",
	NeedSSA: true,
	Text:    "in the Lua parser, where a function builds an AST node whose Loc is GetRangeLoc(&begin, &end) with end taken from the lexer (GetNowTokenLoc / GetPreTokenLoc), every other field of that node that holds the result of a parse call was produced BEFORE the end location was read: the range of a statement covers all its children (the scope of `repeat … until exp`, and with it go-to-definition and completion inside the condition, is built from that range)",
	Run: func(c *Ctx) []Ob {
		var obs []Ob
		n := 0
		for _, f := range c.ModFns() {
			if f.Pkg == nil || f.Pkg.Pkg.Path() != parserPkg {
				continue
			}
			cnt := 0
			for _, b := range f.Blocks {
				for _, ins := range b.Instrs {
					st, ok := ins.(*ssa.Store)
					if !ok {
						continue
					}
					fa, ok := st.Addr.(*ssa.FieldAddr)
					if !ok || fieldOf(fa).Name() != "Loc" {
						continue
					}
					node, ok := fa.X.(*ssa.Alloc)
					if !ok {
						continue
					}
					// Loc value = GetRangeLoc(&b, &e)
					rc, ok := canon(st.Val).(*ssa.Call)
					if !ok || rc.Call.StaticCallee() == nil || rc.Call.StaticCallee().Name() != "GetRangeLoc" || len(rc.Call.Args) != 2 {
						continue
					}
					// the end location: a local variable stored from a lexer location call
					var endCall *ssa.Call
					if al, ok := rc.Call.Args[1].(*ssa.Alloc); ok {
						if refs := al.Referrers(); refs != nil {
							for _, r := range *refs {
								if s2, ok := r.(*ssa.Store); ok && s2.Addr == ssa.Value(al) {
									if cc, ok := s2.Val.(*ssa.Call); ok && cc.Call.StaticCallee() != nil && strings.HasSuffix(cc.Call.StaticCallee().Name(), "TokenLoc") {
										endCall = cc
									}
								}
							}
						}
					}
					if endCall == nil {
						continue
					}
					n++
					cnt++
					key := fmt.Sprintf("LOC/node-range:%s#%d", fnKey(f), cnt)
					bad := ""
					if refs := node.Referrers(); refs != nil {
						for _, r := range *refs {
							fa2, ok := r.(*ssa.FieldAddr)
							if !ok || fa2 == fa {
								continue
							}
							frefs := fa2.Referrers()
							if frefs == nil {
								continue
							}
							for _, u := range *frefs {
								s2, ok := u.(*ssa.Store)
								if !ok || s2.Addr != ssa.Value(fa2) {
									continue
								}
								v := canon(s2.Val)
								if ex, ok := v.(*ssa.Extract); ok {
									v = ex.Tuple
								}
								child, ok := v.(*ssa.Call)
								if !ok || child.Call.StaticCallee() == nil || !strings.HasPrefix(child.Call.StaticCallee().Name(), "parse") {
									continue
								}
								isChild := func(i ssa.Instruction) bool { return i == ssa.Instruction(child) }
								isEnd := func(i ssa.Instruction) bool { return i == ssa.Instruction(endCall) }
								if len(mayFollow(f, isEnd, isChild)) > 0 && len(mustPrecede(f, isChild, isEnd)) > 0 {
									bad = fieldOf(fa2).Name() + " (" + child.Call.StaticCallee().Name() + ")"
								}
							}
						}
					}
					if bad == "" {
						obs = append(obs, Ob{Key: key, Site: c.Pos(st.Pos()), Verdict: OK})
					} else {
						obs = append(obs, Ob{Key: key, Site: c.Pos(st.Pos()), Verdict: VIOLATION,
							Note: "the node's range is closed before its child " + bad + " is parsed: positions inside that child lie outside the node (and outside the scope built from it)"})
					}
				}
			}
		}
		c.Stats["parser_node_ranges"] = n
		obs = append(obs, floor("LOC/node-range-covers-children", "parser nodes whose range ends at a lexer location", n, 10))
		return obs
	},
}

// ---------------------------------------------------------------------------------------------
// TOKSNAP: the lexer records a token's end position after consuming its text

var ruleTokSnap = &Rule{
	Name:    "LOC/token-snapshot-after-advance",
	NeedSSA: true,
	Text:    "in Lexer.NextTokenStruct every call of setNowToken (which snapshots the current position as the token's END) for a token other than end-of-input is preceded, on every path since the store of tokenStartPos (the token's START), by a call that advances the cursor (a method that — transitively — re-slices Lexer.chunk): otherwise the token's range is empty and the next token starts at its start",
	Run: func(c *Ctx) []Ob {
		var obs []Ob
		f := c.SSAFunc(lexerPkgPath, "Lexer", "NextTokenStruct")
		snap := c.SSAFunc(lexerPkgPath, "Lexer", "setNowToken")
		if f == nil || snap == nil {
			return []Ob{{Key: "LOC/token-snapshot:slots", Verdict: UNDECIDED, Note: "slot unresolved: Lexer.NextTokenStruct / setNowToken"}}
		}
		// advancing methods: write field chunk, transitively
		adv := map[*ssa.Function]bool{}
		for _, g := range c.ModFns() {
			if g.Pkg == nil || g.Pkg.Pkg.Path() != lexerPkgPath {
				continue
			}
			for _, b := range g.Blocks {
				for _, ins := range b.Instrs {
					if st, ok := ins.(*ssa.Store); ok {
						if fa, ok := st.Addr.(*ssa.FieldAddr); ok && fieldOf(fa).Name() == "chunk" {
							adv[g] = true
						}
					}
				}
			}
		}
		for changed := true; changed; {
			changed = false
			for _, g := range c.ModFns() {
				if adv[g] || g.Pkg == nil || g.Pkg.Pkg.Path() != lexerPkgPath {
					continue
				}
				// g advances if every path to return passes an advancing call
				isA := func(i ssa.Instruction) bool {
					call, ok := i.(*ssa.Call)
					return ok && call.Call.StaticCallee() != nil && adv[call.Call.StaticCallee()]
				}
				isRet := func(i ssa.Instruction) bool { _, ok := i.(*ssa.Return); return ok }
				has := false
				for _, b := range g.Blocks {
					for _, ins := range b.Instrs {
						if isA(ins) {
							has = true
						}
					}
				}
				if has && len(mustPrecede(g, isA, isRet)) == 0 {
					adv[g] = true
					changed = true
				}
			}
		}
		// forward must-analysis with reset at the tokenStartPos store
		nb := len(f.Blocks)
		in := make([]int, nb) // 2 = top, 1 = advanced since start, 0 = not
		out := make([]int, nb)
		for i := range in {
			in[i], out[i] = 2, 2
		}
		step := func(ins ssa.Instruction, st int) int {
			switch x := ins.(type) {
			case *ssa.Store:
				if fa, ok := x.Addr.(*ssa.FieldAddr); ok && fieldOf(fa).Name() == "tokenStartPos" {
					return 0
				}
			case *ssa.Call:
				if sc := x.Call.StaticCallee(); sc != nil && adv[sc] {
					return 1
				}
			}
			return st
		}
		meet := func(a, b int) int {
			if a == 2 {
				return b
			}
			if b == 2 {
				return a
			}
			if a < b {
				return a
			}
			return b
		}
		for changed := true; changed; {
			changed = false
			for _, b := range f.Blocks {
				st := 2
				if b.Index == 0 {
					st = 0
				}
				for _, p := range b.Preds {
					st = meet(st, out[p.Index])
				}
				in[b.Index] = st
				for _, ins := range b.Instrs {
					if st != 2 {
						st = step(ins, st)
					}
				}
				if st != out[b.Index] {
					out[b.Index] = st
					changed = true
				}
			}
		}
		eof, _ := constIntValue(c, lexerPkgPath, "TkEOF")
		n := 0
		for _, b := range f.Blocks {
			st := in[b.Index]
			for _, ins := range b.Instrs {
				if call, ok := ins.(*ssa.Call); ok && call.Call.StaticCallee() == snap {
					isEOF := false
					if k, ok := call.Call.Args[1].(*ssa.Const); ok && k.Value != nil {
						if v, ok := constant.Int64Val(k.Value); ok && v == eof {
							isEOF = true
						}
					}
					if !isEOF && st != 2 {
						n++
						key := fmt.Sprintf("LOC/token-snapshot:%d", n)
						if k, ok := call.Call.Args[1].(*ssa.Const); ok && k.Value != nil {
							key = "LOC/token-snapshot:kind=" + k.Value.String()
							if s, ok := call.Call.Args[2].(*ssa.Const); ok && s.Value != nil && s.Value.Kind() == constant.String {
								key = "LOC/token-snapshot:" + constant.StringVal(s.Value)
							}
						}
						if st == 1 {
							obs = append(obs, Ob{Key: key, Site: c.Pos(call.Pos()), Verdict: OK})
						} else {
							obs = append(obs, Ob{Key: key, Site: c.Pos(call.Pos()), Verdict: VIOLATION,
								Note: "the token's end position is recorded on a path on which the cursor has not advanced since the token's start was recorded: the token gets an empty range and the following token starts at this one's start"})
						}
					}
				}
				if st != 2 {
					st = step(ins, st)
				}
			}
		}
		c.Stats["token_snapshot_sites"] = n
		obs = append(obs, floor("LOC/token-snapshot-after-advance", "setNowToken sites for real tokens", n, 30))
		return obs
	},
}

// ---------------------------------------------------------------------------------------------
// ORDER: two frozen ordering constraints (function, A must precede B on every path, reason)

type orderConstraint struct {
	pkg, recv, fn string
	a, b          string // callee names; b == "return true" means every return of the constant true
	why           string
}

var orderTable = []orderConstraint{
	{parserPkg, "Parser", "BeginAnalyze", "NextTokenKind", "SetEnd", "SetEnd discards the remaining source text; the end-of-input expectation (NextTokenKind(TkEOF)) is the only check that nothing follows the chunk, so it must run first"},
	{commonPkg, "VarInfo", "IsCorrectPosition", "IsBeforeLoc", "return true", "a declaration is visible at a position only if it lies before it: the visibility test FindLocVar relies on must apply IsBeforeLoc before it can answer true (a later `local function` must not capture earlier uses)"},
}

var ruleOrder = &Rule{
	Name:    "ORDER/must-precede",
	NeedSSA: true,
	Text:    "frozen ordering constraints, each with its reason: in Parser.BeginAnalyze the end-of-input expectation precedes SetEnd (which discards the rest of the text); in VarInfo.IsCorrectPosition the declared-before test IsBeforeLoc precedes every return of true",
	Run: func(c *Ctx) []Ob {
		var obs []Ob
		for _, oc := range orderTable {
			key := "ORDER:" + oc.fn + ":" + oc.a + "<" + strings.ReplaceAll(oc.b, " ", "-")
			f := c.SSAFunc(oc.pkg, oc.recv, oc.fn)
			if f == nil {
				obs = append(obs, Ob{Key: key, Verdict: UNDECIDED, Note: "slot unresolved: " + oc.recv + "." + oc.fn})
				continue
			}
			isCallTo := func(name string) func(ssa.Instruction) bool {
				return func(i ssa.Instruction) bool {
					call, ok := i.(*ssa.Call)
					return ok && call.Call.StaticCallee() != nil && call.Call.StaticCallee().Name() == name
				}
			}
			isA := isCallTo(oc.a)
			var isB func(ssa.Instruction) bool
			if oc.b == "return true" {
				isB = func(i ssa.Instruction) bool {
					ret, ok := i.(*ssa.Return)
					if !ok || len(ret.Results) != 1 {
						return false
					}
					k, ok := ret.Results[0].(*ssa.Const)
					return ok && k.Value != nil && k.Value.Kind() == constant.Bool && constant.BoolVal(k.Value)
				}
			} else {
				isB = isCallTo(oc.b)
			}
			nB := 0
			for _, b := range f.Blocks {
				for _, ins := range b.Instrs {
					if isB(ins) {
						nB++
					}
				}
			}
			if nB == 0 {
				obs = append(obs, Ob{Key: key, Site: c.Pos(f.Pos()), Verdict: UNDECIDED, Note: "no `" + oc.b + "` site left in " + oc.fn + ": the constraint cannot be evaluated"})
				continue
			}
			if bad := mustPrecede(f, isA, isB); len(bad) > 0 {
				obs = append(obs, Ob{Key: key, Site: c.Pos(bad[0].Pos()), Verdict: VIOLATION, Note: oc.fn + ": `" + oc.b + "` is reachable without `" + oc.a + "` before it — " + oc.why})
			} else {
				obs = append(obs, Ob{Key: key, Site: c.Pos(f.Pos()), Verdict: OK, Note: oc.why})
			}
		}
		return obs
	},
}

// ---------------------------------------------------------------------------------------------
// S7: a scope that stays open while a trailing expression is analysed spans the whole statement

var ruleScopeS7 = &Rule{
	Name:    "SCOPE/S7-scope-range",
	NeedSSA: true,
	Text:    "in every walker function that creates a scope for a statement (CreateScopeInfo(parent, nil, loc)), loc is the Loc of the statement node itself (node.Loc) or of the block it belongs to (node.Blocks[i].Loc for the branches of an if); where the function analyses an expression of the node while the scope is still open (cgExp after cgBlock and before exitScope: repeat … until exp), loc must be the statement's own Loc — a scope that ends with the block does not contain the positions of that expression, so position-based lookups there miss the block's locals",
	Run: func(c *Ctx) []Ob {
		var obs []Ob
		create := c.SSAFunc(commonPkg, "", "CreateScopeInfo")
		if create == nil {
			return []Ob{{Key: "SCOPE/S7:slots", Verdict: UNDECIDED, Note: "slot unresolved: common.CreateScopeInfo"}}
		}
		// wrappers: module functions that pass one of their own parameters as the range of a CreateScopeInfo call
		createWrappers := map[*ssa.Function]int{}
		for _, g := range c.ModFns() {
			for _, b := range g.Blocks {
				for _, ins := range b.Instrs {
					if call, ok := ins.(*ssa.Call); ok && call.Call.StaticCallee() == create && len(call.Call.Args) == 3 {
						if p, ok := canon(call.Call.Args[2]).(*ssa.Parameter); ok {
							for j, pp := range g.Params {
								if pp == p {
									createWrappers[g] = j
								}
							}
						}
					}
				}
			}
		}
		n := 0
		for _, f := range c.ModFns() {
			if f.Pkg == nil || f.Pkg.Pkg.Path() != analysisPkg || len(f.Params) < 2 {
				continue
			}
			if _, isWrapper := createWrappers[f]; isWrapper {
				continue
			}
			node := f.Params[1]
			var cr *ssa.Call
			locArg := 2
			for _, b := range f.Blocks {
				for _, ins := range b.Instrs {
					call, ok := ins.(*ssa.Call)
					if !ok {
						continue
					}
					if call.Call.StaticCallee() == create {
						cr, locArg = call, 2
					} else if j, ok := createWrappers[call.Call.StaticCallee()]; ok && j < len(call.Call.Args) {
						cr, locArg = call, j // a helper that creates (and registers) the scope with its own parameter as range
					}
				}
			}
			if cr == nil {
				continue
			}
			isCallTo := func(name string) func(ssa.Instruction) bool {
				return func(i ssa.Instruction) bool {
					call, ok := i.(*ssa.Call)
					return ok && call.Call.StaticCallee() != nil && call.Call.StaticCallee().Name() == name
				}
			}
			// trailing expression inside the open scope: a cgExp reached after a cgBlock with no exitScope in between
			// (may-analysis: "block analysed, scope still open")
			trailing := false
			{
				nb := len(f.Blocks)
				in := make([]bool, nb)
				out := make([]bool, nb)
				for changed := true; changed; {
					changed = false
					for _, b := range f.Blocks {
						st := false
						for _, p := range b.Preds {
							st = st || out[p.Index]
						}
						in[b.Index] = st
						for _, ins := range b.Instrs {
							switch {
							case isCallTo("cgBlock")(ins):
								st = true
							case isCallTo("exitScope")(ins):
								st = false
							case isCallTo("cgExp")(ins) && st:
								trailing = true
							}
						}
						if st != out[b.Index] {
							out[b.Index] = st
							changed = true
						}
					}
				}
			}
			if !trailing {
				continue
			}
			n++
			key := "SCOPE/S7:" + f.Name()
			// loc argument must be load of FieldAddr(node, Loc)
			okLoc := false
			if ld, ok := canon(cr.Call.Args[locArg]).(*ssa.UnOp); ok {
				if fa, ok := ld.X.(*ssa.FieldAddr); ok && canon(fa.X) == ssa.Value(node) && fieldOf(fa).Name() == "Loc" {
					okLoc = true
				}
			}
			if okLoc {
				obs = append(obs, Ob{Key: key, Site: c.Pos(cr.Pos()), Verdict: OK})
			} else {
				obs = append(obs, Ob{Key: key, Site: c.Pos(cr.Pos()), Verdict: VIOLATION,
					Note: f.Name() + " analyses an expression of the statement while the scope is still open, but the scope's range is " + describeValue(cr.Call.Args[locArg]) + ", not the statement's own Loc: positions in that expression fall outside the scope"})
			}
		}
		obs = append(obs, floor("SCOPE/S7-scope-range", "scopes kept open over a trailing expression", n, 1))
		return obs
	},
}

// ---------------------------------------------------------------------------------------------
// K9: exponent markers of numerals

var ruleTabK9 = &Rule{
	Name:    "TAB/K9-exponent-markers",
	NeedSSA: true,
	Text:    "in Lexer.scanNumber the character classes used as exponent markers are exactly \"Ee\" (decimal numerals) and \"Pp\" (hexadecimal numerals), the latter selected only after the 0x / 0X prefix was recognised (Lua 5.3 §3.1): a hexadecimal digit e must never be read as an exponent marker",
	Run: func(c *Ctx) []Ob {
		f := c.SSAFunc(lexerPkgPath, "Lexer", "scanNumber")
		if f == nil {
			return []Ob{{Key: "TAB/K9:slots", Verdict: UNDECIDED, Note: "slot unresolved: Lexer.scanNumber"}}
		}
		// the marker variable: the second argument of the helper that tests the character after the mantissa; collect the
		// string constants that flow into a phi / variable holding a two-letter upper/lower pair
		sets := map[string]bool{}
		for _, b := range f.Blocks {
			for _, ins := range b.Instrs {
				for _, op := range ins.Operands(nil) {
					if k, ok := (*op).(*ssa.Const); ok && k.Value != nil && k.Value.Kind() == constant.String {
						s := constant.StringVal(k.Value)
						if len(s) >= 2 && len(s) <= 4 && strings.ToUpper(s[:1]) == s[:1] && strings.ToLower(s[:1]) == strings.ToLower(s[1:2]) && s[:1] != s[1:2] {
							if strings.ContainsAny(s, "EePp") {
								sets[s] = true
							}
						}
					}
				}
			}
		}
		var got []string
		for s := range sets {
			got = append(got, s)
		}
		sort.Strings(got)
		var obs []Ob
		if strings.Join(got, " ") == "Ee Pp" {
			obs = append(obs, Ob{Key: "TAB/K9:marker-sets", Site: c.Pos(f.Pos()), Verdict: OK})
		} else {
			obs = append(obs, Ob{Key: "TAB/K9:marker-sets", Site: c.Pos(f.Pos()), Verdict: VIOLATION, Note: fmt.Sprintf("exponent marker classes in scanNumber are %v, reference [Ee Pp]", got)})
		}
		return obs
	},
}

// ---------------------------------------------------------------------------------------------
// OWNER: long-lived owner fields that are assigned only at construction

var ownerFields = map[string]string{
	"LspServer.fileCache": "the open-document cache object: replacing it drops the text of every open document (clients do not re-send didOpen)",
}

var ruleOwner = &Rule{
	Name:    "DOC/D8-cache-object-owner",
	NeedSSA: true,
	Text:    "the open-document cache object held in LspServer.fileCache is assigned only where the server object is constructed; no handler or helper replaces it afterwards (a settings change, a workspace-folder change … must keep the text of the documents that are open)",
	Run: func(c *Ctx) []Ob {
		var obs []Ob
		n := 0
		for _, f := range c.ModFns() {
			cnt := 0
			for _, b := range f.Blocks {
				for _, ins := range b.Instrs {
					st, ok := ins.(*ssa.Store)
					if !ok {
						continue
					}
					fa, ok := st.Addr.(*ssa.FieldAddr)
					if !ok {
						continue
					}
					k := namedName(fa.X.Type()) + "." + fieldOf(fa).Name()
					why, ok := ownerFields[k]
					if !ok {
						continue
					}
					n++
					cnt++
					key := fmt.Sprintf("DOC/D8:%s:%s#%d", k, fnKey(f), cnt)
					if freshObject(fa.X) {
						obs = append(obs, Ob{Key: key, Site: c.Pos(st.Pos()), Verdict: OK, Note: "assigned while the owner object is being constructed"})
					} else {
						obs = append(obs, Ob{Key: key, Site: c.Pos(st.Pos()), Verdict: VIOLATION, Note: f.Name() + " replaces " + k + " of an existing server object — " + why})
					}
				}
			}
		}
		obs = append(obs, floor("DOC/D8-cache-object-owner", "assignments of owner fields", n, 1))
		return obs
	},
}

// ---------------------------------------------------------------------------------------------
// SETTER: a cache's Set stores the new value on every successful path

var ruleCacheSet = &Rule{
	Name:    "KEY/M5-cache-set-stores",
	NeedSSA: true,
	Text:    "for every type of the module that guards a map with its own mutex and has a method Set(key, value) (a cache): on every path to a return of a nil error, the value parameter has been stored (into a node, a map entry or a list element) — `already cached` must replace the cached value, not merely refresh its position; the real-time analysis of an edited document is published through such a cache on every didChange",
	Run: func(c *Ctx) []Ob {
		var obs []Ob
		n := 0
		for _, f := range c.ModFns() {
			if f.Name() != "Set" || f.Signature.Recv() == nil || len(f.Params) != 3 {
				continue
			}
			// receiver struct has a mutex and a map
			st, ok := types.Unalias(f.Signature.Recv().Type().Underlying().(*types.Pointer).Elem()).Underlying().(*types.Struct)
			if !ok {
				continue
			}
			hasMu, hasMap := false, false
			for i := 0; i < st.NumFields(); i++ {
				if isSyncType(st.Field(i).Type()) {
					hasMu = true
				}
				if _, ok := types.Unalias(st.Field(i).Type()).Underlying().(*types.Map); ok {
					hasMap = true
				}
			}
			if !hasMu || !hasMap {
				continue
			}
			n++
			val := f.Params[2]
			key := "KEY/M5:" + fnKey(f)
			uses := func(v ssa.Value) bool {
				seen := map[ssa.Value]bool{}
				var rec func(v ssa.Value, d int) bool
				rec = func(v ssa.Value, d int) bool {
					if v == nil || d > 6 || seen[v] {
						return false
					}
					seen[v] = true
					if v == ssa.Value(val) {
						return true
					}
					switch x := v.(type) {
					case *ssa.MakeInterface:
						return rec(x.X, d+1)
					case *ssa.UnOp:
						return rec(x.X, d+1)
					case *ssa.Alloc:
						// composite literal holding the value
						if refs := x.Referrers(); refs != nil {
							for _, r := range *refs {
								if fa, ok := r.(*ssa.FieldAddr); ok {
									if fr := fa.Referrers(); fr != nil {
										for _, u := range *fr {
											if s2, ok := u.(*ssa.Store); ok && s2.Addr == ssa.Value(fa) && rec(s2.Val, d+1) {
												return true
											}
										}
									}
								}
							}
						}
					}
					return false
				}
				return rec(v, 0)
			}
			isStore := func(i ssa.Instruction) bool {
				switch x := i.(type) {
				case *ssa.Store:
					return uses(x.Val)
				case *ssa.MapUpdate:
					return uses(x.Value)
				case *ssa.Call:
					for _, a := range x.Call.Args {
						if uses(a) {
							return true
						}
					}
				}
				return false
			}
			isOKRet := func(i ssa.Instruction) bool {
				ret, ok := i.(*ssa.Return)
				if !ok || len(ret.Results) != 1 || ret.Block().Comment == "recover" {
					return false
				}
				k, ok := retOperand(ret, 0).(*ssa.Const)
				return ok && k.IsNil()
			}
			if bad := mustPrecede(f, isStore, isOKRet); len(bad) > 0 {
				obs = append(obs, Ob{Key: key, Site: c.Pos(bad[0].Pos()), Verdict: VIOLATION, Note: "Set returns success on a path on which the value was never stored: the cache keeps the previous value for that key"})
			} else {
				obs = append(obs, Ob{Key: key, Site: c.Pos(f.Pos()), Verdict: OK})
			}
		}
		obs = append(obs, floor("KEY/M5-cache-set-stores", "cache Set methods", n, 1))
		return obs
	},
}

// ---------------------------------------------------------------------------------------------
// LOCFILE: positions are per file

var ruleLocFile = &Rule{
	Name:    "LOC/position-filter-has-file",
	NeedSSA: true,
	Text:    "locations are positions inside ONE file. In every function that builds (file, location) results (it stores DefineStruct.StrFile), a containment test Location.IsInLocStruct(line, col) between a location that is not the loop element's own and the element's coordinates executes only where a string equality test has succeeded (the file of the element equals the file the other location belongs to): otherwise an occurrence in another file that happens to sit at the same line and column is taken for the definition and dropped",
	Run: func(c *Ctx) []Ob {
		var obs []Ob
		n := 0
		for _, f := range c.ModFns() {
			builds := false
			for _, b := range f.Blocks {
				for _, ins := range b.Instrs {
					if st, ok := ins.(*ssa.Store); ok {
						if fa, ok := st.Addr.(*ssa.FieldAddr); ok && namedName(fa.X.Type()) == "DefineStruct" && fieldOf(fa).Name() == "StrFile" {
							builds = true
						}
					}
				}
			}
			if !builds {
				// a private predicate extracted from such builders (all its call sites are in functions that build results)
				sites, closed := closedCallSites(c, f)
				if closed && len(sites) > 0 {
					all := true
					for _, cs := range sites {
						cb := false
						for _, b2 := range cs.Parent().Blocks {
							for _, ins2 := range b2.Instrs {
								if st, ok := ins2.(*ssa.Store); ok {
									if fa, ok := st.Addr.(*ssa.FieldAddr); ok && namedName(fa.X.Type()) == "DefineStruct" && fieldOf(fa).Name() == "StrFile" {
										cb = true
									}
								}
							}
						}
						all = all && cb
					}
					builds = all
				}
			}
			if !builds {
				continue
			}
			cnt := 0
			for _, b := range f.Blocks {
				for _, ins := range b.Instrs {
					call, ok := ins.(*ssa.Call)
					if !ok || call.Call.StaticCallee() == nil || call.Call.StaticCallee().Name() != "IsInLocStruct" {
						continue
					}
					n++
					cnt++
					key := fmt.Sprintf("LOC/position-filter:%s#%d", fnKey(f), cnt)
					guarded := false
					for d := b; d != nil && !guarded; d = d.Idom() {
						id := d.Idom()
						if id == nil {
							break
						}
						iff, ok := id.Instrs[len(id.Instrs)-1].(*ssa.If)
						if !ok {
							continue
						}
						bo, ok := iff.Cond.(*ssa.BinOp)
						if !ok || (bo.Op != token.EQL && bo.Op != token.NEQ) {
							continue
						}
						bt, ok := bo.X.Type().Underlying().(*types.Basic)
						if !ok || bt.Kind() != types.String {
							continue
						}
						eq := 0 // the successor on which the two strings are equal
						if bo.Op == token.NEQ {
							eq = 1
						}
						// the block must be reachable through the equality edge only (a join behind `if a != b { … }` is not evidence)
						if len(id.Succs[eq].Preds) == 1 && (id.Succs[eq] == d || id.Succs[eq].Dominates(b)) && id.Succs[1-eq] != id.Succs[eq] {
							guarded = true
						}
					}
					if guarded {
						obs = append(obs, Ob{Key: key, Site: c.Pos(call.Pos()), Verdict: OK})
					} else {
						obs = append(obs, Ob{Key: key, Site: c.Pos(call.Pos()), Verdict: VIOLATION,
							Note: "a stored location is matched against the coordinates of an occurrence without a dominating file-equality test: positions of two different files are compared"})
					}
				}
			}
		}
		obs = append(obs, floor("LOC/position-filter-has-file", "IsInLocStruct tests in functions that build (file, location) results", n, 4))
		return obs
	},
}

// ---------------------------------------------------------------------------------------------
// CURSOR: the column counter advances by the text that is removed

// callers that may advance the column by a BYTE count of a variable amount of text (function -> reason)
var byteAdvanceCallers = map[string]string{
	"scanIdentifier": "the text removed consists of characters accepted by isLetter / isDigit / '_' (ASCII classes): bytes = characters",
	"scanNumber":     "the text removed consists of digits, '.', exponent / hex letters and signs (ASCII): bytes = characters",
	"skipComment":    "a short comment runs to the end of its line: nothing on that line is located after it, and the line start is re-based on the cursor at the line break",
	"scanLongString": "invalid delimiter (the `=` run: ASCII); the terminated and the unfinished string use the character-counting advance",
}

// (Two earlier entries are gone: the error paths of an unfinished short string and of an unfinished long string had been
// accepted because "nothing on that line is located after it" — the error itself is, and was misplaced; both are repaired
// in the target, daeaadd and 0864fcf, and use nextChars now.)

// number of reviewed byte-advance call sites per function (one more = a new, unreviewed site)
var byteAdvanceCount = map[string]int{"scanIdentifier": 1, "scanNumber": 1, "skipComment": 1, "scanLongString": 1}

var ruleCursor = &Rule{
	Name:    "LOC/cursor-coherence",
	NeedSSA: true,
	Text:    "in the Lua lexer every function that advances the column counter (a store to Lexer.currentPos) also removes text from the input (chunk = chunk[k:]) and the amount added is computed from exactly the removed text: either k itself (byte count of an ASCII token) or the rune count of (the UTF-8 conversion of) chunk[:k] read before the removal — never from a decoded / rebuilt string (escape sequences shorten it) or from a different slice bound: otherwise every later token on the line is reported at a shifted column",
	Run: func(c *Ctx) []Ob {
		var obs []Ob
		n := 0
		for _, f := range c.ModFns() {
			if f.Pkg == nil || f.Pkg.Pkg.Path() != lexerPkgPath {
				continue
			}
			var posStores []*ssa.Store
			var cut ssa.Value // k of chunk = chunk[k:]
			for _, b := range f.Blocks {
				for _, ins := range b.Instrs {
					st, ok := ins.(*ssa.Store)
					if !ok {
						continue
					}
					fa, ok := st.Addr.(*ssa.FieldAddr)
					if !ok {
						continue
					}
					switch fieldOf(fa).Name() {
					case "currentPos":
						posStores = append(posStores, st)
					case "chunk":
						if sl, ok := st.Val.(*ssa.Slice); ok && sl.High == nil {
							if ld, ok := sl.X.(*ssa.UnOp); ok {
								if fa2, ok := ld.X.(*ssa.FieldAddr); ok && fieldOf(fa2).Name() == "chunk" {
									cut = sl.Low
								}
							}
						}
					}
				}
			}
			for i, st := range posStores {
				n++
				key := fmt.Sprintf("LOC/cursor:%s#%d", f.Name(), i+1)
				why := ""
				bo, ok := st.Val.(*ssa.BinOp)
				if !ok || bo.Op != token.ADD {
					// a plain reset (constructor) is not an advance
					if _, isC := st.Val.(*ssa.Const); isC {
						n--
						continue
					}
					why = "the new column is not `old + amount`"
				}
				if why == "" {
					delta := bo.Y
					if ld, ok := bo.Y.(*ssa.UnOp); ok {
						if fa, ok := ld.X.(*ssa.FieldAddr); ok && fieldOf(fa).Name() == "currentPos" {
							delta = bo.X
						}
					}
					switch {
					case cut == nil:
						why = "the function advances the column counter without removing text from the input"
					case delta == cut:
						// byte count of the removed text
					default:
						call, ok := delta.(*ssa.Call)
						if !ok || call.Call.StaticCallee() == nil || call.Call.StaticCallee().Name() != "RuneCountInString" {
							why = "the amount added (" + describeValue(delta) + ") is neither the number of bytes removed nor a rune count of the removed text"
							break
						}
						arg := call.Call.Args[0]
						if conv, ok := arg.(*ssa.Call); ok && conv.Call.StaticCallee() != nil && strings.HasPrefix(conv.Call.StaticCallee().Name(), "Convert") {
							arg = conv.Call.Args[0]
						}
						sl, ok := canon(arg).(*ssa.Slice)
						okSlice := false
						if ok {
							if ld, ok := sl.X.(*ssa.UnOp); ok {
								if fa, ok := ld.X.(*ssa.FieldAddr); ok && fieldOf(fa).Name() == "chunk" {
									lowOK := sl.Low == nil
									if k, isC := sl.Low.(*ssa.Const); isC && k.Value != nil && k.Value.String() == "0" {
										lowOK = true
									}
									if lowOK && (sl.High == cut || sameLoadNoWrite(sl.High, cut)) {
										okSlice = true
									}
								}
							}
						}
						if !okSlice {
							why = "the characters counted are those of " + describeValue(arg) + ", not of the text removed from the input (chunk[:k] for the same k): a decoded or differently bounded string gives another length"
						}
					}
				}
				if why == "" {
					obs = append(obs, Ob{Key: key, Site: c.Pos(st.Pos()), Verdict: OK})
				} else {
					obs = append(obs, Ob{Key: key, Site: c.Pos(st.Pos()), Verdict: VIOLATION, Note: f.Name() + ": " + why})
				}
			}
		}
		// byte-count advances of a variable amount of text: next(k) with non-constant k
		next := c.SSAFunc(lexerPkgPath, "Lexer", "next")
		nb := 0
		cntOf := map[*ssa.Function]int{}
		if next != nil {
			for _, f := range c.ModFns() {
				if f.Pkg == nil || f.Pkg.Pkg.Path() != lexerPkgPath {
					continue
				}
				for _, b := range f.Blocks {
					for _, ins := range b.Instrs {
						call, ok := ins.(*ssa.Call)
						if !ok || call.Call.StaticCallee() != next || len(call.Call.Args) != 2 {
							continue
						}
						if _, isC := call.Call.Args[1].(*ssa.Const); isC {
							continue // a fixed number of bytes: punctuation / operators
						}
						if _, fixed := constIntResults(call.Call.Args[1]); fixed {
							continue // the result of a helper that returns literals only (the length of a line break: 2, 1 or 0)
						}
						if p, isP := call.Call.Args[1].(*ssa.Parameter); isP && paramAlwaysConst(c, p) {
							continue // a private helper that every caller gives a constant: still a fixed number of bytes
						}
						// a private helper with a single call site is part of its caller's body
						own := f
						for i := 0; i < 4 && byteAdvanceCallers[own.Name()] == ""; i++ {
							cs := soleCaller(c, own)
							if cs == nil || cs.Parent() == own {
								break
							}
							own = cs.Parent()
						}
						if byteAdvanceCallers[own.Name()] == "" {
							own = f
						}
						nb++
						cntOf[own]++
						cnt := cntOf[own]
						key := fmt.Sprintf("LOC/cursor:byte-advance:%s#%d", own.Name(), cnt)
						if why, ok := byteAdvanceCallers[own.Name()]; ok && cnt <= byteAdvanceCount[own.Name()] {
							obs = append(obs, Ob{Key: key, Site: c.Pos(call.Pos()), Verdict: OK, Note: "reviewed: " + why})
						} else {
							obs = append(obs, Ob{Key: key, Site: c.Pos(call.Pos()), Verdict: VIOLATION,
								Note: f.Name() + " advances the column counter by a byte count over text of variable length that is not known to be ASCII: multi-byte characters shift every later column on the line (use the character-counting advance)"})
						}
					}
				}
			}
		}
		c.Stats["byte_advances_variable"] = nb
		obs = append(obs, floor("LOC/cursor-coherence", "advances of the column counter", n, 3))
		return obs
	},
}

// sameLoadNoWrite: a and b are two loads of the same local variable in one block with no store to it and no
// call between them (go/ssa has no CSE: `x[:i]` and `x[i:]` read an address-taken i twice)
func sameLoadNoWrite(a, b ssa.Value) bool {
	la, ok1 := a.(*ssa.UnOp)
	lb, ok2 := b.(*ssa.UnOp)
	if !ok1 || !ok2 || la.Op != token.MUL || lb.Op != token.MUL || la.X != lb.X || la.Block() != lb.Block() {
		return false
	}
	if _, isAlloc := la.X.(*ssa.Alloc); !isAlloc {
		return false
	}
	in := false
	for _, ins := range la.Block().Instrs {
		if ins == ssa.Instruction(la) || ins == ssa.Instruction(lb) {
			if in {
				return true
			}
			in = true
			continue
		}
		if !in {
			continue
		}
		switch x := ins.(type) {
		case *ssa.Store:
			if x.Addr == la.X {
				return false
			}
		case *ssa.Call:
			for _, arg := range x.Call.Args {
				if arg == la.X {
					return false
				}
			}
		}
	}
	return false
}

// ---------------------------------------------------------------------------------------------
// LINESTART: the line start equals the cursor only right after a line terminator

var ruleLineStart = &Rule{
	Name:    "LOC/line-start",
	NeedSSA: true,
	Text:    "in the Lua lexer the start-of-line position (Lexer.lineStartPos; a token's column is cursor − lineStartPos) is set to the cursor itself only on a branch that has just recognised a line terminator — the store is dominated by the true edge of a newline predicate (a lexer function returning bool whose body tests '\\n' / '\\r'), of a comparison with '\\n' / '\\r', or of a boolean result that the callee returns true only under such a test; any other assignment must be arithmetic on the cursor (cursor minus the length of the text after the last line break). Setting it to the cursor after consuming a multi-character token without a line break (a long string, a long comment) shifts the column of every later token on that line",
	Run: func(c *Ctx) []Ob {
		var obs []Ob
		// newline predicates: bool functions of the lexer package that compare with 10 / 13 or test a string containing them
		nlPred := map[*ssa.Function]bool{}
		isNLConst := func(v ssa.Value) bool {
			k, ok := v.(*ssa.Const)
			if !ok || k.Value == nil {
				return false
			}
			switch k.Value.Kind() {
			case constant.Int:
				n, _ := constant.Int64Val(k.Value)
				return n == 10 || n == 13
			case constant.String:
				s := constant.StringVal(k.Value)
				return s == "\n" || s == "\r" || s == "\r\n" || s == "\n\r"
			}
			return false
		}
		for _, f := range c.ModFns() {
			if f.Pkg == nil || f.Pkg.Pkg.Path() != lexerPkgPath || f.Signature.Results().Len() != 1 {
				continue
			}
			if bt, ok := f.Signature.Results().At(0).Type().Underlying().(*types.Basic); !ok || bt.Kind() != types.Bool {
				continue
			}
			small := 0
			for _, b := range f.Blocks {
				small += len(b.Instrs)
			}
			if small > 60 {
				continue
			}
			for _, b := range f.Blocks {
				for _, ins := range b.Instrs {
					for _, op := range ins.Operands(nil) {
						if isNLConst(*op) {
							nlPred[f] = true
						}
					}
				}
			}
		}
		var evidenceCond func(cond ssa.Value, d int) bool
		evidenceCond = func(cond ssa.Value, d int) bool {
			if d > 3 {
				return false
			}
			switch x := cond.(type) {
			case *ssa.Call:
				if sc := x.Call.StaticCallee(); sc != nil && nlPred[sc] {
					return true
				}
			case *ssa.BinOp:
				if x.Op == token.EQL && (isNLConst(x.X) || isNLConst(x.Y)) {
					return true
				}
				// n > 0 where n is the result of a lexer helper that returns a non-zero literal only behind newline evidence
				// (lineBreakLen: 2 after isEnterWrap(), 1 after isNewLine(chunk[0]), else 0)
				if k, isC := x.Y.(*ssa.Const); isC && k.Value != nil && k.Value.Kind() == constant.Int &&
					((x.Op == token.GTR && k.Int64() == 0) || (x.Op == token.NEQ && k.Int64() == 0) || (x.Op == token.GEQ && k.Int64() == 1)) {
					if _, fixed := constIntResults(x.X); fixed {
						g := x.X.(*ssa.Call).Call.StaticCallee()
						okAll := g.Pkg != nil && g.Pkg.Pkg.Path() == lexerPkgPath
						for _, gb := range g.Blocks {
							ret, isRet := gb.Instrs[len(gb.Instrs)-1].(*ssa.Return)
							if !isRet || !okAll {
								continue
							}
							if rk, isK := ret.Results[0].(*ssa.Const); isK && rk.Value != nil && rk.Int64() == 0 {
								continue
							}
							ev := false
							for _, de := range dominatingEdges(gb) {
								if de.truth && evidenceCond(de.cond, d+1) {
									ev = true
								}
							}
							if !ev {
								okAll = false
							}
						}
						if okAll {
							return true
						}
					}
				}
			case *ssa.Extract:
				// a boolean result: every return of the callee gives false, or true under newline evidence (checked: no true constant outside evidence)
				if call, ok := x.Tuple.(*ssa.Call); ok {
					if g := call.Call.StaticCallee(); g != nil && g.Blocks != nil {
						okAll := true
						for _, gb := range g.Blocks {
							ret, ok := gb.Instrs[len(gb.Instrs)-1].(*ssa.Return)
							if !ok || x.Index >= len(ret.Results) {
								continue
							}
							k, isC := retOperand(ret, x.Index).(*ssa.Const)
							if !isC || k.Value == nil || k.Value.Kind() != constant.Bool || constant.BoolVal(k.Value) {
								okAll = false
							}
						}
						return okAll // never true: the branch is dead
					}
				}
			}
			return false
		}
		n := 0
		nArith := 0
		_ = nArith
		nUnits := 0
		nCols := 0
		for _, f := range c.ModFns() {
			if f.Pkg == nil || f.Pkg.Pkg.Path() != lexerPkgPath {
				continue
			}
			cnt := 0
			for _, b := range f.Blocks {
				for _, ins := range b.Instrs {
					st, ok := ins.(*ssa.Store)
					if !ok {
						continue
					}
					fa, ok := st.Addr.(*ssa.FieldAddr)
					if ok && (fieldOf(fa).Name() == "StartColumn" || fieldOf(fa).Name() == "EndColumn") && namedName(fa.X.Type()) == "Location" {
						// a column of a location built in the lexer is a character count too: no byte offset into the input, no
						// byte length of input text may be added to it
						if bo, isB := st.Val.(*ssa.BinOp); isB && (bo.Op == token.ADD || bo.Op == token.SUB) {
							nCols++
							ckey := fmt.Sprintf("LOC/line-start:%s:column:%s", f.Name(), fieldOf(fa).Name())
							why := ""
							var terms []ssa.Value
							var flat func(v ssa.Value, d int)
							flat = func(v ssa.Value, d int) {
								if b2, ok := v.(*ssa.BinOp); ok && d < 4 && (b2.Op == token.ADD || b2.Op == token.SUB) {
									flat(b2.X, d+1)
									flat(b2.Y, d+1)
									return
								}
								terms = append(terms, v)
							}
							flat(st.Val, 0)
							for _, x := range terms {
								if off, isOff := byteOffsetIntoChunk(f, x); isOff {
									why = off + " (a byte offset into the input: it is used to index the input)"
								}
								// a parameter of a private helper: what its callers pass
								if pm, isP := x.(*ssa.Parameter); isP {
									if sites, closed := closedCallSites(c, f); closed {
										pi := paramIndex(f, pm)
										for _, cs := range sites {
											if pi >= 0 && pi < len(cs.Call.Args) {
												if off, isOff := byteOffsetIntoChunk(cs.Parent(), cs.Call.Args[pi]); isOff {
													why = "its parameter " + pm.Name() + ", for which " + cs.Parent().Name() + " passes " + off + " (a byte offset into the input)"
												}
											}
										}
									}
								}
							}
							for _, t := range byteLengthTerms(st.Val) {
								why = t.what + " of " + t.desc + " (bytes)"
							}
							if why == "" {
								obs = append(obs, Ob{Key: ckey, Site: c.Pos(st.Pos()), Verdict: OK})
							} else if rv, ok := reviewedColumnSums[f.Name()]; ok {
								obs = append(obs, Ob{Key: ckey, Site: c.Pos(st.Pos()), Verdict: OK, Note: "reviewed: " + rv})
							} else {
								obs = append(obs, Ob{Key: ckey, Site: c.Pos(st.Pos()), Verdict: VIOLATION,
									Note: f.Name() + " computes a column (characters) from " + why + ": with multi-byte characters in the text the location lies beyond its line"})
							}
						}
						continue
					}
					if !ok || fieldOf(fa).Name() != "lineStartPos" || namedName(fa.X.Type()) != "Lexer" {
						continue
					}
					ld, ok := st.Val.(*ssa.UnOp)
					if !ok {
						// arithmetic on the cursor: the cursor counts characters, so what is added to / subtracted from it
						// must count characters too — never a byte offset into the input
						if bo, isB := st.Val.(*ssa.BinOp); isB && (bo.Op == token.ADD || bo.Op == token.SUB) {
							// the same for a length: len(s) of a piece of text counts bytes, strings.Index a byte offset
							for _, t := range byteLengthTerms(st.Val) {
								key := fmt.Sprintf("LOC/line-start:%s:byte-length:%s", f.Name(), t.desc)
								nUnits++
								if why, ok := reviewedByteLengths[f.Name()+"|"+t.desc]; ok {
									obs = append(obs, Ob{Key: key, Site: c.Pos(st.Pos()), Verdict: OK, Note: "reviewed: " + why})
								} else {
									obs = append(obs, Ob{Key: key, Site: c.Pos(st.Pos()), Verdict: VIOLATION,
										Note: f.Name() + " computes the start of the line from the cursor (characters) and " + t.what + " of " + t.desc + " (bytes): a multi-byte character in that text shifts the columns of every later token on the line"})
								}
							}
							for _, x := range []ssa.Value{bo.X, bo.Y} {
								if off, isOff := byteOffsetIntoChunk(f, x); isOff {
									nArith++
									obs = append(obs, Ob{Key: fmt.Sprintf("LOC/line-start:%s:byte-offset", f.Name()), Site: c.Pos(st.Pos()), Verdict: VIOLATION,
										Note: f.Name() + " computes the start of the line from the cursor (characters) and " + off + " (a byte offset into the input: it is used to index the input): multi-byte characters before it shift the columns of the whole line"})
								}
							}
						}
						continue
					}
					fa2, ok := ld.X.(*ssa.FieldAddr)
					if !ok || fieldOf(fa2).Name() != "currentPos" {
						continue
					}
					n++
					cnt++
					key := fmt.Sprintf("LOC/line-start:%s#%d", f.Name(), cnt)
					evAt := func(b *ssa.BasicBlock) bool {
						for d := b; d != nil; d = d.Idom() {
							id := d.Idom()
							if id == nil {
								break
							}
							iff, ok := id.Instrs[len(id.Instrs)-1].(*ssa.If)
							if !ok || id.Succs[0] != d {
								continue
							}
							if evidenceCond(iff.Cond, 0) {
								return true
							}
						}
						return false
					}
					ev := evAt(b)
					if !ev {
						// a private helper: the line terminator may have been recognised by every caller
						if sites, closed := closedCallSites(c, f); closed && len(sites) > 0 {
							ev = true
							for _, cs := range sites {
								if !evAt(cs.Block()) {
									ev = false
								}
							}
						}
					}
					if ev {
						obs = append(obs, Ob{Key: key, Site: c.Pos(st.Pos()), Verdict: OK})
					} else {
						obs = append(obs, Ob{Key: key, Site: c.Pos(st.Pos()), Verdict: VIOLATION,
							Note: f.Name() + " sets the start of the line to the cursor on a path that has not just recognised a line terminator: columns of later tokens on this line are counted from the wrong origin"})
					}
				}
			}
		}
		obs = append(obs, floor("LOC/line-start", "assignments lineStartPos = currentPos", n, 2))
		c.Stats["line_start_byte_length_terms"] = nUnits
		c.Stats["lexer_column_sums"] = nCols
		return obs
	},
}

// ---------------------------------------------------------------------------------------------
// S8: a local is not visible inside its own initialiser, whatever the initialiser's kind

var ruleScopeS8 = &Rule{
	Name:    "SCOPE/S8-own-initialiser",
	NeedSSA: true,
	Text:    "VarInfo.IsCorrectPosition — the visibility test behind every local lookup — answers true only after the position was tested for containment in the variable's initialising expression (a call of Location.IsContainLoc on a location derived from ReferExp), for EVERY kind of initialiser: a branch of the type switch over ReferExp (in particular its default branch) that returns true without such a test makes `local x = x + 1`, `local x = -x`, `local x = {x}` resolve the right-hand x to the new local",
	Run: func(c *Ctx) []Ob {
		f := c.SSAFunc(commonPkg, "VarInfo", "IsCorrectPosition")
		if f == nil {
			return []Ob{{Key: "SCOPE/S8:slots", Verdict: UNDECIDED, Note: "slot unresolved: VarInfo.IsCorrectPosition"}}
		}
		isContain := func(i ssa.Instruction) bool {
			call, ok := i.(*ssa.Call)
			return ok && call.Call.StaticCallee() != nil && call.Call.StaticCallee().Name() == "IsContainLoc"
		}
		var obs []Ob
		n := 0
		for _, b := range f.Blocks {
			ret, ok := b.Instrs[len(b.Instrs)-1].(*ssa.Return)
			if !ok || len(ret.Results) != 1 {
				continue
			}
			k, ok := ret.Results[0].(*ssa.Const)
			if !ok || k.Value == nil || k.Value.Kind() != constant.Bool || !constant.BoolVal(k.Value) {
				continue
			}
			n++
			// which switch branch: name it by the asserted type that dominates the block, else "default"
			branch := "default"
			for d := b; d != nil; d = d.Idom() {
				for _, ins := range d.Instrs {
					if ta, ok := ins.(*ssa.TypeAssert); ok && ta.CommaOk {
						for _, s := range okTrueSuccs(ta) {
							if s == b || s.Dominates(b) {
								branch = namedName(ta.AssertedType)
							}
						}
					}
				}
			}
			key := "SCOPE/S8:IsCorrectPosition:" + branch
			target := ret
			if bad := mustPrecede(f, isContain, func(i ssa.Instruction) bool { return i == ssa.Instruction(target) }); len(bad) > 0 {
				obs = append(obs, Ob{Key: key, Site: c.Pos(ret.Pos()), Verdict: VIOLATION,
					Note: "IsCorrectPosition answers true on the `" + branch + "` branch without testing whether the position lies inside the variable's own initialiser"})
			} else {
				obs = append(obs, Ob{Key: key, Site: c.Pos(ret.Pos()), Verdict: OK})
			}
		}
		obs = append(obs, floor("SCOPE/S8-own-initialiser", "returns of true in IsCorrectPosition", n, 3))
		return obs
	},
}

// ---------------------------------------------------------------------------------------------
// REN/R3: rename must be able to tell alias occurrences (self) from occurrences spelled with the old name

var ruleRenR3 = &Rule{
	Name:    "REN/R3-alias-occurrences",
	NeedSSA: true,
	Text:    "the reference traversal reports, as occurrences of a table variable, the `self` tokens inside its colon methods (self is converted to the variable before matching). Rename turns every occurrence into an edit, so one of two mechanisms must exist: (a) the rename mode reaches the traversal — the mode parameter of FindReferences flows into the object handed to the traversal (ReferenceFileResult / ReferenceParam), so that converted occurrences can be left out — or (b) TextDocumentRename compares the text under each range with the old name before it creates the edit (a string comparison dominating the TextEdit). With neither, `self` tokens are overwritten with the new name",
	Run: func(c *Ctx) []Ob {
		fr := c.SSAFunc(checkPkg, "AllProject", "FindReferences")
		rn := c.SSAFunc(langserverPkg, "LspServer", "TextDocumentRename")
		if fr == nil || rn == nil {
			return []Ob{{Key: "REN/R3:slots", Verdict: UNDECIDED, Note: "slot unresolved: FindReferences / TextDocumentRename"}}
		}
		// (a) mode parameter used other than in comparisons
		var mode *ssa.Parameter
		for _, p := range fr.Params {
			if namedName(p.Type()) == "CheckReferenceSrc" {
				mode = p
			}
		}
		flows := false
		if mode != nil {
			if refs := mode.Referrers(); refs != nil {
				for _, r := range *refs {
					switch x := r.(type) {
					case *ssa.BinOp, *ssa.DebugRef:
					case *ssa.Store:
						// spilled parameter: look at the loads
						if al, ok := x.Addr.(*ssa.Alloc); ok {
							if ar := al.Referrers(); ar != nil {
								for _, u := range *ar {
									if ld, ok := u.(*ssa.UnOp); ok {
										if lr := ld.Referrers(); lr != nil {
											for _, uu := range *lr {
												if _, isCmp := uu.(*ssa.BinOp); !isCmp {
													flows = true
												}
											}
										}
									}
								}
							}
						} else {
							flows = true
						}
					default:
						flows = true
					}
				}
			}
		}
		// (b) a string comparison dominating the TextEdit construction in the rename handler
		filtered := false
		for _, b := range rn.Blocks {
			for _, ins := range b.Instrs {
				st, ok := ins.(*ssa.Store)
				if !ok {
					continue
				}
				fa, ok := st.Addr.(*ssa.FieldAddr)
				if !ok || namedName(fa.X.Type()) != "TextEdit" {
					continue
				}
				for d := b; d != nil; d = d.Idom() {
					id := d.Idom()
					if id == nil {
						break
					}
					if iff, ok := id.Instrs[len(id.Instrs)-1].(*ssa.If); ok {
						if bo, ok := iff.Cond.(*ssa.BinOp); ok && (bo.Op == token.EQL || bo.Op == token.NEQ) {
							if bt, ok := bo.X.Type().Underlying().(*types.Basic); ok && bt.Kind() == types.String {
								filtered = true
							}
						}
					}
				}
			}
		}
		key := "REN/R3:rename-alias-occurrences"
		if flows || filtered {
			return []Ob{{Key: key, Site: c.Pos(rn.Pos()), Verdict: OK}}
		}
		return []Ob{{Key: key, Site: c.Pos(rn.Pos()), Verdict: VIOLATION,
			Note: "neither does the rename mode reach the reference traversal nor does TextDocumentRename compare the text under a range with the old name: `self` tokens that stand for the renamed table are overwritten with the new name"}}
	},
}

// byteOffsetIntoChunk: v is (a load of) an integer variable that this function also uses as an index or slice bound of
// the lexer's input: a byte offset
func byteOffsetIntoChunk(f *ssa.Function, v ssa.Value) (string, bool) {
	cellOf := func(x ssa.Value) ssa.Value { // the variable behind a load
		if ld, ok := x.(*ssa.UnOp); ok && ld.Op == token.MUL {
			switch ld.X.(type) {
			case *ssa.Parameter, *ssa.Alloc:
				return ld.X
			}
		}
		return nil
	}
	target := cellOf(v)
	same := func(x ssa.Value) bool {
		if x == nil {
			return false
		}
		if x == v {
			return true
		}
		return target != nil && cellOf(x) == target
	}
	isChunk := func(x ssa.Value) bool {
		ld, ok := x.(*ssa.UnOp)
		if !ok || ld.Op != token.MUL {
			return false
		}
		fa, ok := ld.X.(*ssa.FieldAddr)
		return ok && fieldOf(fa).Name() == "chunk"
	}
	for _, b := range f.Blocks {
		for _, ins := range b.Instrs {
			switch x := ins.(type) {
			case *ssa.Index:
				if isChunk(x.X) && same(x.Index) {
					return describeValue(v), true
				}
			case *ssa.Slice:
				if isChunk(x.X) && (same(x.Low) || same(x.High)) {
					return describeValue(v), true
				}
			}
		}
	}
	return "", false
}


// reviewed: byte lengths that take part in a line-start computation (function|term) and why bytes equal characters there
var reviewedByteLengths = map[string]string{
	"scanLongString|result of strings.Replace": "the closing long bracket `]=*]`, built by replacing `[` with `]` in the opener that matchLongStringBacket recognised byte by byte (`[`, `=`): ASCII only",
}

type byteTerm struct{ what, desc string }

// byteLengthTerms: the terms of an integer sum / difference that are byte quantities of text: len(s) of a string or
// byte slice that is not a constant, and the results of the strings.Index family
func byteLengthTerms(v ssa.Value) []byteTerm {
	var out []byteTerm
	var desc func(x ssa.Value, d int) string
	desc = func(x ssa.Value, d int) string {
		if d > 4 {
			return "…"
		}
		switch y := x.(type) {
		case *ssa.Call:
			if g := y.Call.StaticCallee(); g != nil {
				return "result of " + g.RelString(nil)
			}
			return "result of a call"
		case *ssa.Slice:
			return "part of " + desc(y.X, d+1)
		case *ssa.UnOp:
			if y.Op == token.MUL {
				if ia, ok := y.X.(*ssa.IndexAddr); ok {
					return "element of " + desc(ia.X, d+1)
				}
			}
		case *ssa.Index:
			return "element of " + desc(y.X, d+1)
		case *ssa.Phi:
			for _, e := range y.Edges {
				if e != x {
					return desc(e, d+1)
				}
			}
		}
		return describeValue(x)
	}
	var walk func(x ssa.Value, d int)
	walk = func(x ssa.Value, d int) {
		if d > 6 {
			return
		}
		switch y := x.(type) {
		case *ssa.BinOp:
			if y.Op == token.ADD || y.Op == token.SUB {
				walk(y.X, d+1)
				walk(y.Y, d+1)
			}
		case *ssa.Call:
			if bi, ok := y.Call.Value.(*ssa.Builtin); ok && bi.Name() == "len" && len(y.Call.Args) == 1 {
				a := y.Call.Args[0]
				if _, isC := a.(*ssa.Const); isC {
					return
				}
				switch t := a.Type().Underlying().(type) {
				case *types.Basic:
					if t.Info()&types.IsString != 0 {
						out = append(out, byteTerm{"the length", desc(a, 0)})
					}
				case *types.Slice:
					if bt, ok := t.Elem().Underlying().(*types.Basic); ok && bt.Kind() == types.Byte {
						out = append(out, byteTerm{"the length", desc(a, 0)})
					}
				}
				return
			}
			if g := y.Call.StaticCallee(); g != nil && g.Pkg != nil && (g.Pkg.Pkg.Path() == "strings" || g.Pkg.Pkg.Path() == "bytes") && strings.Contains(g.Name(), "Index") {
				out = append(out, byteTerm{"the byte offset", "result of " + g.Pkg.Pkg.Name() + "." + g.Name()})
			}
		}
	}
	walk(v, 0)
	return out
}


// reviewed: column sums in the lexer that add a byte offset (function: reason)
var reviewedColumnSums = map[string]string{
	"escapeErrLoc": "hazard without a failing input: the location of an escape-sequence error adds the byte offset inside the string to a character column, but both calls in readEscapeSequence are dead — scanShortString returns on i >= len(chunk) before it calls readEscapeSequence, so getIndexChar(*i) cannot fail at its entry, and consumeEOL cannot answer false in the arm that has just matched '\\n' / '\\r'",
	"readEscapeSequence": "the same two dead error paths with the location computed inline (see escapeErrLoc)",
}
