package main

// LOCK/L6: phase-gated locks.
//
// Some accessors take their mutex only while a phase marker has a given value:
//     if a.checkTerm == CheckTermFirst { a.fileStructMutex.Lock(); defer … }
// (GetFirstFileStuct: only during pass one is fileStructMap written — by the collecting launcher — while
// pool workers read it). The gate is sound only if every worker pool in which (i) a worker can reach the
// gated accessor and (ii) the launcher, while the workers run, can reach a writer of the data the gate
// protects, is entered with the marker at the gate value. This rule derives the gates, the setters, the
// data, the writers and the concurrent launchers from the code and checks, by forward dataflow over each
// caller's CFG (propagating to callers where a function does not establish the phase itself), that the
// marker must equal the gate value at every call of such a launcher.

import (
	"fmt"
	"go/constant"
	"go/token"
	"go/types"
	"sort"

	"golang.org/x/tools/go/ssa"
)

type phaseGate struct {
	fn    *ssa.Function
	field *types.Var // marker field
	k     constant.Value
	lock  lockID
	data  map[*types.Var]bool // fields of the same struct read in the gated function
}

func fieldOf(fa *ssa.FieldAddr) *types.Var {
	st := types.Unalias(fa.X.Type().Underlying().(*types.Pointer).Elem()).Underlying().(*types.Struct)
	return st.Field(fa.Field)
}

// markerCompare: v is `load(recv.F) == const`
func markerCompare(v ssa.Value) (*types.Var, constant.Value, bool) {
	bo, ok := v.(*ssa.BinOp)
	if !ok || bo.Op != token.EQL {
		return nil, nil, false
	}
	x, y := bo.X, bo.Y
	if _, isC := x.(*ssa.Const); isC {
		x, y = y, x
	}
	k, ok := y.(*ssa.Const)
	if !ok || k.Value == nil {
		return nil, nil, false
	}
	ld, ok := x.(*ssa.UnOp)
	if !ok || ld.Op != token.MUL {
		return nil, nil, false
	}
	fa, ok := ld.X.(*ssa.FieldAddr)
	if !ok {
		return nil, nil, false
	}
	return fieldOf(fa), k.Value, true
}

func findPhaseGates(c *Ctx) []*phaseGate {
	var out []*phaseGate
	for _, f := range c.ModFns() {
		for _, b := range f.Blocks {
			iff, ok := b.Instrs[len(b.Instrs)-1].(*ssa.If)
			if !ok {
				continue
			}
			fld, k, ok := markerCompare(iff.Cond)
			if !ok {
				continue
			}
			// a Lock directly in the then-block
			var lk lockID
			for _, ins := range b.Succs[0].Instrs {
				if call, ok := ins.(*ssa.Call); ok {
					if id, op, ok := lockOp(&call.Call); ok && (op == "Lock" || op == "RLock") {
						lk = id
					}
				}
			}
			if lk == nil {
				continue
			}
			g := &phaseGate{fn: f, field: fld, k: k, lock: lk, data: map[*types.Var]bool{}}
			for _, bb := range f.Blocks {
				for _, ins := range bb.Instrs {
					if fa, ok := ins.(*ssa.FieldAddr); ok {
						v := fieldOf(fa)
						if v != fld && v != lk && !isSyncType(v.Type()) {
							g.data[v] = true
						}
					}
				}
			}
			out = append(out, g)
		}
	}
	return out
}

// writesField: does f store to field v or update / delete in the map held in it?
func writesField(f *ssa.Function, data map[*types.Var]bool) bool {
	for _, b := range f.Blocks {
		for _, ins := range b.Instrs {
			switch x := ins.(type) {
			case *ssa.Store:
				if fa, ok := x.Addr.(*ssa.FieldAddr); ok && data[fieldOf(fa)] {
					return true
				}
			case *ssa.MapUpdate:
				if ld, ok := x.Map.(*ssa.UnOp); ok {
					if fa, ok := ld.X.(*ssa.FieldAddr); ok && data[fieldOf(fa)] {
						return true
					}
				}
			case *ssa.Call:
				if bi, ok := x.Call.Value.(*ssa.Builtin); ok && bi.Name() == "delete" {
					if ld, ok := x.Call.Args[0].(*ssa.UnOp); ok {
						if fa, ok := ld.X.(*ssa.FieldAddr); ok && data[fieldOf(fa)] {
							return true
						}
					}
				}
			}
		}
	}
	return false
}

// phase effect of one instruction on marker `fld`: 1 = set to K, -1 = set to something else / unknown, 0 = none
type phaseFx struct {
	c       *Ctx
	fld     *types.Var
	k       constant.Value
	setters map[*ssa.Function]int // setter function -> index of the parameter stored into the marker
	mayKill map[*ssa.Function]bool
}

func (p *phaseFx) effect(ins ssa.Instruction) int {
	switch x := ins.(type) {
	case *ssa.Store:
		if fa, ok := x.Addr.(*ssa.FieldAddr); ok && fieldOf(fa) == p.fld {
			if k, ok := x.Val.(*ssa.Const); ok && k.Value != nil && constant.Compare(k.Value, token.EQL, p.k) {
				return 1
			}
			return -1
		}
	case ssa.CallInstruction:
		if _, isGo := ins.(*ssa.Go); isGo {
			return 0
		}
		cc := x.Common()
		if sc := cc.StaticCallee(); sc != nil {
			if idx, ok := p.setters[sc]; ok {
				if idx < len(cc.Args) {
					if k, ok := cc.Args[idx].(*ssa.Const); ok && k.Value != nil && constant.Compare(k.Value, token.EQL, p.k) {
						return 1
					}
				}
				return -1
			}
			if p.mayKill[sc] {
				return -1
			}
			return 0
		}
		// dynamic call: any module callee that may change the marker
		for _, cal := range calleesOf(p.c.VTA(), x) {
			if _, ok := p.setters[cal]; ok || p.mayKill[cal] {
				return -1
			}
		}
	}
	return 0
}

// stateAt: per instruction, is the marker known to equal K just before it? entryK = assumption at entry.
// Returns for each queried instruction: 1 = must be K, 0 = depends on the entry state (no effect on some
// path since entry), -1 = some path last set it to something else.
func (p *phaseFx) stateAt(f *ssa.Function, want func(ssa.Instruction) bool) map[ssa.Instruction]int {
	// lattice per block exit: 1 (K), 0 (entry/untouched), -1 (killed); meet = min, except 1 ∧ 0 = 0
	const top = 2
	nb := len(f.Blocks)
	in := make([]int, nb)
	out := make([]int, nb)
	for i := range in {
		in[i], out[i] = top, top
	}
	meet := func(a, b int) int {
		if a == top {
			return b
		}
		if b == top {
			return a
		}
		if a < b {
			return a
		}
		return b
	}
	for changed := true; changed; {
		changed = false
		for _, b := range f.Blocks {
			st := top
			if b.Index == 0 {
				st = 0
			}
			for _, pr := range b.Preds {
				st = meet(st, out[pr.Index])
			}
			in[b.Index] = st
			for _, ins := range b.Instrs {
				switch p.effect(ins) {
				case 1:
					st = 1
				case -1:
					st = -1
				}
			}
			if st != out[b.Index] {
				out[b.Index] = st
				changed = true
			}
		}
	}
	res := map[ssa.Instruction]int{}
	for _, b := range f.Blocks {
		st := in[b.Index]
		if st == top {
			continue // unreachable
		}
		for _, ins := range b.Instrs {
			if want(ins) {
				res[ins] = st
			}
			switch p.effect(ins) {
			case 1:
				st = 1
			case -1:
				st = -1
			}
		}
	}
	return res
}

var rulePhase = &Rule{
	Name:    "LOCK/L6-phase-gated",
	NeedSSA: true,
	Text:    "L6: an accessor that takes its mutex only while a phase marker field equals a constant (if a.checkTerm == CheckTermFirst { Lock; defer Unlock }) is sound only if every worker pool whose workers can reach that accessor while the launcher can reach a writer of the data it reads is entered with the marker at that constant. Gates, marker setters, protected fields, writers and such launchers are derived from SSA and the VTA call graph; a forward must-analysis over each caller (set-to-K / set-to-other / untouched, calls that may reach a setter kill) proves the marker equals the constant at every call of such a launcher, recursing into callers (depth 3) when a function relies on its caller's phase",
	Run: func(c *Ctx) []Ob {
		var obs []Ob
		gates := findPhaseGates(c)
		obs = append(obs, floor("LOCK/L6-phase-gated", "phase-gated lock accessors", len(gates), 1))
		callers := callersIndex(c)
		vta := c.VTA()
		nReq := 0
		for _, g := range gates {
			gk := fmt.Sprintf("LOCK/L6:%s", fnKey(g.fn))
			// setters of the marker
			fx := &phaseFx{c: c, fld: g.field, k: g.k, setters: map[*ssa.Function]int{}, mayKill: map[*ssa.Function]bool{}}
			direct := map[*ssa.Function]bool{}
			for _, f := range c.ModFns() {
				for _, b := range f.Blocks {
					for _, ins := range b.Instrs {
						st, ok := ins.(*ssa.Store)
						if !ok {
							continue
						}
						fa, ok := st.Addr.(*ssa.FieldAddr)
						if !ok || fieldOf(fa) != g.field {
							continue
						}
						if par, ok := st.Val.(*ssa.Parameter); ok {
							for i, pp := range f.Params {
								if pp == par {
									fx.setters[f] = i
								}
							}
						} else {
							direct[f] = true
						}
					}
				}
			}
			// functions that may (transitively) change the marker: reverse reachability in the VTA graph
			{
				var q []*ssa.Function
				for s := range fx.setters {
					q = append(q, s)
				}
				for d := range direct {
					q = append(q, d)
					fx.mayKill[d] = true
				}
				seen := map[*ssa.Function]bool{}
				for _, f := range q {
					seen[f] = true
				}
				for len(q) > 0 {
					f := q[0]
					q = q[1:]
					n := vta.Nodes[f]
					if n == nil {
						continue
					}
					for _, e := range n.In {
						cf := e.Caller.Func
						if !seen[cf] {
							seen[cf] = true
							fx.mayKill[cf] = true
							q = append(q, cf)
						}
					}
				}
				for s := range fx.setters {
					delete(fx.mayKill, s)
				}
			}
			// writers of the protected data
			var writers []*ssa.Function
			for _, f := range c.ModFns() {
				if f != g.fn && writesField(f, g.data) {
					writers = append(writers, f)
				}
			}
			isWriter := map[*ssa.Function]bool{}
			for _, w := range writers {
				isWriter[w] = true
			}
			var dn []string
			for v := range g.data {
				dn = append(dn, v.Name())
			}
			sort.Strings(dn)
			obs = append(obs, Ob{Key: gk + ":gate", Site: c.Pos(g.fn.Pos()), Verdict: OK,
				Note: fmt.Sprintf("locks only while %s == %s; reads %v; %d marker setters; %d writers of the data", g.field.Name(), g.k.String(), dn, len(fx.setters), len(writers))})
			if len(fx.setters) == 0 && len(direct) == 0 {
				obs = append(obs, Ob{Key: gk + ":setters", Site: c.Pos(g.fn.Pos()), Verdict: UNDECIDED, Note: "no assignment of the marker field found"})
				continue
			}
			// concurrent launchers
			var launchers []*ssa.Function
			for _, f := range c.ModFns() {
				var workers []*ssa.Function
				var own []*ssa.Function
				for _, b := range f.Blocks {
					for _, ins := range b.Instrs {
						switch x := ins.(type) {
						case *ssa.Go:
							workers = append(workers, calleesOf(vta, x)...)
						case *ssa.Call:
							own = append(own, calleesOf(vta, x)...)
						case *ssa.Defer:
							own = append(own, calleesOf(vta, x)...)
						}
					}
				}
				if len(workers) == 0 {
					continue
				}
				_, wr := reach(vta, workers, nil)
				if !wr[g.fn] {
					continue
				}
				_, lr := reach(vta, own, nil)
				hit := false
				for w := range isWriter {
					if lr[w] {
						hit = true
					}
				}
				if hit {
					launchers = append(launchers, f)
				}
			}
			sort.Slice(launchers, func(i, j int) bool { return fnKey(launchers[i]) < fnKey(launchers[j]) })
			obs = append(obs, floor("LOCK/L6-phase-gated", "pools whose workers reach "+g.fn.Name()+" while the launcher writes its data", len(launchers), 1))
			for _, L := range launchers {
				// requirement: marker == K at entry of L
				type req struct {
					f     *ssa.Function
					depth int
					via   string
				}
				work := []req{{L, 0, L.Name()}}
				seenReq := map[*ssa.Function]bool{L: true}
				for len(work) > 0 {
					r := work[0]
					work = work[1:]
					sites := callers[r.f]
					if len(sites) == 0 || addressTaken(r.f) {
						obs = append(obs, Ob{Key: fmt.Sprintf("%s:entry:%s", gk, fnKey(r.f)), Site: c.Pos(r.f.Pos()), Verdict: VIOLATION,
							Note: fmt.Sprintf("%s must be entered with %s == %s (pool %s: workers take %s only then) but it has no static caller that establishes it (required through %s)", r.f.Name(), g.field.Name(), g.k.String(), L.Name(), g.fn.Name(), r.via)})
						continue
					}
					byCaller := map[*ssa.Function]int{}
					for _, cc := range sites {
						cc := cc
						var callIns ssa.Instruction
						caller := (*ssa.Function)(nil)
						// locate the instruction
						for _, cand := range c.ModFns() {
							for _, b := range cand.Blocks {
								for _, ins := range b.Instrs {
									if ci, ok := ins.(ssa.CallInstruction); ok && ci.Common() == cc {
										callIns, caller = ins, cand
									}
								}
							}
							if caller != nil {
								break
							}
						}
						if caller == nil {
							continue
						}
						if _, isGo := callIns.(*ssa.Go); isGo {
							continue
						}
						nReq++
						byCaller[caller]++
						key := fmt.Sprintf("%s:call:%s->%s#%d", gk, fnKey(caller), r.f.Name(), byCaller[caller])
						st := fx.stateAt(caller, func(i ssa.Instruction) bool { return i == callIns })[callIns]
						switch st {
						case 1:
							obs = append(obs, Ob{Key: key, Site: c.Pos(callIns.Pos()), Verdict: OK, Note: fmt.Sprintf("%s set to %s on every path before the call", g.field.Name(), g.k.String())})
						case 0:
							if r.depth >= 3 {
								obs = append(obs, Ob{Key: key, Site: c.Pos(callIns.Pos()), Verdict: UNDECIDED, Note: "phase not established within 3 caller levels"})
							} else {
								obs = append(obs, Ob{Key: key, Site: c.Pos(callIns.Pos()), Verdict: OK, Note: "relies on the phase at entry of " + caller.Name() + " (checked at its callers)"})
								if !seenReq[caller] {
									seenReq[caller] = true
									work = append(work, req{caller, r.depth + 1, r.via + " <- " + caller.Name()})
								}
							}
						default:
							obs = append(obs, Ob{Key: key, Site: c.Pos(callIns.Pos()), Verdict: VIOLATION,
								Note: fmt.Sprintf("on some path to this call of %s the phase marker %s is not %s (last set to another value, or changed by a callee): the pool's workers read %v through %s without the lock while the launcher writes it (required through %s)", r.f.Name(), g.field.Name(), g.k.String(), dn, g.fn.Name(), r.via)})
						}
					}
				}
			}
		}
		c.Stats["phase_gate_call_sites"] = nReq
		return obs
	},
}
