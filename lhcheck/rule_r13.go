package main

// HOVER/prefix-own-symbol (C12): hover presents the identifier under the cursor as a local exactly when ITS
// definition is a local declaration. The label is built while walking the alias chain of the definition
// (findList); the `local ` prefix therefore has to be the one computed for the chain's first element.

import (
	"fmt"
	"go/constant"
	"go/token"
	"go/types"
	"strings"

	"golang.org/x/tools/go/ssa"
)

// prefixProducers: functions of the check package with a string result that is always "" or "local ".
func prefixProducers(c *Ctx) map[*ssa.Function]int {
	out := map[*ssa.Function]int{}
	for _, f := range c.ModFns() {
		if f.Pkg == nil || f.Pkg.Pkg.Path() != checkPkg || f.Signature.Results().Len() < 2 {
			continue
		}
		res := f.Signature.Results()
		for k := 0; k < res.Len(); k++ {
			if b, ok := res.At(k).Type().Underlying().(*types.Basic); !ok || b.Kind() != types.String {
				continue
			}
			sawLocal, all, any := false, true, false
			seen := map[ssa.Value]bool{}
			var walk func(v ssa.Value)
			walk = func(v ssa.Value) {
				if seen[v] {
					return
				}
				seen[v] = true
				switch x := v.(type) {
				case *ssa.Phi:
					for _, e := range x.Edges {
						walk(e)
					}
				case *ssa.Const:
					any = true
					if x.Value == nil || x.Value.Kind() != constant.String {
						all = false
						return
					}
					switch constant.StringVal(x.Value) {
					case "":
					case "local ":
						sawLocal = true
					default:
						all = false
					}
				case *ssa.Call:
					// one private helper deep: `return localPrefix(sym)`
					g := x.Call.StaticCallee()
					if g == nil || !c.IsModFn(g) || g.Signature.Results().Len() != 1 || len(g.Blocks) == 0 {
						all = false
						return
					}
					for _, gb := range g.Blocks {
						for _, gi := range gb.Instrs {
							if r, ok := gi.(*ssa.Return); ok && len(r.Results) == 1 {
								walk(r.Results[0])
							}
						}
					}
				default:
					all = false
				}
			}
			for _, b := range f.Blocks {
				for _, ins := range b.Instrs {
					if r, ok := ins.(*ssa.Return); ok && k < len(r.Results) {
						walk(r.Results[k])
					}
				}
			}
			if any && all && sawLocal {
				out[f] = k
			}
		}
	}
	return out
}

func isBoolConst(v ssa.Value, want bool) bool {
	k, ok := v.(*ssa.Const)
	return ok && k.Value != nil && k.Value.Kind() == constant.Bool && constant.BoolVal(k.Value) == want
}

// onceLatch: v is a loop-carried boolean that starts false and, once true, stays true; setBy must be one of
// the values that feed it (the `true` stored on the guarded path).
func onceLatch(v ssa.Value, joinBlock *ssa.BasicBlock, edge int) bool {
	hp, ok := v.(*ssa.Phi)
	if !ok {
		return false
	}
	sawFalse := false
	seen := map[ssa.Value]bool{hp: true}
	okAll := true
	setsHere := false
	var walk func(x ssa.Value)
	walk = func(x ssa.Value) {
		if seen[x] {
			return
		}
		seen[x] = true
		switch y := x.(type) {
		case *ssa.Phi:
			if y.Block() == joinBlock && edge < len(y.Edges) && isBoolConst(y.Edges[edge], true) {
				setsHere = true
			}
			for _, e := range y.Edges {
				walk(e)
			}
		case *ssa.Const:
			if !isBoolConst(y, true) {
				okAll = false
			}
		default:
			okAll = false
		}
	}
	for _, e := range hp.Edges {
		if isBoolConst(e, false) {
			sawFalse = true
			continue
		}
		walk(e)
	}
	return sawFalse && okAll && setsHere
}

var ruleHoverPrefix = &Rule{
	Name:    "HOVER/prefix-own-symbol",
	NeedSSA: true,
	Text:    "a function of the check package with a string result that is always \"\" or \"local \" computes the `local ` prefix of one symbol. Where such a function is called for the elements of a list walked in a loop (the alias chain of the definition under the cursor), the prefix may reach the label only through a first-iteration latch — a store guarded by exactly `!flag` (flag a loop-carried boolean that starts false, is set true on that same path and never reset) or by `index == 0` — or the call is made for element [0] outright. A direct use of the current element's prefix, or a latch with any further condition (`first non-empty`), presents an identifier as local because something later in its alias chain is",
	Run: func(c *Ctx) []Ob {
		var obs []Ob
		prod := prefixProducers(c)
		if len(prod) == 0 {
			return []Ob{{Key: "HOVER/prefix:slots", Verdict: UNDECIDED, Note: "no function of the check package has a string result restricted to \"\" / \"local \" (the per-symbol prefix computation was not recognised)"}}
		}
		n := 0
		for _, f := range c.ModFns() {
			cnt := 0
			for _, b := range f.Blocks {
				for _, ins := range b.Instrs {
					call, ok := ins.(*ssa.Call)
					if !ok {
						continue
					}
					g := call.Call.StaticCallee()
					k, isP := prod[g]
					if g == nil || !isP {
						continue
					}
					// the symbol argument
					var sym ssa.Value
					for _, a := range call.Call.Args {
						if _, nm := namedPkgName(a.Type()); nm == "Symbol" {
							sym = a
						}
					}
					var idx ssa.Value
					own, elem := false, false
					if u, ok := sym.(*ssa.UnOp); ok && u.Op == token.MUL {
						if ia, ok := u.X.(*ssa.IndexAddr); ok {
							idx = ia.Index
							if kc, ok := idx.(*ssa.Const); ok && kc.Value != nil && constant.Sign(kc.Value) == 0 {
								own = true
							} else if _, isConst := idx.(*ssa.Const); !isConst {
								elem = true
							}
						}
					}
					if !own && !elem {
						continue // a single symbol, not a list walk: nothing to choose from
					}
					var ext *ssa.Extract
					for _, r := range *call.Referrers() {
						if e, ok := r.(*ssa.Extract); ok && e.Index == k {
							ext = e
						}
					}
					if ext == nil {
						continue
					}
					n++
					cnt++
					key := fmt.Sprintf("HOVER/prefix:%s#%d", fnKey(f), cnt)
					if own {
						obs = append(obs, Ob{Key: key, Site: c.Pos(call.Pos()), Verdict: OK, Note: "the prefix is computed for element [0] of the list"})
						continue
					}
					bad := ""
					latched := 0
					for _, r := range *ext.Referrers() {
						switch u := r.(type) {
						case *ssa.DebugRef:
						case *ssa.BinOp:
							if u.Op == token.EQL || u.Op == token.NEQ {
								continue
							}
							bad = "the prefix of the element the loop is at is used directly (" + c.Pos(u.Pos()) + ")"
						case *ssa.Phi:
							for i, e := range u.Edges {
								if e != ssa.Value(ext) {
									continue
								}
								B := u.Block().Preds[i]
								if len(B.Preds) != 1 {
									bad = "the prefix is kept on a path that is not guarded by a first-iteration test (" + c.Pos(u.Pos()) + ")"
									continue
								}
								G := B.Preds[0]
								iff, ok := G.Instrs[len(G.Instrs)-1].(*ssa.If)
								if !ok {
									bad = "the prefix is kept unconditionally for every element (" + c.Pos(u.Pos()) + ")"
									continue
								}
								onTrue := G.Succs[0] == B
								cond := iff.Cond
								if un, ok := cond.(*ssa.UnOp); ok && un.Op == token.NOT {
									cond = un.X
									onTrue = !onTrue
								}
								// the latch phi of the flag sits where the stored prefix joins
								good := false
								if !onTrue && onceLatch(cond, u.Block(), i) {
									good = true
								}
								if bo, ok := cond.(*ssa.BinOp); ok && onTrue && bo.Op == token.EQL {
									z, o := bo.X, bo.Y
									if _, isC := z.(*ssa.Const); isC {
										z, o = o, z
									}
									if kc, ok := o.(*ssa.Const); ok && kc.Value != nil && kc.Value.Kind() == constant.Int && constant.Sign(kc.Value) == 0 && z == idx {
										good = true
									}
								}
								if good {
									latched++
								} else {
									bad = "the prefix is kept under a test that is not `first element only` (" + c.Pos(iff.Pos()) + "): a later element of the chain can supply it"
								}
							}
						default:
							bad = "the prefix of the element the loop is at is used directly (" + c.Pos(r.Pos()) + ")"
						}
					}
					switch {
					case bad != "":
						obs = append(obs, Ob{Key: key, Site: c.Pos(call.Pos()), Verdict: VIOLATION,
							Note: fnKey(f) + " walks a symbol list and " + bad + ": the identifier under the cursor is presented as local (or not) according to another symbol of its alias chain"})
					default:
						obs = append(obs, Ob{Key: key, Site: c.Pos(call.Pos()), Verdict: OK, Note: fmt.Sprintf("the prefix reaches the label only through a first-iteration latch (%d store(s)) or is not used", latched)})
					}
				}
			}
		}
		obs = append(obs, floor("HOVER/prefix-own-symbol", "calls of a per-symbol prefix computation for the elements of a list", n, 1))
		return obs
	},
}

// ---------------------------------------------------------------------------------------------
// WALK/paired-list-visit (C06, C11): a loop over one child list of a syntax node does not make the visit of its own
// element depend on the length of a *sibling* list.
//
// `a, b, c = f()` has three targets and one value. The loop over the targets pairs target i with value i where there is
// one; what it does with the target alone (the reference pass: findNameStr / findTableDefine) must happen for every
// target. Four seeds of four rounds moved exactly those calls under `nExps >= i+1`.

// listElem: v is (a type assertion of) the element of a slice field of an ast node read with a non-constant index;
// returns the field address.
var listElemIndex = map[*ssa.FieldAddr]ssa.Value{}

func stripConst(v ssa.Value) ssa.Value {
	for d := 0; d < 4; d++ {
		if b, ok := v.(*ssa.BinOp); ok && (b.Op == token.ADD || b.Op == token.SUB) {
			if _, isC := b.Y.(*ssa.Const); isC {
				v = b.X
				continue
			}
		}
		break
	}
	return v
}

func listElem(v ssa.Value) *ssa.FieldAddr {
	for d := 0; d < 4; d++ {
		switch x := v.(type) {
		case *ssa.Extract:
			v = x.Tuple
			continue
		case *ssa.TypeAssert:
			v = x.X
			continue
		case *ssa.ChangeInterface:
			v = x.X
			continue
		case *ssa.MakeInterface:
			v = x.X
			continue
		case *ssa.UnOp:
			if x.Op != token.MUL {
				return nil
			}
			ia, ok := x.X.(*ssa.IndexAddr)
			if !ok {
				return nil
			}
			if _, isConst := ia.Index.(*ssa.Const); isConst {
				return nil
			}
			sl, ok := ia.X.(*ssa.UnOp)
			if !ok {
				return nil
			}
			fa, ok := sl.X.(*ssa.FieldAddr)
			if !ok {
				return nil
			}
			if pp, _ := namedPkgName(fa.X.Type()); pp != astPkg {
				return nil
			}
			listElemIndex[fa] = ia.Index
			return fa
		}
		return nil
	}
	return nil
}

// lenOfField: v is len(node.F) (possibly ± a constant); returns the field address.
func lenOfField(v ssa.Value) *ssa.FieldAddr {
	for d := 0; d < 3; d++ {
		switch x := v.(type) {
		case *ssa.BinOp:
			if _, ok := x.Y.(*ssa.Const); ok && (x.Op == token.ADD || x.Op == token.SUB) {
				v = x.X
				continue
			}
			return nil
		case *ssa.Call:
			if b, ok := x.Call.Value.(*ssa.Builtin); ok && b.Name() == "len" && len(x.Call.Args) == 1 {
				if ld, ok := x.Call.Args[0].(*ssa.UnOp); ok && ld.Op == token.MUL {
					if fa, ok := ld.X.(*ssa.FieldAddr); ok {
						if pp, _ := namedPkgName(fa.X.Type()); pp == astPkg {
							return fa
						}
					}
				}
			}
			return nil
		}
		return nil
	}
	return nil
}

var ruleWalkPaired = &Rule{
	Name:    "WALK/paired-list-visit",
	NeedSSA: true,
	Text:    "in package analysis, inside a loop over a slice field A of a syntax node, a method of the walker (*Analysis — the functions that record occurrences, definitions and diagnostics; getters of other packages are pure) that is handed the current element of A (directly or type-asserted) and no element of a sibling list is not called exclusively behind one edge of a branch that compares against len(node.B) for a different slice field B of the same node type: what is done with a target alone is done for every target, also for those beyond the value list (`a, b = f()`); otherwise those targets are not reference occurrences and their names are never looked up",
	Run: func(c *Ctx) []Ob {
		var obs []Ob
		n := 0
		type edge struct {
			g *ssa.BasicBlock
			k int
		}
		for _, f := range c.ModFns() {
			if f.Pkg == nil || f.Pkg.Pkg.Path() != analysisPkg || f.Blocks == nil {
				continue
			}
			// branches on len(sibling list)
			var lenIfs []*ssa.BasicBlock
			lenField := map[*ssa.BasicBlock]*ssa.FieldAddr{}
			lenOther := map[*ssa.BasicBlock]ssa.Value{}
			for _, b := range f.Blocks {
				if len(b.Instrs) == 0 {
					continue
				}
				iff, ok := b.Instrs[len(b.Instrs)-1].(*ssa.If)
				if !ok {
					continue
				}
				bo, ok := iff.Cond.(*ssa.BinOp)
				if !ok {
					continue
				}
				switch bo.Op {
				case token.LSS, token.LEQ, token.GTR, token.GEQ:
				default:
					continue
				}
				fa, other := lenOfField(bo.X), bo.Y
				if fa == nil {
					fa, other = lenOfField(bo.Y), bo.X
				}
				if fa != nil {
					lenIfs = append(lenIfs, b)
					lenField[b] = fa
					lenOther[b] = stripConst(other)
				}
			}
			if len(lenIfs) == 0 {
				continue
			}
			// a loop header that runs to the sibling's length is a pairing loop, not a guard
			{
				hdr := loopsOf(f)
				var keep []*ssa.BasicBlock
				for _, G := range lenIfs {
					if _, isH := hdr[G]; !isH {
						keep = append(keep, G)
					}
				}
				lenIfs = keep
			}
			// calls with the element of a list, per callee
			type siteT struct {
				call *ssa.Call
				fa   *ssa.FieldAddr
			}
			sites := map[*ssa.Function][]siteT{}
			var order []*ssa.Function
			for _, b := range f.Blocks {
				for _, ins := range b.Instrs {
					call, ok := ins.(*ssa.Call)
					if !ok {
						continue
					}
					g := call.Call.StaticCallee()
					if g == nil || !c.IsModFn(g) || g.Signature.Recv() == nil {
						continue
					}
					if _, rn := namedPkgName(g.Signature.Recv().Type()); rn != "Analysis" {
						continue // getters of other packages are pure: only the walker's own methods record anything
					}
					var own *ssa.FieldAddr
					mixed := false
					for _, a := range call.Call.Args {
						if fa := listElem(a); fa != nil {
							if own == nil {
								own = fa
							} else if fa.Field != own.Field {
								mixed = true
							}
						}
					}
					if own == nil || mixed {
						continue
					}
					if _, seen := sites[g]; !seen {
						order = append(order, g)
					}
					sites[g] = append(sites[g], siteT{call, own})
				}
			}
			for _, g := range order {
				ss := sites[g]
				var common *edge
				all := true
				for _, s := range ss {
					var mine *edge
					for _, G := range lenIfs {
						lf := lenField[G]
						if lf.Field == s.fa.Field || lf.X.Type() != s.fa.X.Type() {
							continue // the loop's own bound, or another node type
						}
						if ix := listElemIndex[s.fa]; ix == nil || stripConst(ix) != lenOther[G] {
							continue // not a comparison of this element's index
						}
						for k, S := range G.Succs {
							if len(S.Preds) == 1 && S.Dominates(s.call.Block()) {
								mine = &edge{G, k}
							}
						}
					}
					if mine == nil {
						all = false
						break
					}
					if common == nil {
						common = mine
					} else if *common != *mine {
						all = false
						break
					}
				}
				n++
				key := fmt.Sprintf("WALK/paired:%s:%s", fnKey(f), g.Name())
				if all && common != nil {
					obs = append(obs, Ob{Key: key, Site: c.Pos(ss[0].call.Pos()), Verdict: VIOLATION,
						Note: fmt.Sprintf("%s is handed the current element of one child list only behind one edge of the comparison with the length of a sibling list at %s: elements beyond the sibling list are never handed to it", g.Name(), c.Pos(common.g.Instrs[len(common.g.Instrs)-1].Pos()))})
				} else {
					obs = append(obs, Ob{Key: key, Site: c.Pos(ss[0].call.Pos()), Verdict: OK})
				}
			}
		}
		obs = append(obs, floor("WALK/paired-list-visit", "callees handed the element of a child list in functions that compare against a sibling list's length", n, 3))
		return obs
	},
}

// ---------------------------------------------------------------------------------------------
// CFG/G13 (C17): the ignore gate decides alone
//
// Every handler asks AllProject.IsNeedHandle(file) and drops the request / the event when the answer is no. Three seeds
// of three rounds weakened one such site without removing it: a second conjunct (`&& !IsHandleAsLua`), a gate asked only
// for Created events. In both the file goes on to functions the gate was to keep it from.

var ruleCfgG13 = &Rule{
	Name:    "CFG/G13-gate-decides-alone",
	NeedSSA: true,
	Text:    "for every call v = AllProject.IsNeedHandle(file) in package langserver: v is branched on directly (v or !v), the kept successor has that branch as its only predecessor, and every other module call in the function that receives the same file value — logging aside, and calls that are made before the gate is asked — lies in a block dominated by the kept successor. A gate under a further condition, or one whose `no` can still be overruled by a second test, lets the files of an ignored folder reach the analysis",
	Run: func(c *Ctx) []Ob {
		var obs []Ob
		gate := c.SSAFunc(checkPkg, "AllProject", "IsNeedHandle")
		if gate == nil {
			return []Ob{{Key: "CFG/G13:slots", Verdict: UNDECIDED, Note: "slot unresolved: AllProject.IsNeedHandle"}}
		}
		n := 0
		for _, f := range c.ModFns() {
			if f.Pkg == nil || f.Pkg.Pkg.Path() != modPath+"/langserver" {
				continue
			}
			cnt := 0
			for _, b := range f.Blocks {
				for gi, ins := range b.Instrs {
					call, ok := ins.(*ssa.Call)
					if !ok || call.Call.StaticCallee() != gate || len(call.Call.Args) < 2 {
						continue
					}
					n++
					cnt++
					key := fmt.Sprintf("CFG/G13:%s#%d", fnKey(f), cnt)
					file := call.Call.Args[1]
					// the branch
					var kept *ssa.BasicBlock
					for _, r := range *call.Referrers() {
						var iff *ssa.If
						neg := false
						switch u := r.(type) {
						case *ssa.If:
							iff = u
						case *ssa.UnOp:
							if u.Op == token.NOT {
								for _, r2 := range *u.Referrers() {
									if i2, ok := r2.(*ssa.If); ok {
										iff, neg = i2, true
									}
								}
							}
						}
						if iff == nil {
							continue
						}
						k := 0
						if neg {
							k = 1
						}
						kept = iff.Block().Succs[k]
					}
					if kept == nil {
						// a wrapper that hands the answer (or its negation) to its caller is not a gate site
						passed := false
						for _, r := range *call.Referrers() {
							switch u := r.(type) {
							case *ssa.Return:
								passed = true
							case *ssa.UnOp:
								for _, r2 := range *u.Referrers() {
									if _, ok := r2.(*ssa.Return); ok && u.Op == token.NOT {
										passed = true
									}
								}
							}
						}
						if passed {
							obs = append(obs, Ob{Key: key, Site: c.Pos(call.Pos()), Verdict: OK, Note: "the answer is returned to the caller unchanged (wrapper; its callers are not followed)"})
							continue
						}
					}
					if kept == nil || len(kept.Preds) != 1 {
						obs = append(obs, Ob{Key: key, Site: c.Pos(call.Pos()), Verdict: VIOLATION,
							Note: "the answer of IsNeedHandle is not branched on by itself (or the kept branch can be entered another way): the gate does not decide alone"})
						continue
					}
					bad := ""
					for _, b2 := range f.Blocks {
						for i2, ins2 := range b2.Instrs {
							c2, ok := ins2.(*ssa.Call)
							if !ok || c2 == call {
								continue
							}
							g := c2.Call.StaticCallee()
							if g == nil || !c.IsModFn(g) || (g.Pkg != nil && strings.HasSuffix(g.Pkg.Pkg.Path(), "/log")) {
								continue
							}
							uses := false
							for _, a := range c2.Call.Args {
								if a == file {
									uses = true
								}
							}
							if !uses {
								continue
							}
							if b2 == b && i2 < gi {
								continue // before the gate is asked
							}
							if b2 != b && b2.Dominates(b) {
								continue
							}
							if !kept.Dominates(b2) {
								bad = g.Name() + " at " + c.Pos(c2.Pos())
							}
						}
					}
					if bad != "" {
						obs = append(obs, Ob{Key: key, Site: c.Pos(call.Pos()), Verdict: VIOLATION,
							Note: "the file this gate is asked about reaches " + bad + " on a path that does not pass the gate's `yes`: the gate is asked under a condition, or its `no` is overruled by a further test"})
					} else {
						obs = append(obs, Ob{Key: key, Site: c.Pos(call.Pos()), Verdict: OK, Note: "every later use of the file lies behind the gate's yes"})
					}
				}
			}
		}
		obs = append(obs, floor("CFG/G13-gate-decides-alone", "IsNeedHandle gates in package langserver", n, 5))
		return obs
	},
}
