package main

import (
	"fmt"
	"go/constant"
	"go/types"
	"sort"
	"strings"

	"golang.org/x/tools/go/callgraph"
	"golang.org/x/tools/go/ssa"
)

const langserverPkg = modPath + "/langserver"

// Handler is one entry of the handler.Map literal in langserver.CreateServer.
type Handler struct {
	Method string // LSP method name (map key)
	Fn     *ssa.Function
	Notif  bool
}

// notification methods of the LSP (frozen slot table; reason: LSP 3.x specification — these carry no id)
func isNotification(method string) bool {
	switch method {
	case "initialized", "exit", "$/cancelRequest":
		return true
	}
	if strings.HasPrefix(method, "textDocument/did") || strings.HasPrefix(method, "workspace/did") {
		return true
	}
	return false
}

func unwrapIface(v ssa.Value) ssa.Value {
	for {
		switch x := v.(type) {
		case *ssa.MakeInterface:
			v = x.X
		case *ssa.ChangeInterface:
			v = x.X
		case *ssa.ChangeType:
			v = x.X
		default:
			return v
		}
	}
}

// Handlers resolves the registered handlers from the MapUpdate instructions of CreateServer.
// jrpc2 invokes them by reflection, so they are seeded explicitly.
func (c *Ctx) Handlers() ([]Handler, error) {
	f := c.SSAFunc(langserverPkg, "", "CreateServer")
	if f == nil {
		return nil, fmt.Errorf("slot unresolved: langserver.CreateServer")
	}
	var hs []Handler
	for _, b := range f.Blocks {
		for _, ins := range b.Instrs {
			mu, ok := ins.(*ssa.MapUpdate)
			if !ok {
				continue
			}
			k, ok := mu.Key.(*ssa.Const)
			if !ok || k.Value == nil || k.Value.Kind() != constant.String {
				continue
			}
			call, ok := unwrapIface(mu.Value).(*ssa.Call)
			if !ok || len(call.Call.Args) != 1 {
				return nil, fmt.Errorf("handler map entry %s: value is not handler.New(f)", k.Value)
			}
			mc, ok := unwrapIface(call.Call.Args[0]).(*ssa.MakeClosure)
			if !ok {
				return nil, fmt.Errorf("handler map entry %s: argument is not a method value", k.Value)
			}
			bound := mc.Fn.(*ssa.Function)
			var target *ssa.Function
			if obj, ok := bound.Object().(*types.Func); ok && strings.HasSuffix(bound.Name(), "$bound") {
				target = c.Prog.FuncValue(obj)
			} else {
				target = bound // plain closure / function literal
			}
			if target == nil {
				return nil, fmt.Errorf("handler map entry %s: cannot resolve method", k.Value)
			}
			m := constant.StringVal(k.Value)
			hs = append(hs, Handler{Method: m, Fn: target, Notif: isNotification(m)})
		}
	}
	sort.Slice(hs, func(i, j int) bool { return hs[i].Method < hs[j].Method })
	return hs, nil
}

// GoSites lists every `go` statement in module code with its static callee (or nil).
type GoSite struct {
	In     *ssa.Function
	Instr  *ssa.Go
	Callee *ssa.Function
}

func (c *Ctx) GoSites() []GoSite {
	var out []GoSite
	for _, f := range c.modFns {
		for _, b := range f.Blocks {
			for _, ins := range b.Instrs {
				if g, ok := ins.(*ssa.Go); ok {
					var callee *ssa.Function
					if sc := g.Call.StaticCallee(); sc != nil {
						callee = sc
					} else if mc, ok := g.Call.Value.(*ssa.MakeClosure); ok {
						callee = mc.Fn.(*ssa.Function)
					}
					out = append(out, GoSite{In: f, Instr: g, Callee: callee})
				}
			}
		}
	}
	return out
}

// callees returns the module-function callees of a call site according to graph g (sorted).
func calleesOf(g *callgraph.Graph, site ssa.CallInstruction) []*ssa.Function {
	n := g.Nodes[site.Parent()]
	if n == nil {
		return nil
	}
	var out []*ssa.Function
	seen := map[*ssa.Function]bool{}
	for _, e := range n.Out {
		if e.Site == site && !seen[e.Callee.Func] {
			seen[e.Callee.Func] = true
			out = append(out, e.Callee.Func)
		}
	}
	sort.Slice(out, func(i, j int) bool { return fnKey(out[i]) < fnKey(out[j]) })
	return out
}

// Reach computes the set of functions reachable from roots in g, not expanding functions for
// which stop returns true. parent links give one witness path.
func reach(g *callgraph.Graph, roots []*ssa.Function, stop func(*ssa.Function) bool) (map[*ssa.Function]*ssa.Function, map[*ssa.Function]bool) {
	parent := map[*ssa.Function]*ssa.Function{}
	seen := map[*ssa.Function]bool{}
	var q []*ssa.Function
	for _, r := range roots {
		if r != nil && !seen[r] {
			seen[r] = true
			parent[r] = nil
			q = append(q, r)
		}
	}
	for len(q) > 0 {
		f := q[0]
		q = q[1:]
		if stop != nil && stop(f) {
			continue
		}
		n := g.Nodes[f]
		if n == nil {
			continue
		}
		outs := make([]*ssa.Function, 0, len(n.Out))
		for _, e := range n.Out {
			outs = append(outs, e.Callee.Func)
		}
		sort.Slice(outs, func(i, j int) bool { return fnKey(outs[i]) < fnKey(outs[j]) })
		for _, cf := range outs {
			if !seen[cf] {
				seen[cf] = true
				parent[cf] = f
				q = append(q, cf)
			}
		}
	}
	return parent, seen
}

func pathTo(parent map[*ssa.Function]*ssa.Function, f *ssa.Function) []string {
	var p []string
	for x := f; x != nil; x = parent[x] {
		p = append([]string{fnKey(x)}, p...)
		if len(p) > 40 {
			break
		}
	}
	return p
}
