package main

import (
	"fmt"
	"go/ast"
	"go/constant"
	"go/token"
	"go/types"
	"sort"

	"golang.org/x/tools/go/ssa"
)

// ---------------------------------------------------------------------------------------------
// Round-4 rules

// SCOPE/S9: the declarations of one name in one scope are kept in source order (AddLocVar appends); a lookup that
// stops at the first declaration passing its position test must therefore look at the newest declaration first.

var ruleScopeS9 = &Rule{
	Name:    "SCOPE/S9-newest-declaration-first",
	NeedSSA: true,
	Text: "in the methods of common.ScopeInfo, a loop over the declaration list of one name (LocVarMap[name].VarVec, appended in source order) that leaves the loop " +
		"at the first element passing its position test (a return or break on a path that has looked at an element) iterates from the last element to the first: " +
		"a later `local x` of the same block shadows the earlier one for everything that follows it, so a first match from the front binds every use to the oldest declaration",
	Run: func(c *Ctx) []Ob {
		var obs []Ob
		n := 0
		for _, f := range c.ModFns() {
			// methods of ScopeInfo, and the plain functions of the package their scans are extracted into
			// (findLastVisibleVar(list, loc)): the loop criteria below are what identifies a declaration scan
			if f.Blocks == nil || f.Pkg == nil || f.Pkg.Pkg.Path() != commonPkg {
				continue
			}
			if f.Signature.Recv() != nil {
				if p, nm := namedPkgName(f.Signature.Recv().Type()); p != commonPkg || nm != "ScopeInfo" {
					continue
				}
			}
			ord := 0
			for _, l := range allLoops(f) {
				// the element: X.VarVec[i] inside the loop, i moving with the loop
				var elem *ssa.IndexAddr
				for _, b := range f.Blocks {
					if !l.body[b] {
						continue
					}
					for _, ins := range b.Instrs {
						ia, ok := ins.(*ssa.IndexAddr)
						if !ok {
							continue
						}
						ld, ok := ia.X.(*ssa.UnOp)
						if !ok || ld.Op != token.MUL {
							continue
						}
						fa, ok := ld.X.(*ssa.FieldAddr)
						if !ok || fieldName(fa.X.Type(), fa.Field) != "VarVec" {
							continue
						}
						if elem == nil {
							elem = ia
						}
					}
				}
				if elem == nil {
					continue
				}
				// inner-most loop only: the element's block must not belong to a smaller loop that also holds it
				inner := true
				for _, l2 := range allLoops(f) {
					if l2.header != l.header && l2.body[elem.Block()] && len(l2.body) < len(l.body) {
						inner = false
					}
				}
				if !inner {
					continue
				}
				// early exit after looking at an element
				early := false
				var exitPos token.Pos
				for _, b := range f.Blocks {
					if !l.body[b] || b == l.header || !elem.Block().Dominates(b) {
						continue
					}
					for _, s := range b.Succs {
						if !l.body[s] {
							early = true
							if len(b.Instrs) > 0 {
								exitPos = b.Instrs[len(b.Instrs)-1].Pos()
							}
						}
					}
				}
				if !early || !positionTested(elem, &l) {
					continue
				}
				ord++
				n++
				dir := indexDirection(elem.Index, &l)
				key := fmt.Sprintf("SCOPE/S9:%s:first-match#%d", f.Name(), ord)
				_ = exitPos
				if dir == "rev" {
					obs = append(obs, Ob{Key: key, Site: c.Pos(elem.Pos()), Verdict: OK, Note: "first match, newest declaration first"})
				} else {
					obs = append(obs, Ob{Key: key, Site: c.Pos(elem.Pos()), Verdict: VIOLATION,
						Note: f.Name() + " stops at the first declaration that passes its test but walks the list " + map[string]string{"fwd": "oldest first", "?": "in an order the rule cannot establish"}[dir] +
							": a redeclared local (`local d = f(); local d = g(d)`) binds later uses to the oldest declaration"})
				}
			}
		}
		c.Stats["s9_first_match_loops"] = n
		obs = append(obs, floor("SCOPE/S9-newest-declaration-first", "first-match scans of a declaration list", n, 2))
		return obs
	},
}

// positionTested: inside the loop the element is asked whether it is declared before a position
// ((*VarInfo).IsCorrectPosition) or its declaration line is read (Loc.StartLine): a declared-before test, as
// opposed to a search for the one element at an exact place
func positionTested(elem *ssa.IndexAddr, l *loopInfo) bool {
	isElem := func(v ssa.Value) bool {
		for d := 0; d < 6; d++ {
			switch x := v.(type) {
			case *ssa.UnOp:
				if x.Op == token.MUL {
					if x.X == ssa.Value(elem) {
						return true
					}
					v = x.X
					continue
				}
			case *ssa.FieldAddr:
				v = x.X
				continue
			}
			return false
		}
		return false
	}
	for b := range l.body {
		for _, ins := range b.Instrs {
			switch x := ins.(type) {
			case *ssa.Call:
				if g := x.Call.StaticCallee(); g != nil && g.Name() == "IsCorrectPosition" && len(x.Call.Args) > 0 && isElem(x.Call.Args[0]) {
					return true
				}
			case *ssa.FieldAddr:
				if fieldName(x.X.Type(), x.Field) == "StartLine" {
					if in, ok := x.X.(*ssa.FieldAddr); ok && fieldName(in.X.Type(), in.Field) == "Loc" && isElem(in.X) {
						return true
					}
				}
			}
		}
	}
	return false
}

// indexDirection: how the index of an element access moves around the loop: "rev" (decreasing), "fwd", "?"
func indexDirection(idx ssa.Value, l *loopInfo) string {
	base, _ := plusConst(idx)
	phi, ok := base.(*ssa.Phi)
	if !ok || phi.Block() != l.header {
		return "?"
	}
	dir := ""
	for i, ed := range phi.Edges {
		if !l.body[phi.Block().Preds[i]] {
			continue // entry edge
		}
		b, c := plusConst(ed)
		if b != ssa.Value(phi) || c == 0 {
			return "?"
		}
		d := "fwd"
		if c < 0 {
			d = "rev"
		}
		if dir != "" && dir != d {
			return "?"
		}
		dir = d
	}
	if dir == "" {
		return "?"
	}
	return dir
}

// TAB/K10: a table from spellings to an enumeration whose zero value is itself a member must be read with the
// comma-ok form: a single-value lookup of a missing key yields that member.

var ruleTabK10 = &Rule{
	Name:    "TAB/K10-kind-table-lookups-comma-ok",
	NeedSSA: true,
	Text: "every lookup in a package-level map of the lexer / annotation-lexer packages whose value type is an enumeration with a declared member equal to 0 (TokenEOF / ATokenEOF) " +
		"uses the two-result form: with the one-result form a word that is not in the table is indistinguishable from the member 0 — `---@class` at the end of a line was then accepted as a class named EOF",
	Run: func(c *Ctx) []Ob {
		var obs []Ob
		n := 0
		for _, f := range c.ModFns() {
			if f.Pkg == nil || (f.Pkg.Pkg.Path() != lexerPkg && f.Pkg.Pkg.Path() != annLexPkg) {
				continue
			}
			ord := 0
			var sites []*ssa.Lookup
			for _, b := range f.Blocks {
				for _, ins := range b.Instrs {
					if lk, ok := ins.(*ssa.Lookup); ok {
						sites = append(sites, lk)
					}
				}
			}
			sort.Slice(sites, func(i, j int) bool { return sites[i].Pos() < sites[j].Pos() })
			for _, lk := range sites {
				mt, ok := types.Unalias(lk.X.Type()).Underlying().(*types.Map)
				if !ok {
					continue
				}
				ld, ok := lk.X.(*ssa.UnOp)
				if !ok {
					continue
				}
				g, ok := ld.X.(*ssa.Global)
				if !ok {
					continue
				}
				zero := zeroMember(mt.Elem())
				if zero == "" {
					continue
				}
				ord++
				n++
				key := fmt.Sprintf("TAB/K10:%s:%s#%d", f.Name(), g.Name(), ord)
				if lk.CommaOk {
					obs = append(obs, Ob{Key: key, Site: c.Pos(lk.Pos()), Verdict: OK, Note: "two-result lookup; member 0 of the value type is " + zero})
				} else {
					obs = append(obs, Ob{Key: key, Site: c.Pos(lk.Pos()), Verdict: VIOLATION,
						Note: "single-result lookup in " + g.Name() + ": a missing key reads as " + zero + ", which is a real member of the value type"})
				}
			}
		}
		c.Stats["k10_lookups"] = n
		obs = append(obs, floor("TAB/K10-kind-table-lookups-comma-ok", "lookups in kind tables", n, 4))
		return obs
	},
}

// zeroMember: t is a named integer type with a declared constant equal to 0 in its package: the constant's name
func zeroMember(t types.Type) string {
	nt, ok := types.Unalias(t).(*types.Named)
	if !ok || nt.Obj().Pkg() == nil {
		return ""
	}
	if b, ok := nt.Underlying().(*types.Basic); !ok || b.Info()&types.IsInteger == 0 {
		return ""
	}
	sc := nt.Obj().Pkg().Scope()
	names := sc.Names()
	for _, nm := range names {
		k, ok := sc.Lookup(nm).(*types.Const)
		if !ok || !types.Identical(k.Type(), nt) {
			continue
		}
		if v, ok := constant.Int64Val(k.Val()); ok && v == 0 {
			return nm
		}
	}
	return ""
}

// ANN/A7: the array suffix applies to every primary form of an annotation type.

var ruleAnnA7 = &Rule{
	Name:    "ANN/A7-array-suffix-after-every-primary",
	NeedSSA: true,
	Text: "in annotateparser.parserSingleType every return is dominated by the test for a following `[` (LookAheadKind() == ATokenVSepLbrack): the suffix `[]` is parsed after " +
		"whichever primary form came first — a name, `fun(...)`, `table<K,V>`, a string, or a parenthesised union; a branch that returns before that test leaves `(a|b)[]` understood as `a|b`",
	Run: func(c *Ctx) []Ob {
		var obs []Ob
		f := c.SSAFunc(annParPkg, "", "parserSingleType")
		if f == nil {
			return []Ob{{Key: "ANN/A7:slot", Verdict: UNDECIDED, Note: "parserSingleType not found"}}
		}
		kv, ok := constIntValue(c, annLexPkg, "ATokenVSepLbrack")
		if !ok {
			return []Ob{{Key: "ANN/A7:slot", Verdict: UNDECIDED, Note: "ATokenVSepLbrack not found"}}
		}
		var test *ssa.BasicBlock
		for _, b := range f.Blocks {
			iff, ok := b.Instrs[len(b.Instrs)-1].(*ssa.If)
			if !ok {
				continue
			}
			bo, ok := iff.Cond.(*ssa.BinOp)
			if !ok || (bo.Op != token.EQL && bo.Op != token.NEQ) {
				continue
			}
			for _, pr := range [][2]ssa.Value{{bo.X, bo.Y}, {bo.Y, bo.X}} {
				call, ok := pr[0].(*ssa.Call)
				if !ok {
					continue
				}
				g := call.Call.StaticCallee()
				if g == nil || g.Name() != "LookAheadKind" {
					continue
				}
				if k, ok := pr[1].(*ssa.Const); ok && k.Value != nil {
					if v, ok := constant.Int64Val(k.Value); ok && v == kv && call.Block() == b {
						test = b
					}
				}
			}
		}
		if test == nil {
			return []Ob{{Key: "ANN/A7:suffix-test", Site: c.Pos(f.Pos()), Verdict: VIOLATION, Note: "parserSingleType no longer tests for a following `[` at all"}}
		}
		n := 0
		for _, b := range f.Blocks {
			ret, ok := b.Instrs[len(b.Instrs)-1].(*ssa.Return)
			if !ok {
				continue
			}
			n++
			key := fmt.Sprintf("ANN/A7:parserSingleType:return#%d", n)
			if test.Dominates(b) {
				obs = append(obs, Ob{Key: key, Site: c.Pos(ret.Pos()), Verdict: OK, Note: "after the `[` test"})
			} else {
				obs = append(obs, Ob{Key: key, Site: c.Pos(ret.Pos()), Verdict: VIOLATION,
					Note: "parserSingleType returns a type without having looked for the array suffix: `(string|number)[]` (or whatever form this branch parses, followed by `[]`) loses its `[]`"})
			}
		}
		obs = append(obs, floor("ANN/A7-array-suffix-after-every-primary", "returns of parserSingleType", n, 2))
		return obs
	},
}

// TAB/K11: `return [explist] [';']` — the semicolon is optional, not repeatable.

var ruleTabK11 = &Rule{
	Name:    "TAB/K11-return-semicolon-once",
	NeedSSA: true,
	Text: "parser.parseRetExps consumes tokens only outside loops: the expression list has its own parser, and the optional `;` after it is taken at most once " +
		"(a return statement is the last statement of its block: `return 1;;` is not a chunk); a loop around the consumption accepts any run of `;`",
	Run: func(c *Ctx) []Ob {
		var obs []Ob
		f := c.SSAFunc(parserPkg, "Parser", "parseRetExps")
		if f == nil {
			return []Ob{{Key: "TAB/K11:slot", Verdict: UNDECIDED, Note: "parseRetExps not found"}}
		}
		inLoop := map[*ssa.BasicBlock]bool{}
		for _, l := range allLoops(f) {
			for b := range l.body {
				inLoop[b] = true
			}
		}
		n := 0
		for _, b := range f.Blocks {
			for _, ins := range b.Instrs {
				call, ok := ins.(*ssa.Call)
				if !ok {
					continue
				}
				g := call.Call.StaticCallee()
				if g == nil || g.Pkg == nil || g.Pkg.Pkg.Path() != lexerPkg || (g.Name() != "NextToken" && g.Name() != "NextTokenKind" && g.Name() != "NextTokenStruct" && g.Name() != "NextIdentifier") {
					continue
				}
				n++
				key := fmt.Sprintf("TAB/K11:parseRetExps:consume#%d", n)
				if inLoop[b] {
					obs = append(obs, Ob{Key: key, Site: c.Pos(call.Pos()), Verdict: VIOLATION, Note: "parseRetExps consumes a token inside a loop: `return 1;;;` is accepted as a chunk"})
				} else {
					obs = append(obs, Ob{Key: key, Site: c.Pos(call.Pos()), Verdict: OK, Note: "consumed once"})
				}
			}
		}
		obs = append(obs, floor("TAB/K11-return-semicolon-once", "token consumptions in parseRetExps", n, 3))
		return obs
	},
}

// LOC/identity-has-file: two locations are the same declaration only if they lie in the same file.

var ruleLocIdentity = &Rule{
	Name:    "LOC/identity-has-file",
	NeedSSA: true,
	Text: "every call of lexer.CompareTwoLoc (are these two locations the same place?) is executed only on the equal-edge of an unconditional string comparison " +
		"(the file of the one location equals the file of the other): a location is a place inside ONE file, and a same-named local declared at the same line and column " +
		"of another file (`local M = {}` at the top of two modules) is otherwise taken for the variable being searched or renamed. All three call sites follow this idiom",
	Run: func(c *Ctx) []Ob {
		var obs []Ob
		n := 0
		for _, f := range c.ModFns() {
			cnt := 0
			for _, b := range f.Blocks {
				for _, ins := range b.Instrs {
					call, ok := ins.(*ssa.Call)
					if !ok {
						continue
					}
					g := call.Call.StaticCallee()
					if g == nil || g.Name() != "CompareTwoLoc" || g.Pkg == nil || g.Pkg.Pkg.Path() != lexerPkg {
						continue
					}
					n++
					cnt++
					key := fmt.Sprintf("LOC/identity:%s#%d", fnKey(f), cnt)
					guarded := false
					for d := b; d != nil && !guarded; d = d.Idom() {
						id := d.Idom()
						if id == nil {
							break
						}
						iff, ok := id.Instrs[len(id.Instrs)-1].(*ssa.If)
						if !ok {
							continue
						}
						bo, ok := iff.Cond.(*ssa.BinOp)
						if !ok || (bo.Op != token.EQL && bo.Op != token.NEQ) || !isStringType(bo.X.Type()) {
							continue
						}
						if !fileNameValue(bo.X) && !fileNameValue(bo.Y) {
							continue // a comparison of names, not of files
						}
						eq := id.Succs[0]
						if bo.Op == token.NEQ {
							eq = id.Succs[1]
						}
						if eq == d && len(eq.Preds) == 1 {
							guarded = true
						}
					}
					if guarded {
						obs = append(obs, Ob{Key: key, Site: c.Pos(call.Pos()), Verdict: OK, Note: "after a file-equality test"})
					} else {
						obs = append(obs, Ob{Key: key, Site: c.Pos(call.Pos()), Verdict: VIOLATION,
							Note: "two locations are compared for identity on a path that has not established that they belong to the same file: a declaration at the same line and column of another file matches"})
					}
				}
			}
		}
		obs = append(obs, floor("LOC/identity-has-file", "calls of CompareTwoLoc", n, 3))
		return obs
	},
}

// fileNameValue: v is read from a field or is a parameter whose name says it is a file (FileName, fileName,
// StrFile, luaInFile ...)
func fileNameValue(v ssa.Value) bool {
	isFile := func(name string) bool {
		l := []byte(name)
		for i := range l {
			if l[i] >= 'A' && l[i] <= 'Z' {
				l[i] += 'a' - 'A'
			}
		}
		s := string(l)
		for i := 0; i+4 <= len(s); i++ {
			if s[i:i+4] == "file" {
				return true
			}
		}
		return false
	}
	switch x := v.(type) {
	case *ssa.Parameter:
		return isFile(x.Name())
	case *ssa.UnOp:
		if x.Op == token.MUL {
			if fa, ok := x.X.(*ssa.FieldAddr); ok {
				return isFile(fieldName(fa.X.Type(), fa.Field))
			}
		}
	case *ssa.Field:
		return isFile(structFieldName(x.X.Type(), x.Field))
	}
	return false
}

// ALIAS/struct-copy: a record with map fields is not cloned by assignment.

var ruleStructCopy = &Rule{
	Name:    "ALIAS/struct-copy-shares-map",
	NeedSSA: true,
	Text: "no module function makes a new heap object by copying a whole struct value out of another object (`n := *p; q = &n`) when the struct type has map-typed fields, " +
		"unless every map field of the copy is given a map of its own in the same function: the copy and the original share the maps, so what is added to one record " +
		"(the fields of one ---@class of a comment block) shows up in the other",
	Run: func(c *Ctx) []Ob {
		var obs []Ob
		nTypes := map[string]bool{}
		n := 0
		for _, f := range c.ModFns() {
			cnt := 0
			for _, b := range f.Blocks {
				for _, ins := range b.Instrs {
					st, ok := ins.(*ssa.Store)
					if !ok {
						continue
					}
					dst, ok := st.Addr.(*ssa.Alloc)
					if !ok || !dst.Heap {
						continue
					}
					ld, ok := st.Val.(*ssa.UnOp)
					if !ok || ld.Op != token.MUL {
						continue
					}
					if _, fromLocal := ld.X.(*ssa.Alloc); fromLocal {
						continue
					}
					nt, ok := types.Unalias(ld.Type()).(*types.Named)
					if !ok || nt.Obj().Pkg() == nil || !hasPrefixPath(nt.Obj().Pkg().Path()) {
						continue
					}
					stt, ok := nt.Underlying().(*types.Struct)
					if !ok {
						continue
					}
					var mapFields []int
					for i := 0; i < stt.NumFields(); i++ {
						if _, isMap := types.Unalias(stt.Field(i).Type()).Underlying().(*types.Map); isMap {
							mapFields = append(mapFields, i)
						}
					}
					if len(mapFields) == 0 {
						continue
					}
					nTypes[nt.Obj().Name()] = true
					n++
					cnt++
					key := fmt.Sprintf("ALIAS/struct-copy:%s:%s#%d", fnKey(f), nt.Obj().Name(), cnt)
					// every map field of the copy re-made?
					remade := map[int]bool{}
					if refs := dst.Referrers(); refs != nil {
						for _, r := range *refs {
							fa, ok := r.(*ssa.FieldAddr)
							if !ok {
								continue
							}
							if frefs := fa.Referrers(); frefs != nil {
								for _, rr := range *frefs {
									if s2, ok := rr.(*ssa.Store); ok && s2.Addr == ssa.Value(fa) {
										if _, isMake := s2.Val.(*ssa.MakeMap); isMake {
											remade[fa.Field] = true
										}
									}
								}
							}
						}
					}
					all := true
					for _, i := range mapFields {
						if !remade[i] {
							all = false
						}
					}
					if all {
						obs = append(obs, Ob{Key: key, Site: c.Pos(st.Pos()), Verdict: OK, Note: "every map field of the copy gets its own map"})
					} else {
						obs = append(obs, Ob{Key: key, Site: c.Pos(st.Pos()), Verdict: VIOLATION,
							Note: "a new " + nt.Obj().Name() + " is made by copying another one: both records share the same map(s); entries added to one appear in the other"})
					}
				}
			}
		}
		c.Stats["struct_copy_sites"] = n
		// the rule is about an absence: report what was looked at
		cand := 0
		for _, p := range c.Pkgs {
			sc := p.Types.Scope()
			for _, nm := range sc.Names() {
				tn, ok := sc.Lookup(nm).(*types.TypeName)
				if !ok {
					continue
				}
				stt, ok := tn.Type().Underlying().(*types.Struct)
				if !ok {
					continue
				}
				for i := 0; i < stt.NumFields(); i++ {
					if _, isMap := types.Unalias(stt.Field(i).Type()).Underlying().(*types.Map); isMap {
						cand++
						break
					}
				}
			}
		}
		c.Stats["struct_types_with_map_fields"] = cand
		obs = append(obs, Ob{Key: "ALIAS/struct-copy:types-examined", Verdict: map[bool]string{true: OK, false: VACUOUS}[cand >= 10],
			Note: fmt.Sprintf("%d struct types of the module have map fields; %d whole-value copies of such a struct into a new heap object found", cand, n)})
		return obs
	},
}

func hasPrefixPath(p string) bool {
	return p == modPath || (len(p) > len(modPath) && p[:len(modPath)+1] == modPath+"/")
}

// CFG/G11: a table consulted with the elements of a list is the table that was filled from that list.

var ruleCfgG11 = &Rule{
	Name:    "CFG/G11-companion-table",
	NeedSSA: true,
	Text: "in the methods of common.GlobalConfig, a map field T read with a key that is the loop element of a range over another collection field C of the same object " +
		"(T[k] with k ranging over C) is a companion of C: some function writes T[x] and adds x to C (C[x] = … or C = append(C, x)) with the same value x. " +
		"Reading a different table that happens to have the same type (the compiled patterns of the ignore-file list instead of those of the per-file type rules) " +
		"finds nothing for the keys of C, and the rule those keys stand for is silently not applied",
	Run: func(c *Ctx) []Ob {
		var obs []Ob
		gcField := func(v ssa.Value) (string, bool) { // v = load of g.<field>
			ld, ok := v.(*ssa.UnOp)
			if !ok || ld.Op != token.MUL {
				return "", false
			}
			fa, ok := ld.X.(*ssa.FieldAddr)
			if !ok {
				return "", false
			}
			if p, n := namedPkgName(fa.X.Type()); p != commonPkg || n != "GlobalConfig" {
				return "", false
			}
			return fieldName(fa.X.Type(), fa.Field), true
		}
		// co-writes: function -> field -> set of key access paths
		type kw struct{ field, key string }
		writes := map[*ssa.Function]map[kw]bool{}
		add := func(f *ssa.Function, field string, key ssa.Value) {
			if writes[f] == nil {
				writes[f] = map[kw]bool{}
			}
			k := apath(key, 0)
			if cst, ok := key.(*ssa.Const); ok && cst.Value != nil {
				k = "const:" + cst.Value.ExactString()
			}
			writes[f][kw{field, k}] = true
		}
		for _, f := range c.ModFns() {
			for _, b := range f.Blocks {
				for _, ins := range b.Instrs {
					switch x := ins.(type) {
					case *ssa.MapUpdate:
						if fld, ok := gcField(x.Map); ok {
							add(f, fld, x.Key)
						}
					case *ssa.Store:
						fa, ok := x.Addr.(*ssa.FieldAddr)
						if !ok {
							continue
						}
						if p, n := namedPkgName(fa.X.Type()); p != commonPkg || n != "GlobalConfig" {
							continue
						}
						if call := appendCall(x.Val); call != nil && len(call.Call.Args) == 2 {
							// append(C, x): the variadic slice holds x
							if sl, ok := call.Call.Args[1].(*ssa.Slice); ok {
								if al, ok := sl.X.(*ssa.Alloc); ok {
									if refs := al.Referrers(); refs != nil {
										for _, r := range *refs {
											if ia, ok := r.(*ssa.IndexAddr); ok {
												if irefs := ia.Referrers(); irefs != nil {
													for _, rr := range *irefs {
														if st, ok := rr.(*ssa.Store); ok && st.Addr == ssa.Value(ia) {
															add(f, fieldName(fa.X.Type(), fa.Field), st.Val)
														}
													}
												}
											}
										}
									}
								}
							}
						}
					}
				}
			}
		}
		companions := func(t, cfield string) bool {
			for _, m := range writes {
				for k := range m {
					if k.field != t {
						continue
					}
					if m[kw{cfield, k.key}] {
						return true
					}
				}
			}
			return false
		}
		n := 0
		for _, f := range c.ModFns() {
			if f.Signature.Recv() == nil {
				continue
			}
			if p, nm := namedPkgName(f.Signature.Recv().Type()); p != commonPkg || nm != "GlobalConfig" {
				continue
			}
			cnt := 0
			for _, b := range f.Blocks {
				for _, ins := range b.Instrs {
					lk, ok := ins.(*ssa.Lookup)
					if !ok {
						continue
					}
					t, ok := gcField(lk.X)
					if !ok {
						continue
					}
					// the key: element of a range over another field?
					cfield := ""
					switch k := lk.Index.(type) {
					case *ssa.Extract: // key of a map range
						if nx, ok := k.Tuple.(*ssa.Next); ok && k.Index == 1 {
							if rg, ok := nx.Iter.(*ssa.Range); ok {
								cfield, _ = gcField(rg.X)
							}
						}
					case *ssa.UnOp: // element of a slice range
						if ia, ok := k.X.(*ssa.IndexAddr); ok && k.Op == token.MUL {
							cfield, _ = gcField(ia.X)
						}
					}
					if cfield == "" || cfield == t {
						continue
					}
					n++
					cnt++
					key := fmt.Sprintf("CFG/G11:%s:%s[%s]#%d", f.Name(), t, cfield, cnt)
					if companions(t, cfield) {
						obs = append(obs, Ob{Key: key, Site: c.Pos(lk.Pos()), Verdict: OK, Note: t + " is filled together with " + cfield})
					} else {
						obs = append(obs, Ob{Key: key, Site: c.Pos(lk.Pos()), Verdict: VIOLATION,
							Note: f.Name() + " looks the elements of " + cfield + " up in " + t + ", but no function ever puts an element of " + cfield + " into " + t + ": the lookup always misses (wrong table of the same type?)"})
					}
				}
			}
		}
		obs = append(obs, floor("CFG/G11-companion-table", "lookups keyed by the elements of another configuration list", n, 3))
		return obs
	},
}

// AST/else-marker: `else` is stored as a trailing `true` condition; whoever compares conditions must be able to
// tell it from a condition the user wrote.

var ruleElseMarker = &Rule{
	Name:    "AST/else-marker",
	NeedSSA: true,
	Text: "the parser stores the else branch of an if statement as one more element of IfStat.Exps (a fabricated `true`): (1) the function that fabricates it " +
		"(allocates an ast.TrueExp and builds the ast.IfStat) records the fact in a boolean field of the IfStat, with a value that is not the constant false; " +
		"(2) every function that compares two elements of IfStat.Exps with each other (common.CompExp on two loads from Exps) reads that boolean field. " +
		"Without the marker `if true then … else … end` is indistinguishable from `if true then … elseif true then … end` and is reported as a repeated condition",
	Run: func(c *Ctx) []Ob {
		var obs []Ob
		const astPkg = modPath + "/langserver/check/compiler/ast"
		isIfStat := func(t types.Type) bool {
			p, n := namedPkgName(t)
			return p == astPkg && n == "IfStat"
		}
		boolFieldOfIf := func(fa *ssa.FieldAddr) bool {
			if !isIfStat(fa.X.Type()) {
				return false
			}
			st, ok := namedOf(fa.X.Type()).Underlying().(*types.Struct)
			return ok && fa.Field < st.NumFields() && isBoolType(st.Field(fa.Field).Type())
		}
		// (1) the fabricating function
		nFab := 0
		for _, f := range c.ModFns() {
			if f.Pkg == nil || f.Pkg.Pkg.Path() != parserPkg {
				continue
			}
			fabricates, builds := false, false
			markerOK := false
			for _, b := range f.Blocks {
				for _, ins := range b.Instrs {
					if al, ok := ins.(*ssa.Alloc); ok {
						if p, n := namedPkgName(al.Type()); p == astPkg && n == "TrueExp" {
							fabricates = true
						}
						if isIfStat(al.Type()) {
							builds = true
						}
					}
					if st, ok := ins.(*ssa.Store); ok {
						if fa, ok := st.Addr.(*ssa.FieldAddr); ok && boolFieldOfIf(fa) {
							if k, isC := st.Val.(*ssa.Const); !isC || (k.Value != nil && k.Value.Kind() == constant.Bool && constant.BoolVal(k.Value)) {
								markerOK = true
							}
						}
					}
				}
			}
			if !fabricates || !builds {
				continue
			}
			nFab++
			key := "AST/else:marker-set:" + f.Name()
			if markerOK {
				obs = append(obs, Ob{Key: key, Site: c.Pos(f.Pos()), Verdict: OK, Note: "the IfStat records whether its last condition stands for an else branch"})
			} else {
				obs = append(obs, Ob{Key: key, Site: c.Pos(f.Pos()), Verdict: VIOLATION,
					Note: f.Name() + " fabricates a `true` condition for the else branch and stores it among the written conditions without marking the statement: consumers cannot tell `else` from `elseif true`"})
			}
		}
		// (2) consumers that compare conditions with each other
		nCons := 0
		for _, f := range c.ModFns() {
			fromExps := func(v ssa.Value) bool { // v = load of IfStat.Exps[i]
				ld, ok := v.(*ssa.UnOp)
				if !ok || ld.Op != token.MUL {
					return false
				}
				ia, ok := ld.X.(*ssa.IndexAddr)
				if !ok {
					return false
				}
				sl, ok := ia.X.(*ssa.UnOp)
				if !ok || sl.Op != token.MUL {
					return false
				}
				fa, ok := sl.X.(*ssa.FieldAddr)
				return ok && isIfStat(fa.X.Type()) && fieldName(fa.X.Type(), fa.Field) == "Exps"
			}
			compares, reads := false, false
			var site token.Pos
			var unbounded []string
			// the index of a compared element is a loop counter whose bound depends on the marker (a phi merging the
			// length with the length minus the else entry, or a value computed behind a test of the marker)
			markerBound := func(idx ssa.Value) (bool, bool) { // (is a bounded loop counter, bound depends on the marker)
				ph, ok := idx.(*ssa.Phi)
				if !ok || ph.Referrers() == nil {
					return false, false
				}
				for _, r := range *ph.Referrers() {
					bo, ok := r.(*ssa.BinOp)
					if !ok || (bo.Op != token.LSS && bo.Op != token.LEQ && bo.Op != token.GTR && bo.Op != token.GEQ) {
						continue
					}
					bound := bo.Y
					if bo.Y == ssa.Value(ph) {
						bound = bo.X
					}
					if bo.Referrers() == nil {
						continue
					}
					isLoopTest := false
					for _, rr := range *bo.Referrers() {
						if iff, ok := rr.(*ssa.If); ok && iff.Block() == ph.Block() {
							isLoopTest = true
						}
					}
					if !isLoopTest {
						continue
					}
					dep := false
					var walk func(v ssa.Value, d int)
					walk = func(v ssa.Value, d int) {
						if d > 4 || dep {
							return
						}
						switch x := v.(type) {
						case *ssa.Phi:
							// merged behind a branch on the marker?
							for _, p := range x.Block().Preds {
								for q := p; q != nil; q = q.Idom() {
									if iff, ok := q.Instrs[len(q.Instrs)-1].(*ssa.If); ok {
										if ld, ok := stripNot(condEdge{iff.Cond, true}).cond.(*ssa.UnOp); ok && ld.Op == token.MUL {
											if fa, ok := ld.X.(*ssa.FieldAddr); ok && boolFieldOfIf(fa) {
												dep = true
											}
										}
									}
									if q == x.Block().Idom() {
										break
									}
								}
							}
							for _, e := range x.Edges {
								walk(e, d+1)
							}
						case *ssa.BinOp:
							walk(x.X, d+1)
							walk(x.Y, d+1)
						}
					}
					walk(bound, 0)
					return true, dep
				}
				return false, false
			}
			for _, b := range f.Blocks {
				for _, ins := range b.Instrs {
					if call, ok := ins.(*ssa.Call); ok {
						if g := call.Call.StaticCallee(); g != nil && g.Name() == "CompExp" && len(call.Call.Args) == 2 &&
							fromExps(call.Call.Args[0]) && fromExps(call.Call.Args[1]) {
							compares = true
							site = call.Pos()
							for _, a := range call.Call.Args {
								idx := a.(*ssa.UnOp).X.(*ssa.IndexAddr).Index
								if counted, dep := markerBound(idx); counted && !dep {
									unbounded = append(unbounded, c.Pos(a.Pos()))
								}
							}
						}
					}
					if ld, ok := ins.(*ssa.UnOp); ok && ld.Op == token.MUL {
						if fa, ok := ld.X.(*ssa.FieldAddr); ok && boolFieldOfIf(fa) {
							reads = true
						}
					}
				}
			}
			if !compares {
				continue
			}
			nCons++
			key := "AST/else:consumer:" + fnKey(f)
			if reads && len(unbounded) > 0 {
				obs = append(obs, Ob{Key: key, Site: unbounded[0], Verdict: VIOLATION,
					Note: "one index of the pairwise comparison runs over all of IfStat.Exps although the function reads the else marker: the `true` that stands for `else` is compared with the written conditions"})
			} else if reads {
				obs = append(obs, Ob{Key: key, Site: c.Pos(site), Verdict: OK, Note: "reads the else marker"})
			} else {
				obs = append(obs, Ob{Key: key, Site: c.Pos(site), Verdict: VIOLATION,
					Note: "the conditions of an if statement are compared pairwise without looking at the else marker: the `true` that stands for `else` takes part"})
			}
		}
		obs = append(obs, floor("AST/else-marker", "fabricating parser functions + comparing consumers", nFab+nCons, 2))
		return obs
	},
}

// LEX/stale-lookahead: a decision to consume the next token is taken on a fresh look at it.

var ruleStaleLookahead = &Rule{
	Name:    "PARSE/stale-lookahead",
	NeedSSA: true,
	Text: "in the Lua parser and the annotation parser, a branch on the result of LookAheadKind() whose taken side starts by consuming a token is not separated " +
		"from that LookAheadKind() call by another call that may consume tokens: a kind read before `: Parent` was parsed says nothing about the token that follows it " +
		"(`---@generic T : Base, K` lost `K` when the two look-ahead reads of the loop were hoisted into one)",
	Run: func(c *Ctx) []Ob {
		var obs []Ob
		// consuming functions: methods of the two lexers that store the token state (NextToken*), and everything in the
		// parser packages that calls one (transitively)
		consumes := map[*ssa.Function]bool{}
		for _, f := range c.ModFns() {
			if f.Pkg == nil {
				continue
			}
			pp := f.Pkg.Pkg.Path()
			if (pp == lexerPkg || pp == annLexPkg) && len(f.Name()) >= 9 && f.Name()[:9] == "NextToken" {
				consumes[f] = true
			}
			if (pp == lexerPkg || pp == annLexPkg) && (f.Name() == "NextIdentifier" || f.Name() == "NextFieldName" || f.Name() == "NextParamName" || f.Name() == "NextTypeIdentifier") {
				consumes[f] = true
			}
		}
		for changed := true; changed; {
			changed = false
			for _, f := range c.ModFns() {
				if consumes[f] || f.Pkg == nil {
					continue
				}
				pp := f.Pkg.Pkg.Path()
				if pp != parserPkg && pp != annParPkg && pp != lexerPkg && pp != annLexPkg {
					continue
				}
				if f.Name() == "LookAheadKind" || f.Name() == "lookAheardToken" || f.Name() == "LookAheadToken" || f.Name() == "GetHeardTokenLoc" || f.Name() == "GetNowTokenLoc" ||
					f.Name() == "GetHeardLoc" || f.Name() == "GetHeardTokenStr" || f.Name() == "ErrorPrint" || f.Name() == "errorPrint" {
					continue // looking ahead does not consume for the parser (the token stays the next one)
				}
				for _, b := range f.Blocks {
					for _, ins := range b.Instrs {
						if call, ok := ins.(*ssa.Call); ok {
							if g := call.Call.StaticCallee(); g != nil && consumes[g] {
								consumes[f] = true
								changed = true
							}
						}
					}
				}
			}
		}
		isConsume := func(i ssa.Instruction) bool {
			call, ok := i.(*ssa.Call)
			if !ok {
				return false
			}
			g := call.Call.StaticCallee()
			return g != nil && consumes[g]
		}
		n := 0
		for _, f := range c.ModFns() {
			if f.Pkg == nil || (f.Pkg.Pkg.Path() != parserPkg && f.Pkg.Pkg.Path() != annParPkg) {
				continue
			}
			cnt := 0
			for _, b := range f.Blocks {
				iff, ok := b.Instrs[len(b.Instrs)-1].(*ssa.If)
				if !ok {
					continue
				}
				bo, ok := iff.Cond.(*ssa.BinOp)
				if !ok || (bo.Op != token.EQL && bo.Op != token.NEQ) {
					continue
				}
				var la *ssa.Call
				for _, v := range []ssa.Value{bo.X, bo.Y} {
					if call, ok := v.(*ssa.Call); ok {
						if g := call.Call.StaticCallee(); g != nil && g.Name() == "LookAheadKind" {
							la = call
						}
					}
				}
				if la == nil {
					continue
				}
				// the side taken when the kinds are equal starts by consuming?
				eq := b.Succs[0]
				if bo.Op == token.NEQ {
					eq = b.Succs[1]
				}
				first := false
				for _, ins := range eq.Instrs {
					if _, isCall := ins.(*ssa.Call); isCall {
						first = isConsume(ins)
						break
					}
				}
				if !first {
					continue
				}
				n++
				cnt++
				key := fmt.Sprintf("PARSE/stale-lookahead:%s#%d", fnKey(f), cnt)
				// may a consuming call execute between the look-ahead and this branch?
				stale := false
				for _, bb := range f.Blocks {
					for _, cs := range bb.Instrs {
						if !isConsume(cs) || stale {
							continue
						}
						// la ... cs ... branch, without reading the look-ahead again in between
						if len(mayFollowAvoiding(f, la, cs, la)) > 0 && len(mayFollowAvoiding(f, cs, iff, la)) > 0 {
							stale = true
						}
					}
				}
				if stale {
					obs = append(obs, Ob{Key: key, Site: c.Pos(iff.Cond.Pos()), Verdict: VIOLATION,
						Note: "the next token is consumed because an EARLIER look-ahead had this kind: tokens may have been consumed in between, so the kind tested is not that of the token consumed"})
				} else {
					obs = append(obs, Ob{Key: key, Site: c.Pos(iff.Cond.Pos()), Verdict: OK, Note: "fresh look-ahead"})
				}
			}
		}
		obs = append(obs, floor("PARSE/stale-lookahead", "consume-on-look-ahead branches", n, 30))
		return obs
	},
}

// mayFollowAvoiding: can `to` be reached from `from` without executing `avoid`? (one element: from, if yes)
func mayFollowAvoiding(f *ssa.Function, from, to, avoid ssa.Instruction) []ssa.Instruction {
	// instruction-level walk inside blocks, block-level across
	type pt struct {
		b *ssa.BasicBlock
		i int
	}
	idx := func(ins ssa.Instruction) pt {
		for i, x := range ins.Block().Instrs {
			if x == ins {
				return pt{ins.Block(), i}
			}
		}
		return pt{ins.Block(), 0}
	}
	start := idx(from)
	seen := map[*ssa.BasicBlock]bool{}
	var scan func(b *ssa.BasicBlock, i int) bool
	scan = func(b *ssa.BasicBlock, i int) bool {
		for ; i < len(b.Instrs); i++ {
			if b.Instrs[i] == avoid {
				return false
			}
			if b.Instrs[i] == to {
				return true
			}
		}
		for _, s := range b.Succs {
			if seen[s] {
				continue
			}
			seen[s] = true
			if scan(s, 0) {
				return true
			}
		}
		return false
	}
	if scan(start.b, start.i+1) {
		return []ssa.Instruction{from}
	}
	return nil
}

// PARSE/switch-default: a parser that dispatches on the next token says what happens for every token.

var ruleSwitchDefault = &Rule{
	Name: "PARSE/lookahead-switch-default",
	Text: "every `switch l.LookAheadKind() { … }` of the Lua parser has a default clause, or is followed in its block by the statements of the general case: the case list names the tokens a construct may start with, and whatever " +
		"else comes next must either be handled as the general case or be reported — a switch without default silently accepts it " +
		"(`obj:name` without arguments parsed as a complete call)",
	Run: func(c *Ctx) []Ob {
		var obs []Ob
		pkg := c.ByPath[parserPkg]
		if pkg == nil {
			return []Ob{{Key: "PARSE/switch-default:slot", Verdict: UNDECIDED, Note: "parser package not loaded"}}
		}
		n := 0
		for _, file := range pkg.Syntax {
			for _, decl := range file.Decls {
				fd, ok := decl.(*ast.FuncDecl)
				if !ok || fd.Body == nil {
					continue
				}
				cnt := 0
				// what follows a switch in its block: a switch without default whose general case is the code after it
				// (early-return cases, then the common path) is complete
				followed := map[*ast.SwitchStmt]bool{}
				ast.Inspect(fd.Body, func(nd ast.Node) bool {
					blk, ok := nd.(*ast.BlockStmt)
					if !ok {
						return true
					}
					for i, st := range blk.List {
						sw, ok := st.(*ast.SwitchStmt)
						if !ok {
							continue
						}
						for _, nx := range blk.List[i+1:] {
							if r, isRet := nx.(*ast.ReturnStmt); isRet && len(r.Results) == 0 {
								continue
							}
							if _, isRet := nx.(*ast.ReturnStmt); isRet {
								continue
							}
							followed[sw] = true
						}
					}
					return true
				})
				ast.Inspect(fd.Body, func(nd ast.Node) bool {
					sw, ok := nd.(*ast.SwitchStmt)
					if !ok || sw.Tag == nil {
						return true
					}
					call, ok := sw.Tag.(*ast.CallExpr)
					if !ok {
						return true
					}
					fn := calleeOf(pkg.TypesInfo, call)
					if fn == nil || fn.Name() != "LookAheadKind" {
						return true
					}
					n++
					cnt++
					key := fmt.Sprintf("PARSE/switch-default:%s#%d", fd.Name.Name, cnt)
					hasDefault := false
					for _, st := range sw.Body.List {
						if cc, ok := st.(*ast.CaseClause); ok && cc.List == nil {
							hasDefault = true
						}
					}
					if hasDefault {
						obs = append(obs, Ob{Key: key, Site: c.Pos(sw.Pos()), Verdict: OK})
					} else if followed[sw] {
						obs = append(obs, Ob{Key: key, Site: c.Pos(sw.Pos()), Verdict: OK, Note: "no default clause: the statements after the switch are the general case"})
					} else {
						obs = append(obs, Ob{Key: key, Site: c.Pos(sw.Pos()), Verdict: VIOLATION,
							Note: fd.Name.Name + " dispatches on the next token without a default clause: a token that is in no case list is neither handled nor reported"})
					}
					return true
				})
			}
		}
		obs = append(obs, floor("PARSE/lookahead-switch-default", "switches over the look-ahead kind in the parser", n, 6))
		return obs
	},
}

// LOC/line-terminators: whoever counts lines counts them the same way.

var lineCounters = [][3]string{ // pkg path, receiver, function: the position <-> offset converters
	{lspcommonPkg, "", "OffsetForPosition"},
	{lspcommonPkg, "", "offsetForStartAndEnd"},
}

var ruleLineTerminators = &Rule{
	Name:    "LOC/line-terminators",
	NeedSSA: true,
	Text: "the position-to-offset converters (lspcommon.OffsetForPosition, offsetForStartAndEnd) compare the bytes of the document with the same set of line-terminator " +
		"characters as the lexer's newline predicate (lexer.isNewLine: '\\n' and '\\r'): a line number computed by the one and consumed by the other refers to the same line " +
		"only if both end lines at the same bytes (LSP: \"\\n\", \"\\r\\n\" and \"\\r\")",
	Run: func(c *Ctx) []Ob {
		var obs []Ob
		setOf := func(f *ssa.Function) map[int64]bool {
			out := map[int64]bool{}
			if f == nil {
				return out
			}
			// the function, its closures, and the private helpers of its package it calls (a line-end test may be
			// extracted into one)
			var fns []*ssa.Function
			seenFn := map[*ssa.Function]bool{}
			var collect func(g *ssa.Function, d int)
			collect = func(g *ssa.Function, d int) {
				if g == nil || seenFn[g] || d > 2 || g.Blocks == nil {
					return
				}
				seenFn[g] = true
				fns = append(fns, g)
				for _, a := range g.AnonFuncs {
					collect(a, d)
				}
				for _, b := range g.Blocks {
					for _, ins := range b.Instrs {
						if call, ok := ins.(*ssa.Call); ok {
							if h := call.Call.StaticCallee(); h != nil && h.Pkg != nil && f.Pkg != nil && h.Pkg == f.Pkg {
								collect(h, d+1)
							}
						}
					}
				}
			}
			collect(f, 0)
			for _, g := range fns {
				for _, b := range g.Blocks {
					for _, ins := range b.Instrs {
						bo, ok := ins.(*ssa.BinOp)
						if !ok || (bo.Op != token.EQL && bo.Op != token.NEQ) {
							continue
						}
						for _, v := range []ssa.Value{bo.X, bo.Y} {
							if k, ok := v.(*ssa.Const); ok && k.Value != nil && k.Value.Kind() == constant.Int {
								if n, ok := constant.Int64Val(k.Value); ok && (n == 10 || n == 13) {
									if bt, ok := k.Type().Underlying().(*types.Basic); ok && (bt.Kind() == types.Uint8 || bt.Kind() == types.Int32 || bt.Kind() == types.UntypedRune) {
										out[n] = true
									}
								}
							}
						}
					}
				}
			}
			return out
		}
		ref := setOf(c.SSAFunc(lexerPkg, "", "isNewLine"))
		if len(ref) == 0 {
			return []Ob{{Key: "LOC/line-terminators:slot", Verdict: UNDECIDED, Note: "lexer.isNewLine not found or compares with no line terminator"}}
		}
		name := func(m map[int64]bool) string {
			s := ""
			if m[10] {
				s += `'\n' `
			}
			if m[13] {
				s += `'\r' `
			}
			if s == "" {
				s = "(none) "
			}
			return s
		}
		n := 0
		for _, lc := range lineCounters {
			f := c.SSAFunc(lc[0], lc[1], lc[2])
			key := "LOC/line-terminators:" + lc[2]
			if f == nil {
				obs = append(obs, Ob{Key: key, Verdict: UNDECIDED, Note: "slot unresolved: " + lc[2]})
				continue
			}
			n++
			got := setOf(f)
			if got[10] == ref[10] && got[13] == ref[13] {
				obs = append(obs, Ob{Key: key, Site: c.Pos(f.Pos()), Verdict: OK, Note: "line terminators: " + name(got)})
			} else {
				obs = append(obs, Ob{Key: key, Site: c.Pos(f.Pos()), Verdict: VIOLATION,
					Note: lc[2] + " ends lines at " + name(got) + "but the lexer at " + name(ref) + ": in a document that uses the other terminator, line numbers of requests and of analysis results refer to different lines"})
			}
		}
		obs = append(obs, floor("LOC/line-terminators", "position converters compared with the lexer", n, 2))
		return obs
	},
}

// LOC/outline-range-has-name: an outline entry's range is never the function's range alone.

var ruleOutlineFuncRange = &Rule{
	Name:    "LOC/outline-func-range",
	NeedSSA: true,
	Text: "no assignment to FileSymbolStruct.Loc (the range of a document-symbol entry) copies FuncInfo.Loc (the range of a function expression) directly: " +
		"the function's range starts at the `function` keyword, so for `name = function() end`, `local name = function() end` and `t.f = function() end` " +
		"it does not contain the declaring identifier; the value must come from the declaring variable's own Loc or from a helper that is given both",
	Run: func(c *Ctx) []Ob {
		var obs []Ob
		n := 0
		fromFuncLoc := func(v ssa.Value) bool {
			ld, ok := v.(*ssa.UnOp)
			if !ok || ld.Op != token.MUL {
				return false
			}
			fa, ok := ld.X.(*ssa.FieldAddr)
			if !ok || fieldName(fa.X.Type(), fa.Field) != "Loc" {
				return false
			}
			_, nm := namedPkgName(fa.X.Type())
			return nm == "FuncInfo"
		}
		for _, f := range c.ModFns() {
			cnt := 0
			for _, b := range f.Blocks {
				for _, ins := range b.Instrs {
					st, ok := ins.(*ssa.Store)
					if !ok {
						continue
					}
					fa, ok := st.Addr.(*ssa.FieldAddr)
					if !ok || fieldName(fa.X.Type(), fa.Field) != "Loc" {
						continue
					}
					if _, nm := namedPkgName(fa.X.Type()); nm != "FileSymbolStruct" {
						continue
					}
					n++
					cnt++
					key := fmt.Sprintf("LOC/outline-func-range:%s#%d", fnKey(f), cnt)
					if fromFuncLoc(st.Val) {
						obs = append(obs, Ob{Key: key, Site: c.Pos(st.Pos()), Verdict: VIOLATION,
							Note: "the outline entry takes the range of the function expression alone: it starts at the `function` keyword and does not contain the name when the function is bound by assignment"})
					} else {
						obs = append(obs, Ob{Key: key, Site: c.Pos(st.Pos()), Verdict: OK})
					}
				}
			}
		}
		obs = append(obs, floor("LOC/outline-func-range", "assignments to the range of an outline entry", n, 6))
		return obs
	},
}

// LOC/symbol-file-pairing: a (file, location) pair comes from one variable.

var ruleSymbolFilePairing = &Rule{
	Name:    "LOC/symbol-file-pairing",
	NeedSSA: true,
	Text: "where a FileSymbolStruct is built with both a FileName and a Loc, and the Loc is read from a VarInfo (v.Loc), the FileName is read from the same VarInfo " +
		"(v.FileName, possibly with a fallback): a location is a place inside ONE file, and a variable reached through another file's table " +
		"(a member added to a global table from elsewhere) is not declared in the file being scanned. Also: the loop that lists the members of a global table " +
		"under it in FileResult.FindAllSymbol tests the member's FileName, so the outline of a file only lists what that file declares",
	Run: func(c *Ctx) []Ob {
		var obs []Ob
		n := 0
		varInfoField := func(v ssa.Value, field string) (ssa.Value, bool) { // v = load(v0.<field>) with v0 *VarInfo
			ld, ok := v.(*ssa.UnOp)
			if !ok || ld.Op != token.MUL {
				return nil, false
			}
			fa, ok := ld.X.(*ssa.FieldAddr)
			if !ok || fieldName(fa.X.Type(), fa.Field) != field {
				return nil, false
			}
			if _, nm := namedPkgName(fa.X.Type()); nm != "VarInfo" {
				return nil, false
			}
			return fa.X, true
		}
		var derivesFrom func(v ssa.Value, owner ssa.Value, d int) bool
		derivesFrom = func(v ssa.Value, owner ssa.Value, d int) bool {
			if d > 6 {
				return false
			}
			if o, ok := varInfoField(v, "FileName"); ok && o == owner {
				return true
			}
			if phi, ok := v.(*ssa.Phi); ok {
				for _, e := range phi.Edges {
					if derivesFrom(e, owner, d+1) {
						return true
					}
				}
			}
			return false
		}
		for _, f := range c.ModFns() {
			cnt := 0
			for _, b := range f.Blocks {
				for _, ins := range b.Instrs {
					al, ok := ins.(*ssa.Alloc)
					if !ok {
						continue
					}
					if _, nm := namedPkgName(al.Type()); nm != "FileSymbolStruct" {
						continue
					}
					var locOwner ssa.Value
					var fileVal ssa.Value
					if refs := al.Referrers(); refs != nil {
						for _, r := range *refs {
							fa, ok := r.(*ssa.FieldAddr)
							if !ok {
								continue
							}
							if frefs := fa.Referrers(); frefs != nil {
								for _, rr := range *frefs {
									st, ok := rr.(*ssa.Store)
									if !ok || st.Addr != ssa.Value(fa) {
										continue
									}
									switch fieldName(fa.X.Type(), fa.Field) {
									case "Loc":
										if o, ok := varInfoField(st.Val, "Loc"); ok && locOwner == nil {
											locOwner = o
										}
									case "FileName":
										if fileVal == nil {
											fileVal = st.Val
										}
									}
								}
							}
						}
					}
					if locOwner == nil || fileVal == nil {
						continue
					}
					n++
					cnt++
					key := fmt.Sprintf("LOC/symbol-file-pairing:%s#%d", fnKey(f), cnt)
					if derivesFrom(fileVal, locOwner, 0) {
						obs = append(obs, Ob{Key: key, Site: c.Pos(al.Pos()), Verdict: OK, Note: "file and location are read from the same variable"})
					} else {
						obs = append(obs, Ob{Key: key, Site: c.Pos(al.Pos()), Verdict: VIOLATION,
							Note: "the entry's location is read from a variable but its file is not: a variable reached through another file's table is reported at its line and column in the wrong file"})
					}
				}
			}
		}
		// the member loop of FindAllSymbol tests the member's file
		fas := c.SSAFunc(resultsPkg, "FileResult", "FindAllSymbol")
		if fas == nil {
			obs = append(obs, Ob{Key: "LOC/symbol-file-pairing:FindAllSymbol:slot", Verdict: UNDECIDED, Note: "slot unresolved: FileResult.FindAllSymbol"})
		} else {
			// calls of FindAllVar on a member must be dominated by a string comparison involving the member's FileName
			cnt := 0
			for _, b := range fas.Blocks {
				for _, ins := range b.Instrs {
					call, ok := ins.(*ssa.Call)
					if !ok {
						continue
					}
					g := call.Call.StaticCallee()
					if g == nil || g.Name() != "FindAllVar" || len(call.Call.Args) == 0 {
						continue
					}
					member := call.Call.Args[0]
					cnt++
					n++
					key := fmt.Sprintf("LOC/symbol-file-pairing:FindAllSymbol:members#%d", cnt)
					guarded := false
					for d := b; d != nil && !guarded; d = d.Idom() {
						id := d.Idom()
						if id == nil {
							break
						}
						iff, ok := id.Instrs[len(id.Instrs)-1].(*ssa.If)
						if !ok {
							continue
						}
						bo, ok := iff.Cond.(*ssa.BinOp)
						if !ok || (bo.Op != token.EQL && bo.Op != token.NEQ) || !isStringType(bo.X.Type()) {
							continue
						}
						for _, v := range []ssa.Value{bo.X, bo.Y} {
							if o, ok := varInfoField(v, "FileName"); ok && o == member {
								eq := id.Succs[0]
								if bo.Op == token.NEQ {
									eq = id.Succs[1]
								}
								if eq == d || eq.Dominates(b) {
									guarded = true
								}
							}
						}
					}
					if guarded {
						obs = append(obs, Ob{Key: key, Site: c.Pos(call.Pos()), Verdict: OK, Note: "only members declared in this file are listed"})
					} else {
						obs = append(obs, Ob{Key: key, Site: c.Pos(call.Pos()), Verdict: VIOLATION,
							Note: "the outline lists the members of a table without testing which file declares them: members added by other files appear with ranges outside this document"})
					}
				}
			}
		}
		obs = append(obs, floor("LOC/symbol-file-pairing", "symbol entries with file and location + member loops", n, 3))
		return obs
	},
}

// SCOPE/S10: a for loop's control variables are not visible in the loop's own header.

var ruleScopeS10 = &Rule{
	Name:    "SCOPE/S10-loop-header",
	NeedSSA: true,
	Text: "the analysis functions that declare the control variables of a for statement (a function with an *ast.ForNumStat / *ast.ForInStat parameter that calls AddLocVar) " +
		"store the range of the loop's header expressions into the variable (VarInfo.LoopHeadLoc), and VarInfo.IsCorrectPosition — the visibility test of every position-based " +
		"lookup — tests the position against that range (IsContainLoc on LoopHeadLoc) before it can answer true: `for k, v in pairs(v) do` iterates over the OUTER v",
	Run: func(c *Ctx) []Ob {
		var obs []Ob
		n := 0
		for _, f := range c.ModFns() {
			isFor := false
			for _, p := range f.Params {
				if _, nm := namedPkgName(p.Type()); nm == "ForNumStat" || nm == "ForInStat" {
					isFor = true
				}
			}
			if !isFor {
				continue
			}
			adds := 0
			stored := false
			gatedBy := ""
			isHeadStore := func(ins ssa.Instruction) bool {
				st, ok := ins.(*ssa.Store)
				if !ok {
					return false
				}
				fa, ok := st.Addr.(*ssa.FieldAddr)
				if !ok || fieldName(fa.X.Type(), fa.Field) != "LoopHeadLoc" {
					return false
				}
				_, nm := namedPkgName(fa.X.Type())
				return nm == "VarInfo"
			}
			// the store may depend only on the header expression being there (a length test) and having a location
			// (IsInitialLoc), and on the loop over the names it sits in
			var checkGatesD func(g *ssa.Function, b *ssa.BasicBlock, depth int)
			checkGates := func(g *ssa.Function, b *ssa.BasicBlock) { checkGatesD(g, b, 0) }
			checkGatesD = func(g *ssa.Function, b *ssa.BasicBlock, depth int) {
				loops := allLoops(g)
				for _, e0 := range dominatingEdges(b) {
					e := stripNot(e0)
					okCond := false
					switch x := e.cond.(type) {
					case *ssa.Phi:
						// a flag computed once in front of the loop (`hasHead := false; if len(...) > 0 { if !loc.IsInitialLoc() { …; hasHead = true } }`):
						// it is true only where it was set, so the blocks that set it stand for the gate
						if depth < 2 {
							okCond = true
							for i, pe := range x.Edges {
								k, isC := pe.(*ssa.Const)
								if !isC || k.Value == nil || k.Value.Kind() != constant.Bool {
									okCond = false
									break
								}
								if constant.BoolVal(k.Value) && i < len(x.Block().Preds) {
									checkGatesD(g, x.Block().Preds[i], depth+1)
								}
							}
						}
					case *ssa.Call:
						if h := x.Call.StaticCallee(); h != nil && h.Name() == "IsInitialLoc" {
							okCond = true
						}
					case *ssa.BinOp:
						if _, isLen := isLenCall(x.X); isLen {
							okCond = true
						}
						if _, isLen := isLenCall(x.Y); isLen {
							okCond = true
						}
						if ref := x.Referrers(); ref != nil {
							for _, r := range *ref {
								if iff, ok := r.(*ssa.If); ok {
									for _, l := range loops {
										if l.header == iff.Block() {
											okCond = true // the condition of the loop itself
										}
									}
								}
							}
						}
					}
					if !okCond {
						gatedBy = c.Pos(e.cond.Pos())
					}
				}
			}
			for _, b := range f.Blocks {
				for _, ins := range b.Instrs {
					if call, ok := ins.(*ssa.Call); ok {
						g := call.Call.StaticCallee()
						if g != nil && g.Name() == "AddLocVar" {
							adds++
						}
						// a private helper that records the range (setLoopHeadLoc(locVar, firstExp, block))
						if g != nil && g.Blocks != nil && c.IsModFn(g) && g.Pkg == f.Pkg {
							for _, gb := range g.Blocks {
								for _, gi := range gb.Instrs {
									if isHeadStore(gi) {
										stored = true
										checkGates(g, gb)
										checkGates(f, b)
									}
								}
							}
						}
					}
					if isHeadStore(ins) {
						stored = true
						checkGates(f, b)
					}
				}
			}
			if adds == 0 {
				continue
			}
			n++
			key := "SCOPE/S10:" + f.Name() + ":header-range"
			if stored && gatedBy != "" {
				obs = append(obs, Ob{Key: key, Site: gatedBy, Verdict: VIOLATION,
					Note: f.Name() + " records the loop's header range only under a further condition (" + gatedBy + "): for the other loops the control variables are visible inside their own header expressions"})
			} else if stored {
				obs = append(obs, Ob{Key: key, Site: c.Pos(f.Pos()), Verdict: OK})
			} else {
				obs = append(obs, Ob{Key: key, Site: c.Pos(f.Pos()), Verdict: VIOLATION,
					Note: f.Name() + " declares the control variables of a for loop without recording the loop's header range: position-based lookups see them inside the header expressions"})
			}
		}
		icp := c.SSAFunc(commonPkg, "VarInfo", "IsCorrectPosition")
		if icp == nil {
			obs = append(obs, Ob{Key: "SCOPE/S10:IsCorrectPosition:slot", Verdict: UNDECIDED, Note: "slot unresolved"})
		} else {
			n++
			isHeadTest := func(i ssa.Instruction) bool {
				call, ok := i.(*ssa.Call)
				if !ok {
					return false
				}
				g := call.Call.StaticCallee()
				if g == nil || g.Name() != "IsContainLoc" || len(call.Call.Args) == 0 {
					return false
				}
				ld, ok := call.Call.Args[0].(*ssa.UnOp)
				if !ok || ld.Op != token.MUL {
					return false
				}
				fa, ok := ld.X.(*ssa.FieldAddr)
				return ok && fieldName(fa.X.Type(), fa.Field) == "LoopHeadLoc"
			}
			isRetTrue := func(i ssa.Instruction) bool {
				ret, ok := i.(*ssa.Return)
				if !ok || len(ret.Results) != 1 {
					return false
				}
				k, ok := retOperand(ret, 0).(*ssa.Const)
				return ok && k.Value != nil && k.Value.Kind() == constant.Bool && constant.BoolVal(k.Value)
			}
			// every `return true` must be preceded, on every path, by the header test — unless the header range is unset
			// (the IsInitialLoc test guards the call): accept "the function contains the test and no return true precedes it"
			has := false
			for _, b := range icp.Blocks {
				for _, ins := range b.Instrs {
					if isHeadTest(ins) {
						has = true
					}
				}
			}
			early := mayFollow(icp, isRetTrue, isHeadTest) // a header test after a return true is impossible; used for symmetry
			_ = early
			bad := false
			if has {
				// no `return true` may be reachable from the entry without passing the block that decides whether to test
				for _, b := range icp.Blocks {
					for _, ins := range b.Instrs {
						if !isRetTrue(ins) {
							continue
						}
						ok := false
						for _, hb := range icp.Blocks {
							for _, hi := range hb.Instrs {
								if isHeadTest(hi) {
									// the block that guards the test (its predecessor with the IsInitialLoc branch) dominates the return
									for _, p := range hb.Preds {
										if p.Dominates(b) {
											ok = true
										}
									}
									if hb.Dominates(b) {
										ok = true
									}
								}
							}
						}
						if !ok {
							bad = true
						}
					}
				}
			}
			key := "SCOPE/S10:IsCorrectPosition:header-test"
			if has && !bad {
				obs = append(obs, Ob{Key: key, Site: c.Pos(icp.Pos()), Verdict: OK})
			} else {
				obs = append(obs, Ob{Key: key, Site: c.Pos(icp.Pos()), Verdict: VIOLATION,
					Note: "IsCorrectPosition can answer true without having tested the position against the loop header of a for-loop variable"})
			}
		}
		obs = append(obs, floor("SCOPE/S10-loop-header", "for-statement declarers + the visibility test", n, 3))
		return obs
	},
}

// OUTLINE/descend: who lists the members of a table also lists the members of those members.

var ruleOutlineDescend = &Rule{
	Name:    "OUTLINE/descend",
	NeedSSA: true,
	Text: "a function that produces a symbol entry for a table member — it receives a *VarInfo (receiver) or a map[string]*VarInfo (the members) and builds a FileSymbolStruct " +
		"or calls resultSorter.collect for it — also walks that member's own SubMaps by calling itself: tables nest to any depth, and `function t.a.f() end` is a " +
		"function declared in the file like `function t.f() end`",
	Run: func(c *Ctx) []Ob {
		var obs []Ob
		n := 0
		descends := map[*ssa.Function]bool{}
		var wrappers, pending []*ssa.Function
		for _, f := range c.ModFns() {
			if len(f.Params) == 0 || f.Blocks == nil {
				continue
			}
			// member-shaped input
			memberIn := false
			for _, p := range f.Params {
				t := types.Unalias(p.Type())
				if _, nm := namedPkgName(t); nm == "VarInfo" && p == f.Params[0] && f.Signature.Recv() != nil {
					memberIn = true
				}
				if m, ok := t.Underlying().(*types.Map); ok {
					if _, nm := namedPkgName(m.Elem()); nm == "VarInfo" {
						memberIn = true
					}
				}
			}
			if !memberIn {
				continue
			}
			emits, recursesOnSub := false, false
			for _, b := range f.Blocks {
				for _, ins := range b.Instrs {
					switch x := ins.(type) {
					case *ssa.Alloc:
						if _, nm := namedPkgName(x.Type()); nm == "FileSymbolStruct" {
							emits = true
						}
					case *ssa.Call:
						g := x.Call.StaticCallee()
						if g != nil && g.Name() == "collect" && len(x.Call.Args) >= 4 {
							// collect(name, file, prefix, ...): a member entry when the prefix is the name of the table the
							// caller was given (a string parameter of its own, possibly extended)
							pv := x.Call.Args[3]
							for d := 0; d < 4; d++ {
								if bo, ok := pv.(*ssa.BinOp); ok && bo.Op == token.ADD {
									pv = bo.X
									continue
								}
								break
							}
							if _, isPar := pv.(*ssa.Parameter); isPar {
								emits = true
							}
						}
						if g == f {
							// some argument derives from a SubMaps field
							for _, a := range x.Call.Args {
								v := a
								for d := 0; d < 6 && v != nil; d++ {
									ld, ok := v.(*ssa.UnOp)
									if ok && ld.Op == token.MUL {
										if fa, ok := ld.X.(*ssa.FieldAddr); ok && fieldName(fa.X.Type(), fa.Field) == "SubMaps" {
											recursesOnSub = true
										}
										v = ld.X
										continue
									}
									if ex, ok := v.(*ssa.Extract); ok { // element of a range over SubMaps
										if nx, ok := ex.Tuple.(*ssa.Next); ok {
											if rg, ok := nx.Iter.(*ssa.Range); ok {
												v = rg.X
												continue
											}
										}
									}
									break
								}
							}
						}
					}
				}
			}
			if !emits {
				continue
			}
			// only functions that take the member NAME too (a string parameter): the entry builders, not helpers
			hasName := false
			for _, p := range f.Params {
				if isStringType(p.Type()) {
					hasName = true
				}
			}
			if !hasName {
				continue
			}
			n++
			key := "OUTLINE/descend:" + fnKey(f)
			if recursesOnSub {
				obs = append(obs, Ob{Key: key, Site: c.Pos(f.Pos()), Verdict: OK, Note: "descends into the member's own members"})
				descends[f] = true
			} else if soleWrapper(f) {
				n--
				wrappers = append(wrappers, f)
			} else {
				pending = append(pending, f)
			}
		}
		// a wrapper of a descending builder descends; a builder that obtains every member's entry from a descending
		// builder (fillTableSymbolChildren -> varInfo.FindAllVar) delegates the descent
		for _, w := range wrappers {
			for _, b := range w.Blocks {
				for _, ins := range b.Instrs {
					if call, ok := ins.(*ssa.Call); ok {
						if g := call.Call.StaticCallee(); g != nil && descends[g] {
							descends[w] = true
						}
					}
				}
			}
		}
		for _, f := range pending {
			key := "OUTLINE/descend:" + fnKey(f)
			delegates := false
			for _, b := range f.Blocks {
				for _, ins := range b.Instrs {
					if call, ok := ins.(*ssa.Call); ok {
						g := call.Call.StaticCallee()
						if g == nil {
							continue
						}
						if descends[g] {
							delegates = true
						}
						if g.Blocks != nil && soleWrapper(g) { // FindAllVar -> findAllVarDepth
							for _, i2 := range g.Blocks[0].Instrs {
								if c2, ok := i2.(*ssa.Call); ok {
									if h := c2.Call.StaticCallee(); h != nil && descends[h] {
										delegates = true
									}
								}
							}
						}
					}
				}
			}
			if delegates {
				obs = append(obs, Ob{Key: key, Site: c.Pos(f.Pos()), Verdict: OK, Note: "obtains each member's entry from a builder that descends"})
			} else {
				obs = append(obs, Ob{Key: key, Site: c.Pos(f.Pos()), Verdict: VIOLATION,
					Note: fnKey(f) + " builds symbol entries for the members of a table but never looks at the members of a member: `function t.a.f() end` is missing from the outline / the symbol index"})
			}
		}
		obs = append(obs, floor("OUTLINE/descend", "member entry builders", n, 2))
		return obs
	},
}

// soleWrapper: f only forwards to another function of the same name family (FindAllVar -> findAllVarDepth)
func soleWrapper(f *ssa.Function) bool {
	calls := 0
	for _, b := range f.Blocks {
		for _, ins := range b.Instrs {
			if _, ok := ins.(*ssa.Call); ok {
				calls++
			}
		}
	}
	return len(f.Blocks) == 1 && calls == 1
}
