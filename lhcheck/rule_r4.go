package main

import (
	"fmt"
	"go/constant"
	"go/token"
	"go/types"
	"sort"

	"golang.org/x/tools/go/ssa"
)

// ---------------------------------------------------------------------------------------------
// Round-4 rules

// SCOPE/S9: the declarations of one name in one scope are kept in source order (AddLocVar appends); a lookup that
// stops at the first declaration passing its position test must therefore look at the newest declaration first.

var ruleScopeS9 = &Rule{
	Name:    "SCOPE/S9-newest-declaration-first",
	NeedSSA: true,
	Text: "in the methods of common.ScopeInfo, a loop over the declaration list of one name (LocVarMap[name].VarVec, appended in source order) that leaves the loop " +
		"at the first element passing its position test (a return or break on a path that has looked at an element) iterates from the last element to the first: " +
		"a later `local x` of the same block shadows the earlier one for everything that follows it, so a first match from the front binds every use to the oldest declaration",
	Run: func(c *Ctx) []Ob {
		var obs []Ob
		n := 0
		for _, f := range c.ModFns() {
			if f.Signature.Recv() == nil || f.Blocks == nil {
				continue
			}
			if p, nm := namedPkgName(f.Signature.Recv().Type()); p != commonPkg || nm != "ScopeInfo" {
				continue
			}
			ord := 0
			for _, l := range allLoops(f) {
				// the element: X.VarVec[i] inside the loop, i moving with the loop
				var elem *ssa.IndexAddr
				for _, b := range f.Blocks {
					if !l.body[b] {
						continue
					}
					for _, ins := range b.Instrs {
						ia, ok := ins.(*ssa.IndexAddr)
						if !ok {
							continue
						}
						ld, ok := ia.X.(*ssa.UnOp)
						if !ok || ld.Op != token.MUL {
							continue
						}
						fa, ok := ld.X.(*ssa.FieldAddr)
						if !ok || fieldName(fa.X.Type(), fa.Field) != "VarVec" {
							continue
						}
						if elem == nil {
							elem = ia
						}
					}
				}
				if elem == nil {
					continue
				}
				// inner-most loop only: the element's block must not belong to a smaller loop that also holds it
				inner := true
				for _, l2 := range allLoops(f) {
					if l2.header != l.header && l2.body[elem.Block()] && len(l2.body) < len(l.body) {
						inner = false
					}
				}
				if !inner {
					continue
				}
				// early exit after looking at an element
				early := false
				var exitPos token.Pos
				for _, b := range f.Blocks {
					if !l.body[b] || b == l.header || !elem.Block().Dominates(b) {
						continue
					}
					for _, s := range b.Succs {
						if !l.body[s] {
							early = true
							if len(b.Instrs) > 0 {
								exitPos = b.Instrs[len(b.Instrs)-1].Pos()
							}
						}
					}
				}
				if !early || !positionTested(elem, &l) {
					continue
				}
				ord++
				n++
				dir := indexDirection(elem.Index, &l)
				key := fmt.Sprintf("SCOPE/S9:%s:first-match#%d", f.Name(), ord)
				_ = exitPos
				if dir == "rev" {
					obs = append(obs, Ob{Key: key, Site: c.Pos(elem.Pos()), Verdict: OK, Note: "first match, newest declaration first"})
				} else {
					obs = append(obs, Ob{Key: key, Site: c.Pos(elem.Pos()), Verdict: VIOLATION,
						Note: f.Name() + " stops at the first declaration that passes its test but walks the list " + map[string]string{"fwd": "oldest first", "?": "in an order the rule cannot establish"}[dir] +
							": a redeclared local (`local d = f(); local d = g(d)`) binds later uses to the oldest declaration"})
				}
			}
		}
		c.Stats["s9_first_match_loops"] = n
		obs = append(obs, floor("SCOPE/S9-newest-declaration-first", "first-match scans of a declaration list", n, 2))
		return obs
	},
}

// positionTested: inside the loop the element is asked whether it is declared before a position
// ((*VarInfo).IsCorrectPosition) or its declaration line is read (Loc.StartLine): a declared-before test, as
// opposed to a search for the one element at an exact place
func positionTested(elem *ssa.IndexAddr, l *loopInfo) bool {
	isElem := func(v ssa.Value) bool {
		for d := 0; d < 6; d++ {
			switch x := v.(type) {
			case *ssa.UnOp:
				if x.Op == token.MUL {
					if x.X == ssa.Value(elem) {
						return true
					}
					v = x.X
					continue
				}
			case *ssa.FieldAddr:
				v = x.X
				continue
			}
			return false
		}
		return false
	}
	for b := range l.body {
		for _, ins := range b.Instrs {
			switch x := ins.(type) {
			case *ssa.Call:
				if g := x.Call.StaticCallee(); g != nil && g.Name() == "IsCorrectPosition" && len(x.Call.Args) > 0 && isElem(x.Call.Args[0]) {
					return true
				}
			case *ssa.FieldAddr:
				if fieldName(x.X.Type(), x.Field) == "StartLine" {
					if in, ok := x.X.(*ssa.FieldAddr); ok && fieldName(in.X.Type(), in.Field) == "Loc" && isElem(in.X) {
						return true
					}
				}
			}
		}
	}
	return false
}

// indexDirection: how the index of an element access moves around the loop: "rev" (decreasing), "fwd", "?"
func indexDirection(idx ssa.Value, l *loopInfo) string {
	base, _ := plusConst(idx)
	phi, ok := base.(*ssa.Phi)
	if !ok || phi.Block() != l.header {
		return "?"
	}
	dir := ""
	for i, ed := range phi.Edges {
		if !l.body[phi.Block().Preds[i]] {
			continue // entry edge
		}
		b, c := plusConst(ed)
		if b != ssa.Value(phi) || c == 0 {
			return "?"
		}
		d := "fwd"
		if c < 0 {
			d = "rev"
		}
		if dir != "" && dir != d {
			return "?"
		}
		dir = d
	}
	if dir == "" {
		return "?"
	}
	return dir
}

// TAB/K10: a table from spellings to an enumeration whose zero value is itself a member must be read with the
// comma-ok form: a single-value lookup of a missing key yields that member.

var ruleTabK10 = &Rule{
	Name:    "TAB/K10-kind-table-lookups-comma-ok",
	NeedSSA: true,
	Text: "every lookup in a package-level map of the lexer / annotation-lexer packages whose value type is an enumeration with a declared member equal to 0 (TokenEOF / ATokenEOF) " +
		"uses the two-result form: with the one-result form a word that is not in the table is indistinguishable from the member 0 — `---@class` at the end of a line was then accepted as a class named EOF",
	Run: func(c *Ctx) []Ob {
		var obs []Ob
		n := 0
		for _, f := range c.ModFns() {
			if f.Pkg == nil || (f.Pkg.Pkg.Path() != lexerPkg && f.Pkg.Pkg.Path() != annLexPkg) {
				continue
			}
			ord := 0
			var sites []*ssa.Lookup
			for _, b := range f.Blocks {
				for _, ins := range b.Instrs {
					if lk, ok := ins.(*ssa.Lookup); ok {
						sites = append(sites, lk)
					}
				}
			}
			sort.Slice(sites, func(i, j int) bool { return sites[i].Pos() < sites[j].Pos() })
			for _, lk := range sites {
				mt, ok := types.Unalias(lk.X.Type()).Underlying().(*types.Map)
				if !ok {
					continue
				}
				ld, ok := lk.X.(*ssa.UnOp)
				if !ok {
					continue
				}
				g, ok := ld.X.(*ssa.Global)
				if !ok {
					continue
				}
				zero := zeroMember(mt.Elem())
				if zero == "" {
					continue
				}
				ord++
				n++
				key := fmt.Sprintf("TAB/K10:%s:%s#%d", f.Name(), g.Name(), ord)
				if lk.CommaOk {
					obs = append(obs, Ob{Key: key, Site: c.Pos(lk.Pos()), Verdict: OK, Note: "two-result lookup; member 0 of the value type is " + zero})
				} else {
					obs = append(obs, Ob{Key: key, Site: c.Pos(lk.Pos()), Verdict: VIOLATION,
						Note: "single-result lookup in " + g.Name() + ": a missing key reads as " + zero + ", which is a real member of the value type"})
				}
			}
		}
		c.Stats["k10_lookups"] = n
		obs = append(obs, floor("TAB/K10-kind-table-lookups-comma-ok", "lookups in kind tables", n, 4))
		return obs
	},
}

// zeroMember: t is a named integer type with a declared constant equal to 0 in its package: the constant's name
func zeroMember(t types.Type) string {
	nt, ok := types.Unalias(t).(*types.Named)
	if !ok || nt.Obj().Pkg() == nil {
		return ""
	}
	if b, ok := nt.Underlying().(*types.Basic); !ok || b.Info()&types.IsInteger == 0 {
		return ""
	}
	sc := nt.Obj().Pkg().Scope()
	names := sc.Names()
	for _, nm := range names {
		k, ok := sc.Lookup(nm).(*types.Const)
		if !ok || !types.Identical(k.Type(), nt) {
			continue
		}
		if v, ok := constant.Int64Val(k.Val()); ok && v == 0 {
			return nm
		}
	}
	return ""
}

// ANN/A7: the array suffix applies to every primary form of an annotation type.

var ruleAnnA7 = &Rule{
	Name:    "ANN/A7-array-suffix-after-every-primary",
	NeedSSA: true,
	Text: "in annotateparser.parserSingleType every return is dominated by the test for a following `[` (LookAheadKind() == ATokenVSepLbrack): the suffix `[]` is parsed after " +
		"whichever primary form came first — a name, `fun(...)`, `table<K,V>`, a string, or a parenthesised union; a branch that returns before that test leaves `(a|b)[]` understood as `a|b`",
	Run: func(c *Ctx) []Ob {
		var obs []Ob
		f := c.SSAFunc(annParPkg, "", "parserSingleType")
		if f == nil {
			return []Ob{{Key: "ANN/A7:slot", Verdict: UNDECIDED, Note: "parserSingleType not found"}}
		}
		kv, ok := constIntValue(c, annLexPkg, "ATokenVSepLbrack")
		if !ok {
			return []Ob{{Key: "ANN/A7:slot", Verdict: UNDECIDED, Note: "ATokenVSepLbrack not found"}}
		}
		var test *ssa.BasicBlock
		for _, b := range f.Blocks {
			iff, ok := b.Instrs[len(b.Instrs)-1].(*ssa.If)
			if !ok {
				continue
			}
			bo, ok := iff.Cond.(*ssa.BinOp)
			if !ok || (bo.Op != token.EQL && bo.Op != token.NEQ) {
				continue
			}
			for _, pr := range [][2]ssa.Value{{bo.X, bo.Y}, {bo.Y, bo.X}} {
				call, ok := pr[0].(*ssa.Call)
				if !ok {
					continue
				}
				g := call.Call.StaticCallee()
				if g == nil || g.Name() != "LookAheadKind" {
					continue
				}
				if k, ok := pr[1].(*ssa.Const); ok && k.Value != nil {
					if v, ok := constant.Int64Val(k.Value); ok && v == kv && call.Block() == b {
						test = b
					}
				}
			}
		}
		if test == nil {
			return []Ob{{Key: "ANN/A7:suffix-test", Site: c.Pos(f.Pos()), Verdict: VIOLATION, Note: "parserSingleType no longer tests for a following `[` at all"}}
		}
		n := 0
		for _, b := range f.Blocks {
			ret, ok := b.Instrs[len(b.Instrs)-1].(*ssa.Return)
			if !ok {
				continue
			}
			n++
			key := fmt.Sprintf("ANN/A7:parserSingleType:return#%d", n)
			if test.Dominates(b) {
				obs = append(obs, Ob{Key: key, Site: c.Pos(ret.Pos()), Verdict: OK, Note: "after the `[` test"})
			} else {
				obs = append(obs, Ob{Key: key, Site: c.Pos(ret.Pos()), Verdict: VIOLATION,
					Note: "parserSingleType returns a type without having looked for the array suffix: `(string|number)[]` (or whatever form this branch parses, followed by `[]`) loses its `[]`"})
			}
		}
		obs = append(obs, floor("ANN/A7-array-suffix-after-every-primary", "returns of parserSingleType", n, 2))
		return obs
	},
}

// TAB/K11: `return [explist] [';']` — the semicolon is optional, not repeatable.

var ruleTabK11 = &Rule{
	Name:    "TAB/K11-return-semicolon-once",
	NeedSSA: true,
	Text: "parser.parseRetExps consumes tokens only outside loops: the expression list has its own parser, and the optional `;` after it is taken at most once " +
		"(a return statement is the last statement of its block: `return 1;;` is not a chunk); a loop around the consumption accepts any run of `;`",
	Run: func(c *Ctx) []Ob {
		var obs []Ob
		f := c.SSAFunc(parserPkg, "Parser", "parseRetExps")
		if f == nil {
			return []Ob{{Key: "TAB/K11:slot", Verdict: UNDECIDED, Note: "parseRetExps not found"}}
		}
		inLoop := map[*ssa.BasicBlock]bool{}
		for _, l := range allLoops(f) {
			for b := range l.body {
				inLoop[b] = true
			}
		}
		n := 0
		for _, b := range f.Blocks {
			for _, ins := range b.Instrs {
				call, ok := ins.(*ssa.Call)
				if !ok {
					continue
				}
				g := call.Call.StaticCallee()
				if g == nil || g.Pkg == nil || g.Pkg.Pkg.Path() != lexerPkg || (g.Name() != "NextToken" && g.Name() != "NextTokenKind" && g.Name() != "NextTokenStruct" && g.Name() != "NextIdentifier") {
					continue
				}
				n++
				key := fmt.Sprintf("TAB/K11:parseRetExps:consume#%d", n)
				if inLoop[b] {
					obs = append(obs, Ob{Key: key, Site: c.Pos(call.Pos()), Verdict: VIOLATION, Note: "parseRetExps consumes a token inside a loop: `return 1;;;` is accepted as a chunk"})
				} else {
					obs = append(obs, Ob{Key: key, Site: c.Pos(call.Pos()), Verdict: OK, Note: "consumed once"})
				}
			}
		}
		obs = append(obs, floor("TAB/K11-return-semicolon-once", "token consumptions in parseRetExps", n, 3))
		return obs
	},
}
