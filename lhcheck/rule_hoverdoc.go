package main

// C13 structural clauses.
//
// DOC1  the hover documentation is looked up for the very symbol whose label is shown: the file and line
//       passed to GetLineComment come from the same symbol value.
// DOC2  GetLineComment implements "the trailing comment on its line, else the comment block directly
//       above": a first lookup with (line, head=false); a second one with (line-1, head=true) that executes
//       only when the first returned the empty string.
// DOC3  the comment text is reproduced verbatim: what getSpecialLineComment returns is built only from the
//       stored comment lines' Str, "\n" separators and "", and it returns "" unless the stored block's
//       HeadFlag equals the requested one.
// PUB   a pending object that a loop publishes into a map (comment block -> commentMap[line]) is not
//       published again, or extended, in a later iteration without being replaced first: otherwise the
//       text of one declaration's comment is attached to another declaration.

import (
	"fmt"
	"go/constant"
	"go/token"
	"go/types"
	"strings"

	"golang.org/x/tools/go/ssa"
)

var ruleHoverDoc = &Rule{
	Name:    "DOCC/hover-comment-source",
	NeedSSA: true,
	Text:    "(DOC1) every call of AllProject.GetLineComment from the hover / completion code passes a file and a line taken from one and the same symbol value; (DOC2) GetLineComment = lookup(line, head=false), then lookup(line-1, head=true) only on the branch where the first result equals \"\"; (DOC3) getSpecialLineComment returns only \"\" or a concatenation of the stored lines' Str joined by \"\\n\", and returns \"\" when the stored block's HeadFlag differs from the requested flag",
	Run: func(c *Ctx) []Ob {
		var obs []Ob
		glc := c.SSAFunc(checkPkg, "AllProject", "GetLineComment")
		gsl := c.SSAFunc(checkPkg, "AllProject", "getSpecialLineComment")
		if glc == nil || gsl == nil {
			return []Ob{{Key: "DOCC:slots", Verdict: UNDECIDED, Note: "slot unresolved: AllProject.GetLineComment / getSpecialLineComment"}}
		}
		// DOC1
		n1 := 0
		for _, f := range c.ModFns() {
			cnt := 0
			for _, b := range f.Blocks {
				for _, ins := range b.Instrs {
					call, ok := ins.(*ssa.Call)
					if !ok || call.Call.StaticCallee() != glc {
						continue
					}
					n1++
					cnt++
					key := fmt.Sprintf("DOCC/DOC1:%s#%d", fnKey(f), cnt)
					pf := strings.TrimLeft(apath(call.Call.Args[1], 0), "*")
					pl := strings.TrimLeft(apath(call.Call.Args[2], 0), "*")
					// common root: the access path up to the first field selection
					root := func(s string) string {
						if i := strings.Index(s, "."); i >= 0 {
							return s[:i]
						}
						return s
					}
					if root(pf) == root(pl) && root(pf) != "" && !strings.HasPrefix(pf, "k:") {
						obs = append(obs, Ob{Key: key, Site: c.Pos(call.Pos()), Verdict: OK, Note: "file and line both taken from " + root(pf)})
					} else if strings.HasPrefix(root(pf), "p:") && strings.HasPrefix(root(pl), "p:") {
						obs = append(obs, Ob{Key: key, Site: c.Pos(call.Pos()), Verdict: OK, Note: "file and line come from the function's own parameters (" + root(pf) + ", " + root(pl) + "): pairing is the caller's"})
					} else {
						obs = append(obs, Ob{Key: key, Site: c.Pos(call.Pos()), Verdict: VIOLATION,
							Note: fmt.Sprintf("the comment is looked up in file %s at line %s: not the same symbol — the documentation shown belongs to another declaration", pf, pl)})
					}
				}
			}
		}
		obs = append(obs, floor("DOCC/hover-comment-source", "GetLineComment call sites", n1, 3))
		// DOC2
		var calls []*ssa.Call
		for _, b := range glc.Blocks {
			for _, ins := range b.Instrs {
				if call, ok := ins.(*ssa.Call); ok && call.Call.StaticCallee() == gsl {
					calls = append(calls, call)
				}
			}
		}
		boolArg := func(call *ssa.Call) (bool, bool) {
			k, ok := call.Call.Args[3].(*ssa.Const)
			if !ok || k.Value == nil || k.Value.Kind() != constant.Bool {
				return false, false
			}
			return constant.BoolVal(k.Value), true
		}
		okD2 := len(calls) == 2
		why := ""
		if !okD2 {
			why = fmt.Sprintf("GetLineComment makes %d lookups, expected 2", len(calls))
		} else {
			if calls[0].Pos() > calls[1].Pos() {
				calls[0], calls[1] = calls[1], calls[0]
			}
			h0, ok0 := boolArg(calls[0])
			h1, ok1 := boolArg(calls[1])
			lineP := glc.Params[2]
			switch {
			case !ok0 || h0:
				okD2, why = false, "the first lookup is not for a trailing comment (head flag must be the constant false)"
			case canon(calls[0].Call.Args[2]) != ssa.Value(lineP):
				okD2, why = false, "the first lookup is not at the declaration's own line"
			case !ok1 || !h1:
				okD2, why = false, "the second lookup is not for a leading comment block (head flag must be the constant true)"
			default:
				bo, ok := calls[1].Call.Args[2].(*ssa.BinOp)
				k, _ := func() (*ssa.Const, bool) {
					if !ok {
						return nil, false
					}
					kk, o := bo.Y.(*ssa.Const)
					return kk, o
				}()
				if !ok || bo.Op != token.SUB || canon(bo.X) != ssa.Value(lineP) || k == nil || k.Value == nil || k.Value.String() != "1" {
					okD2, why = false, "the second lookup is not at the line directly above (line-1)"
				} else {
					// executed only when the first result is ""
					guard := false
					for d := calls[1].Block(); d != nil && !guard; d = d.Idom() {
						id := d.Idom()
						if id == nil {
							break
						}
						iff, ok := id.Instrs[len(id.Instrs)-1].(*ssa.If)
						if !ok {
							continue
						}
						cmp, ok := iff.Cond.(*ssa.BinOp)
						if !ok || cmp.Op != token.EQL {
							continue
						}
						isEmpty := func(v ssa.Value) bool {
							kk, ok := v.(*ssa.Const)
							return ok && kk.Value != nil && kk.Value.Kind() == constant.String && constant.StringVal(kk.Value) == ""
						}
						if ((cmp.X == ssa.Value(calls[0]) && isEmpty(cmp.Y)) || (cmp.Y == ssa.Value(calls[0]) && isEmpty(cmp.X))) && id.Succs[0] == d {
							guard = true
						}
					}
					if !guard {
						okD2, why = false, "the leading-block lookup does not depend on the trailing lookup having found nothing"
					}
				}
			}
		}
		if okD2 {
			obs = append(obs, Ob{Key: "DOCC/DOC2:trailing-then-leading", Site: c.Pos(glc.Pos()), Verdict: OK})
		} else {
			obs = append(obs, Ob{Key: "DOCC/DOC2:trailing-then-leading", Site: c.Pos(glc.Pos()), Verdict: VIOLATION, Note: why})
		}
		// DOC3: provenance of the returned string
		var bad string
		var okVal func(v ssa.Value, d int, seen map[ssa.Value]bool) bool
		okVal = func(v ssa.Value, d int, seen map[ssa.Value]bool) bool {
			if seen[v] {
				return true
			}
			seen[v] = true
			if d > 12 {
				bad = "value too deep"
				return false
			}
			switch x := v.(type) {
			case *ssa.Const:
				if x.Value != nil && x.Value.Kind() == constant.String {
					s := constant.StringVal(x.Value)
					if s == "" || s == "\n" {
						return true
					}
					bad = fmt.Sprintf("constant %q", s)
					return false
				}
			case *ssa.Phi:
				for _, e := range x.Edges {
					if !okVal(e, d+1, seen) {
						return false
					}
				}
				return true
			case *ssa.BinOp:
				if x.Op == token.ADD {
					return okVal(x.X, d+1, seen) && okVal(x.Y, d+1, seen)
				}
			case *ssa.UnOp:
				if x.Op == token.MUL {
					switch a := x.X.(type) {
					case *ssa.FieldAddr:
						if fieldOf(a).Name() == "Str" {
							return true
						}
					case *ssa.Alloc:
						if refs := a.Referrers(); refs != nil {
							for _, r := range *refs {
								if st, ok := r.(*ssa.Store); ok && st.Addr == ssa.Value(a) && !okVal(st.Val, d+1, seen) {
									return false
								}
							}
						}
						return true
					}
				}
			case *ssa.Field:
				if structFieldName(x.X.Type(), x.Field) == "Str" {
					return true
				}
			}
			bad = describeValue(v)
			return false
		}
		okD3 := true
		for _, b := range gsl.Blocks {
			if ret, ok := b.Instrs[len(b.Instrs)-1].(*ssa.Return); ok && len(ret.Results) == 1 {
				if !okVal(ret.Results[0], 0, map[ssa.Value]bool{}) {
					okD3 = false
				}
			}
		}
		if okD3 {
			obs = append(obs, Ob{Key: "DOCC/DOC3:verbatim", Site: c.Pos(gsl.Pos()), Verdict: OK})
		} else {
			obs = append(obs, Ob{Key: "DOCC/DOC3:verbatim", Site: c.Pos(gsl.Pos()), Verdict: VIOLATION, Note: "the returned comment text is not only the stored lines joined by newlines (found " + bad + ")"})
		}
		// HeadFlag test present
		hf := false
		for _, b := range gsl.Blocks {
			iff, ok := b.Instrs[len(b.Instrs)-1].(*ssa.If)
			if !ok {
				continue
			}
			cmp, ok := iff.Cond.(*ssa.BinOp)
			if !ok || (cmp.Op != token.NEQ && cmp.Op != token.EQL) {
				continue
			}
			isHead := func(v ssa.Value) bool {
				ld, ok := v.(*ssa.UnOp)
				if !ok {
					return false
				}
				fa, ok := ld.X.(*ssa.FieldAddr)
				return ok && fieldOf(fa).Name() == "HeadFlag"
			}
			isParam := func(v ssa.Value) bool {
				p, ok := canon(v).(*ssa.Parameter)
				if !ok {
					return false
				}
				bt, ok := p.Type().Underlying().(*types.Basic)
				return ok && bt.Kind() == types.Bool
			}
			if (isHead(cmp.X) && isParam(cmp.Y)) || (isHead(cmp.Y) && isParam(cmp.X)) {
				hf = true
			}
		}
		if hf {
			obs = append(obs, Ob{Key: "DOCC/DOC3:head-flag-test", Site: c.Pos(gsl.Pos()), Verdict: OK})
		} else {
			obs = append(obs, Ob{Key: "DOCC/DOC3:head-flag-test", Site: c.Pos(gsl.Pos()), Verdict: VIOLATION, Note: "getSpecialLineComment no longer compares the stored block's HeadFlag with the requested kind: a leading block is taken for a trailing comment (or vice versa)"})
		}
		return obs
	},
}

// ---------------------------------------------------------------------------------------------
// PUB: a pending object published into a map inside a loop is replaced before it is published or extended again

var rulePublishOnce = &Rule{
	Name:    "PUB/publish-once",
	NeedSSA: true,
	Text:    "where a loop carries a pending object in a variable (a pointer-typed loop-header phi), stores it as the VALUE of a map entry and also appends to one of its slice fields, every path from a store back to the loop header replaces the variable (nil or a fresh object) — the object that already sits in the map under one key is never extended with the next item's data nor stored again under another key (comment blocks keyed by line: a trailing comment must not swallow the next declaration's leading block)",
	Run: func(c *Ctx) []Ob {
		var obs []Ob
		n := 0
		// helpers that append to a slice field of one of their (pointer) parameters
		appendsParam := map[*ssa.Function]map[int]bool{}
		for _, g := range c.ModFns() {
			for _, b := range g.Blocks {
				for _, ins := range b.Instrs {
					st, ok := ins.(*ssa.Store)
					if !ok || appendCall(st.Val) == nil {
						continue
					}
					fa, ok := st.Addr.(*ssa.FieldAddr)
					if !ok {
						continue
					}
					if p, ok := canon(fa.X).(*ssa.Parameter); ok {
						for j, pp := range g.Params {
							if pp == p {
								if appendsParam[g] == nil {
									appendsParam[g] = map[int]bool{}
								}
								appendsParam[g][j] = true
							}
						}
					}
				}
			}
		}
		for _, f := range c.ModFns() {
			loops := loopsOf(f)
			cnt := 0
			for h, body := range loops {
				for _, ins := range h.Instrs {
					phi, ok := ins.(*ssa.Phi)
					if !ok {
						break
					}
					if _, isPtr := types.Unalias(phi.Type()).Underlying().(*types.Pointer); !isPtr {
						continue
					}
					// values of "the variable" inside the loop: the header phi, what flows back into it from the body
					// (fresh objects assigned to it), and inner merges of those
					same := map[ssa.Value]bool{phi: true}
					for i, e := range phi.Edges {
						if body[h.Preds[i]] {
							if k, isC := e.(*ssa.Const); isC && k.IsNil() {
								continue
							}
							same[e] = true
						}
					}
					for changed := true; changed; {
						changed = false
						for b := range body {
							for _, i2 := range b.Instrs {
								p2, ok := i2.(*ssa.Phi)
								if !ok || b == h {
									continue
								}
								if same[p2] {
									for _, e := range p2.Edges {
										if k, isC := e.(*ssa.Const); isC && k.IsNil() {
											continue
										}
										if !same[e] {
											same[e] = true
											changed = true
										}
									}
									continue
								}
								for _, e := range p2.Edges {
									if same[e] {
										same[p2] = true
										changed = true
									}
								}
							}
						}
					}
					// appended to?
					appended := false
					var stores []*ssa.MapUpdate
					for b := range body {
						for _, i2 := range b.Instrs {
							switch x := i2.(type) {
							case *ssa.Store:
								if fa, ok := x.Addr.(*ssa.FieldAddr); ok && same[fa.X] && appendCall(x.Val) != nil {
									appended = true
								}
							case *ssa.Call:
								if g := x.Call.StaticCallee(); g != nil {
									for j := range appendsParam[g] {
										if j < len(x.Call.Args) && same[x.Call.Args[j]] {
											appended = true
										}
									}
								}
							case *ssa.MapUpdate:
								if same[x.Value] {
									stores = append(stores, x)
								}
							}
						}
					}
					// the pending object handed to a helper that publishes / extends it and hands back what is still pending
					// (commentInfo, lastLine = l.collectComment(commentInfo, lastLine, …)): the rule moves into the helper —
					// on no path from a publication to a return is the published object the one handed back
					for b := range body {
						for _, i2 := range b.Instrs {
							call, ok := i2.(*ssa.Call)
							if !ok {
								continue
							}
							g := call.Call.StaticCallee()
							if g == nil || g.Blocks == nil || !c.IsModFn(g) {
								continue
							}
							pj := -1
							for j, a := range call.Call.Args {
								if same[a] && j < len(g.Params) {
									pj = j
								}
							}
							if pj < 0 || call.Referrers() == nil {
								continue
							}
							ri := -1
							for _, r := range *call.Referrers() {
								if ex, ok := r.(*ssa.Extract); ok && same[ex] {
									ri = ex.Index
								}
							}
							if same[call] {
								ri = 0
							}
							if ri < 0 {
								continue
							}
							appendsG := false
							var pubs []*ssa.MapUpdate
							for _, gb := range g.Blocks {
								for _, gi := range gb.Instrs {
									switch x := gi.(type) {
									case *ssa.Store:
										if fa, ok := x.Addr.(*ssa.FieldAddr); ok && appendCall(x.Val) != nil && types.Identical(fa.X.Type(), phi.Type()) {
											appendsG = true
										}
									case *ssa.MapUpdate:
										if types.Identical(x.Value.Type(), phi.Type()) {
											pubs = append(pubs, x)
										}
									}
								}
							}
							if !appendsG {
								continue
							}
							for _, mu := range pubs {
								n++
								cnt++
								key := fmt.Sprintf("PUB:%s#%d", fnKey(g), cnt)
								reachB := map[*ssa.BasicBlock]bool{mu.Block(): true}
								stack := []*ssa.BasicBlock{mu.Block()}
								for len(stack) > 0 {
									bb := stack[len(stack)-1]
									stack = stack[:len(stack)-1]
									for _, sc := range bb.Succs {
										if !reachB[sc] {
											reachB[sc] = true
											stack = append(stack, sc)
										}
									}
								}
								var sameObj func(e ssa.Value, d int) bool
								sameObj = func(e ssa.Value, d int) bool {
									if d > 6 {
										return false
									}
									if e == mu.Value {
										return true
									}
									if p2, ok := e.(*ssa.Phi); ok && reachB[p2.Block()] && p2.Block() != mu.Block() {
										for j, e2 := range p2.Edges {
											if reachB[p2.Block().Preds[j]] && sameObj(e2, d+1) {
												return true
											}
										}
									}
									return false
								}
								bad := false
								for rb := range reachB {
									ret, ok := rb.Instrs[len(rb.Instrs)-1].(*ssa.Return)
									if !ok || ri >= len(ret.Results) {
										continue
									}
									if sameObj(ret.Results[ri], 0) {
										bad = true
									}
								}
								if bad {
									obs = append(obs, Ob{Key: key, Site: c.Pos(mu.Pos()), Verdict: VIOLATION,
										Note: "the object stored into the map here is handed back to the caller's loop as the pending one, where it is extended / stored again: two keys share one object (text of the next item is attached to this entry)"})
								} else {
									obs = append(obs, Ob{Key: key, Site: c.Pos(mu.Pos()), Verdict: OK, Note: "after the publication the helper hands back nil or a fresh object"})
								}
							}
						}
					}
					if !appended || len(stores) == 0 {
						continue
					}
					for _, mu := range stores {
						n++
						cnt++
						key := fmt.Sprintf("PUB:%s#%d", fnKey(f), cnt)
						// blocks reachable from the store inside the loop body without passing the header
						reachB := map[*ssa.BasicBlock]bool{mu.Block(): true}
						stack := []*ssa.BasicBlock{mu.Block()}
						for len(stack) > 0 {
							b := stack[len(stack)-1]
							stack = stack[:len(stack)-1]
							for _, s := range b.Succs {
								if s == h || !body[s] || reachB[s] {
									continue
								}
								reachB[s] = true
								stack = append(stack, s)
							}
						}
						bad := false
						// sameObj: e denotes the object that was stored (the stored SSA value itself, or a merge after the
						// store one of whose inputs, coming from a block after the store, is that object)
						var sameObj func(e ssa.Value, d int) bool
						sameObj = func(e ssa.Value, d int) bool {
							if d > 6 {
								return false
							}
							if e == mu.Value {
								return true
							}
							if p2, ok := e.(*ssa.Phi); ok && p2 != phi && reachB[p2.Block()] {
								for j, e2 := range p2.Edges {
									if reachB[p2.Block().Preds[j]] && sameObj(e2, d+1) {
										return true
									}
								}
							}
							return false
						}
						for i, e := range phi.Edges {
							pred := h.Preds[i]
							if !body[pred] || !reachB[pred] {
								continue
							}
							if sameObj(e, 0) {
								bad = true
							}
						}
						if bad {
							obs = append(obs, Ob{Key: key, Site: c.Pos(mu.Pos()), Verdict: VIOLATION,
								Note: "the object stored into the map here is carried unchanged into the next loop iteration, where it is extended / stored again: two keys share one object (text of the next item is attached to this entry)"})
						} else {
							obs = append(obs, Ob{Key: key, Site: c.Pos(mu.Pos()), Verdict: OK})
						}
					}
				}
			}
		}
		c.Stats["publish_in_loop_sites"] = n
		obs = append(obs, floor("PUB/publish-once", "pending objects published into a map inside their loop", n, 1))
		return obs
	},
}
