package main

// C12 structural clauses.
//
// HL  document-highlight = the references of the same symbol that lie in the queried file:
//   H1 TextDocumentHighlight obtains its occurrences from AllProject.FindReferences called with the queried
//      file and the constant mode CRSHighlight, and every DocumentHighlight.Range is LocToRange(&r.Loc) of an
//      element r of that result (nothing else is added);
//   H2 inside FindReferences, under the assumption mode == CRSHighlight (sparse conditional constant
//      propagation), every DefineStruct that can be appended to the result carries the queried file — the
//      parameter itself, or a value proven equal to it by the branch that guards the append — and the only
//      traversal started is the single-file one (the multi-file pool is unreachable).
// SIB definition, references and hover resolve the symbol under the cursor with the same lookup sequence:
//   the functions of type (comParam, varStruct) -> (name, *VarInfo) in package check (the definition /
//   references resolver and its hover copy) call the same resolver functions in the same order, and both
//   FindVarDefine and the references resolver call the first of them.

import (
	"fmt"
	"go/constant"
	"go/token"
	"go/types"
	"strings"

	"golang.org/x/tools/go/ssa"
)

var ruleHighlight = &Rule{
	Name:    "HL/highlight-is-references-in-file",
	NeedSSA: true,
	Text:    "(H1) TextDocumentHighlight maps the result of AllProject.FindReferences(queried file, symbol, CRSHighlight) to ranges, each Range = LocToRange(&r.Loc) of an element of that result; (H2) under mode == CRSHighlight (constant propagation through FindReferences) every appended occurrence carries the queried file (the parameter, or a value the guarding branch proves equal to it), the single-file traversal is the only one started and it is started on the queried file",
	Run: func(c *Ctx) []Ob {
		var obs []Ob
		h := c.SSAFunc(langserverPkg, "LspServer", "TextDocumentHighlight")
		findRefs := c.SSAFunc(checkPkg, "AllProject", "FindReferences")
		if h == nil || findRefs == nil {
			return []Ob{{Key: "HL:slots", Verdict: UNDECIDED, Note: "slot unresolved: LspServer.TextDocumentHighlight / AllProject.FindReferences"}}
		}
		crs, okc := constIntValue(c, commonPkg, "CRSHighlight")
		if !okc {
			return []Ob{{Key: "HL:slots", Verdict: UNDECIDED, Note: "slot unresolved: common.CRSHighlight"}}
		}
		// ---- H1
		var fr *ssa.Call
		for _, b := range h.Blocks {
			for _, ins := range b.Instrs {
				if call, ok := ins.(*ssa.Call); ok && call.Call.StaticCallee() == findRefs {
					fr = call
				}
			}
		}
		if fr == nil {
			return append(obs, Ob{Key: "HL/H1:find-references-call", Site: c.Pos(h.Pos()), Verdict: VIOLATION, Note: "TextDocumentHighlight no longer obtains its occurrences from AllProject.FindReferences"})
		}
		mode := fr.Call.Args[len(fr.Call.Args)-1]
		if mv, ok := errTypeConst(mode); !ok || mv != crs {
			obs = append(obs, Ob{Key: "HL/H1:mode", Site: c.Pos(fr.Pos()), Verdict: VIOLATION, Note: "FindReferences is not called in highlight mode (common.CRSHighlight): other files are searched / the declaration rule differs"})
		} else {
			obs = append(obs, Ob{Key: "HL/H1:mode", Site: c.Pos(fr.Pos()), Verdict: OK})
		}
		// the file argument is the file of the request
		ft := normTerm(provTerm(fr.Call.Args[1], 0))
		if strings.Contains(ft, "beginFileRequest") && strings.Contains(ft, "strFile") {
			obs = append(obs, Ob{Key: "HL/H1:file", Site: c.Pos(fr.Pos()), Verdict: OK})
		} else {
			obs = append(obs, Ob{Key: "HL/H1:file", Site: c.Pos(fr.Pos()), Verdict: VIOLATION, Note: "the file passed to FindReferences is " + ft + ", expected the request's own file (beginFileRequest(...).strFile)"})
		}
		fromRefs := func(v ssa.Value) bool { return producerOf(v, 0) == fr }
		nR := 0
		for _, b := range h.Blocks {
			for _, ins := range b.Instrs {
				st, ok := ins.(*ssa.Store)
				if !ok {
					continue
				}
				fa, ok := st.Addr.(*ssa.FieldAddr)
				if !ok || namedName(fa.X.Type()) != "DocumentHighlight" || fieldName(fa.X.Type(), fa.Field) != "Range" {
					continue
				}
				nR++
				key := fmt.Sprintf("HL/H1:DocumentHighlight.Range#%d", nR)
				call, ok := st.Val.(*ssa.Call)
				okR := false
				if ok && call.Call.StaticCallee() != nil && call.Call.StaticCallee().Name() == "LocToRange" {
					if a, ok := call.Call.Args[0].(*ssa.FieldAddr); ok && fieldName(a.X.Type(), a.Field) == "Loc" && fromRefs(a.X) {
						okR = true
					}
				}
				if okR {
					obs = append(obs, Ob{Key: key, Site: c.Pos(st.Pos()), Verdict: OK})
				} else {
					obs = append(obs, Ob{Key: key, Site: c.Pos(st.Pos()), Verdict: VIOLATION, Note: "Range is not LocToRange(&r.Loc) of an element of the FindReferences result"})
				}
			}
		}
		obs = append(obs, floor("HL/highlight-is-references-in-file", "DocumentHighlight.Range stores", nR, 1))

		// ---- H2: FindReferences under mode == CRSHighlight
		f := findRefs
		var modeParam, fileParam *ssa.Parameter
		for _, p := range f.Params {
			if namedName(p.Type()) == "CheckReferenceSrc" {
				modeParam = p
			}
		}
		// the file parameter: first string parameter
		for _, p := range f.Params {
			if bt, ok := p.Type().Underlying().(*types.Basic); ok && bt.Kind() == types.String && fileParam == nil {
				fileParam = p
			}
		}
		if modeParam == nil || fileParam == nil {
			return append(obs, Ob{Key: "HL/H2:slots", Verdict: UNDECIDED, Note: "slot unresolved: mode / file parameter of FindReferences"})
		}
		s := &sccp{f: f, assume: func(v ssa.Value) (constant.Value, bool) {
			if v == ssa.Value(modeParam) {
				return constant.MakeInt64(crs), true
			}
			return nil, false
		}}
		exec := s.run()
		// reachable(b, without edge e): executable-edge reachability from entry
		reachWithout := func(cut [2]int) map[int]bool {
			seen := map[int]bool{0: true}
			q := []int{0}
			for len(q) > 0 {
				x := q[0]
				q = q[1:]
				for _, t := range f.Blocks[x].Succs {
					k := [2]int{x, t.Index}
					if !s.execEdge[k] || k == cut || seen[t.Index] {
						continue
					}
					seen[t.Index] = true
					q = append(q, t.Index)
				}
			}
			return seen
		}
		pf := apath(fileParam, 0)
		// equalsFile: v is the file parameter, or block b is only reachable through the true edge of `file == v`
		var equalsFile func(v ssa.Value, b *ssa.BasicBlock, d int) bool
		equalsFile = func(v ssa.Value, b *ssa.BasicBlock, d int) bool {
			if d > 4 {
				return false
			}
			if apath(v, 0) == pf {
				return true
			}
			if ph, ok := v.(*ssa.Phi); ok {
				all, any := true, false
				for i, e := range ph.Edges {
					if !s.execEdge[[2]int{ph.Block().Preds[i].Index, ph.Block().Index}] {
						continue
					}
					any = true
					if !equalsFile(e, ph.Block().Preds[i], d+1) {
						all = false
					}
				}
				return any && all
			}
			pv := apath(v, 0)
			for _, bb := range f.Blocks {
				iff, ok := bb.Instrs[len(bb.Instrs)-1].(*ssa.If)
				if !ok {
					continue
				}
				bo, ok := iff.Cond.(*ssa.BinOp)
				if !ok || bo.Op != token.EQL {
					continue
				}
				x, y := apath(bo.X, 0), apath(bo.Y, 0)
				if !((x == pf && y == pv) || (y == pf && x == pv)) {
					continue
				}
				cut := [2]int{bb.Index, bb.Succs[0].Index}
				if !reachWithout(cut)[b.Index] {
					return true
				}
			}
			return false
		}
		nS := 0
		for _, b := range f.Blocks {
			if !exec[b.Index] {
				continue
			}
			for _, ins := range b.Instrs {
				switch x := ins.(type) {
				case *ssa.Store:
					fa, ok := x.Addr.(*ssa.FieldAddr)
					if !ok || namedName(fa.X.Type()) != "DefineStruct" || fieldName(fa.X.Type(), fa.Field) != "StrFile" {
						continue
					}
					nS++
					key := fmt.Sprintf("HL/H2:occurrence-file#%d", nS)
					if equalsFile(x.Val, b, 0) {
						obs = append(obs, Ob{Key: key, Site: c.Pos(x.Pos()), Verdict: OK})
					} else {
						obs = append(obs, Ob{Key: key, Site: c.Pos(x.Pos()), Verdict: VIOLATION,
							Note: "in highlight mode an occurrence is filed under " + describeValue(x.Val) + ", which is not (proven equal to) the queried file: a highlight can point into another file's positions"})
					}
				case *ssa.Go:
					obs = append(obs, Ob{Key: "HL/H2:no-pool", Site: c.Pos(x.Pos()), Verdict: VIOLATION, Note: "a goroutine is started in highlight mode"})
				case *ssa.Call:
					if sc := x.Call.StaticCallee(); sc != nil {
						switch sc.Name() {
						case "handleAllFilesReference":
							obs = append(obs, Ob{Key: "HL/H2:no-multi-file-search", Site: c.Pos(x.Pos()), Verdict: VIOLATION, Note: "the multi-file reference search is reachable in highlight mode"})
						case "CreateReferenceFileResult":
							key := "HL/H2:traversal-file"
							if len(x.Call.Args) > 0 && equalsFile(x.Call.Args[0], b, 0) {
								obs = append(obs, Ob{Key: key, Site: c.Pos(x.Pos()), Verdict: OK})
							} else {
								obs = append(obs, Ob{Key: key, Site: c.Pos(x.Pos()), Verdict: VIOLATION, Note: "in highlight mode the occurrence traversal is started on " + describeValue(x.Call.Args[0]) + ", not on the queried file"})
							}
						}
					}
				}
			}
		}
		obs = append(obs, floor("HL/highlight-is-references-in-file", "occurrence-file stores reachable in highlight mode", nS, 2))
		return obs
	},
}

// moduleCalleeSeq: static module callees of f in source order (log and trivial accessors excluded)
func moduleCalleeSeq(c *Ctx, f *ssa.Function) []string {
	type ent struct {
		pos  token.Pos
		name string
	}
	var es []ent
	for _, b := range f.Blocks {
		for _, ins := range b.Instrs {
			call, ok := ins.(*ssa.Call)
			if !ok {
				continue
			}
			sc := call.Call.StaticCallee()
			if sc == nil || !c.IsModFn(sc) || sc.Pkg == nil || strings.HasSuffix(sc.Pkg.Pkg.Path(), "/log") {
				continue
			}
			es = append(es, ent{call.Pos(), fnKey(sc)})
		}
	}
	for i := 1; i < len(es); i++ {
		for j := i; j > 0 && es[j].pos < es[j-1].pos; j-- {
			es[j], es[j-1] = es[j-1], es[j]
		}
	}
	var out []string
	for _, e := range es {
		out = append(out, e.name)
	}
	return out
}

var ruleSibResolvers = &Rule{
	Name:    "SIB/resolver-agreement",
	NeedSSA: true,
	Text:    "definition, references and hover resolve the expression under the cursor through functions of one shape — (comParam *CommonFuncParam, varStruct *DefineVarStruct) -> (string, *VarInfo) in package check. All functions of that shape (the definition / references resolver and its hover copy) call the same module functions in the same source order (local scope chain, file globals, project globals, protocol symbols …); FindVarDefine and the references resolver call the same one of them. A lookup step present in one copy only makes hover, definition and references disagree on what the identifier is",
	Run: func(c *Ctx) []Ob {
		var obs []Ob
		var sibs []*ssa.Function
		for _, f := range c.ModFns() {
			if f.Pkg == nil || f.Pkg.Pkg.Path() != checkPkg {
				continue
			}
			sig := f.Signature
			if sig.Recv() == nil || sig.Params().Len() != 2 || sig.Results().Len() != 2 {
				continue
			}
			if namedName(sig.Params().At(0).Type()) != "CommonFuncParam" || namedName(sig.Params().At(1).Type()) != "DefineVarStruct" {
				continue
			}
			if bt, ok := sig.Results().At(0).Type().Underlying().(*types.Basic); !ok || bt.Kind() != types.String {
				continue
			}
			if namedName(sig.Results().At(1).Type()) != "VarInfo" {
				continue
			}
			sibs = append(sibs, f)
		}
		// keep the leaf resolvers: a function of the shape that calls another one of the shape is a wrapper
		isSib := map[*ssa.Function]bool{}
		for _, f := range sibs {
			isSib[f] = true
		}
		var leaves []*ssa.Function
		for _, f := range sibs {
			wrapper := false
			for _, b := range f.Blocks {
				for _, ins := range b.Instrs {
					if call, ok := ins.(*ssa.Call); ok {
						if sc := call.Call.StaticCallee(); sc != nil && sc != f && isSib[sc] {
							wrapper = true
						}
					}
				}
			}
			if !wrapper {
				leaves = append(leaves, f)
			}
		}
		sibs = leaves
		obs = append(obs, floor("SIB/resolver-agreement", "resolver functions of the shared shape", len(sibs), 2))
		if len(sibs) < 2 {
			return obs
		}
		// sort by name for determinism
		for i := 1; i < len(sibs); i++ {
			for j := i; j > 0 && sibs[j].Name() < sibs[j-1].Name(); j-- {
				sibs[j], sibs[j-1] = sibs[j-1], sibs[j]
			}
		}
		ref := moduleCalleeSeq(c, sibs[0])
		for _, g := range sibs[1:] {
			seq := moduleCalleeSeq(c, g)
			key := "SIB:" + sibs[0].Name() + "~" + g.Name()
			if strings.Join(seq, " ") == strings.Join(ref, " ") {
				obs = append(obs, Ob{Key: key, Site: c.Pos(g.Pos()), Verdict: OK, Note: fmt.Sprintf("same %d lookup steps in the same order", len(ref))})
			} else {
				obs = append(obs, Ob{Key: key, Site: c.Pos(g.Pos()), Verdict: VIOLATION,
					Note: fmt.Sprintf("the two copies of the cursor-symbol resolver differ in their lookup sequence: %s calls %v, %s calls %v", sibs[0].Name(), ref, g.Name(), seq)})
			}
		}
		// definition and references use the same copy
		def := c.SSAFunc(checkPkg, "AllProject", "FindVarDefine")
		refv := c.SSAFunc(checkPkg, "AllProject", "FindReferenceVarDefine")
		if def == nil || refv == nil {
			return append(obs, Ob{Key: "SIB:entries", Verdict: UNDECIDED, Note: "slot unresolved: FindVarDefine / FindReferenceVarDefine"})
		}
		used := func(entry *ssa.Function) map[*ssa.Function]bool {
			_, seen := reach(c.VTA(), []*ssa.Function{entry}, nil)
			out := map[*ssa.Function]bool{}
			for _, s := range sibs {
				if seen[s] {
					out[s] = true
				}
			}
			return out
		}
		du, ru := used(def), used(refv)
		same := len(du) > 0 && len(du) == len(ru)
		for k := range du {
			if !ru[k] {
				same = false
			}
		}
		if same {
			obs = append(obs, Ob{Key: "SIB:definition=references", Site: c.Pos(def.Pos()), Verdict: OK, Note: "go-to-definition and find-references resolve through the same function"})
		} else {
			obs = append(obs, Ob{Key: "SIB:definition=references", Site: c.Pos(def.Pos()), Verdict: VIOLATION, Note: "go-to-definition and find-references no longer resolve the cursor symbol through the same function"})
		}
		return obs
	},
}
