package main

// PANIC/P4: single-value type assertions on untyped (empty-interface) values.
//
// `x.(T)` without the comma-ok form panics when the dynamic type is not T; jrpc2 does not recover handler
// panics (C01). In this code base empty interfaces carry (a) AST nodes (ast.Exp / ast.Stat are empty
// interfaces), (b) the elements of generic containers (container/list values of the LRU cache, the values
// handed to LRUCache.Set, the messages of reflect.Select pools), (c) recover() payloads (rule P3).
// Every single-value assertion must be justified structurally:
//   guarded     a comma-ok assertion / type-switch case of the same type on the same access path has
//               succeeded on every path to it (dominance);
//   container   every value put into that container anywhere in the module has exactly the asserted type
//               (all PushFront/PushBack/InsertBefore arguments; all LRUCache.Set values; the element type
//               of every channel wrapped by reflect.ValueOf in the function that calls reflect.Select).

import (
	"fmt"
	"go/token"
	"go/types"
	"sort"

	"golang.org/x/tools/go/ssa"
)

func emptyIface(t types.Type) bool {
	it, ok := types.Unalias(t).Underlying().(*types.Interface)
	return ok && it.NumMethods() == 0
}

// okTrueSucc: for a comma-ok assertion t (a tuple), the blocks entered only when ok is true
func okTrueSuccs(t *ssa.TypeAssert) []*ssa.BasicBlock {
	var out []*ssa.BasicBlock
	refs := t.Referrers()
	if refs == nil {
		return nil
	}
	for _, r := range *refs {
		ex, ok := r.(*ssa.Extract)
		if !ok || ex.Index != 1 {
			continue
		}
		var follow func(v ssa.Value, neg bool, d int)
		follow = func(v ssa.Value, neg bool, d int) {
			if d > 3 {
				return
			}
			vr := v.Referrers()
			if vr == nil {
				return
			}
			for _, u := range *vr {
				switch x := u.(type) {
				case *ssa.If:
					if neg {
						out = append(out, x.Block().Succs[1])
					} else {
						out = append(out, x.Block().Succs[0])
					}
				case *ssa.UnOp:
					if x.Op == token.NOT {
						follow(x, !neg, d+1)
					}
				}
			}
		}
		follow(ex, false, 0)
	}
	return out
}

var rulePanicP4 = &Rule{
	Name:    "PANIC/P4-unchecked-assertion",
	NeedSSA: true,
	Text:    "every single-value type assertion x.(T) on an empty-interface value in code reachable from a handler is justified: (guarded) a comma-ok assertion or type-switch case of the same type on the same access path dominates it on its success branch; or (container) x comes out of a generic container into which the module only ever puts values of type T — container/list elements (all PushFront / PushBack / Insert* arguments), LRUCache values (all Set arguments), pool messages (reflect.Select over channels whose element type is T); recover() payloads are judged by P3. An unjustified assertion on an AST node or a decoded value is a panic the dispatcher does not recover",
	Run: func(c *Ctx) []Ob {
		var obs []Ob
		// container disciplines, computed once
		listTypes := map[string]bool{} // dynamic types pushed into container/list lists
		setTypes := map[string]bool{}  // dynamic types passed as value to LRUCache.Set
		for _, f := range c.ModFns() {
			for _, b := range f.Blocks {
				for _, ins := range b.Instrs {
					call, ok := ins.(*ssa.Call)
					if !ok {
						continue
					}
					sc := call.Call.StaticCallee()
					if sc == nil {
						continue
					}
					dyn := func(v ssa.Value) string {
						if mi, ok := v.(*ssa.MakeInterface); ok {
							return mi.X.Type().String()
						}
						return "?" + v.Type().String()
					}
					if sc.Pkg != nil && sc.Pkg.Pkg.Path() == "container/list" {
						switch sc.Name() {
						case "PushFront", "PushBack":
							listTypes[dyn(call.Call.Args[1])] = true
						case "InsertBefore", "InsertAfter":
							listTypes[dyn(call.Call.Args[1])] = true
						}
					}
					if sc.Name() == "Set" && sc.Signature.Recv() != nil && namedName(sc.Signature.Recv().Type()) == "LRUCache" && len(call.Call.Args) == 3 {
						setTypes[dyn(call.Call.Args[2])] = true
					}
				}
			}
		}
		only := func(m map[string]bool, t types.Type) bool { return len(m) == 1 && m[t.String()] }

		live := map[*ssa.Function]bool{}
		if hs, err := c.Handlers(); err == nil {
			var roots []*ssa.Function
			for _, h := range hs {
				roots = append(roots, h.Fn)
			}
			for _, g := range c.GoSites() {
				if g.Callee != nil {
					roots = append(roots, g.Callee)
				}
			}
			_, seen := reach(c.VTA(), roots, nil)
			live = seen
		}
		n := 0
		var fns []*ssa.Function
		fns = append(fns, c.ModFns()...)
		sort.Slice(fns, func(i, j int) bool { return fnKey(fns[i]) < fnKey(fns[j]) })
		for _, f := range fns {
			cnt := 0
			for _, b := range f.Blocks {
				for _, ins := range b.Instrs {
					ta, ok := ins.(*ssa.TypeAssert)
					if !ok || ta.CommaOk || !emptyIface(ta.X.Type()) {
						continue
					}
					// recover() payload: P3
					if call, ok := ta.X.(*ssa.Call); ok {
						if bi, ok := call.Call.Value.(*ssa.Builtin); ok && bi.Name() == "recover" {
							continue
						}
					}
					if ph, ok := ta.X.(*ssa.Phi); ok {
						isRec := false
						for _, e := range ph.Edges {
							if call, ok := e.(*ssa.Call); ok {
								if bi, ok := call.Call.Value.(*ssa.Builtin); ok && bi.Name() == "recover" {
									isRec = true
								}
							}
						}
						if isRec {
							continue
						}
					}
					n++
					cnt++
					key := fmt.Sprintf("PANIC/P4:%s#%d", fnKey(f), cnt)
					if len(live) > 0 && !live[f] {
						obs = append(obs, Ob{Key: key, Site: c.Pos(ta.Pos()), Verdict: OK, Note: "function not reachable from any handler or goroutine entry"})
						continue
					}
					why := ""
					// (guarded)
					px := apath(ta.X, 0)
					for _, bb := range f.Blocks {
						for _, i2 := range bb.Instrs {
							t2, ok := i2.(*ssa.TypeAssert)
							if !ok || !t2.CommaOk || !types.Identical(t2.AssertedType, ta.AssertedType) || apath(t2.X, 0) != px {
								continue
							}
							for _, s := range okTrueSuccs(t2) {
								if s.Dominates(b) {
									why = "guarded by the comma-ok assertion / type-switch case at " + c.Pos(t2.Pos())
								}
							}
						}
					}
					// (container)
					if why == "" {
						switch x := ta.X.(type) {
						case *ssa.UnOp:
							if fa, ok := x.X.(*ssa.FieldAddr); ok && fieldOf(fa).Name() == "Value" {
								if _, n := namedPkgName(fa.X.Type()); n == "Element" && only(listTypes, ta.AssertedType) {
									why = "container/list element: every value pushed into a list in the module is a " + ta.AssertedType.String()
								}
							}
						case *ssa.Extract:
							if call, ok := x.Tuple.(*ssa.Call); ok {
								if sc := call.Call.StaticCallee(); sc != nil && sc.Name() == "Get" && sc.Signature.Recv() != nil && namedName(sc.Signature.Recv().Type()) == "LRUCache" && only(setTypes, ta.AssertedType) {
									why = "LRUCache value: every LRUCache.Set call in the module stores a " + ta.AssertedType.String()
								}
							}
						case *ssa.Call:
							if sc := x.Call.StaticCallee(); sc != nil && sc.Pkg != nil && sc.Pkg.Pkg.Path() == "reflect" && sc.Name() == "Interface" {
								// every reflect.ValueOf(ch) in this function wraps a channel whose element type is T
								okAll, any := true, false
								for _, bb := range f.Blocks {
									for _, i2 := range bb.Instrs {
										c2, ok := i2.(*ssa.Call)
										if !ok {
											continue
										}
										s2 := c2.Call.StaticCallee()
										if s2 == nil || s2.Pkg == nil || s2.Pkg.Pkg.Path() != "reflect" || s2.Name() != "ValueOf" {
											continue
										}
										arg := c2.Call.Args[0]
										if mi, ok := arg.(*ssa.MakeInterface); ok {
											arg = mi.X
										}
										ch, ok := types.Unalias(arg.Type()).Underlying().(*types.Chan)
										if !ok || !types.Identical(ch.Elem(), ta.AssertedType) {
											okAll = false
										}
										any = true
									}
								}
								if okAll && any {
									why = "message of a reflect.Select pool: every channel wrapped by reflect.ValueOf in this function carries " + ta.AssertedType.String()
								}
							}
						}
					}
					if why != "" {
						obs = append(obs, Ob{Key: key, Site: c.Pos(ta.Pos()), Verdict: OK, Note: why})
					} else {
						obs = append(obs, Ob{Key: key, Site: c.Pos(ta.Pos()), Verdict: VIOLATION,
							Note: fmt.Sprintf("single-value assertion to %s on %s is neither guarded by a successful comma-ok test of the same value nor taken from a container that only holds that type: a different dynamic type panics, and jrpc2 does not recover handler panics", ta.AssertedType.String(), describeValue(ta.X))})
					}
				}
			}
		}
		c.Stats["unchecked_assertions_on_empty_interfaces"] = n
		obs = append(obs, floor("PANIC/P4-unchecked-assertion", "single-value assertions on empty-interface values", n, 10))
		return obs
	},
}
