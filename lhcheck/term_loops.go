package main

import (
	"fmt"
	"go/constant"
	"go/token"
	"go/types"
	"sort"
	"strings"

	"golang.org/x/tools/go/ssa"
)

// ---------------------------------------------------------------------------------------------
// T2: every loop makes progress on every path around it.

type loopInfo struct {
	f      *ssa.Function
	header *ssa.BasicBlock
	body   map[*ssa.BasicBlock]bool
}

func allLoops(f *ssa.Function) []loopInfo {
	ls := loopsOf(f)
	var hs []*ssa.BasicBlock
	for h := range ls {
		hs = append(hs, h)
	}
	sort.Slice(hs, func(i, j int) bool { return hs[i].Index < hs[j].Index })
	var out []loopInfo
	for _, h := range hs {
		out = append(out, loopInfo{f: f, header: h, body: ls[h]})
	}
	return out
}

// exits: If instructions inside the loop with a successor outside it.
func (l *loopInfo) exitConds() []ssa.Value {
	var out []ssa.Value
	for b := range l.body {
		if iff, ok := b.Instrs[len(b.Instrs)-1].(*ssa.If); ok {
			for _, s := range b.Succs {
				if !l.body[s] {
					out = append(out, iff.Cond)
				}
			}
		}
	}
	return out
}

func dependsOn(v, target ssa.Value, depth int, seen map[ssa.Value]bool) bool {
	if v == target {
		return true
	}
	if depth > 8 || seen[v] {
		return false
	}
	seen[v] = true
	ins, ok := v.(ssa.Instruction)
	if !ok {
		return false
	}
	for _, op := range ins.Operands(nil) {
		if *op != nil && dependsOn(*op, target, depth+1, seen) {
			return true
		}
	}
	return false
}

// mustOnBackPaths: on every path from the header around the loop back to the header, an instruction
// satisfying isP executes.
func (l *loopInfo) mustOnBackPaths(isP func(ssa.Instruction) bool) bool {
	return l.mustOnBackPathsE(isP, nil)
}

// mustOnBackPathsE: as mustOnBackPaths; an edge for which isEdge holds counts as having passed P (the branch taken when
// a helper reports that it consumed input)
func (l *loopInfo) mustOnBackPathsE(isP func(ssa.Instruction) bool, isEdge func(from, to *ssa.BasicBlock) bool) bool {
	// forward must-analysis restricted to the loop, starting at the header with "not seen"
	out := map[*ssa.BasicBlock]bool{}
	for b := range l.body {
		out[b] = true
	}
	for changed := true; changed; {
		changed = false
		for b := range l.body {
			in := true
			if b == l.header {
				in = false
			} else {
				any := false
				for _, p := range b.Preds {
					if l.body[p] {
						any = true
						in = in && (out[p] || (isEdge != nil && isEdge(p, b)))
					}
				}
				if !any {
					in = false
				}
			}
			o := in
			for _, ins := range b.Instrs {
				if isP(ins) {
					o = true
				}
			}
			if o != out[b] {
				out[b] = o
				changed = true
			}
		}
	}
	for _, p := range l.header.Preds {
		if l.body[p] && !out[p] && !(isEdge != nil && isEdge(p, l.header)) {
			return false
		}
	}
	return true
}

type loopVerdict struct {
	ok  bool
	how string
	why string
}

type loopEngine struct {
	c      *Ctx
	ma     map[*ssa.Function]bool
	lexAdv map[*ssa.Function]bool // lexer methods that must advance the byte cursor (any context)
	lexEng map[*types.Named]*lexEngine
	kinds  *kindEngine
}

func newLoopEngine(c *Ctx) (*loopEngine, error) {
	e := &loopEngine{c: c, ma: c.mustAdvanceSet(), lexAdv: map[*ssa.Function]bool{}, lexEng: map[*types.Named]*lexEngine{}}
	for _, lx := range [][2]string{{lexerPkg, "Lexer"}, {annLexPkg, "AnnotateLexer"}} {
		le, err := newLexEngine(c, lx[0], lx[1])
		if err != nil {
			return nil, err
		}
		le.solve()
		e.lexEng[le.recvType] = le
		for n, s := range le.sums {
			if n.ctx == (lexCtx{}) && s.done && s.returns && s.exit.adv {
				e.lexAdv[n.fn] = true
			}
		}
	}
	return e, nil
}

func isIntType(t types.Type) bool {
	b, ok := t.Underlying().(*types.Basic)
	return ok && b.Info()&types.IsInteger != 0
}

func (e *loopEngine) judge(l *loopInfo) loopVerdict {
	f := l.f
	// E5: range over map / string / channel: the Next instruction terminates by itself
	for _, ins := range l.header.Instrs {
		if _, ok := ins.(*ssa.Next); ok {
			return loopVerdict{ok: true, how: "range over map/string (iterator exhausts)"}
		}
	}
	exits := l.exitConds()
	// E1: counted loop on an SSA phi
	for _, ins := range l.header.Instrs {
		phi, ok := ins.(*ssa.Phi)
		if !ok {
			break
		}
		if !isIntType(phi.Type()) {
			continue
		}
		step := 0
		okStep := true
		for i, ed := range phi.Edges {
			if !l.body[l.header.Preds[i]] {
				continue
			}
			s, ok := e.stepOf(ed, phi, l, 0)
			if !ok || s == 0 {
				okStep = false
				break
			}
			if step == 0 {
				step = s
			} else if (step > 0) != (s > 0) {
				okStep = false
			}
		}
		if !okStep || step == 0 {
			continue
		}
		for _, cnd := range exits {
			if dependsOn(cnd, phi, 0, map[ssa.Value]bool{}) {
				return loopVerdict{ok: true, how: fmt.Sprintf("counted loop: %s moves monotonically on every path and bounds an exit test", phi.Comment)}
			}
		}
	}
	// E1': counter kept in memory (address taken)
	for b := range l.body {
		for _, ins := range b.Instrs {
			st, ok := ins.(*ssa.Store)
			if !ok {
				continue
			}
			var al ssa.Value
			switch a := st.Addr.(type) {
			case *ssa.Alloc:
				al = a
			case *ssa.Parameter:
				al = a
			}
			if al == nil {
				continue
			}
			if pt, ok := al.Type().Underlying().(*types.Pointer); !ok || !isIntType(pt.Elem()) {
				continue
			}
			isStep := func(i ssa.Instruction) bool {
				s2, ok := i.(*ssa.Store)
				if !ok || s2.Addr != al {
					return false
				}
				bo, ok := s2.Val.(*ssa.BinOp)
				if !ok || (bo.Op != token.ADD && bo.Op != token.SUB) {
					return false
				}
				ld, ok := bo.X.(*ssa.UnOp)
				cst, ok2 := bo.Y.(*ssa.Const)
				return ok && ok2 && ld.Op == token.MUL && ld.X == al && cst.Value != nil && constant.Sign(cst.Value) > 0
			}
			if !isStep(ins) {
				continue
			}
			if l.mustOnBackPaths(isStep) {
				for _, cnd := range exits {
					found := false
					var walk func(v ssa.Value, d int)
					walk = func(v ssa.Value, d int) {
						if d > 6 || found {
							return
						}
						if u, ok := v.(*ssa.UnOp); ok && u.Op == token.MUL && u.X == al {
							found = true
							return
						}
						if i2, ok := v.(ssa.Instruction); ok {
							for _, op := range i2.Operands(nil) {
								if *op != nil {
									walk(*op, d+1)
								}
							}
						}
					}
					walk(cnd, 0)
					if found {
						return loopVerdict{ok: true, how: "counted loop on an integer in memory (stepped on every path, bounds an exit test)"}
					}
				}
			}
		}
	}
	// E4: blocking / service loops
	for b := range l.body {
		for _, ins := range b.Instrs {
			switch x := ins.(type) {
			case *ssa.Select:
				return loopVerdict{ok: true, how: "service loop (select)"}
			case *ssa.UnOp:
				if x.Op == token.ARROW {
					return loopVerdict{ok: true, how: "service loop (channel receive)"}
				}
			case *ssa.Call:
				if sc := x.Call.StaticCallee(); sc != nil {
					switch sc.String() {
					case "reflect.Select", "time.Sleep", "(*sync.WaitGroup).Wait":
						return loopVerdict{ok: true, how: "service loop (" + sc.String() + ")"}
					}
				}
				if x.Call.IsInvoke() && (x.Call.Method.Name() == "Read" || x.Call.Method.Name() == "Accept") {
					return loopVerdict{ok: true, how: "service loop (blocking " + x.Call.Method.Name() + ")"}
				}
			}
		}
	}
	// E3: link walk on a pointer phi
	for _, ins := range l.header.Instrs {
		phi, ok := ins.(*ssa.Phi)
		if !ok {
			break
		}
		if _, isPtr := phi.Type().Underlying().(*types.Pointer); !isPtr {
			continue
		}
		okLink := true
		n := 0
		for i, ed := range phi.Edges {
			if !l.body[l.header.Preds[i]] {
				continue
			}
			n++
			u, ok := ed.(*ssa.UnOp)
			if !ok || u.Op != token.MUL {
				okLink = false
				break
			}
			fa, ok := u.X.(*ssa.FieldAddr)
			if !ok || fa.X != ssa.Value(phi) || !isUpField(fieldName(fa.X.Type(), fa.Field)) {
				okLink = false
			}
		}
		if okLink && n > 0 {
			return loopVerdict{ok: true, how: "link walk: " + phi.Comment + " follows an up-link (Parent / Prev) to nil (acyclic chain assumed)"}
		}
	}
	// E2: input consumption on every path around the loop
	pkg := ""
	if f.Package() != nil {
		pkg = f.Package().Pkg.Path()
	}
	g := e.c.VTA()
	isConsume := func(ins ssa.Instruction) bool {
		call, ok := ins.(*ssa.Call)
		if !ok {
			return false
		}
		sc := call.Call.StaticCallee()
		if sc != nil {
			if isTokenStep(sc) || e.ma[sc] || e.lexAdv[sc] {
				return true
			}
			if sc.Name() == "next" && len(call.Call.Args) == 2 {
				if cst, ok := call.Call.Args[1].(*ssa.Const); ok && cst.Value != nil && constant.Sign(cst.Value) > 0 {
					return true
				}
				if positiveAt(call.Call.Args[1], call.Block()) {
					return true // next(n) with n = lineBreakLen() behind `n > 0`
				}
			}
			return false
		}
		cs := calleesOf(g, call)
		if len(cs) == 0 {
			return false
		}
		for _, cf := range cs {
			if !isTokenStep(cf) && !e.ma[cf] {
				return false
			}
		}
		return true
	}
	// chunk reslice with a positive constant / proven bound inside a lexer method
	isReslice := func(ins ssa.Instruction) bool {
		st, ok := ins.(*ssa.Store)
		if !ok {
			return false
		}
		fa, ok := st.Addr.(*ssa.FieldAddr)
		if !ok || fieldName(fa.X.Type(), fa.Field) != "chunk" {
			return false
		}
		sl, ok := st.Val.(*ssa.Slice)
		if !ok || sl.Low == nil {
			return false
		}
		if cst, ok := sl.Low.(*ssa.Const); ok && cst.Value != nil && constant.Sign(cst.Value) > 0 {
			return true
		}
		return false
	}
	if strings.HasSuffix(pkg, "/parser") || strings.HasSuffix(pkg, "/annotateparser") {
		// kind-sensitive: for every look-ahead kind K, no feasible path goes around the loop without a token step
		// (at K = end of input the step does nothing, so the loop must be left)
		if e.kinds == nil {
			e.kinds = newKindEngine(e.c)
		}
		bad := e.kinds.loopStalls(l)
		if len(bad) == 0 {
			return loopVerdict{ok: true, how: "for every look-ahead kind, each feasible path around the loop passes a token step (and the loop is left at end of input)"}
		}
		sp, _, _ := tokenSpellings(e.c)
		var names []string
		for _, k := range bad {
			if strings.HasSuffix(pkg, "/parser") && sp != nil && sp[k] != "" {
				names = append(names, sp[k])
			} else {
				names = append(names, fmt.Sprint(k))
			}
		}
		return loopVerdict{why: "with the look-ahead token kind in {" + strings.Join(names, " ") + "} some feasible path goes around the loop without consuming a token: the parser spins on that token"}
	}
	// a bool-returning helper that answers true only after it has consumed input (skipBlank): its true branch is progress
	advWhenTrue := func(g *ssa.Function) bool {
		if g == nil || g.Blocks == nil || g.Signature.Results().Len() != 1 || !isBoolType(g.Signature.Results().At(0).Type()) {
			return false
		}
		out := map[*ssa.BasicBlock]bool{}
		for _, b := range g.Blocks {
			out[b] = true
		}
		for changed := true; changed; {
			changed = false
			for _, b := range g.Blocks {
				in := len(b.Preds) > 0
				for _, p := range b.Preds {
					in = in && out[p]
				}
				o := in
				for _, ins := range b.Instrs {
					if isConsume(ins) || isReslice(ins) {
						o = true
					}
				}
				if o != out[b] {
					out[b] = o
					changed = true
				}
			}
		}
		n := 0
		for _, b := range g.Blocks {
			ret, ok := b.Instrs[len(b.Instrs)-1].(*ssa.Return)
			if !ok {
				continue
			}
			n++
			rv := ret.Results[0]
			if k, ok := rv.(*ssa.Const); ok && k.Value != nil && k.Value.Kind() == constant.Bool && !constant.BoolVal(k.Value) {
				continue
			}
			if ph, ok := rv.(*ssa.Phi); ok && ph.Block() == b {
				for i, e := range ph.Edges {
					if k, ok := e.(*ssa.Const); ok && k.Value != nil && k.Value.Kind() == constant.Bool && !constant.BoolVal(k.Value) {
						continue
					}
					if !out[b.Preds[i]] {
						return false
					}
				}
				continue
			}
			if !out[b] {
				return false
			}
		}
		return n > 0
	}
	trueEdgeOfAdvancer := func(from, to *ssa.BasicBlock) bool {
		iff, ok := from.Instrs[len(from.Instrs)-1].(*ssa.If)
		if !ok || len(from.Succs) != 2 || from.Succs[0] == from.Succs[1] {
			return false
		}
		e := stripNot(condEdge{iff.Cond, from.Succs[0] == to})
		call, ok := e.cond.(*ssa.Call)
		return ok && e.truth && call.Block() == from && advWhenTrue(call.Call.StaticCallee())
	}
	if l.mustOnBackPathsE(func(i ssa.Instruction) bool { return isConsume(i) || isReslice(i) }, trueEdgeOfAdvancer) {
		return loopVerdict{ok: true, how: "consumes input on every path around the loop"}
	}
	return loopVerdict{why: "no path-independent progress: not a counted loop, no input consumption on every path around it, no link walk, no blocking receive"}
}

// stepOf: v == phi + k along the loop (through inner phis whose every edge is such a step)
func (e *loopEngine) stepOf(v ssa.Value, phi *ssa.Phi, l *loopInfo, depth int) (int, bool) {
	if depth > 6 {
		return 0, false
	}
	switch x := v.(type) {
	case *ssa.BinOp:
		if x.Op != token.ADD && x.Op != token.SUB {
			return 0, false
		}
		cst, ok := x.Y.(*ssa.Const)
		if !ok || cst.Value == nil || cst.Value.Kind() != constant.Int {
			return 0, false
		}
		k, _ := constant.Int64Val(cst.Value)
		if x.Op == token.SUB {
			k = -k
		}
		if x.X == ssa.Value(phi) {
			return int(k), true
		}
		base, ok := e.stepOf(x.X, phi, l, depth+1)
		if !ok {
			return 0, false
		}
		if (base >= 0) != (k >= 0) && base != 0 {
			return 0, false
		}
		return base + int(k), true
	case *ssa.Phi:
		if x == phi {
			return 0, true
		}
		if !l.body[x.Block()] {
			return 0, false
		}
		res := 0
		first := true
		for _, ed := range x.Edges {
			s, ok := e.stepOf(ed, phi, l, depth+1)
			if !ok {
				return 0, false
			}
			if first {
				res, first = s, false
			} else {
				// all edges must move in the same direction; keep the smallest magnitude
				if (s > 0) != (res > 0) || s == 0 || res == 0 {
					if s == 0 || res == 0 {
						return 0, true // some path does not move: not strictly monotone
					}
					return 0, false
				}
				if abs(s) < abs(res) {
					res = s
				}
			}
		}
		return res, !first
	}
	return 0, false
}

func abs(x int) int {
	if x < 0 {
		return -x
	}
	return x
}

var ruleTermT2 = &Rule{
	Name:    "TERM/T2-loop-progress",
	NeedSSA: true,
	Text:    "every loop of the two lexers and the two parsers, and every condition-less `for` of the module, makes progress on every path around it: a monotone integer counter that bounds an exit test, consumption of input (token step / must-advance call / byte advance >= 1) — and then the loop is forced to exit when the look-ahead is end-of-input, where the token step does nothing —, a walk along an up-link to nil, or a blocking receive (service loop)",
	Run: func(c *Ctx) []Ob {
		var obs []Ob
		e, err := newLoopEngine(c)
		if err != nil {
			return []Ob{{Key: "TERM/T2:slots", Verdict: UNDECIDED, Note: err.Error()}}
		}
		n := 0
		for _, f := range c.ModFns() {
			pkg := ""
			if f.Package() != nil {
				pkg = f.Package().Pkg.Path()
			}
			inScope := pkg == lexerPkg || pkg == parserPkg || pkg == annLexPkg || pkg == annParPkg
			cnt := 0
			for _, l := range allLoops(f) {
				l := l
				_, hasCond := l.header.Instrs[len(l.header.Instrs)-1].(*ssa.If)
				if !inScope && hasCond {
					continue
				}
				n++
				cnt++
				key := fmt.Sprintf("TERM/T2:%s:loop%d", fnKey(f), cnt)
				v := e.judge(&l)
				site := c.Pos(l.header.Instrs[0].Pos())
				if site == "?" {
					for _, ins := range l.header.Instrs {
						if ins.Pos().IsValid() {
							site = c.Pos(ins.Pos())
							break
						}
					}
				}
				if site == "?" {
					for b := range l.body {
						for _, ins := range b.Instrs {
							if ins.Pos().IsValid() && site == "?" {
								site = c.Pos(ins.Pos())
							}
						}
					}
				}
				if v.ok {
					obs = append(obs, Ob{Key: key, Site: site, Verdict: OK, Note: v.how})
				} else if why, ok := reviewedLoops[key]; ok {
					obs = append(obs, Ob{Key: key, Site: site, Verdict: OK, Note: "reviewed (frozen by reading): " + why})
				} else {
					obs = append(obs, Ob{Key: key, Site: site, Verdict: VIOLATION, Note: "loop may not terminate: " + v.why})
				}
			}
		}
		c.Stats["loops_examined"] = n
		obs = append(obs, floor("TERM/T2-loop-progress", "loops examined", n, 40))
		return obs
	},
}

// reviewedLoops: loops whose progress is a fact about runtime values (frozen by reading).
var reviewedLoops = map[string]string{
	"TERM/T2:(*check/compiler/lexer.Lexer).readEscapeSequence:loop1": "the `\\z` whitespace skipper: each iteration either increments *i directly, or calls consumeEOL(i) which returns true only after incrementing *i, or breaks; the relation 'returns true => incremented' is a fact about the callee's return value",
}
