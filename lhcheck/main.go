// lhcheck decides structural clauses of the LuaHelper properties C01..C20 by static analysis of
// /repo's current working tree. Nothing of the target is executed. See /verif/DESIGN.md.
package main

import (
	"encoding/json"
	"flag"
	"fmt"
	"go/types"
	"golang.org/x/tools/go/ssa"
	"os"
	"path/filepath"
	"runtime/debug"
	"sort"
	"strconv"
	"strings"
	"time"
)

// Ob is one obligation: a rule instance at a construct, with its verdict.
type Ob struct {
	Rule    string   `json:"rule"`
	Key     string   `json:"key"`  // stable, line-independent: rule + construct
	Site    string   `json:"site"` // file:line (diagnosis only, never used for matching)
	Verdict string   `json:"verdict"`
	Note    string   `json:"note,omitempty"`
	Path    []string `json:"path,omitempty"`
}

const (
	OK        = "ok"
	VIOLATION = "violation"
	UNDECIDED = "undecided"
	VACUOUS   = "vacuous"
)

// Rule is one engine entry.
type Rule struct {
	Name    string
	Text    string // the rule in words (goes to evidence.explanation)
	NeedSSA bool
	Run     func(c *Ctx) []Ob
}

type propSpec struct {
	ID     string
	Rules  []*Rule
	NotCov string // what is not decided
	Assume []string
}

type knownFinding struct {
	Properties []string `json:"properties"`
	Key        string   `json:"key"`
	What       string   `json:"what"`
	Witness    string   `json:"witness"`
}

type knownFile struct {
	Findings []knownFinding `json:"findings"`
	Fixed    []string       `json:"fixed"`
}

func verifDir() string {
	if d := os.Getenv("LH_VERIF"); d != "" {
		return d
	}
	exe, err := os.Executable()
	if err == nil {
		d := filepath.Dir(filepath.Dir(exe)) // /verif/bin/lhcheck -> /verif
		if _, err := os.Stat(filepath.Join(d, "properties.jsonl")); err == nil {
			return d
		}
	}
	return "/verif"
}

func main() {
	prop := flag.String("property", "", "property id (C01..C20)")
	tier := flag.String("tier", "", "quick|thorough (default $VERIF_TIER or quick)")
	repo := flag.String("repo", "", "repository root (default $LH_REPO or /repo)")
	replay := flag.String("replay", "", "violation file to re-run")
	noEvidence := flag.Bool("no-evidence", false, "do not write evidence (used for scratch trees)")
	list := flag.Bool("list", false, "list properties and rules")
	allKeys := flag.Bool("keys", false, "(tooling) load once, run every claimed property's rules and print `KEY <property> <verdict> <key>` for every non-ok obligation")
	mutantID := flag.String("mutant", "", "(internal) run the property's rules on the overlay mutant with this id and print violation keys")
	flag.Parse()
	if *tier == "" {
		*tier = os.Getenv("VERIF_TIER")
	}
	if *tier != "thorough" {
		*tier = "quick"
	}
	if *repo == "" {
		*repo = os.Getenv("LH_REPO")
	}
	if *repo == "" {
		*repo = "/repo"
	}
	specs := allSpecs()
	if *list {
		for _, s := range specs {
			fmt.Println(s.ID)
			for _, r := range s.Rules {
				fmt.Printf("  %-28s %s\n", r.Name, r.Text)
			}
		}
		return
	}
	if *allKeys {
		c, err := Load(*repo, "quick", true)
		if err != nil {
			fmt.Println("KEY * undecided ENGINE/load", strings.Split(err.Error(), "\n")[0])
			os.Exit(1)
		}
		done := map[*Rule][]Ob{}
		for _, s := range specs {
			for _, r := range s.Rules {
				obs, ok := done[r]
				if !ok {
					func() {
						defer func() {
							if rec := recover(); rec != nil {
								obs = []Ob{{Key: r.Name + ":panic", Verdict: UNDECIDED}}
							}
						}()
						obs = r.Run(c)
					}()
					done[r] = obs
				}
				for _, o := range obs {
					if o.Verdict != OK {
						fmt.Printf("KEY %s %s %s\n", s.ID, o.Verdict, o.Key)
					}
				}
			}
		}
		os.Exit(0)
	}
	var onlyKey string
	if *replay != "" {
		b, err := os.ReadFile(*replay)
		if err != nil {
			fmt.Println("cannot read replay file:", err)
			os.Exit(2)
		}
		var v struct {
			Property string `json:"property"`
			Ob       Ob     `json:"obligation"`
		}
		if err := json.Unmarshal(b, &v); err != nil {
			fmt.Println("bad replay file:", err)
			os.Exit(2)
		}
		*prop = v.Property
		onlyKey = v.Ob.Key
		*noEvidence = true
	}
	var spec *propSpec
	for _, s := range specs {
		if s.ID == *prop {
			spec = s
		}
	}
	if spec == nil {
		fmt.Printf("unknown or unclaimed property %q\n", *prop)
		os.Exit(2)
	}
	if *mutantID != "" {
		ms, err := loadMutants(verifDir())
		if err != nil {
			fmt.Println("MUTANT-BROKEN", err)
			os.Exit(0)
		}
		for _, m := range ms {
			if m.ID == *mutantID {
				os.Exit(runMutantChild(spec, *repo, m))
			}
		}
		fmt.Println("MUTANT-SKIP unknown mutant")
		os.Exit(0)
	}
	os.Exit(runProperty(spec, *repo, *tier, onlyKey, !*noEvidence))
}

func runProperty(spec *propSpec, repo, tier, onlyKey string, writeEv bool) (code int) {
	start := time.Now()
	vdir := verifDir()
	seed, _ := strconv.Atoi(os.Getenv("VERIF_SEED"))
	var obs []Ob
	var ctx *Ctx
	fatal := func(rule, msg string) {
		obs = append(obs, Ob{Rule: rule, Key: rule + ":internal", Verdict: UNDECIDED, Note: msg})
	}
	func() {
		defer func() {
			if r := recover(); r != nil {
				fatal("ENGINE/panic", fmt.Sprintf("analyser panic: %v\n%s", r, debug.Stack()))
			}
		}()
		needSSA := false
		for _, r := range spec.Rules {
			if r.NeedSSA {
				needSSA = true
			}
		}
		c, err := Load(repo, tier, needSSA)
		if err != nil {
			fatal("ENGINE/load", err.Error())
			return
		}
		ctx = c
		for _, r := range spec.Rules {
			func() {
				defer func() {
					if rec := recover(); rec != nil {
						fatal(r.Name, fmt.Sprintf("rule panic: %v\n%s", rec, debug.Stack()))
					}
				}()
				got := r.Run(c)
				for i := range got {
					if got[i].Rule == "" {
						got[i].Rule = r.Name
					}
				}
				if len(got) == 0 {
					got = append(got, Ob{Rule: r.Name, Key: r.Name + ":no-instances", Verdict: VACUOUS, Note: "rule produced no obligations"})
				}
				obs = append(obs, got...)
			}()
		}
	}()

	// known findings
	var kf knownFile
	if b, err := os.ReadFile(filepath.Join(vdir, "known_findings.json")); err == nil {
		if err := json.Unmarshal(b, &kf); err != nil {
			fatal("ENGINE/known-findings", "known_findings.json does not parse: "+err.Error())
		}
	}
	known := map[string]knownFinding{}
	for _, k := range kf.Findings {
		for _, p := range k.Properties {
			if p == spec.ID {
				known[k.Key] = k
			}
		}
	}

	sort.SliceStable(obs, func(i, j int) bool {
		if obs[i].Rule != obs[j].Rule {
			return obs[i].Rule < obs[j].Rule
		}
		return obs[i].Key < obs[j].Key
	})

	nOK, nViol, nKnown := 0, 0, 0
	distinct := map[string]bool{}
	var violFiles []string
	os.MkdirAll(filepath.Join(vdir, "evidence", "violations"), 0o755)
	if writeEv {
		old, _ := filepath.Glob(filepath.Join(vdir, "evidence", "violations", spec.ID+"-*.json"))
		for _, f := range old {
			os.Remove(f)
		}
	}
	seenKnown := map[string]bool{}
	for _, o := range obs {
		if onlyKey != "" && o.Key != onlyKey {
			continue
		}
		if o.Site != "" && o.Site != "?" {
			distinct[o.Key] = true
		}
		switch o.Verdict {
		case OK:
			nOK++
		default:
			if k, ok := known[o.Key]; ok && o.Verdict == VIOLATION {
				nKnown++
				if !seenKnown[o.Key] {
					seenKnown[o.Key] = true
					fmt.Printf("KNOWN-FINDING: property=%s %s %s [%s]\n", spec.ID, o.Key, k.What, o.Site)
				}
				continue
			}
			nViol++
			fmt.Printf("%s: %s %s: %s", o.Site, strings.ToUpper(o.Verdict), o.Key, o.Note)
			if len(o.Path) > 0 {
				fmt.Printf("\n    path: %s", strings.Join(o.Path, "\n          -> "))
			}
			fmt.Println()
			vf := filepath.Join(vdir, "evidence", "violations", fmt.Sprintf("%s-%d.json", spec.ID, nViol))
			if !writeEv {
				vf = filepath.Join(os.TempDir(), fmt.Sprintf("lhcheck-%s-%d.json", spec.ID, nViol))
			}
			b, _ := json.MarshalIndent(map[string]interface{}{"property": spec.ID, "obligation": o,
				"replay": "lhcheck -replay <this file>"}, "", " ")
			os.WriteFile(vf, b, 0o644)
			violFiles = append(violFiles, vf)
			fmt.Printf("VIOLATION property=%s replay=%s\n", spec.ID, vf)
		}
	}
	if onlyKey != "" && nOK+nViol+nKnown == 0 {
		fmt.Printf("replay: obligation %s no longer exists on this tree\n", onlyKey)
	}
	var mres []mutantResult
	if tier == "thorough" && onlyKey == "" {
		base := map[string]bool{}
		for _, o := range obs {
			if o.Verdict != OK {
				base[o.Key] = true
			}
		}
		var err error
		mres, err = selfValidate(spec, repo, vdir, base)
		if err != nil {
			fmt.Println("self-validation skipped:", err)
		}
		k, sv, sk := 0, 0, 0
		for _, r := range mres {
			switch r.Status {
			case "killed":
				k++
			case "survived":
				sv++
				fmt.Printf("SELF-VALIDATION: mutant %s SURVIVED (%s)\n", r.ID, r.Detail)
			default:
				sk++
			}
		}
		fmt.Printf("self-validation: %d overlay mutants: %d killed, %d survived, %d skipped/broken\n", len(mres), k, sv, sk)
		selfValidation = mres
	}
	wall := time.Since(start).Seconds()
	if writeEv {
		writeEvidence(vdir, spec, ctx, obs, tier, seed, nOK, nViol, nKnown, len(distinct), wall, known)
	}
	fmt.Printf("lhcheck property=%s tier=%s obligations=%d ok=%d known=%d violations=%d wall=%.1fs\n",
		spec.ID, tier, len(obs), nOK, nKnown, nViol, wall)
	if nViol > 0 {
		return 1
	}
	return 0
}

func writeEvidence(vdir string, spec *propSpec, c *Ctx, obs []Ob, tier string, seed, nOK, nViol, nKnown, distinct int, wall float64, known map[string]knownFinding) {
	var expl []string
	perRule := map[string]map[string]int{}
	for _, r := range spec.Rules {
		expl = append(expl, r.Name+": "+r.Text)
	}
	for _, o := range obs {
		m := perRule[o.Rule]
		if m == nil {
			m = map[string]int{}
			perRule[o.Rule] = m
		}
		v := o.Verdict
		if _, ok := known[o.Key]; ok && v == VIOLATION {
			v = "known-finding"
		}
		m[v]++
	}
	// samples: all non-ok, plus up to 3 ok per rule
	var samples []Ob
	cnt := map[string]int{}
	for _, o := range obs {
		if o.Verdict != OK {
			samples = append(samples, o)
			continue
		}
		if cnt[o.Rule] < 3 {
			cnt[o.Rule]++
			samples = append(samples, o)
		}
	}
	if len(samples) > 120 {
		samples = samples[:120]
	}
	stats := map[string]int{}
	if c != nil {
		for k, v := range c.Stats {
			stats[k] = v
		}
	}
	ev := map[string]interface{}{
		"property_id": spec.ID,
		"tier":        tier,
		"seed":        seed,
		"level":       "other",
		"wall_s":      wall,
		"violations":  nViol,
		"assumptions": spec.Assume,
		"coverage": map[string]interface{}{
			"explanation":         "Static analysis of /repo's working tree (go/packages + go/types + go/ssa + VTA call graph; nothing executed). Rules applied — " + strings.Join(expl, " || ") + ". NOT decided: " + spec.NotCov,
			"obligations":         len(obs),
			"discharged":          nOK,
			"known_findings":      nKnown,
			"evaluations":         len(obs),
			"distinct_nontrivial": distinct,
			"rule":                "one obligation per rule instance discovered in the source (keyed by rule+construct); distinct_nontrivial counts distinct keys that have a real source site",
			"samples":             samples,
			"per_rule":            perRule,
			"analysed":            stats,
			"checker_cmd":         "bin/lhcheck -property " + spec.ID + " -tier " + tier,
			"trusted_base":        []string{"go/packages, go/types, go/ssa, callgraph/vta+cha from golang.org/x/tools v0.29.0", "Go 1.23 type checker", "slot tables in lhcheck (hand-written, fail loudly when unresolved)"},
			"exhaustive":          true,
			"self_validation":     selfValidation,
		},
	}
	b, _ := json.MarshalIndent(ev, "", " ")
	os.MkdirAll(filepath.Join(vdir, "evidence"), 0o755)
	os.WriteFile(filepath.Join(vdir, "evidence", spec.ID+".json"), b, 0o644)
}

var selfValidation []mutantResult

// floor emits a vacuity obligation: measured count must be >= floor.
func floor(rule, what string, got, min int) Ob {
	// the number given by the rule is the count confirmed by hand when the rule was written; the effective floor
	// is a third of it (at least 1): a behaviour-preserving refactoring (helper extraction merges instances)
	// must not trip it, a rule that has lost sight of its instances must
	eff := min / 3
	if eff < 1 {
		eff = 1
	}
	o := Ob{Rule: rule, Key: rule + ":floor:" + what, Site: "", Verdict: OK,
		Note: fmt.Sprintf("%s: measured %d, floor %d (confirmed %d)", what, got, eff, min)}
	if got < eff {
		o.Verdict = VACUOUS
	}
	if os.Getenv("LH_FLOORS") != "" {
		fmt.Fprintf(os.Stderr, "FLOOR\t%s\t%s\t%d\t%d\n", rule, what, got, eff)
	}
	return o
}

func init() {
	if os.Getenv("LH_DET_DUMP") != "" {
		c, err := Load("/repo", "quick", true)
		if err != nil {
			fmt.Println(err)
			os.Exit(2)
		}
		if os.Getenv("LH_DET_DUMP") == "3" {
			for _, f := range c.ModFns() {
				for _, b := range f.Blocks {
					for _, ins := range b.Instrs {
						if ta, ok := ins.(*ssa.TypeAssert); ok && !ta.CommaOk {
							if it, ok := ta.X.Type().Underlying().(*types.Interface); ok && it.NumMethods() == 0 {
								fmt.Println("TA", c.Pos(ta.Pos()), fnKey(f), ta.AssertedType.String(), describeValue(ta.X))
							}
						}
					}
				}
			}
			os.Exit(0)
		}
		if os.Getenv("LH_DET_DUMP") == "2" {
			e := newDetEngine(c)
			e.run()
			for fv, why := range e.taintedField {
				fmt.Println("TAINTED", slotShort(fv), why)
			}
			for f, m := range e.appendsTo {
				for fv := range m {
					fmt.Println("APPENDS", fnKey(f), slotShort(fv))
				}
			}
			for _, l := range e.loops {
				fmt.Println("LOOP", l.kind, fnKey(l.f), c.Pos(l.pos))
			}
			os.Exit(0)
		}
		detDump(c)
		os.Exit(0)
	}
}
