package main

import (
	"fmt"
	"go/token"
	"go/types"
	"sort"
	"strings"

	"golang.org/x/tools/go/ssa"
)

// ---------------------------------------------------------------------------------------------
// LOCK: lockset + may-happen-in-parallel analysis over the registered handlers (C10).

// abstract lock identity: the mutex field (types.Var) or package-level mutex (ssa.Global)
type lockID interface{}

type lockMode int8

const (
	modeNone lockMode = 0
	modeR    lockMode = 1
	modeW    lockMode = 2
)

type lockset map[lockID]lockMode

func (l lockset) clone() lockset {
	n := lockset{}
	for k, v := range l {
		n[k] = v
	}
	return n
}

func (l lockset) key() string {
	var s []string
	for k, v := range l {
		s = append(s, fmt.Sprintf("%s:%d", lockName(k), v))
	}
	sort.Strings(s)
	return strings.Join(s, ",")
}

func meetLS(a, b lockset) lockset {
	r := lockset{}
	for k, v := range a {
		if w, ok := b[k]; ok {
			if w < v {
				v = w
			}
			r[k] = v
		}
	}
	return r
}

func eqLS(a, b lockset) bool {
	if len(a) != len(b) {
		return false
	}
	for k, v := range a {
		if b[k] != v {
			return false
		}
	}
	return true
}

func lockName(id lockID) string {
	switch x := id.(type) {
	case *types.Var:
		return x.Name()
	case *ssa.Global:
		return shortPkg(x.Pkg.Pkg.Path()) + "." + x.Name()
	}
	return "?"
}

// lockOp recognises sync.Mutex / sync.RWMutex operations; returns id, op ("Lock","Unlock","RLock","RUnlock").
func lockOp(cc *ssa.CallCommon) (lockID, string, bool) {
	sc := cc.StaticCallee()
	if sc == nil || sc.Pkg == nil || sc.Pkg.Pkg.Path() != "sync" || sc.Signature.Recv() == nil {
		return nil, "", false
	}
	rn := namedName(sc.Signature.Recv().Type())
	if rn != "Mutex" && rn != "RWMutex" {
		return nil, "", false
	}
	switch sc.Name() {
	case "Lock", "Unlock", "RLock", "RUnlock":
	default:
		return nil, "", false
	}
	if len(cc.Args) == 0 {
		return nil, "", false
	}
	switch a := cc.Args[0].(type) {
	case *ssa.FieldAddr:
		st := a.X.Type().Underlying().(*types.Pointer).Elem().Underlying().(*types.Struct)
		return st.Field(a.Field), sc.Name(), true
	case *ssa.Global:
		return a, sc.Name(), true
	}
	return "unknown-mutex", sc.Name(), true
}

// abstract location: a struct field or a package-level variable
type absLoc interface{}

func locName(l absLoc) string {
	switch x := l.(type) {
	case *fieldLoc:
		return x.owner + "." + x.fld.Name()
	case *ssa.Global:
		return shortPkg(x.Pkg.Pkg.Path()) + "." + x.Name()
	}
	return "?"
}

type fieldLoc struct {
	owner string
	fld   *types.Var
}

type access struct {
	loc   absLoc
	write bool
	locks lockset
	pos   token.Pos
	fn    *ssa.Function
}

// telemetry / transport state excluded from C10's "document cache and analysis state" (frozen, reasons)
var lockExcludedFields = map[string]string{
	"LspServer.server":       "jrpc2 server handle, set once before serving, internally synchronised",
	"LspServer.requestMutex": "the request mutex itself",
	"LspServer.stateMu":      "mutex",
	"LspServer.state":        "guarded by stateMu (unused state machine)",
	"LspServer.onlineReport": "usage telemetry, not document or analysis state (race reported informationally in DESIGN.md)",
	"LspServer.enableReport": "usage telemetry switch",
}
var lockExcludedGlobals = map[string]string{
	"langserver.onlinePeopleNum": "usage telemetry counter",
}

type lockEngine struct {
	c        *Ctx
	fieldOf  map[*types.Var]*fieldLoc
	direct   map[*ssa.Function][]rawAccess     // accesses of the function body (no callees)
	allAcc   map[*ssa.Function]map[absLoc]bool // transitive: loc -> written?
	acquires map[*ssa.Function]map[lockID]bool
	releases map[*ssa.Function]bool
	memo     map[string]*fnLockResult
	reqMutex *types.Var
	probs    map[*ssa.Function][]string
}

type rawAccess struct {
	loc   absLoc
	write bool
	ins   ssa.Instruction
}

func (e *lockEngine) locOfField(base types.Type, idx int) absLoc {
	t := types.Unalias(base)
	if p, ok := t.Underlying().(*types.Pointer); ok {
		t = types.Unalias(p.Elem())
	}
	st, ok := t.Underlying().(*types.Struct)
	if !ok {
		return nil
	}
	f := st.Field(idx)
	if fl, ok := e.fieldOf[f]; ok {
		return fl
	}
	owner := namedName(t)
	if owner == "" {
		owner = "struct"
	}
	fl := &fieldLoc{owner: owner, fld: f}
	e.fieldOf[f] = fl
	return fl
}

func isSyncType(t types.Type) bool {
	pp, _ := namedPkgName(t)
	return pp == "sync" || pp == "sync/atomic"
}

// tracked: is this location part of the shared server state the property talks about?
func (e *lockEngine) tracked(l absLoc) bool {
	switch x := l.(type) {
	case *fieldLoc:
		if x.fld.Pkg() == nil || !strings.HasPrefix(x.fld.Pkg().Path(), modPath) {
			return false
		}
		pp := x.fld.Pkg().Path()
		if strings.HasSuffix(pp, "/protocol") || strings.HasSuffix(pp, "/log") {
			return false
		}
		if isSyncType(x.fld.Type()) {
			return false
		}
		if _, ex := lockExcludedFields[x.owner+"."+x.fld.Name()]; ex {
			return false
		}
		return true
	case *ssa.Global:
		if x.Pkg == nil || !strings.HasPrefix(x.Pkg.Pkg.Path(), modPath) {
			return false
		}
		if strings.HasSuffix(x.Pkg.Pkg.Path(), "/log") {
			return false
		}
		if isSyncType(x.Type().(*types.Pointer).Elem()) {
			return false
		}
		if _, ex := lockExcludedGlobals[shortPkg(x.Pkg.Pkg.Path())+"."+x.Name()]; ex {
			return false
		}
		return true
	}
	return false
}

// freshBase: the struct whose field is addressed was allocated in this very function.
func freshBase(v ssa.Value, depth int) bool {
	if depth > 6 {
		return false
	}
	switch x := v.(type) {
	case *ssa.Alloc:
		return true
	case *ssa.FieldAddr:
		return freshBase(x.X, depth+1)
	case *ssa.IndexAddr:
		return freshBase(x.X, depth+1)
	case *ssa.MakeMap, *ssa.MakeSlice:
		return true
	}
	return false
}

var pureExternalMethods = map[string]bool{"Len": true, "Front": true, "Back": true, "Next": true, "Prev": true, "String": true, "Load": true, "Error": true,
	"MatchString": true, "FindAllString": true, "Match": true, "FindString": true, "FindStringSubmatch": true, "FindAllStringIndex": true}

// isWriteUse decides whether an address / loaded container is written through.
func isWriteUse(v ssa.Value, depth int) bool {
	if depth > 4 {
		return false
	}
	refs := v.Referrers()
	if refs == nil {
		return false
	}
	for _, r := range *refs {
		switch x := r.(type) {
		case *ssa.Store:
			if x.Addr == v {
				return true
			}
		case *ssa.MapUpdate:
			if x.Map == v {
				return true
			}
		case *ssa.UnOp:
			if x.Op == token.MUL && isWriteUse(x, depth+1) {
				// loaded container mutated
				if _, isMap := x.Type().Underlying().(*types.Map); isMap {
					return true
				}
				if _, isSlice := x.Type().Underlying().(*types.Slice); isSlice {
					return true
				}
				if _, isPtr := x.Type().Underlying().(*types.Pointer); isPtr {
					// pointer loaded from the field, then mutated through an external method
					return true
				}
			}
		case *ssa.IndexAddr:
			if x.X == v && isWriteUse(x, depth+1) {
				return true
			}
		case *ssa.Call:
			if b, ok := x.Call.Value.(*ssa.Builtin); ok {
				if b.Name() == "delete" && len(x.Call.Args) > 0 && x.Call.Args[0] == v {
					return true
				}
				continue
			}
			// external method with pointer receiver on a value loaded from the field
			if sc := x.Call.StaticCallee(); sc != nil && sc.Pkg != nil && !strings.HasPrefix(sc.Pkg.Pkg.Path(), modPath) {
				if len(x.Call.Args) > 0 && x.Call.Args[0] == v && sc.Signature.Recv() != nil {
					if _, isPtr := sc.Signature.Recv().Type().(*types.Pointer); isPtr && !pureExternalMethods[sc.Name()] && !isSyncType(sc.Signature.Recv().Type()) {
						return true
					}
				}
			}
		}
	}
	return false
}

func (e *lockEngine) directAccesses(f *ssa.Function) []rawAccess {
	if a, ok := e.direct[f]; ok {
		return a
	}
	var out []rawAccess
	for _, b := range f.Blocks {
		for _, ins := range b.Instrs {
			switch x := ins.(type) {
			case *ssa.FieldAddr:
				if freshBase(x.X, 0) {
					continue
				}
				l := e.locOfField(x.X.Type(), x.Field)
				if l == nil || !e.tracked(l) {
					continue
				}
				out = append(out, rawAccess{loc: l, write: isWriteUse(x, 0), ins: ins})
			case *ssa.Field:
				l := e.locOfField(x.X.Type(), x.Field)
				if l == nil || !e.tracked(l) {
					continue
				}
				// value-struct field read: only interesting if the struct value was loaded from shared memory
				if u, ok := x.X.(*ssa.UnOp); ok && u.Op == token.MUL && !freshBase(u.X, 0) {
					out = append(out, rawAccess{loc: l, write: false, ins: ins})
				}
			case *ssa.UnOp:
				if g, ok := x.X.(*ssa.Global); ok && x.Op == token.MUL && e.tracked(g) {
					out = append(out, rawAccess{loc: g, write: isWriteUse(x, 1), ins: ins})
				}
			case *ssa.Store:
				if g, ok := x.Addr.(*ssa.Global); ok && e.tracked(g) {
					out = append(out, rawAccess{loc: g, write: true, ins: ins})
				}
			}
		}
	}
	e.direct[f] = out
	return out
}

// transitive access summary (loc -> write?) over the VTA graph, module functions only
func (e *lockEngine) computeAllAcc() {
	g := e.c.VTA()
	e.allAcc = map[*ssa.Function]map[absLoc]bool{}
	e.acquires = map[*ssa.Function]map[lockID]bool{}
	e.releases = map[*ssa.Function]bool{}
	for _, f := range e.c.ModFns() {
		m := map[absLoc]bool{}
		for _, a := range e.directAccesses(f) {
			m[a.loc] = m[a.loc] || a.write
		}
		e.allAcc[f] = m
		aq := map[lockID]bool{}
		for _, b := range f.Blocks {
			for _, ins := range b.Instrs {
				if call, ok := ins.(ssa.CallInstruction); ok {
					if id, op, ok := lockOp(call.Common()); ok {
						if op == "Lock" || op == "RLock" {
							aq[id] = true
						} else if _, isDefer := ins.(*ssa.Defer); !isDefer {
							e.releases[f] = true
						}
					}
				}
			}
		}
		e.acquires[f] = aq
	}
	for changed := true; changed; {
		changed = false
		for _, f := range e.c.ModFns() {
			n := g.Nodes[f]
			if n == nil {
				continue
			}
			for _, ed := range n.Out {
				cf := ed.Callee.Func
				if _, isGo := ed.Site.(*ssa.Go); isGo {
					// goroutine bodies are accounted through the spawn rule, but their accesses still
					// belong to the spawning handler's footprint
				}
				for l, w := range e.allAcc[cf] {
					if old, ok := e.allAcc[f][l]; !ok || (w && !old) {
						e.allAcc[f][l] = old || w
						changed = true
					}
				}
				for id := range e.acquires[cf] {
					if !e.acquires[f][id] {
						e.acquires[f][id] = true
						changed = true
					}
				}
				if e.releases[cf] && !e.releases[f] {
					e.releases[f] = true
					changed = true
				}
			}
		}
	}
}

type callRec struct {
	callee *ssa.Function
	locks  lockset
	site   ssa.Instruction
}

// fnLockResult: intraprocedural result for one (function, entry lockset)
type fnLockResult struct {
	direct      []access
	calls       []callRec
	exit        lockset
	returnsHeld map[lockID]bool
	problems    []string
	goSites     []*ssa.Go
	done        bool
}

// flow runs the must-hold lockset dataflow of f entered with `entry`.
func (e *lockEngine) flow(f *ssa.Function, entry lockset) *fnLockResult {
	key := fmt.Sprintf("%p|%s", f, entry.key())
	if r, ok := e.memo[key]; ok {
		return r
	}
	res := &fnLockResult{exit: entry.clone(), returnsHeld: map[lockID]bool{}}
	e.memo[key] = res // in progress: callers see exit == entry (identity), refined when done
	if f.Blocks == nil {
		res.done = true
		return res
	}
	nb := len(f.Blocks)
	in := make([]lockset, nb)
	reached := make([]bool, nb)
	deferred := make([]map[lockID]bool, nb)
	in[0] = entry.clone()
	reached[0] = true
	deferred[0] = map[lockID]bool{}
	work := []int{0}
	for len(work) > 0 {
		bi := work[0]
		work = work[1:]
		b := f.Blocks[bi]
		ls := in[bi].clone()
		df := map[lockID]bool{}
		for k := range deferred[bi] {
			df[k] = true
		}
		for _, ins := range b.Instrs {
			e.step(f, ins, ls, df, nil)
		}
		for _, s := range b.Succs {
			si := s.Index
			if !reached[si] {
				reached[si] = true
				in[si] = ls.clone()
				deferred[si] = df
				work = append(work, si)
			} else {
				m := meetLS(in[si], ls)
				if !eqLS(m, in[si]) {
					in[si] = m
					work = append(work, si)
				}
			}
		}
	}
	var exit lockset
	for _, b := range f.Blocks {
		if !reached[b.Index] {
			continue
		}
		ls := in[b.Index].clone()
		df := map[lockID]bool{}
		for k := range deferred[b.Index] {
			df[k] = true
		}
		for _, ins := range b.Instrs {
			e.step(f, ins, ls, df, res)
			if _, isRet := ins.(*ssa.Return); isRet {
				after := ls.clone()
				for id := range df {
					delete(after, id)
				}
				for id := range after {
					if _, had := entry[id]; !had {
						res.returnsHeld[id] = true
					}
				}
				if exit == nil {
					exit = after
				} else {
					exit = meetLS(exit, after)
				}
			}
		}
	}
	if exit != nil {
		res.exit = exit
	}
	res.done = true
	return res
}

func (e *lockEngine) step(f *ssa.Function, ins ssa.Instruction, ls lockset, df map[lockID]bool, res *fnLockResult) {
	switch x := ins.(type) {
	case *ssa.Defer:
		if id, op, ok := lockOp(&x.Call); ok && (op == "Unlock" || op == "RUnlock") {
			df[id] = true
		}
		return
	case *ssa.Go:
		if res != nil {
			res.goSites = append(res.goSites, x)
			for _, cf := range e.goCallees(x) {
				if e.c.IsModFn(cf) {
					res.calls = append(res.calls, callRec{callee: cf, locks: ls.clone(), site: ins})
				}
			}
		}
		return
	}
	if call, ok := ins.(*ssa.Call); ok {
		if id, op, ok := lockOp(&call.Call); ok {
			switch op {
			case "Lock":
				if ls[id] != modeNone {
					e.noteProblem(f, fmt.Sprintf("%s: %s.Lock() while already holding it on some path (self-deadlock)", e.c.Pos(call.Pos()), lockName(id)))
				}
				ls[id] = modeW
			case "RLock":
				if ls[id] == modeNone {
					ls[id] = modeR
				}
			case "Unlock", "RUnlock":
				delete(ls, id)
			}
			return
		}
		if _, isB := call.Call.Value.(*ssa.Builtin); isB {
			return
		}
		callees := calleesOf(e.c.VTA(), call)
		if sc := call.Call.StaticCallee(); sc != nil {
			callees = []*ssa.Function{sc}
		}
		var exitMeet lockset
		for _, cf := range callees {
			if !e.c.IsModFn(cf) {
				continue
			}
			if e.acquires[cf][lockID(e.reqMutex)] && ls[lockID(e.reqMutex)] != modeNone {
				e.noteProblem(f, fmt.Sprintf("%s: call to %s, which may acquire %s, while holding it on some path (self-deadlock)", e.c.Pos(call.Pos()), fnKey(cf), lockName(e.reqMutex)))
			}
			if res != nil {
				res.calls = append(res.calls, callRec{callee: cf, locks: ls.clone(), site: ins})
			}
			// only functions that lock/unlock something can change the lockset
			if len(e.acquires[cf]) == 0 && !e.releases[cf] {
				continue
			}
			sub := e.flow(cf, ls)
			if exitMeet == nil {
				exitMeet = sub.exit.clone()
			} else {
				exitMeet = meetLS(exitMeet, sub.exit)
			}
		}
		if exitMeet != nil {
			for id := range ls {
				if _, ok := exitMeet[id]; !ok {
					delete(ls, id)
				}
			}
			for id, m := range exitMeet {
				if _, ok := ls[id]; !ok {
					ls[id] = m
				}
			}
		}
		return
	}
	if res == nil {
		return
	}
	for _, a := range e.directAccessesAt(f, ins) {
		res.direct = append(res.direct, access{loc: a.loc, write: a.write, locks: ls.clone(), pos: ins.Pos(), fn: f})
	}
}

// noteProblem records a may-hold problem (states seen during the fixpoint are realised on some path).
func (e *lockEngine) noteProblem(f *ssa.Function, msg string) {
	if e.probs == nil {
		e.probs = map[*ssa.Function][]string{}
	}
	for _, m := range e.probs[f] {
		if m == msg {
			return
		}
	}
	e.probs[f] = append(e.probs[f], msg)
}

type handlerFootprint struct {
	accesses    []access // deduplicated by (location, write, lockset)
	problems    []string
	goSites     []*ssa.Go
	returnsHeld map[lockID]bool
	nodes       int
}

// footprint explores every (function, lockset) node reachable from the handler entered with no lock.
func (e *lockEngine) footprint(h *ssa.Function) *handlerFootprint {
	fp := &handlerFootprint{returnsHeld: map[lockID]bool{}}
	type node struct {
		f  *ssa.Function
		lk string
	}
	seen := map[node]bool{}
	type item struct {
		f  *ssa.Function
		ls lockset
	}
	q := []item{{h, lockset{}}}
	seen[node{h, ""}] = true
	accSeen := map[string]bool{}
	first := true
	for len(q) > 0 {
		it := q[0]
		q = q[1:]
		r := e.flow(it.f, it.ls)
		fp.nodes++
		if first {
			for id := range r.returnsHeld {
				fp.returnsHeld[id] = true
			}
			first = false
		}
		for _, a := range r.direct {
			k := fmt.Sprintf("%p|%v|%s", a.loc, a.write, a.locks.key())
			if !accSeen[k] {
				accSeen[k] = true
				fp.accesses = append(fp.accesses, a)
			}
		}
		fp.problems = append(fp.problems, e.probs[it.f]...)
		fp.goSites = append(fp.goSites, r.goSites...)
		for _, cr := range r.calls {
			n := node{cr.callee, cr.locks.key()}
			if !seen[n] {
				seen[n] = true
				q = append(q, item{cr.callee, cr.locks})
			}
		}
	}
	return fp
}

func (e *lockEngine) goCallees(g *ssa.Go) []*ssa.Function {
	if sc := g.Call.StaticCallee(); sc != nil {
		return []*ssa.Function{sc}
	}
	if mc, ok := g.Call.Value.(*ssa.MakeClosure); ok {
		return []*ssa.Function{mc.Fn.(*ssa.Function)}
	}
	return calleesOf(e.c.VTA(), g)
}

var directAtCache = map[*ssa.Function]map[ssa.Instruction][]rawAccess{}

func (e *lockEngine) directAccessesAt(f *ssa.Function, ins ssa.Instruction) []rawAccess {
	m, ok := directAtCache[f]
	if !ok {
		m = map[ssa.Instruction][]rawAccess{}
		for _, a := range e.directAccesses(f) {
			m[a.ins] = append(m[a.ins], a)
		}
		directAtCache[f] = m
	}
	return m[ins]
}

// joined worker pools / walkers (frozen by reading: the launcher receives one result per task and
// stops every worker, or waits on a WaitGroup, before it returns)
var joinedSpawners = map[string]string{
	"(*check.AllProject).firstCreateAndTraverseAst": "pool of GoRoutineFirstWork; launcher collects one result per file via reflect.Select and stops every worker before returning",
	"(*check.AllProject).handleProjectEntryFileVec": "pool of goSecondProject; one result per entry file, then every worker is stopped",
	"(*check.AllProject).handleFiles":               "pool of goThirdFile; one result per file, then every worker is stopped",
	"(*check.AllProject).HandleAllThirdFile":        "pool of goThirdFile (same protocol)",
	"check.handleAllFilesReference":                 "pool of GoRoutineFourFile; one result per file via reflect.Select, then every worker is stopped",
	"check.handleAllFilesSymbols":                   "pool of goroutineFindSymbols; one result per file via reflect.Select, then every worker is stopped",
	"(*check/common.DirManager).GetDirFileList":     "directory walkers tracked by ParallelRun (WaitGroup); the collector goroutine closes the channel after Wait, the caller drains it",
	"check/common.getAllFile":                       "sub-directory walkers tracked by the same ParallelRun WaitGroup (run.Done deferred)",
	"(*check/common.DirManager).GetDirFileList$1":   "closer goroutine: waits on the WaitGroup then closes the result channel",
}

// joinEvidence: structural precondition of an allow-listed spawner — it blocks on its workers:
// a reflect.Select receive loop, a WaitGroup Wait/Done protocol, or a range over the result channel.
func joinEvidence(f *ssa.Function) bool {
	root := f
	for root.Parent() != nil {
		root = root.Parent()
	}
	found := false
	var scan func(g *ssa.Function)
	scan = func(g *ssa.Function) {
		for _, b := range g.Blocks {
			for _, ins := range b.Instrs {
				if call, ok := ins.(ssa.CallInstruction); ok {
					if sc := call.Common().StaticCallee(); sc != nil {
						full := sc.String()
						if full == "reflect.Select" || strings.HasSuffix(full, "WaitGroup).Wait") || strings.HasSuffix(full, "WaitGroup).Done") || strings.HasSuffix(full, "ParallelRun).Wait") || strings.HasSuffix(full, "ParallelRun).Done") {
							found = true
						}
					}
				}
				if u, ok := ins.(*ssa.UnOp); ok && u.Op == token.ARROW {
					found = true
				}
			}
		}
		for _, an := range g.AnonFuncs {
			scan(an)
		}
	}
	scan(root)
	return found
}

// detached goroutines (run for ever / outlive the handler); their footprint must be untracked state
var detachedSpawners = map[string]string{
	"(*langserver.LspServer).Initialize":          "user.Current() warm-up (touches no server state)",
	"(*langserver.LspServer).initialCheckProject": "usage telemetry loop UDPReportOnline",
	"(*langserver.LspServer).UDPReportOnline":     "telemetry receive loop handleRecv",
}

var ruleLock = &Rule{
	Name:    "LOCK/handlers",
	NeedSSA: true,
	Text:    "L1: for every pair of handlers the jrpc2 dispatcher may run in parallel (requests unordered; notifications ordered only among themselves; nothing parallel to initialize) and every abstract location (module struct field / package variable, telemetry excluded): two accesses, one a write, must share a held lock (lockset analysis on SSA, must-hold, descending into callees with the caller's lockset; per-structure mutexes count). L2: no call path re-acquires the request mutex while holding it. L3: every `go` reachable from a handler is a reviewed joined pool or a reviewed detached goroutine. L4: no handler returns with the request mutex held",
	Run:     runLock,
}

func runLock(c *Ctx) []Ob {
	var obs []Ob
	hs, err := c.Handlers()
	if err != nil {
		return []Ob{{Key: "LOCK:slots", Verdict: UNDECIDED, Note: err.Error()}}
	}
	e := &lockEngine{c: c, fieldOf: map[*types.Var]*fieldLoc{}, direct: map[*ssa.Function][]rawAccess{}, memo: map[string]*fnLockResult{}}
	// slot: the request mutex
	if sp := c.SSA[langserverPkg]; sp != nil && sp.Type("LspServer") != nil {
		st := sp.Type("LspServer").Type().Underlying().(*types.Struct)
		for i := 0; i < st.NumFields(); i++ {
			if st.Field(i).Name() == "requestMutex" {
				e.reqMutex = st.Field(i)
			}
		}
	}
	if e.reqMutex == nil {
		return []Ob{{Key: "LOCK:slots", Verdict: UNDECIDED, Note: "slot unresolved: LspServer.requestMutex"}}
	}
	e.computeAllAcc()

	type hres struct {
		h   Handler
		res *handlerFootprint
	}
	var all []hres
	nLockAtEntry := 0
	for _, h := range hs {
		r := e.footprint(h.Fn)
		all = append(all, hres{h, r})
		// lock at entry?
		if len(h.Fn.Blocks) > 0 {
			for _, ins := range h.Fn.Blocks[0].Instrs {
				if call, ok := ins.(*ssa.Call); ok {
					if id, op, ok := lockOp(&call.Call); ok && op == "Lock" && id == lockID(e.reqMutex) {
						nLockAtEntry++
					}
					break
				}
			}
		}
	}
	mhp := func(a, b Handler) bool {
		if a.Method == "initialize" || b.Method == "initialize" {
			return false
		}
		if a.Notif && b.Notif {
			return false
		}
		return true
	}
	nPairs, nAcc := 0, 0
	for _, x := range all {
		nAcc += len(x.res.accesses)
	}
	for _, x := range all {
		key := "LOCK/L1:handler=" + x.h.Fn.Name()
		// accesses of x without the request mutex
		type conflict struct {
			loc    absLoc
			mine   access
			other  string
			theirs access
		}
		var confl []conflict
		seenLoc := map[absLoc]bool{}
		for _, y := range all {
			if !mhp(x.h, y.h) {
				continue
			}
			nPairs++
			// index y's accesses by location
			byLoc := map[absLoc][]access{}
			for _, a := range y.res.accesses {
				byLoc[a.loc] = append(byLoc[a.loc], a)
			}
			for _, a := range x.res.accesses {
				if seenLoc[a.loc] {
					continue
				}
				for _, b := range byLoc[a.loc] {
					if !a.write && !b.write {
						continue
					}
					// common lock?
					common := false
					for id, m := range a.locks {
						if bm, ok := b.locks[id]; ok {
							// two readers under RLock are fine; a writer needs W on its side
							if (a.write && m != modeW) || (b.write && bm != modeW) {
								continue
							}
							common = true
						}
					}
					if common {
						continue
					}
					// attribute the conflict to the side that lacks the request mutex (both, if neither holds it)
					if a.locks[lockID(e.reqMutex)] != modeNone && b.locks[lockID(e.reqMutex)] == modeNone {
						continue
					}
					seenLoc[a.loc] = true
					confl = append(confl, conflict{loc: a.loc, mine: a, other: y.h.Fn.Name(), theirs: b})
					break
				}
			}
		}
		if len(confl) == 0 {
			obs = append(obs, Ob{Key: key, Site: c.Pos(x.h.Fn.Pos()), Verdict: OK, Note: fmt.Sprintf("%s (%s): %d tracked accesses, none conflicts with a handler that may run in parallel", x.h.Method, map[bool]string{true: "notification", false: "request"}[x.h.Notif], len(x.res.accesses))})
		} else {
			sort.Slice(confl, func(i, j int) bool { return locName(confl[i].loc) < locName(confl[j].loc) })
			var path []string
			for i, cf := range confl {
				if i >= 6 {
					path = append(path, fmt.Sprintf("… %d more locations", len(confl)-i))
					break
				}
				rw := func(w bool) string {
					if w {
						return "write"
					}
					return "read"
				}
				path = append(path, fmt.Sprintf("%s: %s at %s in %s holding {%s}  ∥  %s at %s in %s (handler %s) holding {%s}", locName(cf.loc),
					rw(cf.mine.write), c.Pos(cf.mine.pos), fnKey(cf.mine.fn), cf.mine.locks.key(),
					rw(cf.theirs.write), c.Pos(cf.theirs.pos), fnKey(cf.theirs.fn), cf.other, cf.theirs.locks.key()))
			}
			obs = append(obs, Ob{Key: key, Site: c.Pos(x.h.Fn.Pos()), Verdict: VIOLATION,
				Note: fmt.Sprintf("%s: %d shared location(s) accessed without a lock in common with a handler that the dispatcher may run in parallel (schedule: this message in flight while the other is dispatched to a second worker)", x.h.Method, len(confl)), Path: path})
		}
		// L2 / L4
		seenP := map[string]bool{}
		for _, p := range x.res.problems {
			if seenP[p] {
				continue
			}
			seenP[p] = true
			obs = append(obs, Ob{Key: fmt.Sprintf("LOCK/L2:handler=%s:#%d", x.h.Fn.Name(), len(seenP)), Site: c.Pos(x.h.Fn.Pos()), Verdict: VIOLATION, Note: p})
		}
		if x.res.returnsHeld[lockID(e.reqMutex)] {
			obs = append(obs, Ob{Key: "LOCK/L4:handler=" + x.h.Fn.Name(), Site: c.Pos(x.h.Fn.Pos()), Verdict: VIOLATION, Note: "some path returns with the request mutex still held: every later locked handler blocks for ever"})
		} else {
			obs = append(obs, Ob{Key: "LOCK/L4:handler=" + x.h.Fn.Name(), Site: c.Pos(x.h.Fn.Pos()), Verdict: OK})
		}
	}
	// L3: go sites reachable from handlers
	seenGo := map[*ssa.Go]bool{}
	nGo := 0
	for _, x := range all {
		for _, g := range x.res.goSites {
			if seenGo[g] {
				continue
			}
			seenGo[g] = true
			nGo++
			sp := fnKey(g.Parent())
			key := "LOCK/L3:go-in:" + sp
			if why, ok := joinedSpawners[sp]; ok && joinEvidence(g.Parent()) {
				obs = append(obs, Ob{Key: key, Site: c.Pos(g.Pos()), Verdict: OK, Note: "joined: " + why})
			} else if why, ok := detachedSpawners[sp]; ok {
				obs = append(obs, Ob{Key: key, Site: c.Pos(g.Pos()), Verdict: OK, Note: "detached, reviewed: " + why})
			} else {
				obs = append(obs, Ob{Key: key, Site: c.Pos(g.Pos()), Verdict: VIOLATION, Note: "goroutine launched from handler-reachable code is not one of the reviewed joined pools: it may outlive the critical section and touch analysis state unlocked"})
			}
		}
	}
	// L5: per-structure locks — a method that takes its receiver's own mutex must hold it in write
	// mode at every write to that structure (worker pools call these methods concurrently even when
	// the request mutex is held by the launcher).
	nL5 := 0
	for _, f := range c.ModFns() {
		if f.Signature.Recv() == nil || len(f.Params) == 0 {
			continue
		}
		rt := namedOf(f.Signature.Recv().Type())
		if rt == nil {
			continue
		}
		st, ok := rt.Underlying().(*types.Struct)
		if !ok {
			continue
		}
		own := map[lockID]bool{}
		for i := 0; i < st.NumFields(); i++ {
			if isSyncType(st.Field(i).Type()) {
				own[st.Field(i)] = true
			}
		}
		if len(own) == 0 {
			continue
		}
		takes := false
		for _, b := range f.Blocks {
			for _, ins := range b.Instrs {
				if call, ok := ins.(ssa.CallInstruction); ok {
					if id, op, ok := lockOp(call.Common()); ok && own[id] && (op == "Lock" || op == "RLock") {
						takes = true
					}
				}
			}
		}
		if !takes {
			continue
		}
		nL5++
		r := e.flow(f, lockset{})
		bad := ""
		for _, a := range r.direct {
			fl, ok := a.loc.(*fieldLoc)
			if !ok || !a.write || fl.owner != rt.Obj().Name() {
				continue
			}
			okW := false
			for id := range own {
				if a.locks[id] == modeW {
					okW = true
				}
			}
			if !okW {
				bad = fmt.Sprintf("%s: write to %s holding {%s}", c.Pos(a.pos), locName(a.loc), a.locks.key())
				break
			}
		}
		key := "LOCK/L5:" + fnKey(f)
		if bad != "" {
			obs = append(obs, Ob{Key: key, Site: c.Pos(f.Pos()), Verdict: VIOLATION, Note: "method synchronises on its structure's own mutex but mutates the structure without holding it in write mode (concurrent callers — e.g. pool workers — race): " + bad})
		} else {
			obs = append(obs, Ob{Key: key, Site: c.Pos(f.Pos()), Verdict: OK, Note: "every write to the structure happens under its own mutex in write mode"})
		}
	}
	c.Stats["self_locking_methods"] = nL5
	obs = append(obs, floor("LOCK/handlers", "methods that take their structure's own mutex", nL5, 4))
	c.Stats["handlers"] = len(hs)
	c.Stats["handlers_locking_at_entry"] = nLockAtEntry
	c.Stats["handler_pairs_mhp"] = nPairs
	c.Stats["tracked_accesses"] = nAcc
	c.Stats["go_sites_reachable"] = nGo
	c.Stats["abstract_locations"] = len(e.fieldOf)
	obs = append(obs, floor("LOCK/handlers", "registered handlers", len(hs), 27))
	obs = append(obs, floor("LOCK/handlers", "handlers taking the request mutex as their first call", nLockAtEntry, 10))
	obs = append(obs, floor("LOCK/handlers", "tracked accesses", nAcc, 1000))
	obs = append(obs, floor("LOCK/handlers", "go sites reachable from handlers", nGo, 8))
	return obs
}

// ---------------------------------------------------------------------------------------------
// POOL: what a launcher hands to its workers

// definedInLoop: v's defining instruction lies in the loop body.
func definedIn(body map[*ssa.BasicBlock]bool, v ssa.Value) bool {
	ins, ok := v.(ssa.Instruction)
	return ok && body[ins.Block()]
}

var rulePool = &Rule{
	Name:    "POOL/per-task-objects",
	NeedSSA: true,
	Text:    "a worker-pool launcher sends one task struct per file to its workers inside a loop; every mutable object (pointer, map, slice, interface) reachable from a sent task is either created inside that loop iteration (one per task) or handed in through the launcher's own parameters (project-wide state shared by design). An object created once in the launcher, outside the loop, and placed in every task is shared by concurrently running workers — its methods' scratch state races and results depend on scheduling",
	Run: func(c *Ctx) []Ob {
		var obs []Ob
		n := 0
		// launchers and the worker functions they start
		targets := map[*ssa.Function]bool{}
		for _, f := range c.ModFns() {
			if _, ok := joinedSpawners[fnKey(f)]; !ok {
				continue
			}
			targets[f] = true
			for _, b := range f.Blocks {
				for _, ins := range b.Instrs {
					if g, ok := ins.(*ssa.Go); ok {
						if sc := g.Call.StaticCallee(); sc != nil && c.IsModFn(sc) {
							targets[sc] = true
						}
					}
				}
			}
		}
		for _, f := range c.ModFns() {
			if !targets[f] {
				continue
			}
			loops := loopsOf(f)
			cnt := 0
			for _, b := range f.Blocks {
				for _, ins := range b.Instrs {
					snd, ok := ins.(*ssa.Send)
					if !ok {
						continue
					}
					// innermost loop containing the send (if any); sends outside loops: treat whole function as "one task"
					var body map[*ssa.BasicBlock]bool
					for _, bd := range loops {
						if bd[b] && (body == nil || len(bd) < len(body)) {
							body = bd
						}
					}
					if body == nil {
						continue
					}
					// objects created in ANY loop iteration of the launcher are per-task (slots filled by one loop, sent by another)
					anyLoop := map[*ssa.BasicBlock]bool{}
					for _, bd := range loops {
						for k := range bd {
							anyLoop[k] = true
						}
					}
					body = anyLoop
					n++
					cnt++
					key := fmt.Sprintf("POOL:%s:send#%d", fnKey(f), cnt)
					bad := ""
					seen := map[ssa.Value]bool{}
					var walk func(v ssa.Value, d int)
					walk = func(v ssa.Value, d int) {
						if v == nil || d > 8 || seen[v] || bad != "" {
							return
						}
						seen[v] = true
						switch x := v.(type) {
						case *ssa.Parameter, *ssa.Const, *ssa.Global, *ssa.FreeVar:
							return
						case *ssa.UnOp:
							if x.Op == token.MUL {
								// load: of a local struct being assembled (walk its stores) or of shared memory (param-derived: fine)
								if al, ok := x.X.(*ssa.Alloc); ok {
									// the VALUE of a local is copied into the message: the local itself is not shared, what it
									// holds may be (a by-value parameter that was spilled because its address is taken elsewhere
									// holds the parameter)
									if _, isStruct := al.Type().Underlying().(*types.Pointer).Elem().Underlying().(*types.Struct); isStruct && !definedIn(body, al) {
										if refs := al.Referrers(); refs != nil {
											for _, r := range *refs {
												switch y := r.(type) {
												case *ssa.Store:
													if y.Addr == ssa.Value(al) {
														walk(y.Val, d+1)
													}
												case *ssa.FieldAddr:
													if frefs := y.Referrers(); frefs != nil {
														for _, rr := range *frefs {
															if st, ok := rr.(*ssa.Store); ok && st.Addr == ssa.Value(y) {
																walk(st.Val, d+1)
															}
														}
													}
												}
											}
										}
										return
									}
									walk(al, d+1)
									return
								}
								if _, _, ok := paramPath(x.X, 0); ok {
									return
								}
								if fa, ok := x.X.(*ssa.FieldAddr); ok {
									// a mutable object read out of the record of ANOTHER task (a slot of the launcher's task
									// slice) and placed into this one is shared by two tasks that may run at once
									if base, ok := fa.X.(*ssa.UnOp); ok && base.Op == token.MUL && d > 0 && isMutableType(x.Type()) {
										if _, fromSlot := base.X.(*ssa.IndexAddr); fromSlot {
											bad = "object read from the record of another task at " + c.Pos(x.Pos()) + " and handed to a new task (the index of a finished task is not known here: workers finish in any order)"
											return
										}
									}
									// field of an object: the object decides (per-task result object vs one shared accumulator)
									walk(fa.X, d+1)
									return
								}
								if ia, ok := x.X.(*ssa.IndexAddr); ok {
									// slot of a launcher-local slice (resultSorters[i]): look at what the launcher stores into that slice
									for _, b3 := range f.Blocks {
										for _, i3 := range b3.Instrs {
											if st, ok := i3.(*ssa.Store); ok {
												if ia2, ok := st.Addr.(*ssa.IndexAddr); ok && canon(ia2.X) == canon(ia.X) {
													walk(st.Val, d+1)
												}
											}
										}
									}
									return
								}
								walk(x.X, d+1)
							}
							return
						case *ssa.Alloc:
							mut := isMutableType(x.Type().Underlying().(*types.Pointer).Elem())
							if !definedIn(body, x) && mut && x.Heap {
								bad = "object allocated at " + c.Pos(x.Pos()) + " outside the task loop"
								return
							}
							if refs := x.Referrers(); refs != nil {
								for _, r := range *refs {
									switch y := r.(type) {
									case *ssa.Store:
										if y.Addr == ssa.Value(x) {
											walk(y.Val, d+1)
										}
									case *ssa.FieldAddr:
										if frefs := y.Referrers(); frefs != nil {
											for _, rr := range *frefs {
												if st, ok := rr.(*ssa.Store); ok && st.Addr == ssa.Value(y) && (definedIn(body, x) || body[st.Block()]) {
													walk(st.Val, d+1)
												}
											}
										}
									}
								}
							}
							return
						case *ssa.Call:
							if !isMutableType(x.Type()) {
								return
							}
							if !definedIn(body, x) {
								bad = "result of " + describeCallee(&x.Call) + " at " + c.Pos(x.Pos()) + ", obtained once outside the task loop"
							}
							return
						case *ssa.MakeMap, *ssa.MakeSlice, *ssa.MakeChan:
							if !definedIn(body, v) {
								bad = "container made at " + c.Pos(v.(ssa.Instruction).Pos()) + " outside the task loop"
							}
							return
						case *ssa.Phi:
							// a mutable object that the head of a loop receives from the loop's own body is the object of the
							// previous task, carried over (`if obj == nil { obj = New() }` — created lazily once per worker)
							if isMutableType(x.Type()) {
								for h, bd := range loops {
									if h != x.Block() {
										continue
									}
									for i, p := range h.Preds {
										if !bd[p] || i >= len(x.Edges) {
											continue
										}
										if k, isC := x.Edges[i].(*ssa.Const); isC && k.Value == nil {
											continue
										}
										bad = "object carried over from the previous iteration of the task loop (the loop head at " + c.Pos(h.Instrs[0].Pos()) + " receives it from the loop body)"
										return
									}
								}
							}
							for _, e := range x.Edges {
								walk(e, d+1)
							}
							return
						case *ssa.MakeInterface:
							walk(x.X, d+1)
							return
						case *ssa.IndexAddr:
							// element of a slice: per-index slot (e.g. chs[i], resultSorters[i]) — the slice itself is launcher-local bookkeeping
							return
						case *ssa.Field:
							walk(x.X, d+1)
							return
						case *ssa.FieldAddr, *ssa.Extract, *ssa.Slice, *ssa.Lookup, *ssa.Index, *ssa.ChangeType, *ssa.Convert, *ssa.BinOp:
							return
						}
					}
					walk(snd.X, 0)
					if bad == "" {
						obs = append(obs, Ob{Key: key, Site: c.Pos(snd.Pos()), Verdict: OK, Note: "every mutable object in the task is per-iteration or comes from the launcher's parameters"})
					} else {
						obs = append(obs, Ob{Key: key, Site: c.Pos(snd.Pos()), Verdict: VIOLATION, Note: "the task sent to the workers carries a " + bad + ": all workers share it"})
					}
				}
			}
		}
		obs = append(obs, floor("POOL/per-task-objects", "task sends inside loops of pool launchers", n, 8))
		return obs
	},
}

func isMutableType(t types.Type) bool {
	switch x := types.Unalias(t).Underlying().(type) {
	case *types.Pointer, *types.Map, *types.Slice, *types.Interface, *types.Chan:
		return true
	case *types.Struct:
		for i := 0; i < x.NumFields(); i++ {
			if isMutableType(x.Field(i).Type()) {
				return true
			}
		}
	}
	return false
}
