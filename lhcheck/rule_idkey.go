package main

// IDKEY: agreement between the function that publishes a diagnostic and the functions that decide
// whether two diagnostics are "the same" (the re-publish comparator and the de-duplication key).
//
// Every field of common.CheckError that contributes to the published lsp.Diagnostic must also be read
// by the comparator (otherwise a re-analysis that changes only that field is not re-published and the
// client keeps a stale diagnostic: C08) and by the de-duplication key (otherwise two different
// diagnostics collapse into one when the phases' error lists are merged: C20 "reported at every place").
// The three functions are found by their types, not by name; the field sets are computed from SSA.

import (
	"fmt"
	"go/token"
	"go/types"
	"sort"
	"strings"

	"golang.org/x/tools/go/ssa"
)

const checkErrPkg = "luahelper-lsp/langserver/check/common"

// reviewed omissions of the de-duplication key (CheckError.ToString used in copyFileErr)
var reviewedKeyOmissions = map[string]string{
	"dedup:EntryFile": "the merge exists to collapse the same diagnostic reported while analysing several entry files; EntryFile is the per-project tag that differs between them",
	"dedup:RelateVec": "the related locations are computed from the same AST node as Loc/ErrStr by the same check, so two entries that agree on type, range and text agree on them",
}

func isNamedT(t types.Type, pkg, name string) bool {
	p, n := namedPkgName(t)
	return p == pkg && n == name
}

// structFields lists the field names of the struct underlying t (nil if not a struct)
func structFields(t types.Type) []string {
	t = types.Unalias(t)
	if p, ok := t.Underlying().(*types.Pointer); ok {
		t = p.Elem()
	}
	st, ok := t.Underlying().(*types.Struct)
	if !ok {
		return nil
	}
	var out []string
	for i := 0; i < st.NumFields(); i++ {
		out = append(out, st.Field(i).Name())
	}
	return out
}

type fieldReader struct {
	c    *Ctx
	pkg  string
	name string
	memo map[*ssa.Function]map[string]bool
}

func (r *fieldReader) isT(t types.Type) bool { return isNamedT(t, r.pkg, r.name) }

// readsOf: field paths of T read by f (directly, or through module callees that receive a whole T / *T)
func (r *fieldReader) readsOf(f *ssa.Function, depth int) map[string]bool {
	if m, ok := r.memo[f]; ok {
		return m
	}
	out := map[string]bool{}
	r.memo[f] = out
	if f == nil || f.Blocks == nil || depth > 5 {
		return out
	}
	addAll := func(prefix string, t types.Type) {
		fs := structFields(t)
		if len(fs) == 0 {
			out[prefix] = true
			return
		}
		for _, s := range fs {
			out[prefix+"."+s] = true
		}
	}
	// how is the address / value of a field used?
	var useAddr func(path string, v ssa.Value, elem types.Type, d int)
	useAddr = func(path string, v ssa.Value, elem types.Type, d int) {
		refs := v.Referrers()
		if refs == nil || d > 4 {
			return
		}
		_, isStruct := types.Unalias(elem).Underlying().(*types.Struct)
		for _, u := range *refs {
			switch x := u.(type) {
			case *ssa.FieldAddr:
				if isStruct && x.X == v {
					st := types.Unalias(elem).Underlying().(*types.Struct)
					useAddr(path+"."+st.Field(x.Field).Name(), x, st.Field(x.Field).Type(), d+1)
				}
			case *ssa.UnOp:
				if x.Op == token.MUL && x.X == v {
					if isStruct {
						// whole struct loaded: look at how the value is used
						useVal(r, path, x, elem, out, addAll, d+1)
					} else {
						out[path] = true
					}
				}
			case *ssa.Store:
				// write, not a read (x.Val == v would be storing the address: treat as escape = read all)
				if x.Val == v {
					addAll(path, elem)
				}
			case ssa.CallInstruction:
				addAll(path, elem)
			case *ssa.DebugRef:
			default:
				addAll(path, elem)
			}
		}
	}
	for _, b := range f.Blocks {
		for _, ins := range b.Instrs {
			switch x := ins.(type) {
			case *ssa.FieldAddr:
				if r.isT(x.X.Type()) {
					st := types.Unalias(x.X.Type().Underlying().(*types.Pointer).Elem()).Underlying().(*types.Struct)
					useAddr(st.Field(x.Field).Name(), x, st.Field(x.Field).Type(), 0)
				}
			case *ssa.Field:
				if r.isT(x.X.Type()) {
					st := types.Unalias(x.X.Type()).Underlying().(*types.Struct)
					fld := st.Field(x.Field)
					if _, isStruct := types.Unalias(fld.Type()).Underlying().(*types.Struct); isStruct {
						useVal(r, fld.Name(), x, fld.Type(), out, addAll, 0)
					} else {
						out[fld.Name()] = true
					}
				}
			case ssa.CallInstruction:
				cc := x.Common()
				callee := cc.StaticCallee()
				if callee == nil || !r.c.IsModFn(callee) {
					continue
				}
				for _, a := range cc.Args {
					if r.isT(a.Type()) {
						for p := range r.readsOf(callee, depth+1) {
							out[p] = true
						}
						break
					}
				}
			}
		}
	}
	return out
}

// useVal: a struct VALUE (not address) of type elem at `path`: which sub-fields are read?
func useVal(r *fieldReader, path string, v ssa.Value, elem types.Type, out map[string]bool, addAll func(string, types.Type), d int) {
	refs := v.Referrers()
	if refs == nil {
		return
	}
	st, _ := types.Unalias(elem).Underlying().(*types.Struct)
	for _, u := range *refs {
		switch x := u.(type) {
		case *ssa.Field:
			if st != nil && x.X == v {
				out[path+"."+st.Field(x.Field).Name()] = true
			}
		case *ssa.DebugRef:
		default:
			addAll(path, elem)
		}
	}
}

var ruleIDKeyCmp = &Rule{
	Name:    "IDKEY/comparator",
	NeedSSA: true,
	Text:    idkeyText,
	Run:     func(c *Ctx) []Ob { return runIDKey(c, "cmp") },
}

var ruleIDKeyDedup = &Rule{
	Name:    "IDKEY/dedup-key",
	NeedSSA: true,
	Text:    idkeyText,
	Run:     func(c *Ctx) []Ob { return runIDKey(c, "dedup") },
}

const idkeyText = "every field of common.CheckError that the converter to lsp.Diagnostic reads (type, text, the four range coordinates, entry file, related locations) is also read by the re-publish comparator (the function over two []CheckError returning bool) and by the de-duplication key (the CheckError method whose string result is used as a map key) — a field the comparator ignores is never refreshed at the client, a field the key ignores merges distinct diagnostics; the three functions are located by type, reviewed omissions are listed with a reason"

func runIDKey(c *Ctx, which string) []Ob {
	{
		var obs []Ob
		var pubs, cmps []*ssa.Function
		keyFns := map[*ssa.Function]string{}
		isErrSlice := func(t types.Type) bool {
			s, ok := types.Unalias(t).Underlying().(*types.Slice)
			return ok && isNamedT(s.Elem(), checkErrPkg, "CheckError") && !isPtr(s.Elem())
		}
		for _, f := range c.ModFns() {
			sig := f.Signature
			// publisher: (… *CheckError …) -> protocol.Diagnostic
			if sig.Results().Len() == 1 {
				_, rn := namedPkgName(sig.Results().At(0).Type())
				if rn == "Diagnostic" {
					for i := 0; i < sig.Params().Len(); i++ {
						if isNamedT(sig.Params().At(i).Type(), checkErrPkg, "CheckError") {
							pubs = append(pubs, f)
							break
						}
					}
				}
				// comparator: two []CheckError -> bool
				if b, ok := sig.Results().At(0).Type().Underlying().(*types.Basic); ok && b.Kind() == types.Bool {
					n := 0
					for i := 0; i < sig.Params().Len(); i++ {
						if isErrSlice(sig.Params().At(i).Type()) {
							n++
						}
					}
					if n >= 2 {
						cmps = append(cmps, f)
					}
				}
			}
			// key: result of a CheckError method returning string used as a map key
			for _, b := range f.Blocks {
				for _, ins := range b.Instrs {
					call, ok := ins.(*ssa.Call)
					if !ok {
						continue
					}
					callee := call.Call.StaticCallee()
					if callee == nil || callee.Signature.Recv() == nil || !isNamedT(callee.Signature.Recv().Type(), checkErrPkg, "CheckError") {
						continue
					}
					if bt, ok := call.Type().Underlying().(*types.Basic); !ok || bt.Kind() != types.String {
						continue
					}
					if refs := call.Referrers(); refs != nil {
						for _, u := range *refs {
							switch x := u.(type) {
							case *ssa.Lookup:
								if x.Index == ssa.Value(call) {
									keyFns[callee] = c.Pos(call.Pos())
								}
							case *ssa.MapUpdate:
								if x.Key == ssa.Value(call) {
									keyFns[callee] = c.Pos(call.Pos())
								}
							}
						}
					}
				}
			}
		}
		obs = append(obs, floor("IDKEY/"+which, "publishers (CheckError -> Diagnostic)", len(pubs), 1))
		obs = append(obs, floor("IDKEY/"+which, "comparators ([]CheckError x []CheckError -> bool)", len(cmps), 1))
		obs = append(obs, floor("IDKEY/"+which, "de-duplication key methods", len(keyFns), 1))
		if len(pubs) == 0 {
			return obs
		}
		rd := &fieldReader{c: c, pkg: checkErrPkg, name: "CheckError", memo: map[*ssa.Function]map[string]bool{}}
		D := map[string]bool{}
		for _, p := range pubs {
			for k := range rd.readsOf(p, 0) {
				D[k] = true
			}
		}
		var dk []string
		for k := range D {
			dk = append(dk, k)
		}
		sort.Strings(dk)
		obs = append(obs, floor("IDKEY/"+which, "field paths read by the publisher", len(dk), 6))
		c.Stats["idkey_published_fields"] = len(dk)
		check := func(kind string, f *ssa.Function) {
			S := rd.readsOf(f, 0)
			for _, p := range dk {
				key := fmt.Sprintf("IDKEY:%s:%s:%s", kind, f.Name(), p)
				top := strings.SplitN(p, ".", 2)[0]
				switch {
				case S[p]:
					obs = append(obs, Ob{Key: key, Site: c.Pos(f.Pos()), Verdict: OK})
				case reviewedKeyOmissions[kind+":"+top] != "":
					obs = append(obs, Ob{Key: key, Site: c.Pos(f.Pos()), Verdict: OK, Note: "reviewed omission: " + reviewedKeyOmissions[kind+":"+top]})
				default:
					obs = append(obs, Ob{Key: key, Site: c.Pos(f.Pos()), Verdict: VIOLATION,
						Note: fmt.Sprintf("%s publishes CheckError.%s but %s %s never reads it: two diagnostics that differ only there are treated as the same", pubs[0].Name(), p, kind, f.Name())})
				}
			}
		}
		if which == "cmp" {
			for _, f := range cmps {
				check("cmp", f)
			}
			return obs
		}
		var kf []*ssa.Function
		for f := range keyFns {
			kf = append(kf, f)
		}
		sort.Slice(kf, func(i, j int) bool { return kf[i].Name() < kf[j].Name() })
		for _, f := range kf {
			check("dedup", f)
		}
		return obs
	}
}

func isPtr(t types.Type) bool {
	_, ok := types.Unalias(t).Underlying().(*types.Pointer)
	return ok
}
