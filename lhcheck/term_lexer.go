package main

import (
	"fmt"
	"go/constant"
	"go/token"
	"go/types"
	"sort"
	"strings"

	"golang.org/x/tools/go/ssa"
)

// ---------------------------------------------------------------------------------------------
// LEX: re-entrancy analysis of a hand-written lexer.
//
// The lexers (lexer.Lexer, annotatelexer.AnnotateLexer) re-enter NextTokenStruct from error paths
// through the "location of the look-ahead token" helpers. Such a cycle terminates only if the
// byte cursor advanced between two entries. This engine is a small abstract interpreter over the
// methods of one lexer type, context-sensitive in four facts:
//   pre/now/ahead token .valid ∈ {true,false,unknown}, chunk non-empty ∈ {true,unknown}
// and tracks (a) "the cursor advanced by ≥ 1 byte since this function was entered" (must, all
// paths) and (b) lower bounds of local integers (to show next(n) has n ≥ 1).
// Certificate: the context-expanded call graph minus edges taken after an advance is acyclic.

const (
	fUnknown int8 = 0
	fTrue    int8 = 1
	fFalse   int8 = 2
)

const negInf = -1 << 40

type lexCtx struct {
	tok [3]int8 // pre, now, ahead
	ne  bool
}

func (c lexCtx) String() string {
	n := func(v int8) string { return [...]string{"?", "T", "F"}[v] }
	s := fmt.Sprintf("pre=%s now=%s ahead=%s", n(c.tok[0]), n(c.tok[1]), n(c.tok[2]))
	if c.ne {
		s += " nonempty"
	}
	return s
}

type lexState struct {
	reach bool
	ctx   lexCtx
	adv   bool
	ints  map[*ssa.Alloc]int64
}

func (s lexState) clone() lexState {
	n := s
	n.ints = map[*ssa.Alloc]int64{}
	for k, v := range s.ints {
		n.ints[k] = v
	}
	return n
}

func joinFact(a, b int8) int8 {
	if a == b {
		return a
	}
	return fUnknown
}

func joinState(a, b lexState) lexState {
	if !a.reach {
		return b.clone()
	}
	if !b.reach {
		return a.clone()
	}
	r := lexState{reach: true, adv: a.adv && b.adv, ints: map[*ssa.Alloc]int64{}}
	for i := 0; i < 3; i++ {
		r.ctx.tok[i] = joinFact(a.ctx.tok[i], b.ctx.tok[i])
	}
	r.ctx.ne = a.ctx.ne && b.ctx.ne
	for k, v := range a.ints {
		if w, ok := b.ints[k]; ok {
			if w < v {
				v = w
			}
			r.ints[k] = v
		}
	}
	return r
}

func eqState(a, b lexState) bool {
	if a.reach != b.reach || a.adv != b.adv || a.ctx != b.ctx || len(a.ints) != len(b.ints) {
		return false
	}
	for k, v := range a.ints {
		if w, ok := b.ints[k]; !ok || w != v {
			return false
		}
	}
	return true
}

type lexNode struct {
	fn  *ssa.Function
	ctx lexCtx
}

type lexEdge struct {
	from, to lexNode
	site     ssa.Instruction
	adv      bool
}

type lexSummary struct {
	done    bool
	returns bool
	exit    lexState // join over returns (ctx + adv)
}

type lexEngine struct {
	c          *Ctx
	recvType   *types.Named
	tokField   map[string]int // field name -> 0,1,2
	sums       map[lexNode]*lexSummary
	edges      map[string]lexEdge
	writers    map[*ssa.Function]bool // functions that may write lexer state
	nondecr    map[*ssa.Function]map[int]bool
	changed    bool
	analysed   int
	noReviewed bool // record every live edge (used for dead-site export)
}

func newLexEngine(c *Ctx, pkgPath, typeName string) (*lexEngine, error) {
	sp := c.SSA[pkgPath]
	if sp == nil || sp.Type(typeName) == nil {
		return nil, fmt.Errorf("slot unresolved: %s.%s", pkgPath, typeName)
	}
	named := sp.Type(typeName).Type().(*types.Named)
	e := &lexEngine{c: c, recvType: named, tokField: map[string]int{"preToken": 0, "nowToken": 1, "aheadToken": 2},
		sums: map[lexNode]*lexSummary{}, edges: map[string]lexEdge{}, nondecr: map[*ssa.Function]map[int]bool{}}
	st := named.Underlying().(*types.Struct)
	found := 0
	for i := 0; i < st.NumFields(); i++ {
		if _, ok := e.tokField[st.Field(i).Name()]; ok {
			found++
		}
		if st.Field(i).Name() == "chunk" {
			found++
		}
	}
	if found != 4 {
		return nil, fmt.Errorf("slot unresolved: %s.%s must have fields preToken, nowToken, aheadToken, chunk", pkgPath, typeName)
	}
	return e, nil
}

func (e *lexEngine) isMethod(f *ssa.Function) bool {
	if f == nil || f.Signature.Recv() == nil || len(f.Params) == 0 || f.Blocks == nil {
		return false
	}
	return namedOf(f.Signature.Recv().Type()) == e.recvType
}

func namedOf(t types.Type) *types.Named {
	t = types.Unalias(t)
	if p, ok := t.(*types.Pointer); ok {
		t = types.Unalias(p.Elem())
	}
	n, _ := t.(*types.Named)
	return n
}

// recvField: v is FieldAddr(recv, name) for the function's receiver parameter.
func (e *lexEngine) recvField(f *ssa.Function, v ssa.Value) (string, bool) {
	fa, ok := v.(*ssa.FieldAddr)
	if !ok {
		return "", false
	}
	if fa.X != f.Params[0] {
		return "", false
	}
	return fieldName(fa.X.Type(), fa.Field), true
}

// tokValid: v is the address recv.<tok>.valid
func (e *lexEngine) tokValidAddr(f *ssa.Function, v ssa.Value) (int, bool) {
	fa, ok := v.(*ssa.FieldAddr)
	if !ok || fieldName(fa.X.Type(), fa.Field) != "valid" {
		return 0, false
	}
	name, ok := e.recvField(f, fa.X)
	if !ok {
		return 0, false
	}
	i, ok := e.tokField[name]
	return i, ok
}

// nonDecreasing: every store through pointer parameter pi of f has the form *p = *p + c (c >= 0)
// and the pointer is only passed on to functions with the same property.
func (e *lexEngine) nonDecreasing(f *ssa.Function, pi int, depth int) bool {
	if m, ok := e.nondecr[f]; ok {
		if v, ok := m[pi]; ok {
			return v
		}
	} else {
		e.nondecr[f] = map[int]bool{}
	}
	if depth > 5 || f.Blocks == nil || pi >= len(f.Params) {
		return false
	}
	e.nondecr[f][pi] = true // optimistic for recursion
	p := f.Params[pi]
	res := true
	if refs := p.Referrers(); refs != nil {
		for _, r := range *refs {
			switch x := r.(type) {
			case *ssa.Store:
				if x.Addr != p {
					res = false
					continue
				}
				// *p = offset returned by a callee that returns at least the offset it is given, called with *p (+ c)
				if ex, ok := x.Val.(*ssa.Extract); ok {
					okGrow := false
					if call, ok := ex.Tuple.(*ssa.Call); ok {
						if j, ok := resultGeParam(call.Call.StaticCallee(), ex.Index); ok && j < len(call.Call.Args) {
							arg := call.Call.Args[j]
							if bo, ok := arg.(*ssa.BinOp); ok && bo.Op == token.ADD {
								if cst, ok := bo.Y.(*ssa.Const); ok && cst.Value != nil && constant.Sign(cst.Value) >= 0 {
									arg = bo.X
								}
							}
							if ld, ok := arg.(*ssa.UnOp); ok && ld.Op == token.MUL && ld.X == ssa.Value(p) {
								okGrow = true
							}
						}
					}
					if !okGrow {
						res = false
					}
					continue
				}
				bo, ok := x.Val.(*ssa.BinOp)
				if !ok || bo.Op != token.ADD {
					res = false
					continue
				}
				ld, ok1 := bo.X.(*ssa.UnOp)
				cst, ok2 := bo.Y.(*ssa.Const)
				if !ok1 || !ok2 || ld.X != p || cst.Value == nil || constant.Sign(cst.Value) < 0 {
					res = false
				}
			case *ssa.UnOp, *ssa.DebugRef:
			case *ssa.Call:
				sc := x.Call.StaticCallee()
				if sc == nil {
					res = false
					continue
				}
				for j, a := range x.Call.Args {
					if a == p && !e.nonDecreasing(sc, j, depth+1) {
						res = false
					}
				}
			default:
				res = false
			}
		}
	}
	e.nondecr[f][pi] = res
	return res
}

// reviewedLexEdges: call sites that are dead for a reason about byte values that the four facts
// cannot express (frozen by reading; listed in the evidence; a change that makes one live is not
// detected).
var reviewedLexEdges = map[string]string{
	"Lexer:scanNumber->GetHeardTokenLoc#1": "the 'malformed number' branch needs chunk == \".\" at end of input, but NextTokenStruct routes '.' to scanNumber only when len(chunk) >= 2 and chunk[1] is a digit",
}

// callOrdinal: 1-based index of ins among the calls from f to callee, in source order.
func callOrdinal(f *ssa.Function, ins ssa.Instruction, callee *ssa.Function) int {
	var ps []token.Pos
	for _, b := range f.Blocks {
		for _, i := range b.Instrs {
			if c, ok := i.(ssa.CallInstruction); ok && c.Common().StaticCallee() == callee {
				ps = append(ps, i.Pos())
			}
		}
	}
	sort.Slice(ps, func(i, j int) bool { return ps[i] < ps[j] })
	for i, p := range ps {
		if p == ins.Pos() {
			return i + 1
		}
	}
	return 0
}

type lexRun struct {
	e      *lexEngine
	f      *ssa.Function
	node   lexNode
	valLB  map[ssa.Value]int64
	valTok map[ssa.Value]int8 // whole-token loads: validity fact at load time
	record bool
}

func (r *lexRun) lb(v ssa.Value, st *lexState, depth int) int64 {
	if depth > 10 {
		return negInf
	}
	switch x := v.(type) {
	case *ssa.Const:
		if x.Value != nil && x.Value.Kind() == constant.Int {
			if i, ok := constant.Int64Val(x.Value); ok {
				return i
			}
		}
		return negInf
	case *ssa.Parameter:
		// an integer parameter of a private helper: what every call site guarantees (bounds engine, §3.22)
		if isIntType(x.Type()) && x.Parent() != nil && x.Parent().Pkg != nil {
			if be, err := bndFor(r.e.c, x.Parent().Pkg.Pkg.Path(), r.e.recvType.Obj().Name()); err == nil {
				return be.paramLB(x)
			}
		}
		return negInf
	case *ssa.UnOp:
		if x.Op == token.MUL {
			if lbv, ok := r.valLB[x]; ok {
				return lbv
			}
		}
		return negInf
	case *ssa.BinOp:
		a, b := r.lb(x.X, st, depth+1), r.lb(x.Y, st, depth+1)
		switch x.Op {
		case token.ADD:
			if a == negInf || b == negInf {
				return negInf
			}
			return a + b
		case token.SUB:
			if c, ok := x.Y.(*ssa.Const); ok && c.Value != nil && c.Value.Kind() == constant.Int && a != negInf {
				if i, ok := constant.Int64Val(c.Value); ok {
					return a - i
				}
			}
			return negInf
		}
		return negInf
	case *ssa.Call:
		if b, ok := x.Call.Value.(*ssa.Builtin); ok && b.Name() == "len" {
			if r.isChunkLoad(x.Call.Args[0]) && st.ctx.ne {
				if lbv, ok := r.valLB[x]; ok {
					return lbv
				}
				return 1
			}
			return 0
		}
		return negInf
	case *ssa.Phi:
		// min over edges; an edge that is (this phi + nonneg const) cannot lower the bound
		res := int64(1 << 40)
		for _, ed := range x.Edges {
			if bo, ok := ed.(*ssa.BinOp); ok && bo.Op == token.ADD && bo.X == x {
				if c, ok := bo.Y.(*ssa.Const); ok && c.Value != nil && constant.Sign(c.Value) >= 0 {
					continue
				}
			}
			if ed == x {
				continue
			}
			if _, isPhi := ed.(*ssa.Phi); isPhi && depth > 4 {
				return negInf
			}
			v := r.lb(ed, st, depth+1)
			if v < res {
				res = v
			}
		}
		if res == int64(1<<40) {
			return negInf
		}
		return res
	case *ssa.Convert:
		return r.lb(x.X, st, depth+1)
	}
	return negInf
}

func (r *lexRun) isChunkLoad(v ssa.Value) bool {
	u, ok := v.(*ssa.UnOp)
	if !ok || u.Op != token.MUL {
		return false
	}
	name, ok := r.e.recvField(r.f, u.X)
	return ok && name == "chunk"
}

// writesLexer: functions that can reach a store into the lexer struct.
func (e *lexEngine) computeWriters() {
	e.writers = map[*ssa.Function]bool{}
	direct := map[*ssa.Function]bool{}
	for _, f := range e.c.ModFns() {
		if !e.isMethod(f) {
			continue
		}
		for _, b := range f.Blocks {
			for _, ins := range b.Instrs {
				if st, ok := ins.(*ssa.Store); ok {
					if _, ok := e.recvField(f, st.Addr); ok {
						direct[f] = true
					} else if fa, ok := st.Addr.(*ssa.FieldAddr); ok {
						if _, ok := e.recvField(f, fa.X); ok {
							direct[f] = true
						}
					}
				}
			}
		}
	}
	for f := range direct {
		for g := range e.c.reachesSet(f) {
			e.writers[g] = true
		}
	}
}

// analyse runs the dataflow for one (function, entry context) and returns its exit summary.
func (e *lexEngine) analyse(node lexNode) *lexSummary {
	if s, ok := e.sums[node]; ok {
		return s
	}
	s := &lexSummary{}
	e.sums[node] = s
	e.run(node, s)
	return s
}

func (e *lexEngine) run(node lexNode, sum *lexSummary) {
	f := node.fn
	e.analysed++
	r := &lexRun{e: e, f: f, node: node, valLB: map[ssa.Value]int64{}, valTok: map[ssa.Value]int8{}}
	nb := len(f.Blocks)
	in := make([]lexState, nb)
	// per-edge out states: out[b][succIdx]
	out := make([][]lexState, nb)
	for i, b := range f.Blocks {
		out[i] = make([]lexState, len(b.Succs))
	}
	in[0] = lexState{reach: true, ctx: node.ctx, ints: map[*ssa.Alloc]int64{}}
	visits := make([]int, nb)
	var exit lexState
	work := []int{0}
	inWork := map[int]bool{0: true}
	for len(work) > 0 {
		bi := work[0]
		work = work[1:]
		delete(inWork, bi)
		b := f.Blocks[bi]
		st := in[bi].clone()
		if bi != 0 {
			st = lexState{}
			for _, p := range b.Preds {
				for si, s := range p.Succs {
					if s == b {
						st = joinState(st, out[p.Index][si])
					}
				}
			}
			if eqState(st, in[bi]) && visits[bi] > 0 {
				continue
			}
			in[bi] = st.clone()
		}
		visits[bi]++
		if visits[bi] > 30 {
			for k := range st.ints {
				st.ints[k] = negInf
			}
		}
		if !st.reach {
			continue
		}
		outs := r.transferBlock(b, &st, false)
		for si := range b.Succs {
			if !eqState(outs[si], out[bi][si]) {
				out[bi][si] = outs[si]
				t := b.Succs[si].Index
				if !inWork[t] {
					inWork[t] = true
					work = append(work, t)
				}
			}
		}
	}
	// final pass: record edges and exit state with the stable in-states
	exit = lexState{}
	for _, b := range f.Blocks {
		if !in[b.Index].reach {
			continue
		}
		st := in[b.Index].clone()
		r.record = true
		r.transferBlock(b, &st, true)
		r.record = false
		if _, ok := b.Instrs[len(b.Instrs)-1].(*ssa.Return); ok && st.reach {
			exit = joinState(exit, st)
		}
	}
	newSum := lexSummary{done: true, returns: exit.reach, exit: exit}
	if !sum.done || sum.returns != newSum.returns || !eqState(sum.exit, newSum.exit) {
		e.changed = true
	}
	*sum = newSum
}

// transferBlock applies the block's instructions to st and returns the state on each out-edge.
func (r *lexRun) transferBlock(b *ssa.BasicBlock, st *lexState, final bool) []lexState {
	e, f := r.e, r.f
	for _, ins := range b.Instrs {
		if !st.reach {
			break
		}
		switch x := ins.(type) {
		case *ssa.UnOp:
			if x.Op != token.MUL {
				continue
			}
			// loads
			if a, ok := x.X.(*ssa.Alloc); ok {
				if v, ok := st.ints[a]; ok {
					r.valLB[x] = v
				} else {
					delete(r.valLB, x)
				}
				continue
			}
			if name, ok := e.recvField(f, x.X); ok {
				if ti, ok := e.tokField[name]; ok {
					r.valTok[x] = st.ctx.tok[ti]
				}
				continue
			}
			if p, ok := x.X.(*ssa.Parameter); ok {
				_ = p // *int parameter: unknown lower bound
			}
		case *ssa.Call:
			if bi, ok := x.Call.Value.(*ssa.Builtin); ok {
				if bi.Name() == "len" && r.isChunkLoad(x.Call.Args[0]) && st.ctx.ne {
					r.valLB[x] = 1
				}
				continue
			}
			r.call(x, &x.Call, st)
		case *ssa.Defer, *ssa.Go:
			// not used by the lexers; treat conservatively
			st.ctx = lexCtx{}
		case *ssa.Store:
			if a, ok := x.Addr.(*ssa.Alloc); ok {
				if bt, ok := a.Type().Underlying().(*types.Pointer).Elem().Underlying().(*types.Basic); ok && bt.Info()&types.IsInteger != 0 {
					st.ints[a] = r.lb(x.Val, st, 0)
				}
				continue
			}
			if ti, ok := e.tokValidAddr(f, x.Addr); ok {
				if c, ok := x.Val.(*ssa.Const); ok && c.Value != nil && c.Value.Kind() == constant.Bool {
					if constant.BoolVal(c.Value) {
						st.ctx.tok[ti] = fTrue
					} else {
						st.ctx.tok[ti] = fFalse
					}
				} else {
					st.ctx.tok[ti] = fUnknown
				}
				continue
			}
			if name, ok := e.recvField(f, x.Addr); ok {
				if ti, ok := e.tokField[name]; ok {
					if fact, ok := r.valTok[x.Val]; ok {
						st.ctx.tok[ti] = fact
					} else {
						st.ctx.tok[ti] = fUnknown
					}
					continue
				}
				if name == "chunk" {
					adv := false
					if sl, ok := x.Val.(*ssa.Slice); ok && r.isChunkLoad(sl.X) && sl.High == nil && sl.Low != nil {
						if r.lb(sl.Low, st, 0) >= 1 {
							adv = true
						}
					}
					if adv {
						st.adv = true
					}
					st.ctx.ne = false
					continue
				}
			}
		}
	}
	outs := make([]lexState, len(b.Succs))
	if !st.reach {
		return outs
	}
	for i := range outs {
		outs[i] = st.clone()
	}
	if iff, ok := b.Instrs[len(b.Instrs)-1].(*ssa.If); ok && len(b.Succs) == 2 {
		r.refine(iff.Cond, st, &outs[0], &outs[1], false, 0)
	}
	return outs
}

// refine narrows the states on the true / false edges of a branch.
func (r *lexRun) refine(cond ssa.Value, st *lexState, t, f *lexState, neg bool, depth int) {
	if depth > 3 {
		return
	}
	if neg {
		t, f = f, t
	}
	switch x := cond.(type) {
	case *ssa.UnOp:
		if x.Op == token.NOT {
			r.refine(x.X, st, t, f, !false, depth+1)
			return
		}
		if x.Op == token.MUL {
			if ti, ok := r.e.tokValidAddr(r.f, x.X); ok {
				switch st.ctx.tok[ti] {
				case fTrue:
					f.reach = false
				case fFalse:
					t.reach = false
				default:
					t.ctx.tok[ti] = fTrue
					f.ctx.tok[ti] = fFalse
				}
			}
		}
	case *ssa.BinOp:
		// len(l.chunk) ==/!=/>/< const
		call, ok := x.X.(*ssa.Call)
		if !ok {
			return
		}
		bi, ok := call.Call.Value.(*ssa.Builtin)
		if !ok || bi.Name() != "len" || !r.isChunkLoad(call.Call.Args[0]) {
			return
		}
		c, ok := x.Y.(*ssa.Const)
		if !ok || c.Value == nil || c.Value.Kind() != constant.Int {
			return
		}
		k, _ := constant.Int64Val(c.Value)
		switch x.Op {
		case token.EQL:
			if k == 0 {
				f.ctx.ne = true
			}
		case token.NEQ:
			if k == 0 {
				t.ctx.ne = true
			}
		case token.GTR:
			if k >= 0 {
				t.ctx.ne = true
			}
		case token.GEQ:
			if k >= 1 {
				t.ctx.ne = true
			}
		case token.LSS:
			if k >= 1 {
				f.ctx.ne = true
			}
		case token.LEQ:
			if k >= 0 {
				f.ctx.ne = true
			}
		}
	}
}

func (r *lexRun) call(ins ssa.Instruction, cc *ssa.CallCommon, st *lexState) {
	e, f := r.e, r.f
	sc := cc.StaticCallee()
	if sc != nil && e.isMethod(sc) && len(cc.Args) > 0 && cc.Args[0] == f.Params[0] {
		if len(cc.Args) == 2 && (sc.Name() == "next" || removesParamBytes(sc)) {
			if r.lb(cc.Args[1], st, 0) >= 1 {
				st.adv = true
			}
			st.ctx.ne = false
			return
		}
		callee := lexNode{fn: sc, ctx: st.ctx}
		if r.record {
			if _, dead := reviewedLexEdges[e.recvType.Obj().Name()+":"+f.Name()+"->"+sc.Name()+"#"+fmt.Sprint(callOrdinal(f, ins, sc))]; !dead || e.noReviewed {
				k := fmt.Sprintf("%p|%v|%p|%v|%p", r.node.fn, r.node.ctx, sc, st.ctx, ins)
				e.edges[k] = lexEdge{from: r.node, to: callee, site: ins, adv: st.adv}
			}
		}
		sum := e.analyse(callee)
		if !sum.done || !sum.returns {
			if sum.done && !sum.returns {
				st.reach = false
			} else {
				// in progress (recursion): optimistic bottom, refined by the outer fixpoint
				st.reach = false
			}
			return
		}
		st.ctx = sum.exit.ctx
		if sum.exit.adv {
			st.adv = true
		}
		// pointer arguments to local ints: keep bound if callee is non-decreasing in them
		for j, a := range cc.Args {
			if al, ok := a.(*ssa.Alloc); ok {
				if _, tracked := st.ints[al]; tracked && !e.nonDecreasing(sc, j, 0) {
					st.ints[al] = negInf
				}
			}
		}
		return
	}
	// other calls: may they write the lexer?
	may := false
	if sc != nil {
		may = e.writers[sc]
	} else {
		for _, cf := range calleesOf(e.c.VTA(), ins.(ssa.CallInstruction)) {
			if e.writers[cf] {
				may = true
			}
		}
	}
	if may {
		st.ctx = lexCtx{}
	}
	for j, a := range cc.Args {
		if al, ok := a.(*ssa.Alloc); ok {
			if _, tracked := st.ints[al]; tracked {
				if sc == nil || !e.nonDecreasing(sc, j, 0) {
					st.ints[al] = negInf
				}
			}
		}
	}
}

// solve analyses every method from the unknown context and iterates to a fixpoint.
func (e *lexEngine) solve() {
	e.computeWriters()
	var roots []*ssa.Function
	for _, f := range e.c.ModFns() {
		if e.isMethod(f) {
			roots = append(roots, f)
		}
	}
	for iter := 0; iter < 50; iter++ {
		e.changed = false
		e.edges = map[string]lexEdge{}
		old := e.sums
		e.sums = map[lexNode]*lexSummary{}
		// seed with previous summaries so that recursion sees the last approximation
		for k, v := range old {
			cp := *v
			e.sums[k] = &cp
		}
		done := map[lexNode]bool{}
		var visit func(n lexNode)
		visit = func(n lexNode) {
			if done[n] {
				return
			}
			done[n] = true
			s, ok := e.sums[n]
			if !ok {
				s = &lexSummary{}
				e.sums[n] = s
			}
			e.run(n, s)
		}
		for _, f := range roots {
			visit(lexNode{fn: f})
		}
		// contexts discovered through calls
		for grew := true; grew; {
			grew = false
			for _, ed := range e.edges {
				if !done[ed.to] {
					visit(ed.to)
					grew = true
				}
			}
		}
		if !e.changed {
			break
		}
	}
}

// cycles returns the distinct function-name paths of cycles in the expanded graph that contain no
// edge taken after an advance.
func (e *lexEngine) cycles() [][]lexEdge {
	adj := map[lexNode][]lexEdge{}
	for _, ed := range e.edges {
		if ed.adv {
			continue
		}
		// feasible only if the callee summary exists
		adj[ed.from] = append(adj[ed.from], ed)
	}
	for k := range adj {
		es := adj[k]
		sort.Slice(es, func(i, j int) bool {
			if es[i].site.Pos() != es[j].site.Pos() {
				return es[i].site.Pos() < es[j].site.Pos()
			}
			return es[i].to.ctx.String() < es[j].to.ctx.String()
		})
	}
	var nodes []lexNode
	for n := range adj {
		nodes = append(nodes, n)
	}
	sort.Slice(nodes, func(i, j int) bool {
		if fnKey(nodes[i].fn) != fnKey(nodes[j].fn) {
			return fnKey(nodes[i].fn) < fnKey(nodes[j].fn)
		}
		return nodes[i].ctx.String() < nodes[j].ctx.String()
	})
	seenKey := map[string]bool{}
	var out [][]lexEdge
	color := map[lexNode]int{}
	var stack []lexEdge
	var dfs func(n lexNode)
	dfs = func(n lexNode) {
		color[n] = 1
		for _, ed := range adj[n] {
			if color[ed.to] == 1 {
				// cycle: edges from the first occurrence of ed.to on the stack
				var cyc []lexEdge
				start := -1
				for i, se := range stack {
					if se.from == ed.to {
						start = i
						break
					}
				}
				if start >= 0 {
					cyc = append(cyc, stack[start:]...)
				}
				cyc = append(cyc, ed)
				key := lexCycleKey(cyc)
				if !seenKey[key] {
					seenKey[key] = true
					out = append(out, append([]lexEdge(nil), cyc...))
				}
				continue
			}
			if color[ed.to] == 0 {
				stack = append(stack, ed)
				dfs(ed.to)
				stack = stack[:len(stack)-1]
			}
		}
		color[n] = 2
	}
	for _, n := range nodes {
		if color[n] == 0 {
			dfs(n)
		}
	}
	sort.Slice(out, func(i, j int) bool { return lexCycleKey(out[i]) < lexCycleKey(out[j]) })
	return out
}

// lexCycleKey: rotation-normalised sequence of function names.
func lexCycleKey(cyc []lexEdge) string {
	var names []string
	for _, ed := range cyc {
		names = append(names, ed.from.fn.Name())
	}
	// rotate so that the lexicographically smallest rotation is used
	best := ""
	for i := range names {
		rot := strings.Join(append(append([]string{}, names[i:]...), names[:i]...), ">")
		if best == "" || rot < best {
			best = rot
		}
	}
	return best
}


// removesParamBytes: a lexer method with one integer parameter n whose body re-slices the input by exactly that
// parameter (chunk = chunk[n:]) on every path — next(n) and its character-counting sibling nextChars(n)
func removesParamBytes(g *ssa.Function) bool {
	if g == nil || len(g.Blocks) != 1 || len(g.Params) != 2 {
		return false
	}
	for _, ins := range g.Blocks[0].Instrs {
		st, ok := ins.(*ssa.Store)
		if !ok {
			continue
		}
		fa, ok := st.Addr.(*ssa.FieldAddr)
		if !ok || fa.X != g.Params[0] || fieldName(fa.X.Type(), fa.Field) != "chunk" {
			continue
		}
		sl, ok := st.Val.(*ssa.Slice)
		if !ok || sl.Low != g.Params[1] || sl.High != nil {
			continue
		}
		if ld, ok := sl.X.(*ssa.UnOp); ok {
			if fa2, ok := ld.X.(*ssa.FieldAddr); ok && fa2.X == g.Params[0] && fieldName(fa2.X.Type(), fa2.Field) == "chunk" {
				return true
			}
		}
	}
	return false
}
