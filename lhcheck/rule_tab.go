package main

import (
	"fmt"
	"go/ast"
	"go/constant"
	"go/token"
	"go/types"
	"golang.org/x/tools/go/packages"
	"sort"
	"strings"
)

// reference: Lua 5.3 / 5.4 manual §3.1 (reserved words) and §3.4.8 (precedence, low to high)
var luaReserved = []string{"and", "break", "do", "else", "elseif", "end", "false", "for", "function", "goto", "if", "in",
	"local", "nil", "not", "or", "repeat", "return", "then", "true", "until", "while"}

var luaBinaryPrecedence = [][]string{
	{"or"}, {"and"}, {"<", ">", "<=", ">=", "~=", "=="}, {"|"}, {"~"}, {"&"}, {"<<", ">>"}, {".."}, {"+", "-"}, {"*", "/", "//", "%"}, {"^"},
}
var luaRightAssoc = []string{"..", "^"}
var luaUnary = []string{"not", "#", "-", "~"}
var luaOtherTokens = []string{"...", ";", ",", ".", ":", "::", "(", ")", "[", "]", "{", "}", "="}

// tokenSpelling: TkKind constant value -> spelling, from the tokenKinds array literal.
func tokenSpellings(c *Ctx) (map[int64]string, map[string]int64, error) {
	p := c.ByPath[lexerPkg]
	if p == nil {
		return nil, nil, fmt.Errorf("slot unresolved: package lexer")
	}
	sp := map[int64]string{}
	names := map[string]int64{}
	for _, n := range p.Types.Scope().Names() {
		if k, ok := p.Types.Scope().Lookup(n).(*types.Const); ok && namedName(k.Type()) == "TkKind" {
			if v, ok := constant.Int64Val(k.Val()); ok {
				names[n] = v
			}
		}
	}
	found := false
	for _, f := range p.Syntax {
		ast.Inspect(f, func(n ast.Node) bool {
			vs, ok := n.(*ast.ValueSpec)
			if !ok || len(vs.Names) != 1 || vs.Names[0].Name != "tokenKinds" || len(vs.Values) != 1 {
				return true
			}
			cl, ok := vs.Values[0].(*ast.CompositeLit)
			if !ok {
				return true
			}
			found = true
			for _, el := range cl.Elts {
				kv, ok := el.(*ast.KeyValueExpr)
				if !ok {
					continue
				}
				ktv, ok1 := p.TypesInfo.Types[kv.Key]
				vtv, ok2 := p.TypesInfo.Types[kv.Value]
				if !ok1 || !ok2 || ktv.Value == nil || vtv.Value == nil {
					continue
				}
				ki, _ := constant.Int64Val(ktv.Value)
				sp[ki] = constant.StringVal(vtv.Value)
			}
			return false
		})
	}
	if !found {
		return nil, nil, fmt.Errorf("slot unresolved: lexer.tokenKinds")
	}
	return sp, names, nil
}

func sortedKeys(m map[string]bool) []string {
	var s []string
	for k := range m {
		s = append(s, k)
	}
	sort.Strings(s)
	return s
}

// caseConstSets: for a function, the constant TkKind values of each case clause of switch statements
// over a TkKind expression, with the int constant returned in that clause (if any).
type caseClause struct {
	kinds []int64
	ret   *int64
}

func switchClauses(c *Ctx, pkgPath, recv, fn string) ([]caseClause, *ast.FuncDecl, error) {
	p, fd := c.FuncDecl(pkgPath, recv, fn)
	if fd == nil {
		return nil, nil, fmt.Errorf("slot unresolved: %s.%s", pkgPath, fn)
	}
	var out []caseClause
	ast.Inspect(fd.Body, func(n ast.Node) bool {
		cc, ok := n.(*ast.CaseClause)
		if !ok {
			return true
		}
		var cl caseClause
		for _, e := range cc.List {
			if tv, ok := p.TypesInfo.Types[e]; ok && tv.Value != nil && namedName(tv.Type) == "TkKind" {
				v, _ := constant.Int64Val(tv.Value)
				cl.kinds = append(cl.kinds, v)
			}
		}
		for _, st := range cc.Body {
			if rs, ok := st.(*ast.ReturnStmt); ok && len(rs.Results) == 1 {
				if tv, ok := p.TypesInfo.Types[rs.Results[0]]; ok && tv.Value != nil && tv.Value.Kind() == constant.Int {
					v, _ := constant.Int64Val(tv.Value)
					cl.ret = &v
				}
			}
		}
		if len(cl.kinds) > 0 {
			out = append(out, cl)
		}
		return true
	})
	tableForm := false
	if len(out) == 0 {
		tableForm = true
		// the table form: `return table[kind]` on a package-level `var table = map[TkKind]int{ K: v, … }`
		ast.Inspect(fd.Body, func(n ast.Node) bool {
			ix, ok := n.(*ast.IndexExpr)
			if !ok {
				return true
			}
			id, ok := ix.X.(*ast.Ident)
			if !ok {
				return true
			}
			obj, ok := p.TypesInfo.Uses[id].(*types.Var)
			if !ok || obj.Parent() != p.Types.Scope() {
				return true
			}
			for _, f := range p.Syntax {
				ast.Inspect(f, func(m ast.Node) bool {
					vs, ok := m.(*ast.ValueSpec)
					if !ok || len(vs.Names) != 1 || p.TypesInfo.Defs[vs.Names[0]] != types.Object(obj) || len(vs.Values) != 1 {
						return true
					}
					lit, ok := vs.Values[0].(*ast.CompositeLit)
					if !ok {
						return true
					}
					for _, el := range lit.Elts {
						kv, ok := el.(*ast.KeyValueExpr)
						if !ok {
							continue
						}
						ktv, ok1 := p.TypesInfo.Types[kv.Key]
						vtv, ok2 := p.TypesInfo.Types[kv.Value]
						if !ok1 || !ok2 || ktv.Value == nil || vtv.Value == nil || namedName(ktv.Type) != "TkKind" {
							continue
						}
						k, _ := constant.Int64Val(ktv.Value)
						var v int64
						switch vtv.Value.Kind() {
						case constant.Int:
							v, _ = constant.Int64Val(vtv.Value)
						case constant.Bool: // a set: map[TkKind]bool{ K: true, … }
							if !constant.BoolVal(vtv.Value) {
								continue
							}
							v = 1
						default:
							continue
						}
						out = append(out, caseClause{kinds: []int64{k}, ret: &v})
					}
					return true
				})
			}
			return true
		})
	}
	if tableForm {
		// next to a table lookup, single kinds are tested with `kind == K` (the `;` after an empty return)
		ast.Inspect(fd.Body, func(n ast.Node) bool {
			is, ok := n.(*ast.IfStmt)
			if !ok {
				return true
			}
			if be, ok := ast.Unparen(is.Cond).(*ast.BinaryExpr); ok && be.Op.String() == "==" {
				for _, side := range []ast.Expr{be.X, be.Y} {
					if tv, ok := p.TypesInfo.Types[side]; ok && tv.Value != nil && namedName(tv.Type) == "TkKind" {
						k, _ := constant.Int64Val(tv.Value)
						out = append(out, caseClause{kinds: []int64{k}})
					}
				}
			}
			return true
		})
	}
	return out, fd, nil
}

type tokenTableEntry struct {
	kind int64
	str  string
	pos  token.Pos
}

// tokenTableEntries: the entries of the package-level composite literals (map or slice) whose elements are values of
// struct type elem, read as (the TkKind constant, the string constant) of each element
func tokenTableEntries(p *packages.Package, elem types.Type) []tokenTableEntry {
	var out []tokenTableEntry
	for _, f := range p.Syntax {
		for _, d := range f.Decls {
			gd, ok := d.(*ast.GenDecl)
			if !ok {
				continue
			}
			for _, sp := range gd.Specs {
				vs, ok := sp.(*ast.ValueSpec)
				if !ok || len(vs.Values) != 1 {
					continue
				}
				lit, ok := vs.Values[0].(*ast.CompositeLit)
				if !ok {
					continue
				}
				for _, el := range lit.Elts {
					v := el
					if kv, ok := el.(*ast.KeyValueExpr); ok {
						v = kv.Value
					}
					inner, ok := v.(*ast.CompositeLit)
					if !ok {
						continue
					}
					if tv, ok := p.TypesInfo.Types[inner]; !ok || !types.Identical(tv.Type, elem) {
						continue
					}
					var ent tokenTableEntry
					haveK, haveS := false, false
					for _, fe := range inner.Elts {
						fv := fe
						if kv, ok := fe.(*ast.KeyValueExpr); ok {
							fv = kv.Value
						}
						tv, ok := p.TypesInfo.Types[fv]
						if !ok || tv.Value == nil {
							continue
						}
						if namedName(tv.Type) == "TkKind" {
							ent.kind, _ = constant.Int64Val(tv.Value)
							haveK = true
						} else if tv.Value.Kind() == constant.String {
							ent.str = constant.StringVal(tv.Value)
							haveS = true
						}
					}
					if haveK && haveS {
						ent.pos = inner.Pos()
						out = append(out, ent)
					}
				}
			}
		}
	}
	return out
}

var ruleTab = &Rule{
	Name: "TAB/language-tables",
	Text: "the lexer's and parser's constant tables agree with the Lua 5.3/5.4 reference and with each other: (K1) keys of lexer.keywords = the 22 reserved words, each mapped to the kind spelled that way; (K2) every setNowToken(K, \"s\") with constant arguments has tokenKinds[K] == s and every punctuation / operator kind is produced by some site; (K3) getPriority covers exactly the 21 binary operators in the reference precedence order, '..' and '^' (only) are right-associative, the unary operators are exactly not # - ~ and bind between '*' and '^'; (K4) parseStat dispatches every statement keyword, block-end set = {return, EOF, end, else, elseif, until}; (K7) parseRetExps ends an empty return at every block-end token of isReturnOrBlockEnd (other than return itself) and at ';'; (K6) parentheses are kept around exactly the expression kinds whose meaning they change (vararg, call, name, index)",
	Run: func(c *Ctx) []Ob {
		var obs []Ob
		sp, names, err := tokenSpellings(c)
		if err != nil {
			return []Ob{{Key: "TAB:slots", Verdict: UNDECIDED, Note: err.Error()}}
		}
		bySpell := map[string]int64{}
		for k, s := range sp {
			bySpell[s] = k
		}
		p := c.ByPath[lexerPkg]
		site := func(n ast.Node) string { return c.Pos(n.Pos()) }

		// K1 keywords
		gotKw := map[string]int64{}
		var kwPos ast.Node
		for _, f := range p.Syntax {
			ast.Inspect(f, func(n ast.Node) bool {
				vs, ok := n.(*ast.ValueSpec)
				if !ok || len(vs.Names) != 1 || vs.Names[0].Name != "keywords" || len(vs.Values) != 1 {
					return true
				}
				cl, ok := vs.Values[0].(*ast.CompositeLit)
				if !ok {
					return true
				}
				kwPos = cl
				for _, el := range cl.Elts {
					kv := el.(*ast.KeyValueExpr)
					ktv := p.TypesInfo.Types[kv.Key]
					vtv := p.TypesInfo.Types[kv.Value]
					if ktv.Value != nil && vtv.Value != nil {
						vi, _ := constant.Int64Val(vtv.Value)
						gotKw[constant.StringVal(ktv.Value)] = vi
					}
				}
				return false
			})
		}
		if kwPos == nil {
			obs = append(obs, Ob{Key: "TAB/K1:slots", Verdict: UNDECIDED, Note: "slot unresolved: lexer.keywords"})
		} else {
			for _, w := range luaReserved {
				key := "TAB/K1:reserved:" + w
				k, ok := gotKw[w]
				switch {
				case !ok:
					obs = append(obs, Ob{Key: key, Site: site(kwPos), Verdict: VIOLATION, Note: fmt.Sprintf("reserved word %q is missing from lexer.keywords: it lexes as an identifier, so valid code using it as a keyword is flagged and `%s = 1` is accepted", w, w)})
				case sp[k] != w:
					obs = append(obs, Ob{Key: key, Site: site(kwPos), Verdict: VIOLATION, Note: fmt.Sprintf("reserved word %q maps to the token kind spelled %q", w, sp[k])})
				default:
					obs = append(obs, Ob{Key: key, Site: site(kwPos), Verdict: OK})
				}
			}
			for w := range gotKw {
				isRes := false
				for _, r := range luaReserved {
					if r == w {
						isRes = true
					}
				}
				if !isRes {
					obs = append(obs, Ob{Key: "TAB/K1:extra:" + w, Site: site(kwPos), Verdict: VIOLATION, Note: fmt.Sprintf("%q is not a reserved word of Lua 5.3/5.4 but is in lexer.keywords: valid programs using it as a name are flagged", w)})
				}
			}
		}

		// K2 setNowToken sites
		produced := map[int64]bool{}
		nSites := 0
		for _, f := range p.Syntax {
			ast.Inspect(f, func(n ast.Node) bool {
				call, ok := n.(*ast.CallExpr)
				if !ok || len(call.Args) != 2 {
					return true
				}
				fn := calleeOf(p.TypesInfo, call)
				if !isFunc(fn, lexerPkg, "Lexer", "setNowToken") {
					return true
				}
				ktv, ok1 := p.TypesInfo.Types[call.Args[0]]
				stv, ok2 := p.TypesInfo.Types[call.Args[1]]
				if ok1 && ktv.Value == nil {
					// setNowToken(e.kind, e.str) with e an entry of a package-level table of (kind, text) pairs: every
					// entry of the table is a producing site
					if sel, ok := ast.Unparen(call.Args[0]).(*ast.SelectorExpr); ok {
						if et, ok := p.TypesInfo.Types[sel.X]; ok {
							for _, ent := range tokenTableEntries(p, et.Type) {
								produced[ent.kind] = true
								nSites++
								key := fmt.Sprintf("TAB/K2:setNowToken:%s", sp[ent.kind])
								if sp[ent.kind] != ent.str {
									obs = append(obs, Ob{Key: key, Site: c.Pos(ent.pos), Verdict: VIOLATION, Note: fmt.Sprintf("token kind %q is produced with the text %q", sp[ent.kind], ent.str)})
								} else {
									obs = append(obs, Ob{Key: key, Site: c.Pos(ent.pos), Verdict: OK})
								}
							}
						}
					}
					return true
				}
				if !ok1 || ktv.Value == nil {
					return true
				}
				ki, _ := constant.Int64Val(ktv.Value)
				produced[ki] = true
				if !ok2 || stv.Value == nil {
					return true
				}
				nSites++
				s := constant.StringVal(stv.Value)
				key := fmt.Sprintf("TAB/K2:setNowToken:%s", sp[ki])
				if sp[ki] != s {
					obs = append(obs, Ob{Key: key, Site: site(call), Verdict: VIOLATION, Note: fmt.Sprintf("token kind %q is produced with the text %q", sp[ki], s)})
				} else {
					obs = append(obs, Ob{Key: key, Site: site(call), Verdict: OK})
				}
				return true
			})
		}
		// kinds reachable through the keywords table count as produced
		for _, k := range gotKw {
			produced[k] = true
		}
		var need []string
		for _, cl := range luaBinaryPrecedence {
			need = append(need, cl...)
		}
		need = append(need, luaUnary...)
		need = append(need, luaOtherTokens...)
		for _, s := range need {
			key := "TAB/K2:produced:" + s
			k, ok := bySpell[s]
			if !ok {
				obs = append(obs, Ob{Key: key, Verdict: VIOLATION, Note: fmt.Sprintf("no token kind is spelled %q", s)})
			} else if !produced[k] {
				obs = append(obs, Ob{Key: key, Verdict: VIOLATION, Note: fmt.Sprintf("token %q is never produced by the lexer: every program using it is flagged", s)})
			} else {
				obs = append(obs, Ob{Key: key, Site: "luahelper-lsp/langserver/check/compiler/lexer/token.go:1", Verdict: OK})
			}
		}
		obs = append(obs, floor("TAB/language-tables", "setNowToken sites with constant arguments", nSites, 30))
		_ = names

		// K3 getPriority
		clauses, fd, err := switchClauses(c, parserPkg, "", "getPriority")
		if err != nil {
			obs = append(obs, Ob{Key: "TAB/K3:slots", Verdict: UNDECIDED, Note: err.Error()})
		} else {
			prio := map[string]int64{}
			for _, cl := range clauses {
				if cl.ret == nil {
					continue
				}
				for _, k := range cl.kinds {
					prio[sp[k]] = *cl.ret
				}
			}
			want := map[string]bool{}
			for _, cls := range luaBinaryPrecedence {
				for _, op := range cls {
					want[op] = true
				}
			}
			for _, op := range sortedKeys(want) {
				key := "TAB/K3:binary:" + op
				if v, ok := prio[op]; !ok || v <= 0 {
					obs = append(obs, Ob{Key: key, Site: site(fd), Verdict: VIOLATION, Note: fmt.Sprintf("binary operator %q has no precedence: `a %s b` is rejected", op, op)})
				} else {
					obs = append(obs, Ob{Key: key, Site: site(fd), Verdict: OK})
				}
			}
			for op, v := range prio {
				if !want[op] && v > 0 {
					obs = append(obs, Ob{Key: "TAB/K3:extra:" + op, Site: site(fd), Verdict: VIOLATION, Note: fmt.Sprintf("%q is given a binary precedence but is not a binary operator of Lua", op)})
				}
			}
			// ordering of the classes
			okOrder := true
			var last int64 = 0
			for _, cls := range luaBinaryPrecedence {
				v0 := prio[cls[0]]
				for _, op := range cls {
					if prio[op] != v0 {
						okOrder = false
					}
				}
				if v0 <= last {
					okOrder = false
				}
				last = v0
			}
			v := OK
			if !okOrder {
				v = VIOLATION
			}
			obs = append(obs, Ob{Key: "TAB/K3:precedence-order", Site: site(fd), Verdict: v, Note: "classes (low to high): or; and; comparison; |; ~; &; shift; ..; + -; * / // %; ^"})
		}
		// right associativity + unary set in parseSubExp
		pp, fd2 := c.FuncDecl(parserPkg, "Parser", "parseSubExp")
		if fd2 == nil {
			obs = append(obs, Ob{Key: "TAB/K3:slots:parseSubExp", Verdict: UNDECIDED, Note: "slot unresolved: Parser.parseSubExp"})
		} else {
			// collect, per if-statement, the set of TkKind constants compared with == in its condition
			var condSets [][]string
			var unaryLimit *int64
			// parseSubExp and the unexported functions of the package it is split into (parseUnopOrExp0, finishBinopExp, …)
			bodies := []ast.Node{fd2.Body}
			{
				declOf := map[*types.Func]*ast.FuncDecl{}
				for _, f := range pp.Syntax {
					for _, d := range f.Decls {
						if fdd, ok := d.(*ast.FuncDecl); ok && fdd.Body != nil {
							if o, ok := pp.TypesInfo.Defs[fdd.Name].(*types.Func); ok {
								declOf[o] = fdd
							}
						}
					}
				}
				seenFn := map[*ast.FuncDecl]bool{fd2: true}
				frontier := []*ast.FuncDecl{fd2}
				for depth := 0; depth < 2; depth++ {
					var next []*ast.FuncDecl
					for _, cur := range frontier {
						ast.Inspect(cur.Body, func(n ast.Node) bool {
							if call, ok := n.(*ast.CallExpr); ok {
								if fn := calleeOf(pp.TypesInfo, call); fn != nil && !fn.Exported() && fn.Pkg() == pp.Types {
									if d := declOf[fn]; d != nil && !seenFn[d] && (strings.HasPrefix(fn.Name(), "parse") || strings.HasPrefix(fn.Name(), "finish")) && fn.Name() != "parseExp" {
										seenFn[d] = true
										bodies = append(bodies, d.Body)
										next = append(next, d)
									}
								}
							}
							return true
						})
					}
					frontier = next
				}
			}
			for _, body := range bodies {
				ast.Inspect(body, func(n ast.Node) bool {
					switch x := n.(type) {
					case *ast.IfStmt:
						set := map[string]bool{}
						ast.Inspect(x.Cond, func(m ast.Node) bool {
							if be, ok := m.(*ast.BinaryExpr); ok && be.Op.String() == "==" {
								for _, side := range []ast.Expr{be.X, be.Y} {
									if tv, ok := pp.TypesInfo.Types[side]; ok && tv.Value != nil && namedName(tv.Type) == "TkKind" {
										v, _ := constant.Int64Val(tv.Value)
										set[sp[v]] = true
									}
								}
							}
							return true
						})
						if len(set) > 0 {
							condSets = append(condSets, sortedKeys(set))
						}
					case *ast.CallExpr:
						if fn := calleeOf(pp.TypesInfo, x); isFunc(fn, parserPkg, "Parser", "parseSubExp") && len(x.Args) == 1 {
							if tv, ok := pp.TypesInfo.Types[x.Args[0]]; ok && tv.Value != nil {
								v, _ := constant.Int64Val(tv.Value)
								unaryLimit = &v
							}
						}
					}
					return true
				})
			}
			has := func(want []string) bool {
				w := append([]string{}, want...)
				sort.Strings(w)
				for _, s := range condSets {
					if strings.Join(s, " ") == strings.Join(w, " ") {
						return true
					}
				}
				return false
			}
			v := OK
			note := ""
			if !has(luaUnary) {
				v, note = VIOLATION, fmt.Sprintf("no condition in parseSubExp tests exactly the unary operators %v (found %v)", luaUnary, condSets)
			}
			obs = append(obs, Ob{Key: "TAB/K3:unary-set", Site: site(fd2), Verdict: v, Note: note})
			v, note = OK, ""
			if !has(luaRightAssoc) {
				v, note = VIOLATION, fmt.Sprintf("no condition in parseSubExp tests exactly the right-associative operators %v (found %v)", luaRightAssoc, condSets)
			}
			obs = append(obs, Ob{Key: "TAB/K3:right-assoc-set", Site: site(fd2), Verdict: v, Note: note})
			// unary limit
			cl2, _, _ := switchClauses(c, parserPkg, "", "getPriority")
			var mul, pow int64
			for _, cl := range cl2 {
				for _, k := range cl.kinds {
					if sp[k] == "*" && cl.ret != nil {
						mul = *cl.ret
					}
					if sp[k] == "^" && cl.ret != nil {
						pow = *cl.ret
					}
				}
			}
			v, note = OK, ""
			if unaryLimit == nil || *unaryLimit < mul || *unaryLimit >= pow {
				v, note = VIOLATION, "the operand of a unary operator must be parsed with a limit at the multiplicative class and below '^' (-x^2 = -(x^2), -x*y = (-x)*y)"
			}
			obs = append(obs, Ob{Key: "TAB/K3:unary-binding", Site: site(fd2), Verdict: v, Note: note})
		}

		// K4 statement dispatch and block end
		stClauses, fd3, err := switchClauses(c, parserPkg, "Parser", "parseStat")
		if err != nil {
			obs = append(obs, Ob{Key: "TAB/K4:slots", Verdict: UNDECIDED, Note: err.Error()})
		} else {
			have := map[string]bool{}
			for _, cl := range stClauses {
				for _, k := range cl.kinds {
					have[sp[k]] = true
				}
			}
			for _, w := range []string{";", "break", "::", "goto", "do", "while", "repeat", "if", "for", "function", "local"} {
				v, note := OK, ""
				if !have[w] {
					v, note = VIOLATION, fmt.Sprintf("parseStat has no case for the statement introduced by %q", w)
				}
				obs = append(obs, Ob{Key: "TAB/K4:stat:" + w, Site: site(fd3), Verdict: v, Note: note})
			}
		}
		beClauses, fd4, err := switchClauses(c, parserPkg, "", "isReturnOrBlockEnd")
		if err != nil {
			obs = append(obs, Ob{Key: "TAB/K4:slots:blockend", Verdict: UNDECIDED, Note: err.Error()})
		} else {
			have := map[string]bool{}
			for _, cl := range beClauses {
				for _, k := range cl.kinds {
					have[sp[k]] = true
				}
			}
			want := []string{"EOF", "else", "elseif", "end", "return", "until"}
			v, note := OK, ""
			if strings.Join(sortedKeys(have), " ") != strings.Join(want, " ") {
				v, note = VIOLATION, fmt.Sprintf("block-end token set is %v, reference %v", sortedKeys(have), want)
			}
			obs = append(obs, Ob{Key: "TAB/K4:block-end-set", Site: site(fd4), Verdict: v, Note: note})
		}

		// K7 empty return: every token that can end a block may directly follow `return`
		reClauses, fd7, err := switchClauses(c, parserPkg, "Parser", "parseRetExps")
		if err != nil || beClauses == nil {
			obs = append(obs, Ob{Key: "TAB/K7:slots", Verdict: UNDECIDED, Note: "slot unresolved: Parser.parseRetExps / isReturnOrBlockEnd"})
		} else {
			have := map[string]bool{}
			for _, cl := range reClauses {
				for _, k := range cl.kinds {
					have[sp[k]] = true
				}
			}
			var want []string
			for _, cl := range beClauses {
				for _, k := range cl.kinds {
					if sp[k] != "return" {
						want = append(want, sp[k])
					}
				}
			}
			want = append(want, ";")
			sort.Strings(want)
			for _, w := range want {
				v, note := OK, ""
				if !have[w] {
					v, note = VIOLATION, fmt.Sprintf("parseRetExps does not treat %q as the end of an empty `return`: `return` directly followed by it (a token isReturnOrBlockEnd accepts as block end) is parsed as an expression list and rejected", w)
				}
				obs = append(obs, Ob{Key: "TAB/K7:empty-return:" + w, Site: site(fd7), Verdict: v, Note: note})
			}
		}

		// K6 kept parentheses
		pk, fd5 := c.FuncDecl(parserPkg, "Parser", "parseParensExp")
		if fd5 == nil {
			obs = append(obs, Ob{Key: "TAB/K6:slots", Verdict: UNDECIDED, Note: "slot unresolved: Parser.parseParensExp"})
		} else {
			kept := map[string]bool{}
			ast.Inspect(fd5.Body, func(n ast.Node) bool {
				cc, ok := n.(*ast.CaseClause)
				if !ok {
					return true
				}
				for _, e := range cc.List {
					if tv, ok := pk.TypesInfo.Types[e]; ok && tv.IsType() {
						if pp2, nn := namedPkgName(tv.Type); pp2 == astPkg {
							kept[nn] = true
						}
					}
				}
				return true
			})
			for _, k := range []string{"VarargExp", "FuncCallExp", "NameExp", "TableAccessExp"} {
				v, note := OK, ""
				if !kept[k] {
					v, note = VIOLATION, fmt.Sprintf("parentheses around a %s are dropped, but they change its meaning (a parenthesised call / vararg is truncated to one value and is not a statement; a parenthesised name / index is not assignable): invalid programs are accepted", k)
				}
				obs = append(obs, Ob{Key: "TAB/K6:kept:" + k, Site: site(fd5), Verdict: v, Note: note})
			}
		}
		return obs
	},
}

// ruleTabK6: only the kept-parentheses clause of the table rule (C20: `(x)` must stay distinguishable from `x`
// for the structural checks 8, 19, 20)
var ruleTabK6 = &Rule{
	Name: "TAB/K6-kept-parentheses",
	Text: "parentheses are kept as a ParensExp node around exactly the expression kinds whose meaning they change (vararg, call, name, index): the structural pattern checks compare AST shapes, so `x = (x)`, `if (y) … elseif y` and `local a, b = (f())` must not look like their unparenthesised forms",
	Run: func(c *Ctx) []Ob {
		var out []Ob
		for _, o := range ruleTab.Run(c) {
			if strings.HasPrefix(o.Key, "TAB/K6:") {
				out = append(out, o)
			}
		}
		out = append(out, floor("TAB/K6-kept-parentheses", "kept-parentheses obligations", len(out), 4))
		return out
	},
}
