package main

import (
	"fmt"
	"go/constant"
	"go/token"
	"go/types"
	"regexp"
	"sort"
	"strings"

	"golang.org/x/tools/go/callgraph"
	"golang.org/x/tools/go/ssa"
)

// ---------------------------------------------------------------------------------------------
// P1: non-constant pattern handed to a panicking compiler.

func staticCalleeName(cc *ssa.CallCommon) string {
	if f := cc.StaticCallee(); f != nil {
		if f.Pkg != nil && f.Signature.Recv() == nil {
			return f.Pkg.Pkg.Path() + "." + f.Name()
		}
		return f.String()
	}
	return ""
}

var mustFuncs = map[string]bool{
	"regexp.MustCompile":      true,
	"regexp.MustCompilePOSIX": true,
	"text/template.Must":      true,
	"html/template.Must":      true,
}

// patternParts decomposes a pattern value into constant strings and QuoteMeta placeholders.
// ok=false when some part is neither.
func patternParts(v ssa.Value, depth int) (parts []string, ok bool, why string) {
	if depth > 8 {
		return nil, false, "expression too deep"
	}
	switch x := v.(type) {
	case *ssa.Const:
		if x.Value != nil && x.Value.Kind() == constant.String {
			return []string{constant.StringVal(x.Value)}, true, ""
		}
		return nil, false, "non-string constant"
	case *ssa.BinOp:
		if x.Op == token.ADD {
			a, ok1, w1 := patternParts(x.X, depth+1)
			b, ok2, w2 := patternParts(x.Y, depth+1)
			if !ok1 {
				return nil, false, w1
			}
			if !ok2 {
				return nil, false, w2
			}
			return append(a, b...), true, ""
		}
	case *ssa.Call:
		if staticCalleeName(&x.Call) == "regexp.QuoteMeta" {
			return []string{"\x00"}, true, ""
		}
		return nil, false, "result of call to " + describeCallee(&x.Call)
	case *ssa.Phi:
		var all []string
		for _, e := range x.Edges {
			p, ok, w := patternParts(e, depth+1)
			if !ok {
				return nil, false, w
			}
			all = append(all, p...)
		}
		return all, true, "" // over-approximate: concatenation only used to test compilability of parts
	}
	return nil, false, describeValue(v)
}

func describeCallee(cc *ssa.CallCommon) string {
	if n := staticCalleeName(cc); n != "" {
		return n
	}
	if cc.IsInvoke() {
		return "interface method " + cc.Method.Name()
	}
	return "dynamic function"
}

func describeValue(v ssa.Value) string {
	switch x := v.(type) {
	case *ssa.Parameter:
		return "parameter " + x.Name()
	case *ssa.UnOp:
		if x.Op == token.MUL {
			return "load of " + describeValue(x.X)
		}
	case *ssa.FieldAddr:
		st := x.X.Type().Underlying().(*types.Pointer).Elem().Underlying().(*types.Struct)
		return "field " + st.Field(x.Field).Name()
	case *ssa.Field:
		st := x.X.Type().Underlying().(*types.Struct)
		return "field " + st.Field(x.Field).Name()
	case *ssa.IndexAddr:
		return "element of " + describeValue(x.X)
	case *ssa.Extract:
		return "component of " + describeValue(x.Tuple)
	case *ssa.Next:
		return "range element"
	case *ssa.Global:
		return "global " + x.Name()
	case *ssa.Lookup:
		return "map/string element of " + describeValue(x.X)
	case *ssa.Alloc:
		return "local " + x.Comment
	}
	return fmt.Sprintf("%T", v)
}

var rulePanicP1 = &Rule{
	Name:    "PANIC/P1-must-compile",
	NeedSSA: true,
	Text:    "every argument of regexp.MustCompile / MustCompilePOSIX / template.Must is a compile-time constant (or a concatenation of constants and regexp.QuoteMeta results) that itself compiles; anything else lets workspace or client text panic the process (jrpc2 does not recover handler panics)",
	Run: func(c *Ctx) []Ob {
		var obs []Ob
		n := 0
		for _, f := range c.ModFns() {
			ord := 0
			for _, b := range f.Blocks {
				for _, ins := range b.Instrs {
					call, ok := ins.(ssa.CallInstruction)
					if !ok {
						continue
					}
					name := staticCalleeName(call.Common())
					if !mustFuncs[name] {
						continue
					}
					n++
					ord++
					key := fmt.Sprintf("PANIC/P1:%s:%s#%d", fnKey(f), name, ord)
					if !strings.HasPrefix(name, "regexp.") {
						obs = append(obs, Ob{Key: key, Site: c.Pos(ins.Pos()), Verdict: VIOLATION, Note: name + " panics on a malformed template"})
						continue
					}
					parts, okc, why := patternParts(call.Common().Args[0], 0)
					if !okc {
						obs = append(obs, Ob{Key: key, Site: c.Pos(ins.Pos()), Verdict: VIOLATION,
							Note: "pattern is not a compile-time constant (" + why + "): a malformed pattern panics in " + name})
						continue
					}
					pat := strings.ReplaceAll(strings.Join(parts, ""), "\x00", "x")
					if _, err := regexp.Compile(pat); err != nil {
						obs = append(obs, Ob{Key: key, Site: c.Pos(ins.Pos()), Verdict: VIOLATION,
							Note: "constant pattern does not compile: " + err.Error()})
						continue
					}
					obs = append(obs, Ob{Key: key, Site: c.Pos(ins.Pos()), Verdict: OK, Note: "constant pattern compiles"})
				}
			}
		}
		c.Stats["must_compile_sites"] = n
		obs = append(obs, floor("PANIC/P1-must-compile", "MustCompile sites", n, 8))
		return obs
	},
}

// ---------------------------------------------------------------------------------------------
// recover sites

type recoverSite struct {
	Outer   *ssa.Function // function whose defer installs the handler
	Handler *ssa.Function // the deferred closure calling recover()
	Defer   *ssa.Defer
	// analysis of the handler:
	SingleAssert []*ssa.TypeAssert // single-value assertions on the recovered value
	AcceptTypes  []types.Type      // types the handler discriminates (comma-ok or switch)
	Records      bool              // handler does something with the payload besides discarding it
	AtEntry      bool              // defer is executed before any call in Outer
}

func callsRecover(f *ssa.Function) *ssa.Call {
	for _, b := range f.Blocks {
		for _, ins := range b.Instrs {
			if call, ok := ins.(*ssa.Call); ok {
				if bi, ok := call.Call.Value.(*ssa.Builtin); ok && bi.Name() == "recover" {
					return call
				}
			}
		}
	}
	return nil
}

func (c *Ctx) RecoverSites() []*recoverSite {
	var out []*recoverSite
	for _, f := range c.ModFns() {
		for bi, b := range f.Blocks {
			for ii, ins := range b.Instrs {
				d, ok := ins.(*ssa.Defer)
				if !ok {
					continue
				}
				var h *ssa.Function
				if mc, ok := d.Call.Value.(*ssa.MakeClosure); ok {
					h = mc.Fn.(*ssa.Function)
				} else if sc := d.Call.StaticCallee(); sc != nil {
					h = sc
				}
				if h == nil || h.Blocks == nil {
					continue
				}
				rc := callsRecover(h)
				if rc == nil {
					continue
				}
				rs := &recoverSite{Outer: f, Handler: h, Defer: d}
				// at entry: in block 0 and no call before it
				rs.AtEntry = bi == 0
				if rs.AtEntry {
					for _, prev := range b.Instrs[:ii] {
						if _, isCall := prev.(*ssa.Call); isCall {
							rs.AtEntry = false
						}
					}
				}
				// uses of recovered value (follow through phi / nothing else)
				var visit func(v ssa.Value, depth int)
				seen := map[ssa.Value]bool{}
				visit = func(v ssa.Value, depth int) {
					if seen[v] || depth > 6 {
						return
					}
					seen[v] = true
					refs := v.Referrers()
					if refs == nil {
						return
					}
					for _, r := range *refs {
						switch x := r.(type) {
						case *ssa.TypeAssert:
							if x.CommaOk {
								rs.AcceptTypes = append(rs.AcceptTypes, x.AssertedType)
								rs.Records = true
							} else {
								rs.SingleAssert = append(rs.SingleAssert, x)
								rs.Records = true
							}
						case *ssa.BinOp:
							// comparison with nil: not a use
						case *ssa.Phi:
							visit(x, depth+1)
						case *ssa.DebugRef:
						default:
							// passed to a call (logging), stored, etc.
							rs.Records = true
						}
					}
				}
				visit(rc, 0)
				out = append(out, rs)
			}
		}
	}
	sort.Slice(out, func(i, j int) bool { return fnKey(out[i].Outer) < fnKey(out[j].Outer) })
	return out
}

// reviewedRecoverHandlers: hazards without a known failing input (frozen by reading + reason).
var reviewedRecoverHandlers = map[string]string{
	"PANIC/P3:(*check/compiler/parser.Parser).BeginAnalyze:swallow-all":          "the handler would turn an internal fault into an ordinary (possibly clean) result. The one internal fault known on the tree as received (`x[=` at end of input: slice out of range in scanLongString) is repaired (9a44244) and BND/cursor-in-input now proves that no index, slice bound or advance of the lexer leaves its input; 30 minutes of coverage-guided fuzzing of parseBlock (65 M inputs) during triage found no other fault. Faults outside the lexer's input accesses (nil dereference, other slices) would still be swallowed: reported as a hazard, not as a defect.",
	"PANIC/P3:check/annotation/annotateparser.ParserLine:single-value-assertion": "a foreign payload would re-panic inside the deferred function, but no runtime fault is known inside the recovered region on this tree (every slice/index in annotatelexer is length-guarded; 20 minutes of coverage-guided fuzzing of parserOneState at design time found none). Reported as a hazard, not as a defect.",
}

// reportsErrors: the function hands diagnostics to its caller (a result of type error or a slice of
// a struct type whose name ends in Error / Err).
func reportsErrors(f *ssa.Function) bool {
	res := f.Signature.Results()
	for i := 0; i < res.Len(); i++ {
		t := res.At(i).Type()
		if types.Identical(t, types.Universe.Lookup("error").Type()) {
			return true
		}
		if sl, ok := t.Underlying().(*types.Slice); ok {
			n := namedName(sl.Elem())
			if strings.HasSuffix(n, "Error") || strings.HasSuffix(n, "Err") {
				return true
			}
		}
	}
	return false
}

var rulePanicP3 = &Rule{
	Name:    "PANIC/P3-recover-handler",
	NeedSSA: true,
	Text:    "for each deferred recover(): (i) a single-value type assertion on the recovered value re-panics inside the deferred function on any foreign payload (runtime error) and kills the process; (ii) a handler that neither discriminates the payload type nor records it swallows internal faults silently (file reported clean, analysis abandoned)",
	Run: func(c *Ctx) []Ob {
		var obs []Ob
		sites := c.RecoverSites()
		for _, rs := range sites {
			base := "PANIC/P3:" + fnKey(rs.Outer)
			if why, ok := reviewedRecoverHandlers[base+":single-value-assertion"]; ok && len(rs.SingleAssert) > 0 {
				obs = append(obs, Ob{Key: base + ":single-value-assertion", Site: c.Pos(rs.SingleAssert[0].Pos()), Verdict: OK, Note: "hazard, reviewed: " + why})
			} else if len(rs.SingleAssert) > 0 {
				obs = append(obs, Ob{Key: base + ":single-value-assertion", Site: c.Pos(rs.SingleAssert[0].Pos()), Verdict: VIOLATION,
					Note: fmt.Sprintf("recovered value asserted to %s without comma-ok: any other panic payload (nil dereference, index out of range) re-panics inside the deferred function", rs.SingleAssert[0].AssertedType)})
			} else {
				obs = append(obs, Ob{Key: base + ":single-value-assertion", Site: c.Pos(rs.Defer.Pos()), Verdict: OK})
			}
			if !rs.Records && !reportsErrors(rs.Outer) {
				obs = append(obs, Ob{Key: base + ":swallow-all", Site: c.Pos(rs.Defer.Pos()), Verdict: OK,
					Note: "handler discards the payload, but the function has no diagnostics channel (no error / error-list result): a fault yields 'no answer' for one query, not a file silently reported clean"})
			} else if why, ok := reviewedRecoverHandlers[base+":swallow-all"]; ok && !rs.Records {
				obs = append(obs, Ob{Key: base + ":swallow-all", Site: c.Pos(rs.Defer.Pos()), Verdict: OK, Note: "hazard, reviewed: " + why})
			} else if !rs.Records {
				obs = append(obs, Ob{Key: base + ":swallow-all", Site: c.Pos(rs.Defer.Pos()), Verdict: VIOLATION,
					Note: "deferred recover() neither discriminates the payload type nor records it: an internal fault (nil dereference, index out of range) is silently converted into an ordinary result"})
			} else {
				obs = append(obs, Ob{Key: base + ":swallow-all", Site: c.Pos(rs.Defer.Pos()), Verdict: OK})
			}
			if !rs.AtEntry {
				obs = append(obs, Ob{Key: base + ":defer-not-at-entry", Site: c.Pos(rs.Defer.Pos()), Verdict: VIOLATION,
					Note: "the recovering defer is not installed before the first call of the function"})
			}
		}
		c.Stats["recover_sites"] = len(sites)
		obs = append(obs, floor("PANIC/P3-recover-handler", "deferred recover sites", len(sites), 3))
		return obs
	},
}

// ---------------------------------------------------------------------------------------------
// P2: explicit panics are confined by a recover that accepts their payload type.

func (c *Ctx) entryRoots() ([]*ssa.Function, error) {
	hs, err := c.Handlers()
	if err != nil {
		return nil, err
	}
	var roots []*ssa.Function
	for _, h := range hs {
		roots = append(roots, h.Fn)
	}
	for _, g := range c.GoSites() {
		if g.Callee != nil {
			roots = append(roots, g.Callee)
		}
	}
	if m := c.SSAFunc(modPath, "", "main"); m != nil {
		roots = append(roots, m)
	}
	return roots, nil
}

func payloadType(p *ssa.Panic) types.Type {
	v := p.X
	if mi, ok := v.(*ssa.MakeInterface); ok {
		return mi.X.Type()
	}
	return v.Type()
}

// reviewedAssertionPanics: explicit panics with an untyped (string) payload — defensive assertions
// about the consistency of analysis state. Whether their condition can hold is a fact about
// runtime values; each was read. A NEW reachable one is reported.
var reviewedAssertionPanics = map[string]string{
	"(*check/analysis.Analysis).getFirstFileResult": "asserts that the file being analysed is in the first-pass map; files are only analysed after insertion and removal happens under the request lock between analyses",
	"(*check/analysis.Analysis).GetReferFileResult": "asserts AnalysisFileMap[k].Name == k; the only insert stores under the result's own Name",
}

// reachSites is reach() with a per-call-site filter (dead sites are not followed).
func reachSites(g *callgraph.Graph, roots []*ssa.Function, stop func(*ssa.Function) bool, deadSite func(ssa.CallInstruction) bool) (map[*ssa.Function]*ssa.Function, map[*ssa.Function]bool) {
	parent := map[*ssa.Function]*ssa.Function{}
	seen := map[*ssa.Function]bool{}
	var q []*ssa.Function
	for _, r := range roots {
		if r != nil && !seen[r] {
			seen[r] = true
			parent[r] = nil
			q = append(q, r)
		}
	}
	for len(q) > 0 {
		f := q[0]
		q = q[1:]
		if stop != nil && stop(f) {
			continue
		}
		n := g.Nodes[f]
		if n == nil {
			continue
		}
		type oe struct {
			f *ssa.Function
		}
		var outs []*ssa.Function
		for _, e := range n.Out {
			if deadSite != nil && e.Site != nil && deadSite(e.Site) {
				continue
			}
			outs = append(outs, e.Callee.Func)
		}
		sort.Slice(outs, func(i, j int) bool { return fnKey(outs[i]) < fnKey(outs[j]) })
		for _, cf := range outs {
			if !seen[cf] {
				seen[cf] = true
				parent[cf] = f
				q = append(q, cf)
			}
		}
	}
	return parent, seen
}

// lexerDeadSites: call sites inside the two lexers that the LEX abstract interpretation proves
// unreachable in every context (e.g. `if !l.aheadToken.valid { l.ErrorPrint(...) }` right after
// lookAheardToken(), which always leaves aheadToken.valid == true).
func (c *Ctx) lexerDeadSites() (func(ssa.CallInstruction) bool, int, error) {
	live := map[ssa.Instruction]bool{}
	methods := map[*ssa.Function]*lexEngine{}
	for _, lx := range [][2]string{{lexerPkg, "Lexer"}, {annLexPkg, "AnnotateLexer"}} {
		e, err := newLexEngine(c, lx[0], lx[1])
		if err != nil {
			return nil, 0, err
		}
		e.noReviewed = true
		e.solve()
		for _, ed := range e.edges {
			live[ed.site] = true
		}
		for _, f := range c.ModFns() {
			if e.isMethod(f) {
				methods[f] = e
			}
		}
	}
	nDead := 0
	for f, e := range methods {
		for _, b := range f.Blocks {
			for _, ins := range b.Instrs {
				if call, ok := ins.(ssa.CallInstruction); ok {
					if sc := call.Common().StaticCallee(); sc != nil && e.isMethod(sc) && sc.Name() != "next" && !live[ins] {
						nDead++
					}
				}
			}
		}
	}
	return func(site ssa.CallInstruction) bool {
		e := methods[site.Parent()]
		if e == nil {
			return false
		}
		sc := site.Common().StaticCallee()
		if sc == nil || !e.isMethod(sc) || sc.Name() == "next" {
			return false
		}
		return !live[site.(ssa.Instruction)]
	}, nDead, nil
}

var rulePanicP2 = &Rule{
	Name:    "PANIC/P2-explicit-panic-confined",
	NeedSSA: true,
	Text:    "each explicit panic(x) whose payload is a named module type (panic used as control flow: TooManyErr, ParseAnnotateErr) is unreachable from every entry point (handlers, goroutine bodies, main) except through a function whose entry installs a deferred recover() accepting that type — call sites proven dead by the lexer fact analysis are not followed; explicit panics with an untyped payload (assertions) that are reachable must be in the reviewed table. jrpc2 and the worker goroutines have no recover, so an unconfined panic kills the server",
	Run: func(c *Ctx) []Ob {
		var obs []Ob
		roots, err := c.entryRoots()
		if err != nil {
			return []Ob{{Key: "PANIC/P2:slots", Verdict: UNDECIDED, Note: err.Error()}}
		}
		dead, nDead, err := c.lexerDeadSites()
		if err != nil {
			return []Ob{{Key: "PANIC/P2:slots", Verdict: UNDECIDED, Note: err.Error()}}
		}
		c.Stats["lexer_call_sites_proven_dead"] = nDead
		sites := c.RecoverSites()
		g := c.VTA()
		n := 0
		for _, f := range c.ModFns() {
			ord := 0
			for _, b := range f.Blocks {
				for _, ins := range b.Instrs {
					p, ok := ins.(*ssa.Panic)
					if !ok || !p.Pos().IsValid() {
						continue
					}
					n++
					ord++
					pt := payloadType(p)
					ptName := types.TypeString(pt, func(p *types.Package) string { return p.Name() })
					key := fmt.Sprintf("PANIC/P2:%s:panic(%s)#%d", fnKey(f), ptName, ord)
					accept := map[*ssa.Function]bool{}
					for _, rs := range sites {
						if !rs.AtEntry {
							continue
						}
						okType := true
						for _, sa := range rs.SingleAssert {
							if !types.Identical(sa.AssertedType, pt) {
								okType = false
							}
						}
						if okType {
							accept[rs.Outer] = true
						}
					}
					parent, seen := reachSites(g, roots, func(x *ssa.Function) bool { return accept[x] }, dead)
					reachable := seen[f] && !accept[f]
					sentinel := namedOf(pt) != nil && namedOf(pt).Obj().Pkg() != nil && strings.HasPrefix(namedOf(pt).Obj().Pkg().Path(), modPath)
					switch {
					case !reachable:
						obs = append(obs, Ob{Key: key, Site: c.Pos(p.Pos()), Verdict: OK, Note: "every live path from an entry point crosses a recover() that accepts " + ptName})
					case sentinel:
						obs = append(obs, Ob{Key: key, Site: c.Pos(p.Pos()), Verdict: VIOLATION,
							Note: "control-flow panic reachable from an entry point with no accepting recover() on the path", Path: pathTo(parent, f)})
					default:
						if why, ok := reviewedAssertionPanics[fnKey(f)]; ok {
							obs = append(obs, Ob{Key: key, Site: c.Pos(p.Pos()), Verdict: OK, Note: "assertion panic, reviewed: " + why})
						} else {
							obs = append(obs, Ob{Key: key, Site: c.Pos(p.Pos()), Verdict: VIOLATION,
								Note: "unreviewed explicit panic reachable from an entry point with no recover() on the path (handlers and workers do not recover: the process dies)", Path: pathTo(parent, f)})
						}
					}
				}
			}
		}
		c.Stats["explicit_panics"] = n
		obs = append(obs, floor("PANIC/P2-explicit-panic-confined", "explicit panic sites", n, 2))
		obs = append(obs, floor("PANIC/P2-explicit-panic-confined", "lexer call sites proven dead", nDead, 1))
		return obs
	},
}

// ---------------------------------------------------------------------------------------------
// P6: cursor guard — sibling agreement among the callers of beginFileRequest.

// fieldOfResult: v is (a load of) field `name` of the struct value produced by call.
func fieldOfResult(v ssa.Value, call *ssa.Call, name string, depth int) bool {
	if depth > 6 {
		return false
	}
	switch x := v.(type) {
	case *ssa.Field:
		return x.X == ssa.Value(call) && fieldName(x.X.Type(), x.Field) == name
	case *ssa.UnOp:
		if x.Op == token.MUL {
			if fa, ok := x.X.(*ssa.FieldAddr); ok && fieldName(fa.X.Type(), fa.Field) == name {
				// the struct lives in a local that the call result was stored to
				if al, ok := fa.X.(*ssa.Alloc); ok {
					if refs := al.Referrers(); refs != nil {
						for _, r := range *refs {
							if st, ok := r.(*ssa.Store); ok && st.Addr == al && st.Val == ssa.Value(call) {
								return true
							}
						}
					}
				}
			}
		}
	case *ssa.Call:
		if b, ok := x.Call.Value.(*ssa.Builtin); ok && b.Name() == "len" {
			return false
		}
	case *ssa.Convert:
		return fieldOfResult(x.X, call, name, depth+1)
	}
	return false
}

var reviewedCursorCallers = map[string]string{
	"(*langserver.LspServer).TextDocumentComplete": "completion at the very end of the buffer (offset == len) is the normal case, so it cannot use the >= guard; it relies on OffsetForPosition never returning an offset beyond the buffer",
}

var rulePanicP6 = &Rule{
	Name:    "PANIC/P6-cursor-guard",
	NeedSSA: true,
	Text:    "every caller of LspServer.beginFileRequest compares the returned byte offset with len(contents) before using them, in a form that stops at offset == len(contents) (`offset >= len` / `offset < len`; sibling agreement: definition, references, rename, highlight, signatureHelp, hover); a handler without the comparison indexes the buffer out of range at the end-of-buffer position — an unrecovered panic",
	Run: func(c *Ctx) []Ob {
		var obs []Ob
		target := c.SSAFunc(langserverPkg, "LspServer", "beginFileRequest")
		if target == nil {
			return []Ob{{Key: "PANIC/P6:slots", Verdict: UNDECIDED, Note: "slot unresolved: LspServer.beginFileRequest"}}
		}
		n := 0
		for _, f := range c.ModFns() {
			for _, b := range f.Blocks {
				for _, ins := range b.Instrs {
					call, ok := ins.(*ssa.Call)
					if !ok || call.Call.StaticCallee() != target {
						continue
					}
					n++
					key := "PANIC/P6:" + fnKey(f)
					guarded, weak := false, false
					for _, b2 := range f.Blocks {
						for _, i2 := range b2.Instrs {
							bo, ok := i2.(*ssa.BinOp)
							if !ok {
								continue
							}
							switch bo.Op {
							case token.GEQ, token.GTR, token.LSS, token.LEQ:
							default:
								continue
							}
							isLen := func(v ssa.Value) bool {
								cl, ok := v.(*ssa.Call)
								if !ok {
									return false
								}
								bi, ok := cl.Call.Value.(*ssa.Builtin)
								return ok && bi.Name() == "len" && fieldOfResult(cl.Call.Args[0], call, "contents", 0)
							}
							// the comparison must keep offset == len(contents) out of the continuing path: the handlers'
							// scanners read contents[offset]. `offset >= len` / `offset < len` (or mirrored) do;
							// `offset > len` / `offset <= len` let the end-of-buffer position through
							strict := false
							if fieldOfResult(bo.X, call, "offset", 0) && isLen(bo.Y) {
								strict = bo.Op == token.GEQ || bo.Op == token.LSS
								weak = weak || !strict
							} else if fieldOfResult(bo.Y, call, "offset", 0) && isLen(bo.X) {
								strict = bo.Op == token.LEQ || bo.Op == token.GTR
								weak = weak || !strict
							}
							if strict && call.Block().Dominates(bo.Block()) {
								guarded = true
							}
						}
					}
					switch {
					case guarded:
						obs = append(obs, Ob{Key: key, Site: c.Pos(call.Pos()), Verdict: OK, Note: "offset compared with len(contents) after beginFileRequest"})
					case reviewedCursorCallers[fnKey(f)] != "":
						obs = append(obs, Ob{Key: key, Site: c.Pos(call.Pos()), Verdict: OK, Note: "reviewed exception: " + reviewedCursorCallers[fnKey(f)]})
					default:
						note := "uses the result of beginFileRequest without comparing offset with len(contents) (its siblings do): index out of range at the end-of-buffer position"
						if weak {
							note = "compares offset with len(contents) but lets offset == len(contents) continue (its siblings stop at `offset >= len(contents)`): the scanners behind it read contents[offset] — index out of range at the end-of-buffer position"
						}
						obs = append(obs, Ob{Key: key, Site: c.Pos(call.Pos()), Verdict: VIOLATION, Note: note})
					}
				}
			}
		}
		obs = append(obs, floor("PANIC/P6-cursor-guard", "callers of beginFileRequest", n, 6))
		return obs
	},
}
