package main

import (
	"fmt"
	"go/constant"
	"go/token"
	"go/types"
	"regexp"
	"sort"
	"strings"

	"golang.org/x/tools/go/ssa"
)

// ---------------------------------------------------------------------------------------------
// P1: non-constant pattern handed to a panicking compiler.

func staticCalleeName(cc *ssa.CallCommon) string {
	if f := cc.StaticCallee(); f != nil {
		if f.Pkg != nil && f.Signature.Recv() == nil {
			return f.Pkg.Pkg.Path() + "." + f.Name()
		}
		return f.String()
	}
	return ""
}

var mustFuncs = map[string]bool{
	"regexp.MustCompile":      true,
	"regexp.MustCompilePOSIX": true,
	"text/template.Must":      true,
	"html/template.Must":      true,
}

// patternParts decomposes a pattern value into constant strings and QuoteMeta placeholders.
// ok=false when some part is neither.
func patternParts(v ssa.Value, depth int) (parts []string, ok bool, why string) {
	if depth > 8 {
		return nil, false, "expression too deep"
	}
	switch x := v.(type) {
	case *ssa.Const:
		if x.Value != nil && x.Value.Kind() == constant.String {
			return []string{constant.StringVal(x.Value)}, true, ""
		}
		return nil, false, "non-string constant"
	case *ssa.BinOp:
		if x.Op == token.ADD {
			a, ok1, w1 := patternParts(x.X, depth+1)
			b, ok2, w2 := patternParts(x.Y, depth+1)
			if !ok1 {
				return nil, false, w1
			}
			if !ok2 {
				return nil, false, w2
			}
			return append(a, b...), true, ""
		}
	case *ssa.Call:
		if staticCalleeName(&x.Call) == "regexp.QuoteMeta" {
			return []string{"\x00"}, true, ""
		}
		return nil, false, "result of call to " + describeCallee(&x.Call)
	case *ssa.Phi:
		var all []string
		for _, e := range x.Edges {
			p, ok, w := patternParts(e, depth+1)
			if !ok {
				return nil, false, w
			}
			all = append(all, p...)
		}
		return all, true, "" // over-approximate: concatenation only used to test compilability of parts
	}
	return nil, false, describeValue(v)
}

func describeCallee(cc *ssa.CallCommon) string {
	if n := staticCalleeName(cc); n != "" {
		return n
	}
	if cc.IsInvoke() {
		return "interface method " + cc.Method.Name()
	}
	return "dynamic function"
}

func describeValue(v ssa.Value) string {
	switch x := v.(type) {
	case *ssa.Parameter:
		return "parameter " + x.Name()
	case *ssa.UnOp:
		if x.Op == token.MUL {
			return "load of " + describeValue(x.X)
		}
	case *ssa.FieldAddr:
		st := x.X.Type().Underlying().(*types.Pointer).Elem().Underlying().(*types.Struct)
		return "field " + st.Field(x.Field).Name()
	case *ssa.Field:
		st := x.X.Type().Underlying().(*types.Struct)
		return "field " + st.Field(x.Field).Name()
	case *ssa.IndexAddr:
		return "element of " + describeValue(x.X)
	case *ssa.Extract:
		return "component of " + describeValue(x.Tuple)
	case *ssa.Next:
		return "range element"
	case *ssa.Global:
		return "global " + x.Name()
	case *ssa.Lookup:
		return "map/string element of " + describeValue(x.X)
	case *ssa.Alloc:
		return "local " + x.Comment
	}
	return fmt.Sprintf("%T", v)
}

var rulePanicP1 = &Rule{
	Name:    "PANIC/P1-must-compile",
	NeedSSA: true,
	Text:    "every argument of regexp.MustCompile / MustCompilePOSIX / template.Must is a compile-time constant (or a concatenation of constants and regexp.QuoteMeta results) that itself compiles; anything else lets workspace or client text panic the process (jrpc2 does not recover handler panics)",
	Run: func(c *Ctx) []Ob {
		var obs []Ob
		n := 0
		for _, f := range c.ModFns() {
			ord := 0
			for _, b := range f.Blocks {
				for _, ins := range b.Instrs {
					call, ok := ins.(ssa.CallInstruction)
					if !ok {
						continue
					}
					name := staticCalleeName(call.Common())
					if !mustFuncs[name] {
						continue
					}
					n++
					ord++
					key := fmt.Sprintf("PANIC/P1:%s:%s#%d", fnKey(f), name, ord)
					if !strings.HasPrefix(name, "regexp.") {
						obs = append(obs, Ob{Key: key, Site: c.Pos(ins.Pos()), Verdict: VIOLATION, Note: name + " panics on a malformed template"})
						continue
					}
					parts, okc, why := patternParts(call.Common().Args[0], 0)
					if !okc {
						obs = append(obs, Ob{Key: key, Site: c.Pos(ins.Pos()), Verdict: VIOLATION,
							Note: "pattern is not a compile-time constant (" + why + "): a malformed pattern panics in " + name})
						continue
					}
					pat := strings.ReplaceAll(strings.Join(parts, ""), "\x00", "x")
					if _, err := regexp.Compile(pat); err != nil {
						obs = append(obs, Ob{Key: key, Site: c.Pos(ins.Pos()), Verdict: VIOLATION,
							Note: "constant pattern does not compile: " + err.Error()})
						continue
					}
					obs = append(obs, Ob{Key: key, Site: c.Pos(ins.Pos()), Verdict: OK, Note: "constant pattern compiles"})
				}
			}
		}
		c.Stats["must_compile_sites"] = n
		obs = append(obs, floor("PANIC/P1-must-compile", "MustCompile sites", n, 10))
		return obs
	},
}

// ---------------------------------------------------------------------------------------------
// recover sites

type recoverSite struct {
	Outer   *ssa.Function // function whose defer installs the handler
	Handler *ssa.Function // the deferred closure calling recover()
	Defer   *ssa.Defer
	// analysis of the handler:
	SingleAssert []*ssa.TypeAssert // single-value assertions on the recovered value
	AcceptTypes  []types.Type      // types the handler discriminates (comma-ok or switch)
	Records      bool              // handler does something with the payload besides discarding it
	AtEntry      bool              // defer is executed before any call in Outer
}

func callsRecover(f *ssa.Function) *ssa.Call {
	for _, b := range f.Blocks {
		for _, ins := range b.Instrs {
			if call, ok := ins.(*ssa.Call); ok {
				if bi, ok := call.Call.Value.(*ssa.Builtin); ok && bi.Name() == "recover" {
					return call
				}
			}
		}
	}
	return nil
}

func (c *Ctx) RecoverSites() []*recoverSite {
	var out []*recoverSite
	for _, f := range c.ModFns() {
		for bi, b := range f.Blocks {
			for ii, ins := range b.Instrs {
				d, ok := ins.(*ssa.Defer)
				if !ok {
					continue
				}
				var h *ssa.Function
				if mc, ok := d.Call.Value.(*ssa.MakeClosure); ok {
					h = mc.Fn.(*ssa.Function)
				} else if sc := d.Call.StaticCallee(); sc != nil {
					h = sc
				}
				if h == nil || h.Blocks == nil {
					continue
				}
				rc := callsRecover(h)
				if rc == nil {
					continue
				}
				rs := &recoverSite{Outer: f, Handler: h, Defer: d}
				// at entry: in block 0 and no call before it
				rs.AtEntry = bi == 0
				if rs.AtEntry {
					for _, prev := range b.Instrs[:ii] {
						if _, isCall := prev.(*ssa.Call); isCall {
							rs.AtEntry = false
						}
					}
				}
				// uses of recovered value (follow through phi / nothing else)
				var visit func(v ssa.Value, depth int)
				seen := map[ssa.Value]bool{}
				visit = func(v ssa.Value, depth int) {
					if seen[v] || depth > 6 {
						return
					}
					seen[v] = true
					refs := v.Referrers()
					if refs == nil {
						return
					}
					for _, r := range *refs {
						switch x := r.(type) {
						case *ssa.TypeAssert:
							if x.CommaOk {
								rs.AcceptTypes = append(rs.AcceptTypes, x.AssertedType)
								rs.Records = true
							} else {
								rs.SingleAssert = append(rs.SingleAssert, x)
								rs.Records = true
							}
						case *ssa.BinOp:
							// comparison with nil: not a use
						case *ssa.Phi:
							visit(x, depth+1)
						case *ssa.DebugRef:
						default:
							// passed to a call (logging), stored, etc.
							rs.Records = true
						}
					}
				}
				visit(rc, 0)
				out = append(out, rs)
			}
		}
	}
	sort.Slice(out, func(i, j int) bool { return fnKey(out[i].Outer) < fnKey(out[j].Outer) })
	return out
}

var rulePanicP3 = &Rule{
	Name:    "PANIC/P3-recover-handler",
	NeedSSA: true,
	Text:    "for each deferred recover(): (i) a single-value type assertion on the recovered value re-panics inside the deferred function on any foreign payload (runtime error) and kills the process; (ii) a handler that neither discriminates the payload type nor records it swallows internal faults silently (file reported clean, analysis abandoned)",
	Run: func(c *Ctx) []Ob {
		var obs []Ob
		sites := c.RecoverSites()
		for _, rs := range sites {
			base := "PANIC/P3:" + fnKey(rs.Outer)
			if len(rs.SingleAssert) > 0 {
				obs = append(obs, Ob{Key: base + ":single-value-assertion", Site: c.Pos(rs.SingleAssert[0].Pos()), Verdict: VIOLATION,
					Note: fmt.Sprintf("recovered value asserted to %s without comma-ok: any other panic payload (nil dereference, index out of range) re-panics inside the deferred function", rs.SingleAssert[0].AssertedType)})
			} else {
				obs = append(obs, Ob{Key: base + ":single-value-assertion", Site: c.Pos(rs.Defer.Pos()), Verdict: OK})
			}
			if !rs.Records {
				obs = append(obs, Ob{Key: base + ":swallow-all", Site: c.Pos(rs.Defer.Pos()), Verdict: VIOLATION,
					Note: "deferred recover() neither discriminates the payload type nor records it: an internal fault (nil dereference, index out of range) is silently converted into an ordinary result"})
			} else {
				obs = append(obs, Ob{Key: base + ":swallow-all", Site: c.Pos(rs.Defer.Pos()), Verdict: OK})
			}
			if !rs.AtEntry {
				obs = append(obs, Ob{Key: base + ":defer-not-at-entry", Site: c.Pos(rs.Defer.Pos()), Verdict: VIOLATION,
					Note: "the recovering defer is not installed before the first call of the function"})
			}
		}
		c.Stats["recover_sites"] = len(sites)
		obs = append(obs, floor("PANIC/P3-recover-handler", "deferred recover sites", len(sites), 3))
		return obs
	},
}

// ---------------------------------------------------------------------------------------------
// P2: explicit panics are confined by a recover that accepts their payload type.

func (c *Ctx) entryRoots() ([]*ssa.Function, error) {
	hs, err := c.Handlers()
	if err != nil {
		return nil, err
	}
	var roots []*ssa.Function
	for _, h := range hs {
		roots = append(roots, h.Fn)
	}
	for _, g := range c.GoSites() {
		if g.Callee != nil {
			roots = append(roots, g.Callee)
		}
	}
	if m := c.SSAFunc(modPath, "", "main"); m != nil {
		roots = append(roots, m)
	}
	return roots, nil
}

func payloadType(p *ssa.Panic) types.Type {
	v := p.X
	if mi, ok := v.(*ssa.MakeInterface); ok {
		return mi.X.Type()
	}
	return v.Type()
}

var rulePanicP2 = &Rule{
	Name:    "PANIC/P2-explicit-panic-confined",
	NeedSSA: true,
	Text:    "each explicit panic(x) in module code is either unreachable from every entry point (handlers, goroutine bodies, main) without crossing a function whose entry installs a deferred recover() that accepts x's type, or it is reported: jrpc2 and the worker goroutines have no recover, so an unconfined panic kills the server",
	Run: func(c *Ctx) []Ob {
		var obs []Ob
		roots, err := c.entryRoots()
		if err != nil {
			return []Ob{{Key: "PANIC/P2:slots", Verdict: UNDECIDED, Note: err.Error()}}
		}
		sites := c.RecoverSites()
		g := c.VTA()
		n := 0
		for _, f := range c.ModFns() {
			ord := 0
			for _, b := range f.Blocks {
				for _, ins := range b.Instrs {
					p, ok := ins.(*ssa.Panic)
					if !ok {
						continue
					}
					// compiler-generated panics in synthetic code are not source panics
					if !p.Pos().IsValid() {
						continue
					}
					n++
					ord++
					pt := payloadType(p)
					key := fmt.Sprintf("PANIC/P2:%s:panic(%s)#%d", fnKey(f), types.TypeString(pt, func(p *types.Package) string { return p.Name() }), ord)
					// recoverers that accept this payload
					accept := map[*ssa.Function]bool{}
					for _, rs := range sites {
						if !rs.AtEntry {
							continue
						}
						okType := true
						for _, sa := range rs.SingleAssert {
							if !types.Identical(sa.AssertedType, pt) {
								okType = false
							}
						}
						if okType {
							accept[rs.Outer] = true
						}
					}
					parent, seen := reach(g, roots, func(x *ssa.Function) bool { return accept[x] })
					if seen[f] && !accept[f] {
						obs = append(obs, Ob{Key: key, Site: c.Pos(p.Pos()), Verdict: VIOLATION,
							Note: "explicit panic reachable from an entry point with no accepting recover() on the path", Path: pathTo(parent, f)})
					} else {
						obs = append(obs, Ob{Key: key, Site: c.Pos(p.Pos()), Verdict: OK, Note: "every path from an entry point crosses an accepting recover"})
					}
				}
			}
		}
		c.Stats["explicit_panics"] = n
		obs = append(obs, floor("PANIC/P2-explicit-panic-confined", "explicit panic sites", n, 2))
		return obs
	},
}
