package main

// VISITED/reset: a visited set that lives in a long-lived object's field (DirManager.cacheDirMap: "folders
// already walked", meant to stop symlink loops) prunes a recursive traversal. It must be emptied at the
// start of every traversal: otherwise the second traversal (after a settings change, a workspace-folder
// change, …) finds every folder "already visited" and silently skips it.

import (
	"fmt"
	"go/types"
	"sort"

	"golang.org/x/tools/go/ssa"
)

type testInsert struct {
	fn    *ssa.Function
	field *types.Var
}

// findTestInsert: methods returning bool that look a key up in a map field of the receiver and insert it
func findTestInsert(c *Ctx) []testInsert {
	var out []testInsert
	for _, f := range c.ModFns() {
		sig := f.Signature
		// a method, or the plain function a method was turned into (the object is the first parameter)
		if len(f.Params) == 0 || sig.Results().Len() != 1 {
			continue
		}
		if sig.Recv() == nil {
			pt, ok := types.Unalias(f.Params[0].Type()).Underlying().(*types.Pointer)
			if !ok {
				continue
			}
			if _, isStruct := types.Unalias(pt.Elem()).Underlying().(*types.Struct); !isStruct {
				continue
			}
		}
		if b, ok := sig.Results().At(0).Type().Underlying().(*types.Basic); !ok || b.Kind() != types.Bool {
			continue
		}
		look := map[*types.Var]bool{}
		upd := map[*types.Var]bool{}
		fieldOfMap := func(v ssa.Value) *types.Var {
			ld, ok := v.(*ssa.UnOp)
			if !ok {
				return nil
			}
			fa, ok := ld.X.(*ssa.FieldAddr)
			if !ok || len(f.Params) == 0 || fa.X != ssa.Value(f.Params[0]) {
				return nil
			}
			return fieldOf(fa)
		}
		for _, b := range f.Blocks {
			for _, ins := range b.Instrs {
				switch x := ins.(type) {
				case *ssa.Lookup:
					if v := fieldOfMap(x.X); v != nil && x.CommaOk {
						look[v] = true
					}
				case *ssa.MapUpdate:
					if v := fieldOfMap(x.Map); v != nil {
						upd[v] = true
					}
				}
			}
		}
		for v := range look {
			if upd[v] {
				out = append(out, testInsert{f, v})
			}
		}
	}
	sort.Slice(out, func(i, j int) bool { return fnKey(out[i].fn) < fnKey(out[j].fn) })
	return out
}

var ruleVisited = &Rule{
	Name:    "VISITED/reset-per-traversal",
	NeedSSA: true,
	Text:    "a visited set kept in a struct field (a method `insert-if-absent` on a map field that returns whether the key was new) and consulted by a recursive traversal (a recursive component of the call graph, go-edges included, that calls that method) is emptied — the field is assigned a fresh map, directly or by a callee that does so on every path — on every path of every function that enters the traversal from outside, before the entering call / go statement; a traversal started on a stale set treats every folder as already walked and drops it",
	Run: func(c *Ctx) []Ob {
		var obs []Ob
		tis := findTestInsert(c)
		edges := c.modEdges(c.VTA())
		comps, compOf := c.recursiveSCCs(edges)
		n := 0
		nSets := 0
		for _, ti := range tis {
			// recursive components calling ti.fn
			users := map[int]bool{}
			for _, comp := range comps {
				for _, m := range comp {
					for _, e := range edges[m] {
						if e.To == ti.fn {
							users[compOf[m]] = true
						}
					}
				}
			}
			if len(users) == 0 {
				continue
			}
			nSets++
			isResetStore := func(i ssa.Instruction) bool {
				st, ok := i.(*ssa.Store)
				if !ok {
					return false
				}
				fa, ok := st.Addr.(*ssa.FieldAddr)
				if !ok || fieldOf(fa) != ti.field {
					return false
				}
				_, isMake := st.Val.(*ssa.MakeMap)
				return isMake
			}
			resetFns := map[*ssa.Function]bool{}
			for _, f := range c.ModFns() {
				has := false
				for _, b := range f.Blocks {
					for _, ins := range b.Instrs {
						if isResetStore(ins) {
							has = true
						}
					}
				}
				if !has {
					continue
				}
				isRet := func(i ssa.Instruction) bool { _, ok := i.(*ssa.Return); return ok }
				if len(mustPrecede(f, isResetStore, isRet)) == 0 {
					resetFns[f] = true
				}
			}
			isReset := func(i ssa.Instruction) bool {
				if isResetStore(i) {
					return true
				}
				if call, ok := i.(*ssa.Call); ok {
					if sc := call.Call.StaticCallee(); sc != nil && resetFns[sc] {
						return true
					}
				}
				return false
			}
			// entries from outside
			for _, f := range c.ModFns() {
				if ci, in := compOf[f]; in && users[ci] {
					continue
				}
				cnt := 0
				for _, e := range edges[f] {
					ci, in := compOf[e.To]
					if !in || !users[ci] {
						continue
					}
					// is e.To really recursive member (compOf holds only recursive comps?)
					n++
					cnt++
					key := fmt.Sprintf("VISITED:%s.%s:entry:%s#%d", namedName(ti.fn.Params[0].Type()), ti.field.Name(), fnKey(f), cnt)
					site := e.Site
					bad := mustPrecede(f, isReset, func(i ssa.Instruction) bool { return i == ssa.Instruction(site) })
					if len(bad) == 0 {
						obs = append(obs, Ob{Key: key, Site: c.Pos(site.Pos()), Verdict: OK, Note: "visited set reset on every path before the traversal starts"})
					} else {
						obs = append(obs, Ob{Key: key, Site: c.Pos(site.Pos()), Verdict: VIOLATION,
							Note: fmt.Sprintf("%s starts the recursive traversal %s without first emptying the visited set %s (filled by %s): a second traversal finds every entry already visited and skips it", f.Name(), e.To.Name(), ti.field.Name(), ti.fn.Name())})
					}
				}
			}
		}
		c.Stats["field_visited_sets"] = nSets
		obs = append(obs, floor("VISITED/reset-per-traversal", "field-resident visited sets used by a recursive traversal", nSets, 1))
		obs = append(obs, floor("VISITED/reset-per-traversal", "entries into such traversals", n, 1))
		return obs
	},
}
