package main

// CACHE/query-source: while a document has unsaved edits, the analysis of the edited text lives in the
// LRU cache (AllProject.fileLRUMap) and the accessors GetCacheFileStruct / getVailidCacheFileStruct prefer it
// over the analysis of the saved file. A position query must be answered from one source: resolving the
// symbol in the cached analysis and collecting occurrences from the saved AST (or vice versa) compares
// positions of two different texts. Structural rule (who-may-call): among the functions reachable from a
// request handler, only a reviewed set may call the cache-bypassing accessor GetFirstFileStuct directly.

import (
	"fmt"
	"sort"

	"golang.org/x/tools/go/ssa"
)

const checkPkgPath = modPath + "/langserver/check"

// reviewed direct readers of the saved analysis inside request handlers (function key -> reason)
var reviewedSavedReaders = map[string]string{
	"(*check.AllProject).GetCacheFileStruct":      "the cache-preferring accessor itself: falls back to the saved analysis when the file has no unsaved edits",
	"(*check.AllProject).FindOpenFileDefine":      "existence test only: is the required file part of the analysed workspace (no positions read)",
	"(*check.AllProject).GetFirstReferFileResult": "resolves a require()/dofile() target to the OTHER file's saved first-pass result (cross-file lookups use saved state by design)",
}

// readers that may fall back to the saved analysis only when the traversal's own first-pass result (a
// *results.FileResult kept in a field of the receiver) is unavailable: the call must be dominated by a nil
// test of such a field
var guardedFallbackReaders = map[string]string{
	"(*check/analysis.Analysis).getFirstFileResult": "walker's lookup of a first-pass result: the traversed file's own result comes from Analysis.firstFileResult; the saved analysis serves other files and passes one/two (fixed in 3a54a55)",
	"(*check/analysis.Analysis).ChangeSelfToReferVar": "self -> class conversion: uses Analysis.firstFileResult (the result of the traversed AST); saved analysis only for pass two, which walks saved files (fixed in 55e3a7c)",
}

// dominatedByOwnResultTest: some dominator of b ends in `if <recv>.<field of type *FileResult> ==/!= nil`
func dominatedByOwnResultTest(b *ssa.BasicBlock) bool {
	for d := b.Idom(); d != nil; d = d.Idom() {
		iff, ok := d.Instrs[len(d.Instrs)-1].(*ssa.If)
		if !ok {
			continue
		}
		bo, ok := iff.Cond.(*ssa.BinOp)
		if !ok {
			continue
		}
		for _, side := range []ssa.Value{bo.X, bo.Y} {
			ld, ok := side.(*ssa.UnOp)
			if !ok {
				continue
			}
			fa, ok := ld.X.(*ssa.FieldAddr)
			if !ok {
				continue
			}
			if _, isParam := fa.X.(*ssa.Parameter); !isParam {
				continue
			}
			if _, n := namedPkgName(fieldOf(fa).Type()); n == "FileResult" {
				return true
			}
		}
	}
	return false
}

var ruleCacheQ = &Rule{
	Name:    "CACHE/query-source",
	NeedSSA: true,
	Text:    "among the functions reachable (VTA call graph) from an LSP request handler other than initialize (which runs the whole analysis), only the reviewed set calls AllProject.GetFirstFileStuct (the accessor that bypasses the unsaved-edit cache) directly; every other query-side function obtains a file's analysis through GetCacheFileStruct / getVailidCacheFileStruct, so that the symbol under the cursor and the AST that is searched for its occurrences come from the same text",
	Run: func(c *Ctx) []Ob {
		var obs []Ob
		hs, err := c.Handlers()
		if err != nil {
			return []Ob{{Key: "CACHE/query-source:slots", Verdict: UNDECIDED, Note: err.Error()}}
		}
		target := c.SSAFunc(checkPkgPath, "AllProject", "GetFirstFileStuct")
		if target == nil {
			return []Ob{{Key: "CACHE/query-source:slots", Verdict: UNDECIDED, Note: "slot unresolved: AllProject.GetFirstFileStuct"}}
		}
		var roots []*ssa.Function
		for _, h := range hs {
			if !h.Notif && h.Method != "initialize" && h.Method != "shutdown" {
				roots = append(roots, h.Fn)
			}
		}
		parent, seen := reach(c.VTA(), roots, nil)
		type site struct {
			f   *ssa.Function
			ins ssa.Instruction
		}
		var sites []site
		for f := range seen {
			if !c.IsModFn(f) {
				continue
			}
			for _, b := range f.Blocks {
				for _, ins := range b.Instrs {
					ci, ok := ins.(ssa.CallInstruction)
					if !ok {
						continue
					}
					for _, cal := range calleesOf(c.VTA(), ci) {
						if cal == target {
							sites = append(sites, site{f, ins})
						}
					}
				}
			}
		}
		sort.Slice(sites, func(i, j int) bool { return sites[i].ins.Pos() < sites[j].ins.Pos() })
		cnt := map[string]int{}
		for _, s := range sites {
			fk := fnKey(s.f)
			cnt[fk]++
			key := fmt.Sprintf("CACHE/query-source:%s#%d", fk, cnt[fk])
			if why, ok := reviewedSavedReaders[fk]; ok {
				obs = append(obs, Ob{Key: key, Site: c.Pos(s.ins.Pos()), Verdict: OK, Note: "reviewed: " + why})
			} else if why, ok := guardedFallbackReaders[fk]; ok && dominatedByOwnResultTest(s.ins.Block()) {
				obs = append(obs, Ob{Key: key, Site: c.Pos(s.ins.Pos()), Verdict: OK, Note: "guarded fallback: " + why})
			} else {
				obs = append(obs, Ob{Key: key, Site: c.Pos(s.ins.Pos()), Verdict: VIOLATION, Path: pathTo(parent, s.f),
					Note: s.f.Name() + " is reachable from a request handler and reads the SAVED analysis (GetFirstFileStuct) directly: with unsaved edits in the buffer it works on a different text than the functions that use the cache-preferring accessor"})
			}
		}
		c.Stats["saved_analysis_readers_in_queries"] = len(sites)
		obs = append(obs, floor("CACHE/query-source", "direct GetFirstFileStuct call sites reachable from request handlers", len(sites), 3))
		return obs
	},
}
