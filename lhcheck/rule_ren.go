package main

import (
	"fmt"
	"go/constant"
	"go/token"
	"strings"

	"golang.org/x/tools/go/ssa"
)

var ruleRen = &Rule{
	Name:    "REN/edit-provenance",
	NeedSSA: true,
	Text:    "(R1) every lsp.TextEdit built by TextDocumentRename has NewText = the request's NewName and Range = LocToRange(&r.Loc) for an element r of the slice returned by FindReferences(file, var, CRSRename); the edit is filed under the URI derived from the same element's StrFile; nothing else is written to edit.Changes. (R2) where a function removes a key from a local set, puts one element first into a list and then appends the remaining keys of the set (move-to-front idiom, used to order the files searched for references), the removed key is that very element — otherwise the element is listed twice and another file is never searched",
	Run: func(c *Ctx) []Ob {
		var obs []Ob
		f := c.SSAFunc(langserverPkg, "LspServer", "TextDocumentRename")
		findRefs := c.SSAFunc(checkPkg, "AllProject", "FindReferences")
		if f == nil || findRefs == nil {
			return []Ob{{Key: "REN:slots", Verdict: UNDECIDED, Note: "slot unresolved: LspServer.TextDocumentRename / AllProject.FindReferences"}}
		}
		crs, okc := constIntValue(c, commonPkg, "CRSRename")
		// the FindReferences call and its mode
		var fr *ssa.Call
		for _, b := range f.Blocks {
			for _, ins := range b.Instrs {
				if call, ok := ins.(*ssa.Call); ok && call.Call.StaticCallee() == findRefs {
					fr = call
				}
			}
		}
		if fr == nil {
			obs = append(obs, Ob{Key: "REN/R1:find-references-call", Site: c.Pos(f.Pos()), Verdict: VIOLATION, Note: "TextDocumentRename no longer obtains its occurrences from AllProject.FindReferences"})
			return obs
		}
		mode := fr.Call.Args[len(fr.Call.Args)-1]
		mv, okm := errTypeConst(mode)
		if !okc || !okm || mv != crs {
			obs = append(obs, Ob{Key: "REN/R1:mode", Site: c.Pos(fr.Pos()), Verdict: VIOLATION, Note: "FindReferences is not called in rename mode (common.CRSRename): the declaration / partial-expression handling differs"})
		} else {
			obs = append(obs, Ob{Key: "REN/R1:mode", Site: c.Pos(fr.Pos()), Verdict: OK})
		}
		fromRefs := func(v ssa.Value) bool { return producerOf(v, 0) == fr }
		nEdits := 0
		for _, b := range f.Blocks {
			for _, ins := range b.Instrs {
				st, ok := ins.(*ssa.Store)
				if !ok {
					continue
				}
				fa, ok := st.Addr.(*ssa.FieldAddr)
				if !ok || namedName(fa.X.Type()) != "TextEdit" {
					continue
				}
				fname := fieldName(fa.X.Type(), fa.Field)
				key := "REN/R1:TextEdit." + fname
				switch fname {
				case "NewText":
					nEdits++
					t := normTerm(provTerm(st.Val, 0))
					if t != "P2.NewName" {
						obs = append(obs, Ob{Key: key, Site: c.Pos(st.Pos()), Verdict: VIOLATION, Note: "NewText comes from " + t + ", expected the request's NewName"})
					} else {
						obs = append(obs, Ob{Key: key, Site: c.Pos(st.Pos()), Verdict: OK})
					}
				case "Range":
					call, ok := st.Val.(*ssa.Call)
					okR := false
					if ok && call.Call.StaticCallee() != nil && call.Call.StaticCallee().Name() == "LocToRange" {
						if a, ok := call.Call.Args[0].(*ssa.FieldAddr); ok && fieldName(a.X.Type(), a.Field) == "Loc" && fromRefs(a.X) {
							okR = true
						}
					}
					if okR {
						obs = append(obs, Ob{Key: key, Site: c.Pos(st.Pos()), Verdict: OK})
					} else {
						obs = append(obs, Ob{Key: key, Site: c.Pos(st.Pos()), Verdict: VIOLATION, Note: "Range is not LocToRange(&r.Loc) of an element of the FindReferences result"})
					}
				}
			}
		}
		// map keys of edit.Changes
		nKeys := 0
		for _, b := range f.Blocks {
			for _, ins := range b.Instrs {
				mu, ok := ins.(*ssa.MapUpdate)
				if !ok {
					continue
				}
				nKeys++
				t := provTerm(mu.Key, 0)
				okK := strings.Contains(t, "GetFileDocumentURI(") && strings.Contains(t, ".StrFile")
				// the StrFile must come from the references result
				if okK {
					okK = false
					var find func(v ssa.Value, d int)
					find = func(v ssa.Value, d int) {
						if d > 10 || okK {
							return
						}
						switch x := v.(type) {
						case *ssa.Call:
							for _, a := range x.Call.Args {
								find(a, d+1)
							}
						case *ssa.Convert:
							find(x.X, d+1)
						case *ssa.ChangeType:
							find(x.X, d+1)
						case *ssa.UnOp:
							if x.Op == token.MUL {
								if a, ok := x.X.(*ssa.FieldAddr); ok && fieldName(a.X.Type(), a.Field) == "StrFile" && fromRefs(a.X) {
									okK = true
									return
								}
								if al, ok := x.X.(*ssa.Alloc); ok {
									if refs := al.Referrers(); refs != nil {
										for _, r := range *refs {
											if s2, ok := r.(*ssa.Store); ok && s2.Addr == al {
												find(s2.Val, d+1)
											}
										}
									}
								}
							}
						case *ssa.Field:
							if fieldName(x.X.Type(), x.Field) == "StrFile" && fromRefs(x.X) {
								okK = true
							}
						}
					}
					find(mu.Key, 0)
				}
				k := fmt.Sprintf("REN/R1:changes-key#%d", nKeys)
				if okK {
					obs = append(obs, Ob{Key: k, Site: c.Pos(mu.Pos()), Verdict: OK})
				} else {
					obs = append(obs, Ob{Key: k, Site: c.Pos(mu.Pos()), Verdict: VIOLATION, Note: "edit.Changes is keyed by " + t + ", expected the URI of the occurrence's own file (r.StrFile)"})
				}
			}
		}
		obs = append(obs, floor("REN/edit-provenance", "TextEdit constructions in TextDocumentRename", nEdits, 1))
		obs = append(obs, floor("REN/edit-provenance", "stores into edit.Changes", nKeys, 1))

		// R2 move-to-front idiom, module-wide
		nIdiom := 0
		for _, g := range c.ModFns() {
			for _, b := range g.Blocks {
				for _, ins := range b.Instrs {
					call, ok := ins.(*ssa.Call)
					if !ok {
						continue
					}
					bi, ok := call.Call.Value.(*ssa.Builtin)
					if !ok || bi.Name() != "delete" {
						continue
					}
					mm, ok := call.Call.Args[0].(*ssa.MakeMap)
					if !ok {
						continue
					}
					// is the map ranged over, with its keys appended to a slice?
					var rng *ssa.Range
					if refs := mm.Referrers(); refs != nil {
						for _, r := range *refs {
							if x, ok := r.(*ssa.Range); ok && call.Block().Dominates(x.Block()) {
								rng = x
							}
						}
					}
					if rng == nil {
						continue
					}
					// the element appended between the delete and the range
					var first ssa.Value
					for _, b2 := range g.Blocks {
						for _, i2 := range b2.Instrs {
							c2, ok := i2.(*ssa.Call)
							if !ok || !instrDominates(call, i2) || !instrDominates(i2, rng) {
								continue
							}
							if _, elems, ok := appendedValues(c2); ok && len(elems) == 1 {
								if elems[0].Type() == call.Call.Args[1].Type() {
									first = elems[0]
								}
							}
						}
					}
					if first == nil {
						continue
					}
					nIdiom++
					k := "REN/R2:move-to-front:" + fnKey(g)
					if canon(first) == canon(call.Call.Args[1]) {
						obs = append(obs, Ob{Key: k, Site: c.Pos(call.Pos()), Verdict: OK, Note: "the key removed from the set is the element placed first"})
					} else {
						obs = append(obs, Ob{Key: k, Site: c.Pos(call.Pos()), Verdict: VIOLATION,
							Note: fmt.Sprintf("removes %s from the set but places %s first: the first element is processed twice and the removed one never", normTerm(provTerm(call.Call.Args[1], 0)), normTerm(provTerm(first, 0)))})
					}
				}
			}
		}
		obs = append(obs, floor("REN/edit-provenance", "move-to-front idiom instances", nIdiom, 1))
		_ = constant.MakeBool
		return obs
	},
}
