package main

import (
	"fmt"
	"go/constant"
	"go/token"
	"go/types"
	"sort"
	"strings"

	"golang.org/x/tools/go/ssa"
)

// ---------------------------------------------------------------------------------------------
// KEY/M4: the server's record of what the client holds

var ruleKeyM4 = &Rule{
	Name:    "KEY/M4-diagnostics-bookkeeping",
	NeedSSA: true,
	Text:    "LspServer.fileErrorMap is the server's record of the diagnostics the client currently holds (later publishes are computed as a difference against it): in every LspServer method that obtains the new per-file diagnostics (AllProject.GetAllFileErrorInfo), that map is stored into fileErrorMap on every path to return",
	Run: func(c *Ctx) []Ob {
		var obs []Ob
		get := c.SSAFunc(checkPkg, "AllProject", "GetAllFileErrorInfo")
		if get == nil {
			return []Ob{{Key: "KEY/M4:slots", Verdict: UNDECIDED, Note: "slot unresolved: AllProject.GetAllFileErrorInfo"}}
		}
		n := 0
		isGet := func(i ssa.Instruction) bool {
			call, ok := i.(*ssa.Call)
			return ok && call.Call.StaticCallee() == get
		}
		isStore := func(i ssa.Instruction) bool {
			st, ok := i.(*ssa.Store)
			if !ok {
				return false
			}
			fa, ok := st.Addr.(*ssa.FieldAddr)
			return ok && fieldName(fa.X.Type(), fa.Field) == "fileErrorMap" && namedName(fa.X.Type()) == "LspServer"
		}
		for _, f := range c.ModFns() {
			if f.Signature.Recv() == nil || namedName(f.Signature.Recv().Type()) != "LspServer" {
				continue
			}
			has := false
			for _, b := range f.Blocks {
				for _, ins := range b.Instrs {
					if isGet(ins) {
						has = true
					}
				}
			}
			if !has {
				continue
			}
			n++
			key := "KEY/M4:" + f.Name()
			if bad := mustFollow(f, isGet, isStore); len(bad) > 0 {
				obs = append(obs, Ob{Key: key, Site: c.Pos(bad[0].Pos()), Verdict: VIOLATION, Note: "the new diagnostics map is obtained (and published from) but on some path the function returns without recording it in fileErrorMap: the next publish is diffed against a stale record (fixed warnings come back, re-broken ones are not sent)"})
			} else {
				obs = append(obs, Ob{Key: key, Site: c.Pos(f.Pos()), Verdict: OK})
			}
		}
		obs = append(obs, floor("KEY/M4-diagnostics-bookkeeping", "LspServer methods obtaining the diagnostics map", n, 2))
		return obs
	},
}

// ---------------------------------------------------------------------------------------------
// TOPN: truncation to a constant bound must follow a sort

func sortCallBase(ins ssa.Instruction) ssa.Value {
	call, ok := ins.(*ssa.Call)
	if !ok {
		return nil
	}
	sc := call.Call.StaticCallee()
	if sc == nil || sc.Pkg == nil || sc.Pkg.Pkg.Path() != "sort" {
		return nil
	}
	switch sc.Name() {
	case "Sort", "Stable", "Slice", "SliceStable", "Strings", "Ints":
	default:
		return nil
	}
	if len(call.Call.Args) == 0 {
		return nil
	}
	return baseObject(call.Call.Args[0], 0)
}

// baseObject: the object a value belongs to: the struct pointer a slice field was loaded from, or the value itself.
func baseObject(v ssa.Value, depth int) ssa.Value {
	if depth > 6 {
		return v
	}
	switch x := v.(type) {
	case *ssa.MakeInterface:
		return baseObject(x.X, depth+1)
	case *ssa.ChangeType:
		return baseObject(x.X, depth+1)
	case *ssa.UnOp:
		if x.Op == token.MUL {
			if _, isSlice := x.Type().Underlying().(*types.Slice); isSlice {
				if fa, ok := x.X.(*ssa.FieldAddr); ok {
					return canon(fa.X)
				}
			}
		}
	}
	return canon(v)
}

var ruleTopN = &Rule{
	Name:    "TOPN/sort-before-truncate",
	NeedSSA: true,
	Text:    "a result slice that is cut to a constant bound (x[:N], x[0:N], N >= 2 a constant) has been sorted (sort.Sort / Slice / Strings on it or on the struct that holds it) on every path to the cut: the first N of an unsorted collection are an arbitrary subset (symbols found in hash-map order), so an exact-name match can be dropped and the answer depends on scheduling",
	Run: func(c *Ctx) []Ob {
		var obs []Ob
		n := 0
		for _, f := range c.ModFns() {
			cnt := 0
			for _, b := range f.Blocks {
				for _, ins := range b.Instrs {
					sl, ok := ins.(*ssa.Slice)
					if !ok || sl.High == nil {
						continue
					}
					if _, isSlice := sl.X.Type().Underlying().(*types.Slice); !isSlice {
						continue
					}
					cst, ok := sl.High.(*ssa.Const)
					if !ok || cst.Value == nil || cst.Value.Kind() != constant.Int {
						continue
					}
					if v, _ := constant.Int64Val(cst.Value); v < 2 {
						continue
					}
					if sl.Low != nil {
						if lc, ok := sl.Low.(*ssa.Const); !ok || lc.Value == nil || constant.Sign(lc.Value) != 0 {
							continue
						}
					}
					// only collections of structs / pointers (scored results), not byte / string buffers
					el := sl.X.Type().Underlying().(*types.Slice).Elem().Underlying()
					if _, isBasic := el.(*types.Basic); isBasic {
						continue
					}
					n++
					cnt++
					base := baseObject(sl.X, 0)
					bad := mustPrecede(f, func(i ssa.Instruction) bool {
						sb := sortCallBase(i)
						return sb != nil && sb == base
					}, func(i ssa.Instruction) bool { return i == ssa.Instruction(sl) })
					key := fmt.Sprintf("TOPN:%s#%d", fnKey(f), cnt)
					if len(bad) > 0 {
						obs = append(obs, Ob{Key: key, Site: c.Pos(sl.Pos()), Verdict: VIOLATION, Note: "the collection is cut to its first N elements on a path where it has not been sorted: which elements survive is arbitrary"})
					} else {
						obs = append(obs, Ob{Key: key, Site: c.Pos(sl.Pos()), Verdict: OK, Note: "sorted before the cut on every path"})
					}
				}
			}
		}
		obs = append(obs, floor("TOPN/sort-before-truncate", "constant-bound truncations of result slices", n, 2))
		return obs
	},
}

// ---------------------------------------------------------------------------------------------
// DEADFIELD: update of a local struct copy that nothing reads

var ruleDeadField = &Rule{
	Name:    "LOSTUPDATE/local-struct-copy",
	NeedSSA: true,
	Text:    "a field of a function-local struct value (typically a copy taken out of a map: v := m[k]) is written and the struct is then never read again — not stored back into the map, not appended, not returned: the update is lost (Go map elements are values), e.g. outline children appended to a copy of the map entry",
	Run: func(c *Ctx) []Ob {
		var obs []Ob
		n := 0
		for _, f := range c.ModFns() {
			cnt := 0
			for _, b := range f.Blocks {
				for _, ins := range b.Instrs {
					al, ok := ins.(*ssa.Alloc)
					if !ok || al.Heap {
						continue
					}
					if _, isStruct := al.Type().Underlying().(*types.Pointer).Elem().Underlying().(*types.Struct); !isStruct {
						continue
					}
					refs := al.Referrers()
					if refs == nil {
						continue
					}
					// initialised from a map lookup?
					fromMap := false
					for _, r := range *refs {
						if st, ok := r.(*ssa.Store); ok && st.Addr == ssa.Value(al) {
							v := st.Val
							if ex, ok := v.(*ssa.Extract); ok {
								v = ex.Tuple
							}
							if _, ok := v.(*ssa.Lookup); ok {
								fromMap = true
							}
						}
					}
					if !fromMap {
						continue
					}
					n++
					// field stores and reads
					var fieldStores []*ssa.Store
					isRead := func(i ssa.Instruction) bool {
						switch x := i.(type) {
						case *ssa.UnOp:
							if x.Op == token.MUL && x.X == ssa.Value(al) {
								return true
							}
							if fa, ok := x.X.(*ssa.FieldAddr); ok && x.Op == token.MUL && fa.X == ssa.Value(al) {
								return true
							}
						case *ssa.Call:
							for _, a := range x.Call.Args {
								if a == ssa.Value(al) {
									return true
								}
								if fa, ok := a.(*ssa.FieldAddr); ok && fa.X == ssa.Value(al) {
									return true
								}
							}
						}
						return false
					}
					for _, r := range *refs {
						if fa, ok := r.(*ssa.FieldAddr); ok {
							if frefs := fa.Referrers(); frefs != nil {
								for _, rr := range *frefs {
									if st, ok := rr.(*ssa.Store); ok && st.Addr == ssa.Value(fa) {
										fieldStores = append(fieldStores, st)
									}
								}
							}
						}
					}
					sort.Slice(fieldStores, func(i, j int) bool { return fieldStores[i].Pos() < fieldStores[j].Pos() })
					for _, st := range fieldStores {
						st := st
						reads := readsBeforeOverwrite(st, isRead, func(i ssa.Instruction) bool {
							s2, ok := i.(*ssa.Store)
							return ok && s2.Addr == ssa.Value(al)
						})
						// a read inside the very statement that computes the stored value (x.f = append(x.f, …)) precedes the store
						if len(reads) == 0 {
							cnt++
							obs = append(obs, Ob{Key: fmt.Sprintf("LOSTUPDATE:%s#%d", fnKey(f), cnt), Site: c.Pos(st.Pos()), Verdict: VIOLATION,
								Note: "field of the local copy " + al.Comment + " (taken from a map) is written here and the copy is never read afterwards: the map entry keeps its old value"})
						}
					}
				}
			}
		}
		c.Stats["local_struct_copies_from_maps"] = n
		obs = append(obs, Ob{Key: "LOSTUPDATE:scan", Site: "luahelper-lsp", Verdict: OK, Note: fmt.Sprintf("%d local struct copies taken from maps examined", n)})
		obs = append(obs, floor("LOSTUPDATE/local-struct-copy", "local struct copies taken from maps", n, 3))
		return obs
	},
}

// readsBeforeOverwrite: instructions satisfying isRead that are reachable from `from` along a path on
// which no instruction satisfying isKill (re-initialisation of the whole variable) executes first.
func readsBeforeOverwrite(from ssa.Instruction, isRead, isKill func(ssa.Instruction) bool) []ssa.Instruction {
	var out []ssa.Instruction
	b := from.Block()
	seen := map[*ssa.BasicBlock]bool{}
	type item struct {
		b   *ssa.BasicBlock
		idx int
	}
	start := 0
	for i, x := range b.Instrs {
		if x == from {
			start = i + 1
		}
	}
	work := []item{{b, start}}
	for len(work) > 0 {
		cur := work[len(work)-1]
		work = work[:len(work)-1]
		killed := false
		for i := cur.idx; i < len(cur.b.Instrs); i++ {
			x := cur.b.Instrs[i]
			if isKill(x) {
				killed = true
				break
			}
			if isRead(x) {
				out = append(out, x)
			}
		}
		if killed {
			continue
		}
		for _, s := range cur.b.Succs {
			if !seen[s] {
				seen[s] = true
				work = append(work, item{s, 0})
			}
		}
	}
	return out
}

// ---------------------------------------------------------------------------------------------
// NAMELOC: the location of a consumed name is captured before anything else is consumed

var ruleNameLoc = &Rule{
	Name:    "LOC/name-location-capture",
	NeedSSA: true,
	Text:    "in the Lua parser, after a name has been consumed with NextIdentifier the parser records where it was with GetNowTokenLoc (the location of the token just consumed): on no path may another token be consumed between the two calls, otherwise the recorded range designates a later token (a local's <const> attribute, a separator) instead of the identifier",
	Run: func(c *Ctx) []Ob {
		var obs []Ob
		ma := c.mustAdvanceSet()
		_ = ma
		// may-step: functions that can consume a token
		mayStep := map[*ssa.Function]bool{}
		for _, f := range c.ModFns() {
			if isTokenStep(f) {
				mayStep[f] = true
			}
		}
		g := c.VTA()
		// a look-ahead scans the next token but puts the now-token back (lookAheardToken: backNowToken := l.nowToken;
		// l.NextTokenStruct(); l.nowToken = backNowToken): it does not change what GetNowTokenLoc answers
		preserves := map[*ssa.Function]bool{}
		for _, f := range c.ModFns() {
			if f.Blocks == nil || mayStep[f] || f.Package() == nil || f.Package().Pkg.Path() != lexerPkg {
				continue
			}
			var saved ssa.Value
			for _, ins := range f.Blocks[0].Instrs {
				if ld, ok := ins.(*ssa.UnOp); ok && ld.Op == token.MUL {
					if fa, ok := ld.X.(*ssa.FieldAddr); ok && fieldName(fa.X.Type(), fa.Field) == "nowToken" {
						saved = ld
					}
				}
			}
			if saved == nil {
				// the save may sit behind an early-return test: look in every block that dominates a step call
				for _, b := range f.Blocks {
					for _, ins := range b.Instrs {
						if ld, ok := ins.(*ssa.UnOp); ok && ld.Op == token.MUL {
							if fa, ok := ld.X.(*ssa.FieldAddr); ok && fieldName(fa.X.Type(), fa.Field) == "nowToken" && saved == nil {
								saved = ld
							}
						}
					}
				}
			}
			if saved == nil {
				continue
			}
			isStep := func(i ssa.Instruction) bool {
				call, ok := i.(*ssa.Call)
				if !ok {
					return false
				}
				sc := call.Call.StaticCallee()
				return sc != nil && mayStep[sc]
			}
			isRestore := func(i ssa.Instruction) bool {
				st, ok := i.(*ssa.Store)
				if !ok || st.Val != saved {
					return false
				}
				fa, ok := st.Addr.(*ssa.FieldAddr)
				return ok && fieldName(fa.X.Type(), fa.Field) == "nowToken"
			}
			nStep := 0
			savedFirst := true
			for _, b := range f.Blocks {
				for _, ins := range b.Instrs {
					if isStep(ins) {
						nStep++
						if !(saved.(ssa.Instruction).Block() == b || saved.(ssa.Instruction).Block().Dominates(b)) {
							savedFirst = false
						}
					}
				}
			}
			if nStep > 0 && savedFirst && len(mustFollow(f, isStep, isRestore)) == 0 {
				preserves[f] = true
			}
		}
		for changed := true; changed; {
			changed = false
			for _, f := range c.ModFns() {
				if mayStep[f] || preserves[f] {
					continue
				}
				n := g.Nodes[f]
				if n == nil {
					continue
				}
				for _, e := range n.Out {
					if mayStep[e.Callee.Func] {
						mayStep[f] = true
						changed = true
						break
					}
				}
			}
		}
		isCallNamed := func(name string) func(ssa.Instruction) bool {
			return func(i ssa.Instruction) bool {
				call, ok := i.(*ssa.Call)
				if !ok {
					return false
				}
				sc := call.Call.StaticCallee()
				return sc != nil && sc.Name() == name && sc.Pkg != nil && sc.Pkg.Pkg.Path() == lexerPkg
			}
		}
		isIdent := isCallNamed("NextIdentifier")
		isLoc := isCallNamed("GetNowTokenLoc")
		n := 0
		for _, f := range c.ModFns() {
			if f.Package() == nil || f.Package().Pkg.Path() != parserPkg {
				continue
			}
			cnt := 0
			for _, b := range f.Blocks {
				for _, ins := range b.Instrs {
					if !isIdent(ins) {
						continue
					}
					ident := ins
					// explore forward from ident: state "no step yet"; find whether a GetNowTokenLoc is reached
					// first on every path that reaches one at all
					type st struct {
						b   *ssa.BasicBlock
						idx int
					}
					seen := map[*ssa.BasicBlock]bool{}
					var work []st
					// start right after ident
					for i, x := range b.Instrs {
						if x == ident {
							work = append(work, st{b, i + 1})
						}
					}
					capturedFirst, steppedFirst := false, false
					var stepSite ssa.Instruction
					for len(work) > 0 {
						cur := work[len(work)-1]
						work = work[:len(work)-1]
						stop := false
						for i := cur.idx; i < len(cur.b.Instrs); i++ {
							x := cur.b.Instrs[i]
							if isLoc(x) {
								capturedFirst = true
								stop = true
								break
							}
							if call, ok := x.(*ssa.Call); ok {
								stepped := false
								if sc := call.Call.StaticCallee(); sc != nil {
									stepped = mayStep[sc]
								} else {
									for _, cf := range calleesOf(g, call) {
										if mayStep[cf] {
											stepped = true
										}
									}
								}
								if stepped {
									// does a GetNowTokenLoc follow this step (i.e. is a location recorded after it)?
									after := mayFollow(f, func(j ssa.Instruction) bool { return j == x }, isLoc)
									if len(after) > 0 {
										steppedFirst = true
										stepSite = x
									}
									stop = true
									break
								}
							}
						}
						if stop {
							continue
						}
						for _, s := range cur.b.Succs {
							if !seen[s] {
								seen[s] = true
								work = append(work, st{s, 0})
							}
						}
					}
					if !capturedFirst && !steppedFirst {
						continue // this function does not record the name's location
					}
					n++
					cnt++
					key := fmt.Sprintf("LOC/name-capture:%s#%d", fnKey(f), cnt)
					if steppedFirst && !capturedFirst {
						obs = append(obs, Ob{Key: key, Site: c.Pos(stepSite.Pos()), Verdict: VIOLATION,
							Note: fmt.Sprintf("after the identifier consumed at %s, another token may be consumed before the location is recorded: the recorded range is not the identifier's", c.Pos(ident.Pos()))})
					} else if steppedFirst && capturedFirst {
						// some paths capture first, some step first: only a violation if the stepping path has no earlier capture — handled above per path; accept
						obs = append(obs, Ob{Key: key, Site: c.Pos(ident.Pos()), Verdict: OK, Note: "location captured before further consumption on the capturing paths"})
					} else {
						obs = append(obs, Ob{Key: key, Site: c.Pos(ident.Pos()), Verdict: OK, Note: "location recorded before any further token is consumed"})
					}
				}
			}
		}
		obs = append(obs, floor("LOC/name-location-capture", "NextIdentifier sites whose location is recorded", n, 5))
		_ = strings.Join
		return obs
	},
}
