package main

import (
	"fmt"
	"go/token"
	"go/types"
	"sort"
	"strings"

	"golang.org/x/tools/go/ssa"
)

const lspcommonPkg = modPath + "/langserver/lspcommon"

// provTerm renders where a value comes from, in terms of the enclosing function's parameters,
// field paths and resolved callees.
func provTerm(v ssa.Value, depth int) string {
	if depth > 12 {
		return "?"
	}
	switch x := v.(type) {
	case *ssa.Parameter:
		return fmt.Sprintf("P%d", paramIndex(x.Parent(), x))
	case *ssa.Const:
		if x.Value == nil {
			return "nil"
		}
		return x.Value.ExactString()
	case *ssa.FieldAddr:
		return provTerm(x.X, depth+1) + "." + fieldName(x.X.Type(), x.Field)
	case *ssa.Field:
		return provTerm(x.X, depth+1) + "." + fieldName(x.X.Type(), x.Field)
	case *ssa.UnOp:
		if x.Op == token.MUL {
			if a, ok := x.X.(*ssa.Alloc); ok {
				// single-store local
				var src ssa.Value
				n := 0
				if refs := a.Referrers(); refs != nil {
					for _, r := range *refs {
						if st, ok := r.(*ssa.Store); ok && st.Addr == a {
							src = st.Val
							n++
						}
					}
				}
				if n == 1 {
					return provTerm(src, depth+1)
				}
				return "local"
			}
			return "*" + provTerm(x.X, depth+1)
		}
	case *ssa.Call:
		name := staticCalleeName(&x.Call)
		if name == "" {
			if sc := x.Call.StaticCallee(); sc != nil {
				name = fnKey(sc)
			} else {
				return "?call"
			}
		}
		if sc := x.Call.StaticCallee(); sc != nil && sc.Signature.Recv() != nil {
			name = fnKey(sc)
		}
		var as []string
		for _, a := range x.Call.Args {
			as = append(as, provTerm(a, depth+1))
		}
		return shortPkg(name) + "(" + strings.Join(as, ",") + ")"
	case *ssa.Extract:
		return fmt.Sprintf("%s#%d", provTerm(x.Tuple, depth+1), x.Index)
	case *ssa.Convert:
		return provTerm(x.X, depth+1)
	case *ssa.ChangeType:
		return provTerm(x.X, depth+1)
	case *ssa.Phi:
		return "phi"
	case *ssa.Alloc:
		// parameter spilled to the stack (address taken): the single stored value
		var src ssa.Value
		n := 0
		if refs := x.Referrers(); refs != nil {
			for _, r := range *refs {
				if st, ok := r.(*ssa.Store); ok && st.Addr == x {
					src = st.Val
					n++
				}
			}
		}
		if n == 1 {
			return "&" + provTerm(src, depth+1)
		}
		return "&local"
	}
	return "?"
}

func normTerm(s string) string {
	// a spilled parameter read back: *&P2.x == P2.x ; (&P2).x == P2.x
	s = strings.ReplaceAll(s, "*&", "")
	s = strings.ReplaceAll(s, "&", "")
	// promoted fields of embedded protocol structs
	s = strings.ReplaceAll(s, ".TextDocumentIdentifier.", ".")
	s = strings.ReplaceAll(s, ".TextDocumentPositionParams.", ".")
	return s
}

var ruleDoc = &Rule{
	Name:    "DOC/cache-ownership",
	NeedSSA: true,
	Text:    "(D1) only didOpen, didChange, didSave and didClose can reach a write of the open-document cache (FileMapCache.m); (D2) what they store is, by def-use, exactly the client's text: StringToBytes(param text) for open/save, the result of ApplyContentChanges(file, cached contents just read for the same file, param ContentChanges) for change, under the key derived from the message's URI; (D3) the store precedes the re-analysis call on every path; (D4) when ApplyContentChanges fails the handler invalidates the entry, overwrites it or notifies the client — not just logs; (D5) cached bytes are never written in place; (D6) a slice obtained from bytes.Buffer.Bytes() is not used after a later mutation of that same buffer",
	Run:     runDoc,
}

func runDoc(c *Ctx) []Ob {
	var obs []Ob
	setF := c.SSAFunc(lspcommonPkg, "FileMapCache", "SetFileContent")
	delF := c.SSAFunc(lspcommonPkg, "FileMapCache", "DelFileContent")
	getF := c.SSAFunc(lspcommonPkg, "FileMapCache", "GetFileContent")
	applyF := c.SSAFunc(lspcommonPkg, "FileMapCache", "ApplyContentChanges")
	if setF == nil || delF == nil || getF == nil || applyF == nil {
		return []Ob{{Key: "DOC:slots", Verdict: UNDECIDED, Note: "slot unresolved: FileMapCache.SetFileContent/DelFileContent/GetFileContent/ApplyContentChanges"}}
	}
	hs, err := c.Handlers()
	if err != nil {
		return []Ob{{Key: "DOC:slots", Verdict: UNDECIDED, Note: err.Error()}}
	}
	// D1: writers of FileMapCache.m
	writers := map[*ssa.Function]bool{}
	for _, f := range c.ModFns() {
		for _, b := range f.Blocks {
			for _, ins := range b.Instrs {
				var m ssa.Value
				switch x := ins.(type) {
				case *ssa.MapUpdate:
					m = x.Map
				case *ssa.Call:
					if bi, ok := x.Call.Value.(*ssa.Builtin); ok && bi.Name() == "delete" {
						m = x.Call.Args[0]
					}
				case *ssa.Store:
					if fa, ok := x.Addr.(*ssa.FieldAddr); ok && namedName(fa.X.Type()) == "FileMapCache" && !freshBase(fa.X, 0) {
						writers[f] = true
					}
				}
				if m != nil {
					if fld, owner, _, ok := mapOrigin(m, 0); ok && owner == "FileMapCache" && fld.Name() == "m" {
						writers[f] = true
					}
				}
			}
		}
	}
	reachW := map[*ssa.Function]bool{}
	for w := range writers {
		for f := range c.reachesSet(w) {
			reachW[f] = true
		}
	}
	allowed := map[string]bool{"textDocument/didOpen": true, "textDocument/didChange": true, "textDocument/didSave": true, "textDocument/didClose": true}
	for _, h := range hs {
		key := "DOC/D1:handler=" + h.Fn.Name()
		switch {
		case reachW[h.Fn] && !allowed[h.Method]:
			obs = append(obs, Ob{Key: key, Site: c.Pos(h.Fn.Pos()), Verdict: VIOLATION, Note: h.Method + " can reach a write of the open-document cache; only the four synchronisation notifications may"})
		case !reachW[h.Fn] && allowed[h.Method]:
			obs = append(obs, Ob{Key: key, Site: c.Pos(h.Fn.Pos()), Verdict: VIOLATION, Note: h.Method + " no longer reaches any write of the open-document cache: the server's copy is not updated by it"})
		default:
			obs = append(obs, Ob{Key: key, Site: c.Pos(h.Fn.Pos()), Verdict: OK})
		}
	}
	obs = append(obs, floor("DOC/cache-ownership", "functions writing FileMapCache.m", len(writers), 2))

	// D2/D3/D4 per handler
	byMethod := map[string]*ssa.Function{}
	for _, h := range hs {
		byMethod[h.Method] = h.Fn
	}
	isCall := func(target *ssa.Function) func(ssa.Instruction) bool {
		return func(ins ssa.Instruction) bool {
			call, ok := ins.(*ssa.Call)
			return ok && call.Call.StaticCallee() == target
		}
	}
	wantKey := "pathpre.VscodeURIToString(P2.TextDocument.URI)"
	type expect struct {
		method   string
		content  []string // acceptable provenance terms of the stored bytes
		analysis string   // method of AllProject that must come after the store
	}
	exps := []expect{
		{"textDocument/didOpen", []string{"strbytesconv.StringToBytes(P2.TextDocument.Text)"}, "HandleFileEventChanges"},
		{"textDocument/didSave", []string{"strbytesconv.StringToBytes(*P2.Text)"}, "HandleFileEventChanges"},
		{"textDocument/didChange", []string{"(*lspcommon.FileMapCache).ApplyContentChanges(" + "(*langserver.LspServer).getFileCache(P0)," + wantKey + ",(*lspcommon.FileMapCache).GetFileContent((*langserver.LspServer).getFileCache(P0)," + wantKey + ")#0,P2.ContentChanges)#0"}, "HandleFileChangeAnalysis"},
	}
	for _, ex := range exps {
		f := byMethod[ex.method]
		if f == nil {
			obs = append(obs, Ob{Key: "DOC/D2:" + ex.method, Verdict: UNDECIDED, Note: "slot unresolved: handler " + ex.method})
			continue
		}
		n := 0
		for _, b := range f.Blocks {
			for _, ins := range b.Instrs {
				call, ok := ins.(*ssa.Call)
				if !ok || call.Call.StaticCallee() != setF {
					continue
				}
				n++
				k := normTerm(provTerm(call.Call.Args[1], 0))
				v := normTerm(provTerm(call.Call.Args[2], 0))
				key := fmt.Sprintf("DOC/D2:%s:store#%d", f.Name(), n)
				okv := false
				for _, w := range ex.content {
					if v == w {
						okv = true
					}
				}
				switch {
				case k != wantKey:
					obs = append(obs, Ob{Key: key, Site: c.Pos(call.Pos()), Verdict: VIOLATION, Note: "cache key is " + k + ", expected the file of the message: " + wantKey})
				case !okv:
					obs = append(obs, Ob{Key: key, Site: c.Pos(call.Pos()), Verdict: VIOLATION, Note: "stored bytes come from " + v + ", expected " + strings.Join(ex.content, " or ")})
				default:
					obs = append(obs, Ob{Key: key, Site: c.Pos(call.Pos()), Verdict: OK, Note: "stores " + v})
				}
			}
		}
		if n == 0 {
			obs = append(obs, Ob{Key: "DOC/D2:" + f.Name() + ":store", Site: c.Pos(f.Pos()), Verdict: VIOLATION, Note: ex.method + " does not store the document text into the cache"})
		}
		// D3
		an := c.SSAFunc(checkPkg, "AllProject", ex.analysis)
		if an == nil {
			obs = append(obs, Ob{Key: "DOC/D3:" + f.Name(), Verdict: UNDECIDED, Note: "slot unresolved: AllProject." + ex.analysis})
		} else if bad := mustPrecede(f, isCall(setF), isCall(an)); len(bad) > 0 {
			obs = append(obs, Ob{Key: "DOC/D3:" + f.Name(), Site: c.Pos(bad[0].Pos()), Verdict: VIOLATION, Note: ex.analysis + " (re-analysis, reads the cache) is reachable without the new text having been stored first"})
		} else {
			obs = append(obs, Ob{Key: "DOC/D3:" + f.Name(), Site: c.Pos(f.Pos()), Verdict: OK, Note: "store precedes " + ex.analysis + " on every path"})
		}
	}
	// didChange analyses the bytes it just stored
	if f := byMethod["textDocument/didChange"]; f != nil {
		an := c.SSAFunc(checkPkg, "AllProject", "HandleFileChangeAnalysis")
		for _, b := range f.Blocks {
			for _, ins := range b.Instrs {
				call, ok := ins.(*ssa.Call)
				if !ok || an == nil || call.Call.StaticCallee() != an {
					continue
				}
				v := normTerm(provTerm(call.Call.Args[2], 0))
				okv := strings.HasPrefix(v, "(*lspcommon.FileMapCache).GetFileContent(") || strings.HasPrefix(v, "(*lspcommon.FileMapCache).ApplyContentChanges(")
				vd, note := OK, "analysed bytes: "+v
				if !okv {
					vd, note = VIOLATION, "didChange analyses bytes that are neither the cache entry nor the result of the edit: "+v
				}
				obs = append(obs, Ob{Key: "DOC/D3:TextDocumentDidChange:analysed-bytes", Site: c.Pos(call.Pos()), Verdict: vd, Note: note})
			}
		}
		// D4: error branch of ApplyContentChanges
		for _, b := range f.Blocks {
			for _, ins := range b.Instrs {
				call, ok := ins.(*ssa.Call)
				if !ok || call.Call.StaticCallee() != applyF {
					continue
				}
				// find Extract #1 (err) and the branch on err != nil
				var errBlock *ssa.BasicBlock
				if refs := call.Referrers(); refs != nil {
					for _, r := range *refs {
						if ex, ok := r.(*ssa.Extract); ok && ex.Index == 1 {
							if erefs := ex.Referrers(); erefs != nil {
								for _, rr := range *erefs {
									if bo, ok := rr.(*ssa.BinOp); ok && (bo.Op == token.NEQ || bo.Op == token.EQL) {
										if t, fb, ok := branchTargets(bo); ok {
											if bo.Op == token.NEQ {
												errBlock = t
											} else {
												errBlock = fb
											}
										}
									}
								}
							}
						}
					}
				}
				key := "DOC/D4:TextDocumentDidChange:failed-edit"
				if errBlock == nil {
					obs = append(obs, Ob{Key: key, Site: c.Pos(call.Pos()), Verdict: VIOLATION, Note: "the error result of ApplyContentChanges is not tested"})
					continue
				}
				// blocks reachable from errBlock (until return)
				handled := false
				seen := map[*ssa.BasicBlock]bool{}
				var walk func(x *ssa.BasicBlock)
				walk = func(x *ssa.BasicBlock) {
					if seen[x] {
						return
					}
					seen[x] = true
					for _, i2 := range x.Instrs {
						if c2, ok := i2.(*ssa.Call); ok {
							sc := c2.Call.StaticCallee()
							if sc == setF || sc == delF {
								handled = true
							}
							if sc != nil && sc.Pkg != nil && strings.Contains(sc.Pkg.Pkg.Path(), "jrpc2") {
								handled = true // notification / push to the client
							}
						}
					}
					for _, s := range x.Succs {
						walk(s)
					}
				}
				walk(errBlock)
				if handled {
					obs = append(obs, Ob{Key: key, Site: c.Pos(errBlock.Instrs[0].Pos()), Verdict: OK, Note: "failed edit invalidates / overwrites the entry or notifies the client"})
				} else {
					obs = append(obs, Ob{Key: key, Site: c.Pos(errBlock.Instrs[0].Pos()), Verdict: VIOLATION, Note: "when the edit cannot be applied the handler only logs and returns: the cache keeps the old text and every later answer is computed on stale content without the client knowing"})
				}
			}
		}
	}
	// D5: in-place writes into byte slices obtained from the cache / StringToBytes
	nIdx := 0
	for _, f := range c.ModFns() {
		for _, b := range f.Blocks {
			for _, ins := range b.Instrs {
				st, ok := ins.(*ssa.Store)
				if !ok {
					continue
				}
				ia, ok := st.Addr.(*ssa.IndexAddr)
				if !ok {
					continue
				}
				sl, ok := ia.X.Type().Underlying().(*types.Slice)
				if !ok {
					continue
				}
				if bt, ok := sl.Elem().Underlying().(*types.Basic); !ok || bt.Kind() != types.Uint8 {
					continue
				}
				nIdx++
				t := provTerm(ia.X, 0)
				if strings.Contains(t, "GetFileContent") || strings.Contains(t, "StringToBytes") || strings.Contains(t, ".content") {
					obs = append(obs, Ob{Key: "DOC/D5:" + fnKey(f), Site: c.Pos(st.Pos()), Verdict: VIOLATION, Note: "in-place write into bytes that alias the cached document / an immutable Go string: " + t})
				}
			}
		}
	}
	obs = append(obs, Ob{Key: "DOC/D5:scan", Site: "luahelper-lsp", Verdict: OK, Note: fmt.Sprintf("%d element stores into []byte examined", nIdx)})

	// D6: bytes.Buffer.Bytes() used after a later mutation of the same buffer
	obs = append(obs, bufferBytesRule(c)...)
	return obs
}

var bufferMutators = map[string]bool{"Reset": true, "Write": true, "WriteString": true, "WriteByte": true, "WriteRune": true, "Grow": true, "Truncate": true, "ReadFrom": true, "Read": true, "Next": true, "ReadByte": true}

func bufferBytesRule(c *Ctx) []Ob {
	var obs []Ob
	n := 0
	for _, f := range c.ModFns() {
		for _, b := range f.Blocks {
			for _, ins := range b.Instrs {
				call, ok := ins.(*ssa.Call)
				if !ok {
					continue
				}
				sc := call.Call.StaticCallee()
				if sc == nil || sc.String() != "(*bytes.Buffer).Bytes" {
					continue
				}
				n++
				buf := call.Call.Args[0]
				// values derived from the Bytes() result
				derived := map[ssa.Value]bool{call: true}
				for changed := true; changed; {
					changed = false
					for _, b2 := range f.Blocks {
						for _, i2 := range b2.Instrs {
							v, ok := i2.(ssa.Value)
							if !ok || derived[v] {
								continue
							}
							switch x := i2.(type) {
							case *ssa.Phi:
								for _, e := range x.Edges {
									if derived[e] {
										derived[v] = true
										changed = true
									}
								}
							case *ssa.Slice:
								if derived[x.X] {
									derived[v] = true
									changed = true
								}
							}
						}
					}
				}
				isMut := func(i ssa.Instruction) bool {
					c2, ok := i.(*ssa.Call)
					if !ok {
						return false
					}
					s2 := c2.Call.StaticCallee()
					return s2 != nil && strings.HasPrefix(s2.String(), "(*bytes.Buffer).") && bufferMutators[s2.Name()] && len(c2.Call.Args) > 0 && c2.Call.Args[0] == buf
				}
				isUse := func(i ssa.Instruction) bool {
					if i == ssa.Instruction(call) {
						return false
					}
					for _, op := range i.Operands(nil) {
						if *op != nil && derived[*op] {
							if _, isPhi := i.(*ssa.Phi); isPhi {
								return false
							}
							return true
						}
					}
					return false
				}
				// fresh object boundary: the buffer's allocation instruction re-executed
				isAlloc := func(i ssa.Instruction) bool {
					if a, ok := buf.(*ssa.Alloc); ok {
						return i == ssa.Instruction(a)
					}
					return false
				}
				// state machine over the CFG: 0 = before Bytes, 1 = after Bytes, 2 = after Bytes then mutation
				type st = bufSt
				outState := map[*ssa.BasicBlock]bufSt{}
				var bad ssa.Instruction
				for iter := 0; iter < 50 && bad == nil; iter++ {
					changed := false
					for _, b2 := range f.Blocks {
						s := st{}
						for _, p := range b2.Preds {
							o := outState[p]
							s.after = s.after || o.after
							s.mutated = s.mutated || o.mutated
						}
						for _, i2 := range b2.Instrs {
							if isAlloc(i2) {
								s = st{}
							}
							if s.mutated && isUse(i2) && bad == nil {
								bad = i2
							}
							if i2 == ssa.Instruction(call) {
								s = st{after: true}
							} else if s.after && isMut(i2) {
								s.mutated = true
							}
						}
						if outState[b2] != s {
							outState[b2] = s
							changed = true
						}
					}
					if !changed {
						break
					}
				}
				key := "DOC/D6:" + fnKey(f)
				if bad != nil {
					obs = append(obs, Ob{Key: key, Site: c.Pos(bad.Pos()), Verdict: VIOLATION, Note: fmt.Sprintf("the slice returned by Buffer.Bytes() at %s is used after the same buffer was reset / written again: it aliases the buffer's storage and its content has been overwritten", c.Pos(call.Pos()))})
				} else {
					obs = append(obs, Ob{Key: key, Site: c.Pos(call.Pos()), Verdict: OK, Note: "no use of the Bytes() result after a later mutation of the same buffer object"})
				}
			}
		}
	}
	obs = append(obs, floor("DOC/cache-ownership", "bytes.Buffer.Bytes() sites", n, 1))
	sort.SliceStable(obs, func(i, j int) bool { return obs[i].Key < obs[j].Key })
	return obs
}

type bufSt struct{ after, mutated bool }
