package main

import (
	"fmt"
	"go/constant"
	"go/token"
	"go/types"
	"sort"
	"strings"

	"golang.org/x/tools/go/ssa"
)

// ---------------------------------------------------------------------------------------------
// visited-set guards (label B)
//
// A guard location is a container reachable from a parameter: the parameter itself (a map, or a
// pointer to a slice) or one field of the struct a pointer parameter points to.

type guardLoc struct {
	param int
	field string
}

func (g guardLoc) String() string {
	if g.field == "" {
		return fmt.Sprintf("P%d", g.param)
	}
	return fmt.Sprintf("P%d.%s", g.param, g.field)
}

// paramPath resolves v to (parameter index, field path) when v is a parameter, a load of a
// spilled parameter, or a (load of a) field address chain from one.
func paramPath(v ssa.Value, depth int) (int, []string, bool) {
	if depth > 8 {
		return 0, nil, false
	}
	switch x := v.(type) {
	case *ssa.Parameter:
		return paramIndex(x.Parent(), x), nil, true
	case *ssa.UnOp:
		if x.Op != token.MUL {
			return 0, nil, false
		}
		switch a := x.X.(type) {
		case *ssa.Alloc:
			// spilled parameter: exactly one store, of a parameter
			var src ssa.Value
			n := 0
			if refs := a.Referrers(); refs != nil {
				for _, r := range *refs {
					if st, ok := r.(*ssa.Store); ok && st.Addr == a {
						src = st.Val
						n++
					}
				}
			}
			if n == 1 {
				return paramPath(src, depth+1)
			}
			return 0, nil, false
		case *ssa.FieldAddr:
			p, path, ok := paramPath(a.X, depth+1)
			if !ok {
				return 0, nil, false
			}
			return p, append(append([]string{}, path...), fieldName(a.X.Type(), a.Field)), true
		case *ssa.Parameter:
			// *p where p is a pointer parameter (e.g. *[]T): same location as the parameter
			return paramIndex(a.Parent(), a), nil, true
		default:
			// load through a spilled pointer parameter
			p, path, ok := paramPath(a, depth+1)
			if ok {
				return p, path, true
			}
		}
	case *ssa.FieldAddr:
		p, path, ok := paramPath(x.X, depth+1)
		if !ok {
			return 0, nil, false
		}
		return p, append(append([]string{}, path...), fieldName(x.X.Type(), x.Field)), true
	case *ssa.ChangeType:
		return paramPath(x.X, depth+1)
	}
	return 0, nil, false
}

func joinPath(a, b string) string {
	if a == "" {
		return b
	}
	if b == "" {
		return a
	}
	return a + "." + b
}

func resolveGL(v ssa.Value) (guardLoc, bool) {
	p, path, ok := paramPath(v, 0)
	if !ok || p < 0 || len(path) > 3 {
		return guardLoc{}, false
	}
	return guardLoc{param: p, field: strings.Join(path, ".")}, true
}

// canon strips loads of single-store locals and conversions so that two reads of the same
// parameter compare equal.
func canon(v ssa.Value) ssa.Value {
	for i := 0; i < 8; i++ {
		switch x := v.(type) {
		case *ssa.UnOp:
			if x.Op == token.MUL {
				if a, ok := x.X.(*ssa.Alloc); ok {
					var src ssa.Value
					n := 0
					if refs := a.Referrers(); refs != nil {
						for _, r := range *refs {
							if st, ok := r.(*ssa.Store); ok && st.Addr == a {
								src = st.Val
								n++
							}
						}
					}
					if n == 1 {
						v = src
						continue
					}
				}
			}
			return v
		case *ssa.ChangeType:
			v = x.X
			continue
		case *ssa.MakeInterface:
			v = x.X
			continue
		}
		return v
	}
	return v
}

type guardEvent struct {
	insert   bool
	gl       guardLoc
	elems    []ssa.Value // canonical element / key values
	instr    ssa.Instruction
	found    *ssa.BasicBlock // test only: successor taken when the element is present
	notFound *ssa.BasicBlock
	via      string
}

type helperSummary struct {
	gl         guardLoc
	elemParams []int
}

type guardEngine struct {
	c        *Ctx
	events   map[*ssa.Function][]guardEvent
	insertH  map[*ssa.Function]*helperSummary
	testH    map[*ssa.Function]*helperSummary
	pure     map[*ssa.Function]bool
	building map[*ssa.Function]bool
}

func newGuardEngine(c *Ctx) *guardEngine {
	return &guardEngine{c: c, events: map[*ssa.Function][]guardEvent{}, insertH: map[*ssa.Function]*helperSummary{},
		testH: map[*ssa.Function]*helperSummary{}, pure: map[*ssa.Function]bool{}, building: map[*ssa.Function]bool{}}
}

// appendedValues: for v = append(old, xs...) returns (old, elements) when the variadic slice is a
// literal built in place.
func appendedValues(call *ssa.Call) (old ssa.Value, elems []ssa.Value, ok bool) {
	b, isB := call.Call.Value.(*ssa.Builtin)
	if !isB || b.Name() != "append" || len(call.Call.Args) != 2 {
		return nil, nil, false
	}
	old = call.Call.Args[0]
	sl, isSlice := call.Call.Args[1].(*ssa.Slice)
	if !isSlice {
		return old, nil, false
	}
	arr, isAlloc := sl.X.(*ssa.Alloc)
	if !isAlloc {
		return old, nil, false
	}
	if refs := arr.Referrers(); refs != nil {
		for _, r := range *refs {
			if ia, ok := r.(*ssa.IndexAddr); ok {
				if irefs := ia.Referrers(); irefs != nil {
					for _, rr := range *irefs {
						if st, ok := rr.(*ssa.Store); ok && st.Addr == ia {
							elems = append(elems, st.Val)
						}
					}
				}
			}
		}
	}
	return old, elems, len(elems) > 0
}

// structParts: if v is (a load of) a struct built in place from other values, return those values.
func structParts(v ssa.Value) []ssa.Value {
	u, ok := v.(*ssa.UnOp)
	if !ok || u.Op != token.MUL {
		return []ssa.Value{v}
	}
	a, ok := u.X.(*ssa.Alloc)
	if !ok {
		return []ssa.Value{v}
	}
	if _, isStruct := a.Type().Underlying().(*types.Pointer).Elem().Underlying().(*types.Struct); !isStruct {
		return []ssa.Value{v}
	}
	var parts []ssa.Value
	if refs := a.Referrers(); refs != nil {
		for _, r := range *refs {
			if fa, ok := r.(*ssa.FieldAddr); ok {
				if frefs := fa.Referrers(); frefs != nil {
					for _, rr := range *frefs {
						if st, ok := rr.(*ssa.Store); ok && st.Addr == fa {
							parts = append(parts, st.Val)
						}
					}
				}
			}
		}
	}
	if len(parts) == 0 {
		return []ssa.Value{v}
	}
	return parts
}

func canonAll(vs []ssa.Value) []ssa.Value {
	var out []ssa.Value
	for _, v := range vs {
		out = append(out, canon(v))
	}
	return out
}

// branchOn finds the If instructions controlled by boolean value r (possibly negated).
func branchTargets(r ssa.Value) (found, notFound *ssa.BasicBlock, ok bool) {
	refs := r.Referrers()
	if refs == nil {
		return nil, nil, false
	}
	for _, ref := range *refs {
		switch x := ref.(type) {
		case *ssa.If:
			return x.Block().Succs[0], x.Block().Succs[1], true
		case *ssa.UnOp:
			if x.Op == token.NOT {
				if f, nf, ok := branchTargets(x); ok {
					return nf, f, true
				}
			}
		}
	}
	return nil, nil, false
}

func (g *guardEngine) isPure(f *ssa.Function, depth int) bool {
	if v, ok := g.pure[f]; ok {
		return v
	}
	if f.Blocks == nil || depth > 6 {
		return false
	}
	g.pure[f] = true // optimistic for recursion
	res := true
	for _, b := range f.Blocks {
		for _, ins := range b.Instrs {
			switch x := ins.(type) {
			case *ssa.Store:
				if _, local := x.Addr.(*ssa.Alloc); !local {
					// store into a local composite is fine
					if fa, ok := x.Addr.(*ssa.FieldAddr); ok {
						if _, l2 := fa.X.(*ssa.Alloc); l2 {
							continue
						}
					}
					if ia, ok := x.Addr.(*ssa.IndexAddr); ok {
						if _, l2 := ia.X.(*ssa.Alloc); l2 {
							continue
						}
					}
					res = false
				}
			case *ssa.MapUpdate, *ssa.Send, *ssa.Go, *ssa.Defer:
				res = false
			case *ssa.Call:
				if _, isB := x.Call.Value.(*ssa.Builtin); isB {
					if x.Call.Value.(*ssa.Builtin).Name() == "delete" {
						res = false
					}
					continue
				}
				sc := x.Call.StaticCallee()
				if sc == nil {
					res = false
					continue
				}
				if g.c.IsModFn(sc) {
					if strings.HasSuffix(sc.Pkg.Pkg.Path(), "/log") {
						continue // logging does not touch analysis state
					}
					if !g.isPure(sc, depth+1) {
						res = false
					}
				} else {
					pp := ""
					if sc.Pkg != nil {
						pp = sc.Pkg.Pkg.Path()
					}
					switch pp {
					case "strings", "strconv", "unicode", "unicode/utf8", "fmt", "path/filepath", "path", "bytes", "sort", "math":
					default:
						res = false
					}
				}
			}
		}
	}
	g.pure[f] = res
	return res
}

// eventsOf computes the insert / test events of f on guard locations rooted at f's parameters.
func (g *guardEngine) eventsOf(f *ssa.Function) []guardEvent {
	if ev, ok := g.events[f]; ok {
		return ev
	}
	if g.building[f] {
		return nil
	}
	g.building[f] = true
	defer delete(g.building, f)
	var evs []guardEvent
	for _, b := range f.Blocks {
		for _, ins := range b.Instrs {
			switch x := ins.(type) {
			case *ssa.MapUpdate:
				if gl, ok := resolveGL(x.Map); ok {
					evs = append(evs, guardEvent{insert: true, gl: gl, elems: canonAll([]ssa.Value{x.Key}), instr: x, via: "map store"})
				}
			case *ssa.Store:
				// *addr = append(*addr, elems...)
				call, ok := x.Val.(*ssa.Call)
				if !ok {
					continue
				}
				old, elems, ok := appendedValues(call)
				if !ok {
					continue
				}
				glNew, ok1 := resolveGL(x.Addr)
				if !ok1 {
					// addr may be the pointer parameter itself (*[]T)
					if p, path, okp := paramPath(x.Addr, 0); okp && len(path) <= 3 {
						glNew, ok1 = guardLoc{param: p, field: strings.Join(path, ".")}, true
					}
				}
				glOld, ok2 := resolveGL(old)
				if ok1 && ok2 && glNew == glOld {
					var parts []ssa.Value
					for _, e := range elems {
						parts = append(parts, structParts(e)...)
					}
					evs = append(evs, guardEvent{insert: true, gl: glNew, elems: canonAll(parts), instr: x, via: "append"})
				}
			case *ssa.Lookup:
				gl, ok := resolveGL(x.X)
				if !ok {
					continue
				}
				if _, isMap := x.X.Type().Underlying().(*types.Map); !isMap {
					continue
				}
				var res ssa.Value
				if x.CommaOk {
					if refs := x.Referrers(); refs != nil {
						for _, r := range *refs {
							if ex, ok := r.(*ssa.Extract); ok && ex.Index == 1 {
								res = ex
							}
						}
					}
				} else if b, ok := x.Type().Underlying().(*types.Basic); ok && b.Kind() == types.Bool {
					res = x
				} else if refs := x.Referrers(); refs != nil {
					// v := m[k]; if v != nil — presence test on a map of pointers / interfaces (the inlined form of a
					// `return m[k] != nil` helper)
					for _, r := range *refs {
						bo, ok := r.(*ssa.BinOp)
						if !ok || (bo.Op != token.NEQ && bo.Op != token.EQL) {
							continue
						}
						other := bo.X
						if other == ssa.Value(x) {
							other = bo.Y
						}
						if k, ok := other.(*ssa.Const); !ok || !k.IsNil() {
							continue
						}
						if fnd, nf, ok := branchTargets(bo); ok {
							if bo.Op == token.EQL {
								fnd, nf = nf, fnd
							}
							evs = append(evs, guardEvent{gl: gl, elems: canonAll([]ssa.Value{x.Index}), instr: x, found: fnd, notFound: nf, via: "map lookup != nil"})
						}
					}
				}
				if res == nil {
					continue
				}
				if fnd, nf, ok := branchTargets(res); ok {
					evs = append(evs, guardEvent{gl: gl, elems: canonAll([]ssa.Value{x.Index}), instr: x, found: fnd, notFound: nf, via: "map lookup"})
				}
			case *ssa.Call:
				sc := x.Call.StaticCallee()
				if sc == nil || !g.c.IsModFn(sc) || sc == f {
					continue
				}
				args := x.Call.Args
				if len(args) != len(sc.Params) {
					continue
				}
				if hs := g.insertHelper(sc); hs != nil {
					if glc, ok := resolveGL(args[hs.gl.param]); ok {
						glc.field = joinPath(glc.field, hs.gl.field)
						var el []ssa.Value
						for _, pi := range hs.elemParams {
							el = append(el, args[pi])
						}
						evs = append(evs, guardEvent{insert: true, gl: glc, elems: canonAll(el), instr: x, via: "helper " + fnKey(sc)})
					}
				}
				if hs := g.testHelper(sc); hs != nil {
					if glc, ok := resolveGL(args[hs.gl.param]); ok {
						glc.field = joinPath(glc.field, hs.gl.field)
						var el []ssa.Value
						for _, pi := range hs.elemParams {
							el = append(el, args[pi])
						}
						if fnd, nf, ok := branchTargets(x); ok {
							evs = append(evs, guardEvent{gl: glc, elems: canonAll(el), instr: x, found: fnd, notFound: nf, via: "helper " + fnKey(sc)})
						}
					}
				}
			}
		}
	}
	g.events[f] = evs
	return evs
}

// insertHelper: h unconditionally inserts an element composed of its own parameters into a guard
// location rooted at one of its parameters, and does nothing else to it.
func (g *guardEngine) insertHelper(h *ssa.Function) *helperSummary {
	if s, ok := g.insertH[h]; ok {
		return s
	}
	g.insertH[h] = nil
	if len(h.Blocks) == 0 || len(h.Blocks) > 3 {
		return nil
	}
	for _, ev := range g.eventsOf(h) {
		if !ev.insert {
			continue
		}
		// must dominate every return
		dom := true
		for _, b := range h.Blocks {
			if _, isRet := b.Instrs[len(b.Instrs)-1].(*ssa.Return); isRet {
				if !ev.instr.Block().Dominates(b) {
					dom = false
				}
			}
		}
		if !dom {
			continue
		}
		var ps []int
		allParams := true
		for _, e := range ev.elems {
			if p, ok := e.(*ssa.Parameter); ok {
				ps = append(ps, paramIndex(h, p))
			} else {
				allParams = false
			}
		}
		if allParams && len(ps) > 0 {
			s := &helperSummary{gl: ev.gl, elemParams: ps}
			g.insertH[h] = s
			return s
		}
	}
	return nil
}

// testHelper: h is pure, returns one bool, reads a guard location rooted at a parameter; its other
// parameters are the element being looked up. (Assumption recorded in the evidence: the helper's
// comparison is reflexive, i.e. it answers true for an element inserted earlier.)
func (g *guardEngine) testHelper(h *ssa.Function) *helperSummary {
	if s, ok := g.testH[h]; ok {
		return s
	}
	g.testH[h] = nil
	res := h.Signature.Results()
	if res.Len() != 1 {
		return nil
	}
	if b, ok := res.At(0).Type().Underlying().(*types.Basic); !ok || b.Kind() != types.Bool {
		return nil
	}
	if !g.isPure(h, 0) {
		return nil
	}
	// must be able to return true and false
	retTrue, retFalse := false, false
	for _, b := range h.Blocks {
		if r, ok := b.Instrs[len(b.Instrs)-1].(*ssa.Return); ok && len(r.Results) == 1 {
			if cst, ok := r.Results[0].(*ssa.Const); ok && cst.Value != nil && cst.Value.Kind() == constant.Bool {
				if constant.BoolVal(cst.Value) {
					retTrue = true
				} else {
					retFalse = true
				}
			} else {
				retTrue, retFalse = true, true
			}
		}
	}
	if !retTrue || !retFalse {
		return nil
	}
	// the container parameter: the one that is ranged over / indexed / looked up
	cont := -1
	field := ""
	for _, b := range h.Blocks {
		for _, ins := range b.Instrs {
			var base ssa.Value
			switch x := ins.(type) {
			case *ssa.IndexAddr:
				base = x.X
			case *ssa.Lookup:
				base = x.X
			case *ssa.Range:
				base = x.X
			case *ssa.Index:
				base = x.X
			}
			if base == nil {
				continue
			}
			if gl, ok := resolveGL(base); ok {
				if cont == -1 {
					cont, field = gl.param, gl.field
				}
			}
		}
	}
	if cont < 0 {
		return nil
	}
	var others []int
	for i := range h.Params {
		if i != cont {
			others = append(others, i)
		}
	}
	if len(others) == 0 {
		return nil
	}
	s := &helperSummary{gl: guardLoc{param: cont, field: field}, elemParams: others}
	g.testH[h] = s
	return s
}

// notFoundGuards: block b can only be reached (from the test) through the test's "absent" edge:
// the absent successor is entered only from the test block and dominates b.
func notFoundGuards(t guardEvent, b *ssa.BasicBlock) bool {
	nf := t.notFound
	if nf == nil || nf == t.found {
		return false
	}
	if len(nf.Preds) != 1 {
		return false
	}
	return nf == b || nf.Dominates(b)
}

func instrDominates(a, b ssa.Instruction) bool {
	if a.Block() == b.Block() {
		for _, ins := range a.Block().Instrs {
			if ins == a {
				return true
			}
			if ins == b {
				return false
			}
		}
		return false
	}
	return a.Block().Dominates(b.Block())
}

func sameElems(a, b []ssa.Value) bool {
	if len(a) == 0 || len(b) == 0 {
		return false
	}
	// every test element must be among the inserted ones and vice versa (as sets)
	in := func(x ssa.Value, s []ssa.Value) bool {
		for _, y := range s {
			if x == y {
				return true
			}
			// two loads of the same field of the same object
			if tx, ox := termOf(x, 0); !ox {
				if ty, oy := termOf(y, 0); !oy && tx == ty && tx != "?" {
					return true
				}
			}
		}
		return false
	}
	for _, x := range a {
		if !in(x, b) {
			return false
		}
	}
	for _, y := range b {
		if !in(y, a) {
			return false
		}
	}
	return true
}

// normalisers accepted between a tested key and an inserted key (recorded assumption: idempotent
// on the values that flow here)
func isKeyNormaliser(f *ssa.Function) bool {
	return f != nil && f.Name() == "GetRemovePreStr" && f.Pkg != nil && strings.HasSuffix(f.Pkg.Pkg.Path(), "/pathpre")
}

// assumedKeyCorrespondence: edges where the tested key and the key inserted by the callee are equal
// for a reason that is a relation between runtime values (frozen by reading; the structural part —
// dominating absence test in the caller, insert at the callee's entry on the same container — is
// still checked on every run).
var assumedKeyCorrespondence = map[string]string{
	"(*check/analysis.Analysis).deepHanleReferFile->(*check/analysis.Analysis).HandleSecondProjectTraverseAST": "the tested key is referInfo.ReferValidStr and the callee inserts initialResult.Name where initialResult is the first-pass result looked up under that same name (GetFirstReferFileResult indexes fileStructMap by ReferValidStr and FileResult.Name is its key)",
}

// guarded decides label B for a call edge inside the SCC `in`.
func (g *guardEngine) guarded(e callEdge, in map[*ssa.Function]bool) (bool, string, int) {
	f := e.From
	site, ok := e.Site.(ssa.Instruction)
	if !ok {
		return false, "", -1
	}
	evs := g.eventsOf(f)
	// V1: test, then insert of the same element, then the call — all in the caller
	for _, ins := range evs {
		if !ins.insert || !instrDominates(ins.instr, site) {
			continue
		}
		for _, t := range evs {
			if t.insert || t.gl != ins.gl || !sameElems(t.elems, ins.elems) {
				continue
			}
			if notFoundGuards(t, ins.instr.Block()) {
				if !g.threads(e, ins.gl) {
					continue
				}
				return true, fmt.Sprintf("visited-set guard %s: membership test (%s) fails, element inserted (%s), then call; the set is passed on unchanged", ins.gl, t.via, ins.via), ins.gl.param
			}
		}
	}
	// V3: caller tests x ∉ V, callee inserts its parameter at entry
	callee := e.To
	args := e.Site.Common().Args
	if len(args) == len(callee.Params) {
		for _, t := range evs {
			if t.insert || t.notFound == nil {
				continue
			}
			if !notFoundGuards(t, site.Block()) {
				continue
			}
			// which callee params receive the tested element?
			for _, civ := range g.eventsOf(callee) {
				if !civ.insert {
					continue
				}
				// insert must precede every intra-SCC call of the callee
				okDom := true
				for _, b := range callee.Blocks {
					for _, ci := range b.Instrs {
						call, isCall := ci.(ssa.CallInstruction)
						if !isCall || ci == civ.instr {
							continue
						}
						for _, cf := range calleesOf(g.c.VTA(), call) {
							if in[cf] && !instrDominates(civ.instr, ci) {
								okDom = false
							}
						}
					}
				}
				if !okDom {
					continue
				}
				// the callee's guard location must be the caller's, passed through
				glArg, okArg := resolveGL(args[civ.gl.param])
				if !okArg {
					continue
				}
				glArg.field = joinPath(glArg.field, civ.gl.field)
				if glArg != t.gl {
					continue
				}
				// inserted element: callee parameter j (possibly normalised) that receives the tested value
				match := len(civ.elems) == len(t.elems)
				norm := ""
				for _, el := range civ.elems {
					var p *ssa.Parameter
					switch x := el.(type) {
					case *ssa.Parameter:
						p = x
					case *ssa.Call:
						if isKeyNormaliser(x.Call.StaticCallee()) && len(x.Call.Args) == 1 {
							if pp, ok := canon(x.Call.Args[0]).(*ssa.Parameter); ok {
								p = pp
								norm = " (modulo " + x.Call.StaticCallee().Name() + ", assumed idempotent)"
							}
						}
					case *ssa.Phi:
						// strFile = Normalise(strFile) in SSA form after a spill
					}
					if p == nil {
						match = false
						break
					}
					j := paramIndex(callee, p)
					found := false
					for _, tv := range t.elems {
						if canon(args[j]) == tv {
							found = true
						}
					}
					if !found {
						match = false
					}
				}
				if match {
					return true, fmt.Sprintf("visited-set guard %s: caller tests the argument is absent (%s), callee inserts it at entry before any recursive call (%s)%s", t.gl, t.via, civ.via, norm), t.gl.param
				}
				if why, ok := assumedKeyCorrespondence[fnKey(f)+"->"+fnKey(callee)]; ok {
					return true, fmt.Sprintf("visited-set guard %s: caller tests absence (%s), callee inserts at entry before any recursive call (%s); key correspondence ASSUMED: %s", t.gl, t.via, civ.via, why), t.gl.param
				}
			}
		}
	}
	// V4: the argument is an element of the result of a guarded producer that received the caller's
	// visited set: the producer hands out an element only after it has grown the set.
	for _, a := range args {
		if call := producerOf(a, 0); call != nil {
			sc := call.Call.StaticCallee()
			if sc == nil {
				continue
			}
			why, ok := guardedProducers[fnKey(sc)]
			if !ok {
				continue
			}
			for _, pa := range call.Call.Args {
				if p, path, ok := paramPath(pa, 0); ok && len(path) == 0 {
					pt := f.Params[p].Type()
					if _, isPtr := pt.Underlying().(*types.Pointer); isPtr || isMapType(pt) {
						if g.isGuardTyped(sc, pt) {
							return true, fmt.Sprintf("visited-set guard P%d: the argument is an element of the result of %s, called with the caller's visited set (%s)", p, fnKey(sc), why), p
						}
					}
				}
			}
		}
	}
	return false, "", -1
}

func isMapType(t types.Type) bool { _, ok := t.Underlying().(*types.Map); return ok }

// isGuardTyped: producer sc has a parameter of exactly this container type.
func (g *guardEngine) isGuardTyped(sc *ssa.Function, t types.Type) bool {
	for _, p := range sc.Params {
		if types.Identical(p.Type(), t) {
			if ptr, ok := t.Underlying().(*types.Pointer); ok {
				if _, isSlice := ptr.Elem().Underlying().(*types.Slice); isSlice {
					return true
				}
				continue
			}
			return true
		}
	}
	return false
}

// guardedProducers (frozen by reading): functions that return elements only after a visited-set
// insert succeeded for them.
var guardedProducers = map[string]string{
	"(*check.AllProject).FindDeepSymbolList": "every symbol it returns comes from FindVarReferSymbol, which returns nil unless it inserted a new (file, expression) pair into findExpList",
}

// producerOf follows v back through element selections to the call whose result it is taken from.
func producerOf(v ssa.Value, depth int) *ssa.Call {
	if depth > 8 {
		return nil
	}
	switch x := canon(v).(type) {
	case *ssa.Call:
		return x
	case *ssa.UnOp:
		if x.Op == token.MUL {
			return producerOf(x.X, depth+1)
		}
	case *ssa.IndexAddr:
		return producerOf(x.X, depth+1)
	case *ssa.Index:
		return producerOf(x.X, depth+1)
	case *ssa.Extract:
		return producerOf(x.Tuple, depth+1)
	case *ssa.Next:
		if r, ok := x.Iter.(*ssa.Range); ok {
			return producerOf(r.X, depth+1)
		}
	case *ssa.Phi:
		for _, e := range x.Edges {
			if c := producerOf(e, depth+1); c != nil {
				return c
			}
		}
	case *ssa.Slice:
		return producerOf(x.X, depth+1)
	case *ssa.Alloc:
		// local copy of an element (range variable whose address is taken)
		if refs := x.Referrers(); refs != nil {
			for _, r := range *refs {
				if st, ok := r.(*ssa.Store); ok && st.Addr == x {
					if c := producerOf(st.Val, depth+1); c != nil {
						return c
					}
				}
			}
		}
	case *ssa.FieldAddr:
		return producerOf(x.X, depth+1)
	case *ssa.Field:
		return producerOf(x.X, depth+1)
	}
	return nil
}

// threads: the callee receives the caller's guard container unchanged (some argument resolves to
// the same parameter root).
func (g *guardEngine) threads(e callEdge, gl guardLoc) bool {
	for _, a := range e.Site.Common().Args {
		if p, _, ok := paramPath(a, 0); ok && p == gl.param {
			return true
		}
	}
	return false
}

// monotone: inside the SCC no instruction shrinks or replaces a guard location (delete, or a store
// that is not an append of the old value).
func (g *guardEngine) shrinkSites(fns []*ssa.Function, gls map[*ssa.Function]guardLoc) []string {
	var out []string
	for _, f := range fns {
		gl, ok := gls[f]
		if !ok {
			continue
		}
		for _, b := range f.Blocks {
			for _, ins := range b.Instrs {
				switch x := ins.(type) {
				case *ssa.Call:
					if bi, ok := x.Call.Value.(*ssa.Builtin); ok && bi.Name() == "delete" {
						if l, ok := resolveGL(x.Call.Args[0]); ok && l == gl {
							out = append(out, g.c.Pos(x.Pos())+": delete on guard "+gl.String())
						}
					}
				case *ssa.Store:
					var l guardLoc
					okl := false
					if p, path, okp := paramPath(x.Addr, 0); okp && len(path) <= 3 {
						l, okl = guardLoc{param: p, field: strings.Join(path, ".")}, true
					}
					if okl && l == gl {
						if call, ok := x.Val.(*ssa.Call); ok {
							if old, _, _ := appendedValues(call); old != nil {
								if lo, ok := resolveGL(old); ok && lo == gl {
									continue
								}
							}
						}
						out = append(out, g.c.Pos(x.Pos())+": guard "+gl.String()+" replaced")
					}
				}
			}
		}
	}
	sort.Strings(out)
	return out
}
