package main

import (
	"fmt"
	"go/constant"
	"go/token"
	"go/types"
	"sort"
	"strings"

	"golang.org/x/tools/go/ssa"
)

// ---------------------------------------------------------------------------------------------
// sparse conditional constant propagation with an assumption on one value

type sccp struct {
	f        *ssa.Function
	assume   func(v ssa.Value) (constant.Value, bool)
	execEdge map[[2]int]bool
	execBlk  map[int]bool
	val      map[ssa.Value]constant.Value // known constants
	unknown  map[ssa.Value]bool
	visiting map[ssa.Value]bool // phis under evaluation (loop-carried values are unknown)
}

func (s *sccp) eval(v ssa.Value) (constant.Value, bool) {
	if c, ok := s.assume(v); ok {
		return c, true
	}
	switch x := v.(type) {
	case *ssa.Const:
		if x.Value != nil {
			return x.Value, true
		}
		return nil, false
	case *ssa.Convert:
		return s.eval(x.X)
	case *ssa.ChangeType:
		return s.eval(x.X)
	case *ssa.UnOp:
		if x.Op == token.NOT {
			if c, ok := s.eval(x.X); ok && c.Kind() == constant.Bool {
				return constant.MakeBool(!constant.BoolVal(c)), true
			}
		}
		return nil, false
	case *ssa.BinOp:
		a, ok1 := s.eval(x.X)
		b, ok2 := s.eval(x.Y)
		if !ok1 || !ok2 {
			return nil, false
		}
		switch x.Op {
		case token.EQL, token.NEQ, token.LSS, token.LEQ, token.GTR, token.GEQ:
			if a.Kind() == constant.Bool || b.Kind() == constant.Bool {
				if x.Op == token.EQL || x.Op == token.NEQ {
					eq := constant.BoolVal(a) == constant.BoolVal(b)
					if x.Op == token.NEQ {
						eq = !eq
					}
					return constant.MakeBool(eq), true
				}
				return nil, false
			}
			return constant.MakeBool(constant.Compare(a, x.Op, b)), true
		}
		return nil, false
	case *ssa.Phi:
		if s.visiting == nil {
			s.visiting = map[ssa.Value]bool{}
		}
		if s.visiting[x] {
			return nil, false
		}
		s.visiting[x] = true
		defer delete(s.visiting, x)
		var res constant.Value
		n := 0
		for i, e := range x.Edges {
			pred := x.Block().Preds[i]
			if !s.execEdge[[2]int{pred.Index, x.Block().Index}] {
				continue
			}
			c, ok := s.eval(e)
			if !ok {
				return nil, false
			}
			if n > 0 && !constant.Compare(res, token.EQL, c) {
				return nil, false
			}
			res = c
			n++
		}
		if n == 0 {
			return nil, false
		}
		return res, true
	case *ssa.Lookup:
		// table[k] on a package-level map that is filled once from constants in the package initialiser and never
		// written afterwards (`var binopPriority = map[K]int{…}`): a constant function of the key
		if x.CommaOk {
			return nil, false
		}
		ld, ok := x.X.(*ssa.UnOp)
		if !ok || ld.Op != token.MUL {
			return nil, false
		}
		g, ok := ld.X.(*ssa.Global)
		if !ok {
			return nil, false
		}
		k, ok := s.eval(x.Index)
		if !ok {
			return nil, false
		}
		tab, ok := constTableOf(g)
		if !ok {
			return nil, false
		}
		if v, ok := tab[k.ExactString()]; ok {
			return v, true
		}
		// absent key: the zero value of the element type
		if bt, ok := types.Unalias(x.Type()).Underlying().(*types.Basic); ok {
			switch {
			case bt.Info()&types.IsInteger != 0:
				return constant.MakeInt64(0), true
			case bt.Info()&types.IsBoolean != 0:
				return constant.MakeBool(false), true
			case bt.Info()&types.IsString != 0:
				return constant.MakeString(""), true
			}
		}
		return nil, false
	}
	return nil, false
}

// run returns the set of executable blocks.
func (s *sccp) run() map[int]bool {
	s.execEdge = map[[2]int]bool{}
	s.execBlk = map[int]bool{0: true}
	for changed := true; changed; {
		changed = false
		for _, b := range s.f.Blocks {
			if !s.execBlk[b.Index] {
				continue
			}
			last := b.Instrs[len(b.Instrs)-1]
			var succs []*ssa.BasicBlock
			if iff, ok := last.(*ssa.If); ok {
				if c, ok := s.eval(iff.Cond); ok && c.Kind() == constant.Bool {
					if constant.BoolVal(c) {
						succs = []*ssa.BasicBlock{b.Succs[0]}
					} else {
						succs = []*ssa.BasicBlock{b.Succs[1]}
					}
				} else {
					succs = b.Succs
				}
			} else {
				succs = b.Succs
			}
			for _, t := range succs {
				k := [2]int{b.Index, t.Index}
				if !s.execEdge[k] {
					s.execEdge[k] = true
					changed = true
				}
				if !s.execBlk[t.Index] {
					s.execBlk[t.Index] = true
					changed = true
				}
			}
		}
	}
	return s.execBlk
}

// documented operator domains of the binary-expression checks
var opDomains = map[string][]string{
	"CheckErrorDuplicateExp":   {"<", "<=", "==", ">", ">=", "and", "or", "~="},
	"CheckErrorOrAlwaysTrue":   {"or"},
	"CheckErrorAndAlwaysFalse": {"and"},
	"CheckErrorFloatEq":        {"==", "~="},
}

var ruleOpdom = &Rule{
	Name:    "OPDOM/binop-check-domains",
	NeedSSA: true,
	Text:    "for each binary-expression check emitted in Analysis.cgBinopExp, the set of operators under which its InsertError call stays reachable — computed by sparse conditional constant propagation with node.Op assumed equal to each token kind in turn, everything else unknown — equals the documented set: 14 same operands: {or and < <= > >= == ~=}; 15: {or}; 16: {and}; 21 float equality: {== ~=}",
	Run: func(c *Ctx) []Ob {
		var obs []Ob
		f := c.SSAFunc(analysisPkg, "Analysis", "cgBinopExp")
		sp, _, err := tokenSpellings(c)
		if f == nil || err != nil {
			return []Ob{{Key: "OPDOM:slots", Verdict: UNDECIDED, Note: "slot unresolved: Analysis.cgBinopExp / token spellings"}}
		}
		// the loads of node.Op — in cgBinopExp and in the private functions of the package it hands the node to
		// (checkBinopConstResult(node, …) after a split)
		isOpLoadOf := func(node ssa.Value) func(v ssa.Value) bool {
			return func(v ssa.Value) bool {
				u, ok := v.(*ssa.UnOp)
				if !ok || u.Op != token.MUL {
					return false
				}
				fa, ok := u.X.(*ssa.FieldAddr)
				return ok && fa.X == node && fieldName(fa.X.Type(), fa.Field) == "Op"
			}
		}
		type site struct {
			ins  *ssa.Call
			name string
		}
		emission := func(ins ssa.Instruction) (site, bool) {
			call, ok := ins.(*ssa.Call)
			if !ok {
				return site{}, false
			}
			sc := call.Call.StaticCallee()
			if sc == nil || (sc.Name() != "InsertError" && sc.Name() != "InsertRelateError") || len(call.Call.Args) < 2 {
				return site{}, false
			}
			if x, ok := errTypeConst(call.Call.Args[1]); ok {
				return site{call, errTypeName(c, x)}, true
			}
			return site{}, false
		}
		// helpers that receive the node: (callee, index of the node parameter)
		nodeCallee := func(fn *ssa.Function, node ssa.Value, ins ssa.Instruction) (*ssa.Function, ssa.Value) {
			call, ok := ins.(*ssa.Call)
			if !ok {
				return nil, nil
			}
			g := call.Call.StaticCallee()
			if g == nil || g.Blocks == nil || g == fn || g.Pkg != f.Pkg || g.Object() == nil || g.Object().Exported() {
				return nil, nil
			}
			for i, a := range call.Call.Args {
				if a == node && i < len(g.Params) {
					return g, g.Params[i]
				}
			}
			return nil, nil
		}
		nLoads := 0
		var sites []site
		var static func(fn *ssa.Function, node ssa.Value, depth int)
		seenStatic := map[*ssa.Function]bool{}
		static = func(fn *ssa.Function, node ssa.Value, depth int) {
			if seenStatic[fn] || depth > 2 {
				return
			}
			seenStatic[fn] = true
			isOp := isOpLoadOf(node)
			for _, b := range fn.Blocks {
				for _, ins := range b.Instrs {
					if v, ok := ins.(ssa.Value); ok && isOp(v) {
						nLoads++
					}
					if st, ok := emission(ins); ok {
						if _, documented := opDomains[st.name]; documented || depth == 0 {
							sites = append(sites, st)
						}
					}
					if g, gp := nodeCallee(fn, node, ins); g != nil {
						static(g, gp, depth+1)
					}
				}
			}
		}
		static(f, f.Params[1], 0)
		reach := map[string]map[string]bool{}
		var kinds []int64
		for k := range sp {
			kinds = append(kinds, k)
		}
		sort.Slice(kinds, func(i, j int) bool { return kinds[i] < kinds[j] })
		for _, k := range kinds {
			kk := k
			var walk func(fn *ssa.Function, node ssa.Value, depth int)
			walk = func(fn *ssa.Function, node ssa.Value, depth int) {
				if depth > 2 {
					return
				}
				isOp := isOpLoadOf(node)
				s := &sccp{f: fn, assume: func(v ssa.Value) (constant.Value, bool) {
					if isOp(v) {
						return constant.MakeInt64(kk), true
					}
					return nil, false
				}}
				blocks := s.run()
				for _, b := range fn.Blocks {
					if !blocks[b.Index] {
						continue
					}
					for _, ins := range b.Instrs {
						if st, ok := emission(ins); ok {
							// checks of other families that live in helpers of their own (operand types, …) are not this rule's
							if _, documented := opDomains[st.name]; documented || depth == 0 {
								if reach[st.name] == nil {
									reach[st.name] = map[string]bool{}
								}
								reach[st.name][sp[kk]] = true
							}
						}
						if g, gp := nodeCallee(fn, node, ins); g != nil {
							walk(g, gp, depth+1)
						}
					}
				}
			}
			walk(f, f.Params[1], 0)
		}
		var names []string
		for n := range opDomains {
			names = append(names, n)
		}
		sort.Strings(names)
		for _, n := range names {
			want := append([]string{}, opDomains[n]...)
			sort.Strings(want)
			got := sortedKeys(reach[n])
			key := "OPDOM:" + n
			site := c.Pos(f.Pos())
			for _, st := range sites {
				if st.name == n {
					site = c.Pos(st.ins.Pos())
				}
			}
			if strings.Join(got, " ") == strings.Join(want, " ") {
				obs = append(obs, Ob{Key: key, Site: site, Verdict: OK, Note: "reachable exactly under {" + strings.Join(got, " ") + "}"})
			} else {
				obs = append(obs, Ob{Key: key, Site: site, Verdict: VIOLATION, Note: fmt.Sprintf("emission reachable under operators {%s}, documented {%s}", strings.Join(got, " "), strings.Join(want, " "))})
			}
		}
		for n := range reach {
			if _, ok := opDomains[n]; !ok {
				obs = append(obs, Ob{Key: "OPDOM:undocumented:" + n, Site: c.Pos(f.Pos()), Verdict: UNDECIDED, Note: "cgBinopExp emits " + n + ", for which no operator domain is recorded"})
			}
		}
		obs = append(obs, floor("OPDOM/binop-check-domains", "loads of node.Op in cgBinopExp", nLoads, 6))
		obs = append(obs, floor("OPDOM/binop-check-domains", "emission sites in cgBinopExp", len(sites), 4))
		return obs
	},
}

// ---------------------------------------------------------------------------------------------
// duplicate detectors: the key looked up is the key inserted

var ruleDupKey = &Rule{
	Name:    "DUP/test-insert-key",
	NeedSSA: true,
	Text:    "duplicate detectors (table keys, …) test a local map for a key and insert on the 'absent' branch: wherever a store into a local map is reached only through the absent-branch of a lookup in that same map, the stored key is the looked-up key — otherwise repeated items are missed and distinct ones reported",
	Run: func(c *Ctx) []Ob {
		var obs []Ob
		n := 0
		for _, f := range c.ModFns() {
			cnt := 0
			for _, b := range f.Blocks {
				for _, ins := range b.Instrs {
					mu, ok := ins.(*ssa.MapUpdate)
					if !ok {
						continue
					}
					if _, _, _, isField := mapOrigin(mu.Map, 0); isField {
						continue
					}
					// lookups on the same map value
					refs := mu.Map.Referrers()
					if refs == nil {
						continue
					}
					for _, r := range *refs {
						lk, ok := r.(*ssa.Lookup)
						if !ok || lk.X != mu.Map || !lk.CommaOk {
							continue
						}
						var okv ssa.Value
						if lr := lk.Referrers(); lr != nil {
							for _, rr := range *lr {
								if ex, ok := rr.(*ssa.Extract); ok && ex.Index == 1 {
									okv = ex
								}
							}
						}
						if okv == nil {
							continue
						}
						fnd, nf, ok := branchTargets(okv)
						if !ok {
							continue
						}
						g := guardEvent{found: fnd, notFound: nf}
						if !notFoundGuards(g, mu.Block()) {
							continue
						}
						n++
						cnt++
						key := fmt.Sprintf("DUP:%s#%d", fnKey(f), cnt)
						same := canon(lk.Index) == canon(mu.Key)
						if !same {
							a, oa := termOf(lk.Index, 0)
							b2, ob := termOf(mu.Key, 0)
							same = !oa && !ob && a == b2
						}
						if same {
							obs = append(obs, Ob{Key: key, Site: c.Pos(mu.Pos()), Verdict: OK})
						} else {
							obs = append(obs, Ob{Key: key, Site: c.Pos(mu.Pos()), Verdict: VIOLATION,
								Note: fmt.Sprintf("the map is tested with key %s (%s) but the absent-branch stores under %s: later occurrences are compared with a different key", describeValue(lk.Index), c.Pos(lk.Pos()), describeValue(mu.Key))})
						}
					}
				}
			}
		}
		obs = append(obs, floor("DUP/test-insert-key", "test-then-insert sites on local maps", n, 5))
		return obs
	},
}

// ---------------------------------------------------------------------------------------------
// boolean accumulators over a loop

var ruleAcc = &Rule{
	Name:    "ACC/loop-flag",
	NeedSSA: true,
	Text:    "a boolean that is initialised before a loop, carried around it and consulted after it (\"all pairs equal\", \"can warn\") is only ever moved away from its initial value inside the loop (assigned the opposite constant, or a value on a path that leaves the loop) — assigning it a fresh per-iteration result makes the last iteration decide alone",
	Run: func(c *Ctx) []Ob {
		var obs []Ob
		n := 0
		for _, f := range c.ModFns() {
			loops := loopsOf(f)
			cnt := 0
			for h, body := range loops {
				for _, ins := range h.Instrs {
					phi, ok := ins.(*ssa.Phi)
					if !ok {
						break
					}
					if b, ok := phi.Type().Underlying().(*types.Basic); !ok || b.Kind() != types.Bool {
						continue
					}
					// initial value: constant from outside the loop
					var init *bool
					for i, e := range phi.Edges {
						if body[h.Preds[i]] {
							continue
						}
						if cst, ok := e.(*ssa.Const); ok && cst.Value != nil && cst.Value.Kind() == constant.Bool {
							v := constant.BoolVal(cst.Value)
							init = &v
						}
					}
					if init == nil {
						continue
					}
					// used after the loop?
					usedAfter := false
					if refs := phi.Referrers(); refs != nil {
						for _, r := range *refs {
							if !body[r.Block()] {
								usedAfter = true
							}
						}
					}
					if !usedAfter {
						continue
					}
					n++
					cnt++
					key := fmt.Sprintf("ACC:%s#%d", fnKey(f), cnt)
					bad := ""
					var okVal func(v ssa.Value, d int) bool
					okVal = func(v ssa.Value, d int) bool {
						if d > 6 {
							return false
						}
						if v == ssa.Value(phi) {
							return true
						}
						if cst, ok := v.(*ssa.Const); ok && cst.Value != nil && cst.Value.Kind() == constant.Bool {
							return true
						}
						if p2, ok := v.(*ssa.Phi); ok && body[p2.Block()] {
							for _, e := range p2.Edges {
								if !okVal(e, d+1) {
									return false
								}
							}
							return true
						}
						// flag = flag && x / flag || x compile to phis; a BinOp on the flag itself is fine too
						if bo, ok := v.(*ssa.BinOp); ok && (bo.X == ssa.Value(phi) || bo.Y == ssa.Value(phi)) {
							return true
						}
						return false
					}
					for i, e := range phi.Edges {
						if !body[h.Preds[i]] {
							continue
						}
						if !okVal(e, 0) {
							bad = describeValue(e)
						}
					}
					if bad == "" {
						obs = append(obs, Ob{Key: key, Site: c.Pos(phi.Pos()), Verdict: OK})
					} else {
						obs = append(obs, Ob{Key: key, Site: c.Pos(phi.Pos()), Verdict: VIOLATION,
							Note: "loop-carried flag is overwritten in the loop by a per-iteration value (" + bad + ") that ignores its previous value: only the last iteration decides"})
					}
				}
			}
		}
		obs = append(obs, floor("ACC/loop-flag", "boolean flags carried around a loop and read after it", n, 10))
		return obs
	},
}


// constTableOf: the package-level map g is initialised by one composite literal of constant keys and values (MakeMap +
// MapUpdates + one Store in the package initialiser) and nothing else in the package stores into it or updates it
var constTableCache = map[*ssa.Global]map[string]constant.Value{}

func constTableOf(g *ssa.Global) (map[string]constant.Value, bool) {
	if t, ok := constTableCache[g]; ok {
		return t, t != nil
	}
	constTableCache[g] = nil
	pkg := g.Pkg
	if pkg == nil {
		return nil, false
	}
	var mk *ssa.MakeMap
	stores := 0
	for _, mem := range pkg.Members {
		fn, ok := mem.(*ssa.Function)
		if !ok {
			continue
		}
		fns := append([]*ssa.Function{fn}, fn.AnonFuncs...)
		for _, f := range fns {
			for _, b := range f.Blocks {
				for _, ins := range b.Instrs {
					switch x := ins.(type) {
					case *ssa.Store:
						if x.Addr == ssa.Value(g) {
							stores++
							mk, _ = x.Val.(*ssa.MakeMap)
							if f.Name() != "init" {
								return nil, false
							}
						}
					case *ssa.MapUpdate:
						if ld, ok := x.Map.(*ssa.UnOp); ok && ld.X == ssa.Value(g) {
							return nil, false // updated through the variable somewhere
						}
					}
				}
			}
		}
	}
	// methods of the package's types may also write it
	for _, mem := range pkg.Members {
		if t, ok := mem.(*ssa.Type); ok {
			for _, ms := range []*types.MethodSet{pkg.Prog.MethodSets.MethodSet(t.Type()), pkg.Prog.MethodSets.MethodSet(types.NewPointer(t.Type()))} {
				for i := 0; i < ms.Len(); i++ {
					f := pkg.Prog.MethodValue(ms.At(i))
					if f == nil {
						continue
					}
					for _, b := range f.Blocks {
						for _, ins := range b.Instrs {
							switch x := ins.(type) {
							case *ssa.Store:
								if x.Addr == ssa.Value(g) {
									return nil, false
								}
							case *ssa.MapUpdate:
								if ld, ok := x.Map.(*ssa.UnOp); ok && ld.X == ssa.Value(g) {
									return nil, false
								}
							}
						}
					}
				}
			}
		}
	}
	if stores != 1 || mk == nil || mk.Referrers() == nil {
		return nil, false
	}
	tab := map[string]constant.Value{}
	for _, r := range *mk.Referrers() {
		switch x := r.(type) {
		case *ssa.MapUpdate:
			k, ok1 := x.Key.(*ssa.Const)
			v, ok2 := x.Value.(*ssa.Const)
			if !ok1 || !ok2 || k.Value == nil || v.Value == nil {
				return nil, false
			}
			tab[k.Value.ExactString()] = v.Value
		case *ssa.Store, *ssa.DebugRef:
		default:
			return nil, false
		}
	}
	constTableCache[g] = tab
	return tab, true
}
