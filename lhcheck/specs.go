package main

func allSpecs() []*propSpec {
	return []*propSpec{
		{ID: "C01", Rules: []*Rule{rulePanicP1, rulePanicP2, rulePanicP3, rulePanicP6, ruleTermT1, ruleTermLEX},
			NotCov: "index/slice/nil panics that depend on runtime values, stack depth proportional to input, bounded latency",
			Assume: []string{"jrpc2 v0.13.1 does not recover handler panics (read from its source)", "VTA call graph complete for non-reflective calls"}},
		{ID: "C10", Rules: []*Rule{ruleLock},
			NotCov: "races between the workers of one pool (they run concurrently under the launcher's lock; deciding fresh vs shared objects needs points-to information that is not available); crash-freedom of handlers (C01)",
			Assume: []string{"jrpc2 v0.13.1 dispatch semantics read from its source: Concurrency 4, notifications wait for all earlier notifications, requests unordered, a conformant client sends nothing before the initialize reply",
				"VTA call graph complete for non-reflective calls; handler list = MapUpdate entries of the handler.Map literal in CreateServer",
				"field-granular abstract locations over-approximate aliasing (RacerD style); objects allocated in the accessing function are not shared",
				"joined-pool allow-list frozen by reading (each launcher waits for one result per task before returning)"}},
		{ID: "C08", Rules: []*Rule{ruleKeyM1, ruleKeyM2, ruleKeyM3},
			NotCov: "fresh-start equivalence over event histories (selective re-analysis, publish/clear bookkeeping, unchanged-content shortcut)",
			Assume: []string{"VTA call graph complete for non-reflective calls"}},
		{ID: "C18", Rules: []*Rule{ruleKeyM1, ruleKeyM3},
			NotCov: "the path mapping itself (suffix match, scoring), agreement of diagnostic / definition / hover",
			Assume: []string{"VTA call graph complete for non-reflective calls"}},
		{ID: "C04", Rules: []*Rule{ruleLOC},
			NotCov: "column bookkeeping in the lexer (escapes, long brackets, non-ASCII), containment of ranges in the document, start<=end in general, identifier text under the range",
			Assume: []string{"Location values are only built from their four named fields (no unsafe / reflection)"}},
		{ID: "C19", Rules: []*Rule{ruleLOC},
			NotCov: "completeness of the outline, workspace-symbol matching, range values computed by the lexer",
			Assume: []string{"Location values are only built from their four named fields (no unsafe / reflection)"}},
	}
}
