package main

import (
	"fmt"
	"go/ast"
	"go/constant"
	"go/token"
	"go/types"
	"sort"
	"strings"

	"golang.org/x/tools/go/ssa"
)

const resultsPkg = modPath + "/langserver/check/results"

// documented contract (docs/manual/config.md, package.json of the VS Code client): position in
// the client flag list -> diagnostic type. Frozen reference table.
var flagOrder = []struct {
	Flag string
	Type string // CheckError constant name ("" for the master switch)
}{
	{"AllEnable", ""},
	{"CheckSyntax", "CheckErrorSyntax"},
	{"CheckNoDefine", "CheckErrorNoDefine"},
	{"CheckAfterDefine", "CheckErrorCycleDefine"},
	{"CheckLocalNoUse", "CheckErrorLocalNoUse"},
	{"CheckTableDuplicateKey", "CheckErrorTableDuplicateKey"},
	{"CheckReferNoFile", "CheckErrorNoFile"},
	{"CheckAssignParamNum", "CheckErrorAssignParamNum"},
	{"CheckLocalDefineParamNum", "CheckErrorLocalParamNum"},
	{"CheckGotoLable", "CheckErrorGotoLabel"},
	{"CheckFuncParam", "CheckErrorCallParam"},
	{"CheckImportModuleVar", "CheckErrorImportVar"},
	{"CheckIfNotVar", "CheckErrorNotIfVar"},
	{"CheckFunctionDuplicateParam", "CheckErrorDuplicateParam"},
	{"CheckBinaryExpressionDuplicate", "CheckErrorDuplicateExp"},
	{"CheckErrorOrAlwaysTrue", "CheckErrorOrAlwaysTrue"},
	{"CheckErrorAndAlwaysFalse", "CheckErrorAndAlwaysFalse"},
	{"CheckNoUseAssign", "CheckErrorNoUseAssign"},
	{"CheckAnnotateType", "CheckErrorAnnotate"},
	{"CheckDuplicateIf", "CheckErrorDuplicateIf"},
	{"CheckSelfAssign", "CheckErrorSelfAssign"},
	{"CheckFloatEq", "CheckErrorFloatEq"},
	{"CheckClassField", "CheckErrorClassField"},
	{"CheckConstAssign", "CheckErrorConstAssign"},
	{"CheckFuncParamType", "CheckErrorCallParamType"},
	{"CheckFuncReturnType", "CheckErrorFuncRetErr"},
}

// flagListFields: field names, in order, of the []bool composite literal returned by fn.
func flagListFields(c *Ctx, fn string, srcType string) ([]string, token.Pos, error) {
	p, fd := c.FuncDecl(langserverPkg, "", fn)
	var roots []ast.Node
	if fd != nil {
		roots = []ast.Node{fd.Body}
	} else if p = c.ByPath[langserverPkg]; p != nil {
		// the helper was inlined into its caller: the list is the []bool literal of the package whose elements are
		// fields of a srcType value
		for _, f := range p.Syntax {
			roots = append(roots, f)
		}
	}
	if p == nil || len(roots) == 0 {
		return nil, token.NoPos, fmt.Errorf("slot unresolved: langserver.%s", fn)
	}
	var out []string
	var pos token.Pos
	for _, root := range roots {
	ast.Inspect(root, func(n ast.Node) bool {
		cl, ok := n.(*ast.CompositeLit)
		if !ok || out != nil {
			return true
		}
		if fd == nil {
			// fallback search: at least 20 elements, the first one a field of srcType
			if len(cl.Elts) < 20 {
				return true
			}
			sel, ok := ast.Unparen(cl.Elts[0]).(*ast.SelectorExpr)
			if !ok {
				return true
			}
			bt, ok := p.TypesInfo.Types[sel.X]
			if !ok || namedName(bt.Type) != srcType {
				return true
			}
		}
		tv, ok := p.TypesInfo.Types[cl]
		if !ok {
			return true
		}
		sl, ok := tv.Type.Underlying().(*types.Slice)
		if !ok {
			return true
		}
		if b, ok := sl.Elem().Underlying().(*types.Basic); !ok || b.Kind() != types.Bool {
			return true
		}
		pos = cl.Pos()
		for _, el := range cl.Elts {
			sel, ok := ast.Unparen(el).(*ast.SelectorExpr)
			if !ok {
				out = append(out, "?")
				continue
			}
			out = append(out, sel.Sel.Name)
		}
		return false
	})
	}
	if out == nil {
		return nil, token.NoPos, fmt.Errorf("slot unresolved: []bool literal in langserver.%s", fn)
	}
	return out, pos, nil
}

func constIntValue(c *Ctx, pkgPath, name string) (int64, bool) {
	p := c.ByPath[pkgPath]
	if p == nil {
		return 0, false
	}
	o, ok := p.Types.Scope().Lookup(name).(*types.Const)
	if !ok {
		return 0, false
	}
	v, ok := constant.Int64Val(o.Val())
	return v, ok
}

var ruleCfgG1 = &Rule{
	Name: "CFG/G1-flag-lists",
	Text: "the two positional flag lists — getCheckFlagList (initialize) and getWarnCheckList (didChangeConfiguration) — name the same 26 settings in the same order, that order is the documented one, the JSON tags of both source structs carry the setting's name, and position i maps to the diagnostic type whose constant value is i (CheckErrorSyntax..: dense 1..25)",
	Run: func(c *Ctx) []Ob {
		var obs []Ob
		a, posA, errA := flagListFields(c, "getCheckFlagList", "InitializationOptions")
		b, posB, errB := flagListFields(c, "getWarnCheckList", "WarnParams")
		if errA != nil || errB != nil {
			return []Ob{{Key: "CFG/G1:slots", Verdict: UNDECIDED, Note: fmt.Sprint(errA, errB)}}
		}
		n := len(flagOrder)
		for i := 0; i < n; i++ {
			key := fmt.Sprintf("CFG/G1:position-%02d:%s", i, flagOrder[i].Flag)
			ga, gb := "<missing>", "<missing>"
			if i < len(a) {
				ga = a[i]
			}
			if i < len(b) {
				gb = b[i]
			}
			v, note := OK, ""
			if ga != flagOrder[i].Flag || gb != flagOrder[i].Flag {
				v, note = VIOLATION, fmt.Sprintf("position %d: initialize list has %s, settings-change list has %s, documented order has %s — the switch silences a different diagnostic type depending on how the setting arrives", i, ga, gb, flagOrder[i].Flag)
			}
			if flagOrder[i].Type != "" && v == OK {
				if val, ok := constIntValue(c, commonPkg, flagOrder[i].Type); !ok || val != int64(i) {
					v, note = VIOLATION, fmt.Sprintf("position %d (%s) must map to %s, whose value is %d", i, flagOrder[i].Flag, flagOrder[i].Type, val)
				}
			}
			obs = append(obs, Ob{Key: key, Site: c.Pos(posA), Verdict: v, Note: note})
		}
		if len(a) != n || len(b) != n {
			obs = append(obs, Ob{Key: "CFG/G1:length", Site: c.Pos(posB), Verdict: VIOLATION, Note: fmt.Sprintf("flag lists have %d and %d entries, documented: %d", len(a), len(b), n)})
		}
		// json tags
		for _, st := range []string{"InitializationOptions", "WarnParams"} {
			p := c.ByPath[langserverPkg]
			o := p.Types.Scope().Lookup(st)
			if o == nil {
				obs = append(obs, Ob{Key: "CFG/G1:tags:" + st, Verdict: UNDECIDED, Note: "slot unresolved: langserver." + st})
				continue
			}
			s := o.Type().Underlying().(*types.Struct)
			tags := map[string]string{}
			for i := 0; i < s.NumFields(); i++ {
				tags[s.Field(i).Name()] = s.Tag(i)
			}
			bad := []string{}
			for _, fo := range flagOrder {
				t, ok := tags[fo.Flag]
				if !ok || !strings.Contains(t, `json:"`+fo.Flag+`,`) && !strings.Contains(t, `json:"`+fo.Flag+`"`) {
					bad = append(bad, fo.Flag)
				}
			}
			if len(bad) > 0 {
				obs = append(obs, Ob{Key: "CFG/G1:tags:" + st, Site: c.Pos(o.Pos()), Verdict: VIOLATION, Note: "settings whose JSON tag is not their own name (the client sends named fields): " + strings.Join(bad, ", ")})
			} else {
				obs = append(obs, Ob{Key: "CFG/G1:tags:" + st, Site: c.Pos(o.Pos()), Verdict: OK})
			}
		}
		_ = posB
		return obs
	},
}

// errTypeConst: v is a constant of type common.CheckErrorType; returns its value.
func errTypeConst(v ssa.Value) (int64, bool) {
	for {
		switch x := v.(type) {
		case *ssa.Convert:
			v = x.X
			continue
		case *ssa.ChangeType:
			v = x.X
			continue
		}
		break
	}
	c, ok := v.(*ssa.Const)
	if !ok || c.Value == nil || c.Value.Kind() != constant.Int {
		return 0, false
	}
	i, ok := constant.Int64Val(c.Value)
	return i, ok
}

func errTypeName(c *Ctx, v int64) string {
	p := c.ByPath[commonPkg]
	if p == nil {
		return fmt.Sprint(v)
	}
	for _, n := range p.Types.Scope().Names() {
		if k, ok := p.Types.Scope().Lookup(n).(*types.Const); ok && strings.HasPrefix(n, "CheckError") && k.Val().Kind() == constant.Int && n != "CheckErrorMax" {
			if iv, ok := constant.Int64Val(k.Val()); ok && iv == v {
				return n
			}
		}
	}
	return fmt.Sprint(v)
}

// guardInfo: a call to IsGlobalIgnoreErrType(const) / IsIgnoreErrorFile(file, t) with its branch targets.
type ignoreGuard struct {
	call    *ssa.Call
	typ     ssa.Value
	ignored *ssa.BasicBlock
	kept    *ssa.BasicBlock
}

func ignoreGuards(f *ssa.Function, method string, typArg int) []ignoreGuard {
	var out []ignoreGuard
	for _, b := range f.Blocks {
		for _, ins := range b.Instrs {
			call, ok := ins.(*ssa.Call)
			if !ok {
				continue
			}
			sc := call.Call.StaticCallee()
			if sc == nil || sc.Name() != method || sc.Pkg == nil || sc.Pkg.Pkg.Path() != commonPkg {
				continue
			}
			if typArg >= len(call.Call.Args) {
				continue
			}
			ig, kp, ok := branchTargets(call)
			if !ok {
				continue
			}
			out = append(out, ignoreGuard{call: call, typ: call.Call.Args[typArg], ignored: ig, kept: kp})
		}
	}
	return out
}

// partiallyGated: b can be reached after the guard's "not ignored" edge but not after its "ignored" edge, although
// the guard does not dominate b (`if op == eq { if ignored(Y) { return } ... }` followed by the emission of X: when Y
// is switched off, X is lost for every `==` expression). Not counted: a guard that is itself evaluated only when X
// is already switched off (`if ignored(X) && ignored(Y) { return }`), and a per-file guard evaluated only when Y is
// not switched off globally (`if !ignored(Y) && ignoredForFile(f, Y) { return }`: a rule for that file is meant).
func partiallyGated(g ignoreGuard, b *ssa.BasicBlock, x int64, all []ignoreGuard) bool {
	if g.kept == nil || g.ignored == nil || g.kept == g.ignored {
		return false
	}
	reachFrom := func(start *ssa.BasicBlock) map[*ssa.BasicBlock]bool {
		seen := map[*ssa.BasicBlock]bool{}
		var walk func(x *ssa.BasicBlock)
		walk = func(x *ssa.BasicBlock) {
			if seen[x] {
				return
			}
			seen[x] = true
			for _, s := range x.Succs {
				walk(s)
			}
		}
		walk(start)
		return seen
	}
	if !reachFrom(g.kept)[b] || reachFrom(g.ignored)[b] {
		return false
	}
	gy, _ := errTypeConst(g.typ)
	for _, h := range all {
		if h.call == g.call || h.ignored == nil || h.kept == nil {
			continue
		}
		hy, ok := errTypeConst(h.typ)
		if !ok {
			continue
		}
		under := func(edge *ssa.BasicBlock) bool {
			return len(edge.Preds) == 1 && (edge == g.call.Block() || edge.Dominates(g.call.Block()))
		}
		if hy == x && under(h.ignored) {
			return false // evaluated only when X is already off
		}
		if hy == gy && under(h.kept) {
			return false // evaluated only when Y is not off globally: a narrower (per-file) rule
		}
	}
	return true
}

// dominatedByKept: block b is reached only through the guard's "not ignored" edge.
func dominatedByKept(g ignoreGuard, b *ssa.BasicBlock) bool {
	if g.kept == nil || g.kept == g.ignored {
		return false
	}
	if len(g.kept.Preds) == 1 {
		return g.kept == b || g.kept.Dominates(b)
	}
	// early-return shape: the ignored successor ends in return and cannot reach b, and the guard's block dominates b
	if !g.call.Block().Dominates(b) {
		return false
	}
	reach := map[*ssa.BasicBlock]bool{}
	var walk func(x *ssa.BasicBlock)
	walk = func(x *ssa.BasicBlock) {
		if reach[x] {
			return
		}
		reach[x] = true
		for _, s := range x.Succs {
			walk(s)
		}
	}
	walk(g.ignored)
	return !reach[b]
}

var ruleCfgG3 = &Rule{
	Name:    "CFG/G3-choke-point",
	NeedSSA: true,
	Text:    "every append of a common.CheckError to a diagnostics vector (FileResult.CheckErrVec, AnnotateFile.checkErrVec) happens only on the 'not ignored' branch of GConfig.IsIgnoreErrorFile(file, t) with t the very type stored in the appended error: the single choke point through which per-type, per-file and master switches act",
	Run: func(c *Ctx) []Ob {
		var obs []Ob
		n := 0
		for _, f := range c.ModFns() {
			for _, b := range f.Blocks {
				for _, ins := range b.Instrs {
					st, ok := ins.(*ssa.Store)
					if !ok {
						continue
					}
					fa, ok := st.Addr.(*ssa.FieldAddr)
					if !ok {
						continue
					}
					fname := fieldName(fa.X.Type(), fa.Field)
					if fname != "CheckErrVec" && fname != "checkErrVec" {
						continue
					}
					call, ok := st.Val.(*ssa.Call)
					if !ok {
						continue
					}
					_, elems, ok := appendedValues(call)
					if !ok {
						continue
					}
					n++
					key := fmt.Sprintf("CFG/G3:%s:append-%s", fnKey(f), fname)
					// ErrType of the appended element
					var et ssa.Value
					for _, el := range elems {
						if u, ok := el.(*ssa.UnOp); ok && u.Op == token.MUL {
							if al, ok := u.X.(*ssa.Alloc); ok {
								if refs := al.Referrers(); refs != nil {
									for _, r := range *refs {
										if fa2, ok := r.(*ssa.FieldAddr); ok && fieldName(fa2.X.Type(), fa2.Field) == "ErrType" {
											if frefs := fa2.Referrers(); frefs != nil {
												for _, rr := range *frefs {
													if s2, ok := rr.(*ssa.Store); ok && s2.Addr == fa2 {
														et = s2.Val
													}
												}
											}
										}
									}
								}
							}
						}
					}
					if et == nil {
						obs = append(obs, Ob{Key: key, Site: c.Pos(st.Pos()), Verdict: UNDECIDED, Note: "cannot identify the ErrType of the appended diagnostic"})
						continue
					}
					ok2 := false
					for _, g := range ignoreGuards(f, "IsIgnoreErrorFile", 2) {
						same := g.typ == et
						if !same {
							a, oka := errTypeConst(g.typ)
							b2, okb := errTypeConst(et)
							same = oka && okb && a == b2
						}
						if same && dominatedByKept(g, st.Block()) {
							ok2 = true
						}
					}
					if !ok2 {
						// an unexported function all of whose call sites sit on the kept branch for that very type
						// (pushParseErrors, extracted from a loop that keeps the guard)
						if etc, isConst := errTypeConst(et); isConst {
							if sites, closed := closedCallSites(c, f); closed && len(sites) > 0 {
								all := true
								for _, cs := range sites {
									covered := false
									for _, g := range ignoreGuards(cs.Parent(), "IsIgnoreErrorFile", 2) {
										if a, oka := errTypeConst(g.typ); oka && a == etc && dominatedByKept(g, cs.Block()) {
											covered = true
										}
									}
									all = all && covered
								}
								ok2 = all
							}
						}
					}
					if ok2 {
						obs = append(obs, Ob{Key: key, Site: c.Pos(st.Pos()), Verdict: OK, Note: "append dominated by the kept-branch of IsIgnoreErrorFile with the same type"})
					} else {
						obs = append(obs, Ob{Key: key, Site: c.Pos(st.Pos()), Verdict: VIOLATION, Note: "diagnostic appended without passing IsIgnoreErrorFile(file, its own type): switches and ignore rules do not apply to it"})
					}
				}
			}
		}
		obs = append(obs, floor("CFG/G3-choke-point", "diagnostic append sites", n, 4))
		return obs
	},
}

var ruleCfgG4 = &Rule{
	Name:    "CFG/G4-guard-emission-agreement",
	NeedSSA: true,
	Text:    "wherever an InsertError / InsertRelateError of a constant diagnostic type X executes only on the 'not ignored' side of GConfig.IsGlobalIgnoreErrType(Y) or GConfig.IsIgnoreErrorFile(file, Y) (nested if, or early return), Y == X: otherwise switching Y off also removes X's diagnostics",
	Run: func(c *Ctx) []Ob {
		var obs []Ob
		nEm, nGuarded := 0, 0
		for _, f := range c.ModFns() {
			guards := ignoreGuards(f, "IsGlobalIgnoreErrType", 1)
			// IsIgnoreErrorFile(file, Y) is true whenever Y is switched off globally: an emission of X behind its
			// "not ignored" side is gated by Y's switch as well
			guards = append(guards, ignoreGuards(f, "IsIgnoreErrorFile", 2)...)
			cnt := map[string]int{}
			for _, b := range f.Blocks {
				for _, ins := range b.Instrs {
					call, ok := ins.(*ssa.Call)
					if !ok {
						continue
					}
					sc := call.Call.StaticCallee()
					if sc == nil || (sc.Name() != "InsertError" && sc.Name() != "InsertRelateError") || sc.Pkg == nil || sc.Pkg.Pkg.Path() != resultsPkg {
						continue
					}
					if len(call.Call.Args) < 2 {
						continue
					}
					x, ok := errTypeConst(call.Call.Args[1])
					if !ok {
						continue
					}
					nEm++
					var foreign []string
					own := false
					for _, g := range guards {
						y, ok := errTypeConst(g.typ)
						if !ok || (!dominatedByKept(g, b) && !(y != x && partiallyGated(g, b, x, guards))) {
							continue
						}
						if y == x {
							own = true
						} else {
							foreign = append(foreign, errTypeName(c, y))
						}
					}
					if !own && len(foreign) == 0 {
						continue
					}
					nGuarded++
					k := fmt.Sprintf("CFG/G4:%s:emit-%s", fnKey(f), errTypeName(c, x))
					cnt[k]++
					if cnt[k] > 1 {
						k = fmt.Sprintf("%s#%d", k, cnt[k])
					}
					if len(foreign) > 0 {
						sort.Strings(foreign)
						obs = append(obs, Ob{Key: k, Site: c.Pos(call.Pos()), Verdict: VIOLATION,
							Note: fmt.Sprintf("diagnostic %s is emitted only when %s is NOT switched off: turning that other check off silences this one too", errTypeName(c, x), strings.Join(foreign, ", "))})
					} else {
						obs = append(obs, Ob{Key: k, Site: c.Pos(call.Pos()), Verdict: OK})
					}
				}
			}
		}
		// interprocedural part: a call that is executed only when Y is not switched off, to a function that
		// (transitively, depth 3) emits a diagnostic of another constant type
		emitsDirect := map[*ssa.Function]map[int64]bool{}
		for _, f := range c.ModFns() {
			for _, b := range f.Blocks {
				for _, ins := range b.Instrs {
					call, ok := ins.(*ssa.Call)
					if !ok {
						continue
					}
					sc := call.Call.StaticCallee()
					if sc == nil || (sc.Name() != "InsertError" && sc.Name() != "InsertRelateError") || sc.Pkg == nil || sc.Pkg.Pkg.Path() != resultsPkg || len(call.Call.Args) < 2 {
						continue
					}
					if x, ok := errTypeConst(call.Call.Args[1]); ok {
						if emitsDirect[f] == nil {
							emitsDirect[f] = map[int64]bool{}
						}
						emitsDirect[f][x] = true
					}
				}
			}
		}
		var emitsOf func(g *ssa.Function, d int, seen map[*ssa.Function]bool) map[int64]bool
		emitsOf = func(g *ssa.Function, d int, seen map[*ssa.Function]bool) map[int64]bool {
			out := map[int64]bool{}
			if g == nil || seen[g] || d > 3 {
				return out
			}
			seen[g] = true
			for x := range emitsDirect[g] {
				out[x] = true
			}
			for _, b := range g.Blocks {
				for _, ins := range b.Instrs {
					if call, ok := ins.(*ssa.Call); ok {
						if sc := call.Call.StaticCallee(); sc != nil && c.IsModFn(sc) && strings.HasPrefix(sc.Name(), "cg") == false {
							for x := range emitsOf(sc, d+1, seen) {
								out[x] = true
							}
						}
					}
				}
			}
			return out
		}
		nInter := 0
		for _, f := range c.ModFns() {
			guards := ignoreGuards(f, "IsGlobalIgnoreErrType", 1)
			if len(guards) == 0 {
				continue
			}
			cnt := map[string]int{}
			for _, b := range f.Blocks {
				for _, ins := range b.Instrs {
					call, ok := ins.(*ssa.Call)
					if !ok {
						continue
					}
					g := call.Call.StaticCallee()
					if g == nil || !c.IsModFn(g) || g == f || strings.HasPrefix(g.Name(), "cg") {
						continue // the recursive walker (cg*) re-enters every check: not a per-check helper
					}
					for _, gd := range guards {
						y, ok := errTypeConst(gd.typ)
						if !ok || !dominatedByKept(gd, b) {
							continue
						}
						em := emitsOf(g, 0, map[*ssa.Function]bool{})
						var foreign []string
						for x := range em {
							if x != y {
								foreign = append(foreign, errTypeName(c, x))
							}
						}
						if len(em) == 0 {
							continue
						}
						nInter++
						k := fmt.Sprintf("CFG/G4:%s:call-%s", fnKey(f), g.Name())
						cnt[k]++
						if cnt[k] > 1 {
							k = fmt.Sprintf("%s#%d", k, cnt[k])
						}
						if len(foreign) > 0 {
							sort.Strings(foreign)
							obs = append(obs, Ob{Key: k, Site: c.Pos(call.Pos()), Verdict: VIOLATION,
								Note: fmt.Sprintf("%s is called only when %s is NOT switched off, but it emits %s: turning that check off silences these too", g.Name(), errTypeName(c, y), strings.Join(foreign, ", "))})
						} else {
							obs = append(obs, Ob{Key: k, Site: c.Pos(call.Pos()), Verdict: OK})
						}
					}
				}
			}
		}
		c.Stats["guarded_calls_to_emitters"] = nInter
		c.Stats["diagnostic_emission_sites"] = nEm
		c.Stats["diagnostic_emission_sites_guarded"] = nGuarded
		obs = append(obs, floor("CFG/G4-guard-emission-agreement", "constant-type emission sites", nEm, 40))
		obs = append(obs, floor("CFG/G4-guard-emission-agreement", "emission sites under a global-ignore guard", nGuarded, 8))
		return obs
	},
}

var ruleCfgG2 = &Rule{
	Name:    "CFG/G2-index-to-type",
	NeedSSA: true,
	Text:    "handleNotJSONCheckFlag maps flag index i to CheckErrorType(i): every store into IgnoreErrorTypeMap uses the loop index (converted) as key, the loop runs from CheckErrorSyntax to CheckErrorMax, and the diagnostic type constants are dense and distinct (1..Max-1)",
	Run: func(c *Ctx) []Ob {
		var obs []Ob
		f := c.SSAFunc(commonPkg, "GlobalConfig", "handleNotJSONCheckFlag")
		if f == nil {
			return []Ob{{Key: "CFG/G2:slots", Verdict: UNDECIDED, Note: "slot unresolved: GlobalConfig.handleNotJSONCheckFlag"}}
		}
		n := 0
		for _, b := range f.Blocks {
			for _, ins := range b.Instrs {
				mu, ok := ins.(*ssa.MapUpdate)
				if !ok {
					continue
				}
				fld, _, _, ok := mapOrigin(mu.Map, 0)
				if !ok || fld.Name() != "IgnoreErrorTypeMap" {
					continue
				}
				n++
				key := fmt.Sprintf("CFG/G2:store#%d", n)
				// key must be a conversion of a loop phi that is compared with the constants Syntax / Max
				k := mu.Key
				for {
					if cv, ok := k.(*ssa.Convert); ok {
						k = cv.X
						continue
					}
					if ct, ok := k.(*ssa.ChangeType); ok {
						k = ct.X
						continue
					}
					break
				}
				phi, isPhi := k.(*ssa.Phi)
				okLoop := false
				if isPhi {
					startOK, stepOK := false, false
					for _, e := range phi.Edges {
						if cst, ok := e.(*ssa.Const); ok && cst.Value != nil {
							if v, ok := constant.Int64Val(cst.Value); ok {
								if s, ok2 := constIntValue(c, commonPkg, "CheckErrorSyntax"); ok2 && v == s {
									startOK = true
								}
							}
						}
						if bo, ok := e.(*ssa.BinOp); ok && bo.Op == token.ADD && bo.X == phi {
							if cst, ok := bo.Y.(*ssa.Const); ok && cst.Value != nil {
								if v, ok := constant.Int64Val(cst.Value); ok && v == 1 {
									stepOK = true
								}
							}
						}
					}
					okLoop = startOK && stepOK
				}
				if okLoop {
					obs = append(obs, Ob{Key: key, Site: c.Pos(mu.Pos()), Verdict: OK, Note: "key is the loop index running from CheckErrorSyntax in steps of 1"})
				} else {
					obs = append(obs, Ob{Key: key, Site: c.Pos(mu.Pos()), Verdict: VIOLATION, Note: "IgnoreErrorTypeMap is not keyed by the flag's own index (loop from CheckErrorSyntax, step 1)"})
				}
			}
		}
		obs = append(obs, floor("CFG/G2-index-to-type", "stores into IgnoreErrorTypeMap", n, 3))
		// density of the constants
		max, okm := constIntValue(c, commonPkg, "CheckErrorMax")
		seen := map[int64]string{}
		dense := okm
		p := c.ByPath[commonPkg]
		if p != nil {
			for _, nm := range p.Types.Scope().Names() {
				if k, ok := p.Types.Scope().Lookup(nm).(*types.Const); ok && strings.HasPrefix(nm, "CheckError") && k.Val().Kind() == constant.Int && nm != "CheckErrorMax" {
					if v, ok := constant.Int64Val(k.Val()); ok {
						if o, dup := seen[v]; dup {
							dense = false
							obs = append(obs, Ob{Key: "CFG/G2:distinct:" + nm, Verdict: VIOLATION, Note: nm + " and " + o + " have the same value"})
						}
						seen[v] = nm
					}
				}
			}
		}
		for i := int64(1); okm && i < max; i++ {
			if _, ok := seen[i]; !ok {
				dense = false
			}
		}
		v := OK
		if !dense {
			v = VIOLATION
		}
		obs = append(obs, Ob{Key: "CFG/G2:dense", Site: "luahelper-lsp/langserver/check/common/err_info.go:1", Verdict: v, Note: fmt.Sprintf("diagnostic types 1..%d dense and distinct: %v", max-1, dense)})
		return obs
	},
}

// reviewed accumulations without reset (frozen by reading)
var reviewedAccumulations = map[string]string{
	"handleNotJSONCheckFlag:IgnoreErrorTypeMap#1": "master switch off: the loop marks EVERY type (no condition on a flag), a superset of anything left over",
	"handleNotJSONCheckFlag:ReferOtherFileMap#1":  "additive registry of include-function names taken from the static JSON configuration; re-adding is idempotent",
	"handleNotJSONCheckFlag:LuaInMap#1":           "same registry mirrored into the built-in name table",
	"ReadConfig:ReferOtherFileMap#1":              "additive registry (ReadConfig runs once, at initialize)",
	"ReadConfig:LuaInMap#1":                       "additive registry (ReadConfig runs once, at initialize)",
}

var ruleCfgG7 = &Rule{
	Name:    "CFG/G7-reset-before-rebuild",
	NeedSSA: true,
	Text:    "settings are applied repeatedly (initialize, every didChangeConfiguration): in handleNotJSONCheckFlag and ReadConfig every GlobalConfig container that is accumulated into (map store, append) is first replaced by a fresh container on every path from the function's entry — otherwise entries from earlier settings leak into later ones and the same settings give different diagnostics depending on how they arrived",
	Run: func(c *Ctx) []Ob {
		var obs []Ob
		n := 0
		for _, fname := range []string{"handleNotJSONCheckFlag", "ReadConfig"} {
			f := c.SSAFunc(commonPkg, "GlobalConfig", fname)
			if f == nil {
				obs = append(obs, Ob{Key: "CFG/G7:" + fname, Verdict: UNDECIDED, Note: "slot unresolved: GlobalConfig." + fname})
				continue
			}
			// field written by an accumulation instruction
			accField := func(ins ssa.Instruction) *types.Var {
				switch x := ins.(type) {
				case *ssa.MapUpdate:
					if fld, owner, nest, ok := mapOrigin(x.Map, 0); ok && nest == 0 && owner == "GlobalConfig" {
						return fld
					}
				case *ssa.Store:
					if call, ok := x.Val.(*ssa.Call); ok {
						if old, _, _ := appendedValues(call); old != nil {
							if fa, ok := x.Addr.(*ssa.FieldAddr); ok && namedName(fa.X.Type()) == "GlobalConfig" {
								st := fa.X.Type().Underlying().(*types.Pointer).Elem().Underlying().(*types.Struct)
								return st.Field(fa.Field)
							}
						} else if b, ok := call.Call.Value.(*ssa.Builtin); ok && b.Name() == "append" {
							if fa, ok := x.Addr.(*ssa.FieldAddr); ok && namedName(fa.X.Type()) == "GlobalConfig" {
								st := fa.X.Type().Underlying().(*types.Pointer).Elem().Underlying().(*types.Struct)
								return st.Field(fa.Field)
							}
						}
					}
				}
				return nil
			}
			isReset := func(fld *types.Var) func(ssa.Instruction) bool {
				return func(ins ssa.Instruction) bool {
					st, ok := ins.(*ssa.Store)
					if !ok {
						return false
					}
					fa, ok := st.Addr.(*ssa.FieldAddr)
					if !ok || namedName(fa.X.Type()) != "GlobalConfig" {
						return false
					}
					s := fa.X.Type().Underlying().(*types.Pointer).Elem().Underlying().(*types.Struct)
					if s.Field(fa.Field) != fld {
						return false
					}
					switch v := st.Val.(type) {
					case *ssa.MakeMap, *ssa.MakeSlice:
						return true
					case *ssa.Const:
						return v.Value == nil
					case *ssa.Slice:
						_, isAlloc := v.X.(*ssa.Alloc)
						return isAlloc
					}
					return false
				}
			}
			fields := map[*types.Var]bool{}
			for _, b := range f.Blocks {
				for _, ins := range b.Instrs {
					if fld := accField(ins); fld != nil {
						fields[fld] = true
					}
				}
			}
			var fl []*types.Var
			for k := range fields {
				fl = append(fl, k)
			}
			sort.Slice(fl, func(i, j int) bool { return fl[i].Name() < fl[j].Name() })
			for _, fld := range fl {
				fld := fld
				bad := mustPrecede(f, isReset(fld), func(ins ssa.Instruction) bool { return accField(ins) == fld })
				n++
				if len(bad) == 0 {
					obs = append(obs, Ob{Key: fmt.Sprintf("CFG/G7:%s:%s", fname, fld.Name()), Site: c.Pos(f.Pos()), Verdict: OK, Note: "reset precedes every accumulation"})
					continue
				}
				sort.Slice(bad, func(i, j int) bool { return bad[i].Pos() < bad[j].Pos() })
				// group by ordinal
				allReviewed := true
				for i := range bad {
					if _, ok := reviewedAccumulations[fmt.Sprintf("%s:%s#%d", fname, fld.Name(), i+1)]; !ok {
						allReviewed = false
					}
				}
				key := fmt.Sprintf("CFG/G7:%s:%s", fname, fld.Name())
				if allReviewed {
					obs = append(obs, Ob{Key: key, Site: c.Pos(bad[0].Pos()), Verdict: OK, Note: "accumulation without reset, reviewed: " + reviewedAccumulations[fmt.Sprintf("%s:%s#1", fname, fld.Name())]})
				} else {
					obs = append(obs, Ob{Key: key, Site: c.Pos(bad[0].Pos()), Verdict: VIOLATION,
						Note: fmt.Sprintf("GlobalConfig.%s is accumulated into on a path that has not replaced it by a fresh container (%d site(s)): entries from earlier settings survive a settings change", fld.Name(), len(bad))})
				}
			}
		}
		obs = append(obs, floor("CFG/G7-reset-before-rebuild", "accumulated GlobalConfig containers", n, 10))
		return obs
	},
}

// loopsOf: natural loops of f as header -> set of blocks
func loopsOf(f *ssa.Function) map[*ssa.BasicBlock]map[*ssa.BasicBlock]bool {
	loops := map[*ssa.BasicBlock]map[*ssa.BasicBlock]bool{}
	for _, b := range f.Blocks {
		for _, s := range b.Succs {
			if s.Dominates(b) { // back edge b -> s
				body := loops[s]
				if body == nil {
					body = map[*ssa.BasicBlock]bool{s: true}
					loops[s] = body
				}
				var stack []*ssa.BasicBlock
				if !body[b] {
					body[b] = true
					stack = append(stack, b)
				}
				for len(stack) > 0 {
					x := stack[len(stack)-1]
					stack = stack[:len(stack)-1]
					for _, p := range x.Preds {
						if !body[p] {
							body[p] = true
							stack = append(stack, p)
						}
					}
				}
			}
		}
	}
	return loops
}

var ruleCfgG8 = &Rule{
	Name:    "CFG/G8-per-key-container",
	NeedSSA: true,
	Text:    "a container (map) that is stored as the value of a map entry inside a loop and also filled inside that loop is allocated inside the loop: one allocated before the loop would be shared by every key (per-file ignore lists, per-name tables would leak into each other)",
	Run: func(c *Ctx) []Ob {
		var obs []Ob
		n := 0
		for _, f := range c.ModFns() {
			loops := loopsOf(f)
			if len(loops) == 0 {
				continue
			}
			for _, b := range f.Blocks {
				for _, ins := range b.Instrs {
					mu, ok := ins.(*ssa.MapUpdate)
					if !ok {
						continue
					}
					mk, ok := mu.Value.(*ssa.MakeMap)
					if !ok {
						continue
					}
					// innermost loop containing the store
					for h, body := range loops {
						if !body[b] {
							continue
						}
						n++
						if body[mk.Block()] {
							continue // allocated per iteration
						}
						// filled inside the loop?
						filled := false
						if refs := mk.Referrers(); refs != nil {
							for _, r := range *refs {
								if m2, ok := r.(*ssa.MapUpdate); ok && m2.Map == mk && body[m2.Block()] {
									filled = true
								}
							}
						}
						if filled {
							obs = append(obs, Ob{Key: "CFG/G8:" + fnKey(f), Site: c.Pos(mu.Pos()), Verdict: VIOLATION,
								Note: fmt.Sprintf("map allocated at %s (outside the loop headed at %s) is stored under every key of the loop and filled in the loop: all keys share one map", c.Pos(mk.Pos()), c.Pos(h.Instrs[0].Pos()))})
						}
					}
				}
			}
		}
		c.Stats["map_valued_entries_stored_in_loops"] = n
		obs = append(obs, Ob{Key: "CFG/G8:scan", Site: "luahelper-lsp", Verdict: OK, Note: fmt.Sprintf("%d stores of a freshly made map as a map value inside a loop examined", n)})
		obs = append(obs, floor("CFG/G8-per-key-container", "map-valued entries stored in loops", n, 2))
		return obs
	},
}
