package main

import (
	"go/constant"
	"fmt"
	"go/token"
	"go/types"
	"sort"
	"strings"

	"golang.org/x/tools/go/ssa"
)

const astPkg = modPath + "/langserver/check/compiler/ast"
const annAstPkg = modPath + "/langserver/check/annotation/annotateast"
const annLexPkg = modPath + "/langserver/check/annotation/annotatelexer"
const annParPkg = modPath + "/langserver/check/annotation/annotateparser"
const parserPkg = modPath + "/langserver/check/compiler/parser"

// ---------------------------------------------------------------------------------------------
// inductive datatypes (frozen slot list, with the reason their instances are finite trees)

var inductiveCommon = map[string]string{
	"ScopeInfo":        "tree built by CreateScopeInfo: SubScopes children are fresh, Parent points up",
	"VarInfo":          "SubMaps members are created per declaration, never linked back",
	"FileSymbolStruct": "Children built bottom-up as values",
	"FuncInfo":         "Parent points to the enclosing function (finite chain)",
}

func isInductiveType(t types.Type) bool {
	for {
		t = types.Unalias(t)
		switch x := t.(type) {
		case *types.Pointer:
			t = x.Elem()
			continue
		case *types.Slice:
			t = x.Elem()
			continue
		case *types.Array:
			t = x.Elem()
			continue
		}
		break
	}
	n, ok := types.Unalias(t).(*types.Named)
	if !ok || n.Obj().Pkg() == nil {
		return false
	}
	switch n.Obj().Pkg().Path() {
	case astPkg, annAstPkg:
		// every node type of the two ASTs: built once by the (annotation) parser, children fresh
		return true
	case commonPkg:
		_, ok := inductiveCommon[n.Obj().Name()]
		return ok
	}
	return false
}

// up-projections: fields that lead towards the root of an inductive structure
func isUpField(name string) bool {
	switch name {
	case "Parent", "Prev", "parent":
		return true
	}
	return false
}

// origin of a value relative to the enclosing function's parameters
type origin struct {
	param  *ssa.Parameter
	down   int
	up     int
	fresh  bool // nil constant or value allocated in this function: size 0
	ok     bool
	reason string
}

func fieldName(t types.Type, idx int) string {
	if p, ok := t.Underlying().(*types.Pointer); ok {
		t = p.Elem()
	}
	if st, ok := t.Underlying().(*types.Struct); ok && idx < st.NumFields() {
		return st.Field(idx).Name()
	}
	return "?"
}

type originTracer struct {
	memo map[ssa.Value]origin
	busy map[ssa.Value]bool
}

func newTracer() *originTracer {
	return &originTracer{memo: map[ssa.Value]origin{}, busy: map[ssa.Value]bool{}}
}

func (t *originTracer) of(v ssa.Value) origin {
	if o, ok := t.memo[v]; ok {
		return o
	}
	if t.busy[v] {
		return origin{reason: "cyclic value"}
	}
	t.busy[v] = true
	o := t.compute(v)
	delete(t.busy, v)
	t.memo[v] = o
	return o
}

func step(o origin, name string) origin {
	if !o.ok || o.fresh {
		return o
	}
	if isUpField(name) {
		o.up++
	} else {
		o.down++
	}
	return o
}

func (t *originTracer) compute(v ssa.Value) origin {
	switch x := v.(type) {
	case *ssa.Parameter:
		return origin{param: x, ok: true}
	case *ssa.Const:
		if x.Value == nil {
			return origin{fresh: true, ok: true}
		}
		return origin{reason: "constant"}
	case *ssa.FieldAddr:
		return step(t.of(x.X), fieldName(x.X.Type(), x.Field))
	case *ssa.Field:
		return step(t.of(x.X), fieldName(x.X.Type(), x.Field))
	case *ssa.IndexAddr:
		return step(t.of(x.X), "[]")
	case *ssa.Index:
		return step(t.of(x.X), "[]")
	case *ssa.Lookup:
		return step(t.of(x.X), "[]")
	case *ssa.Extract:
		return t.of(x.Tuple)
	case *ssa.Next:
		if r, ok := x.Iter.(*ssa.Range); ok {
			if mm, isLocal := r.X.(*ssa.MakeMap); isLocal {
				return t.localMapKeys(mm)
			}
			return step(t.of(r.X), "[]")
		}
	case *ssa.TypeAssert:
		return t.of(x.X)
	case *ssa.ChangeInterface:
		return t.of(x.X)
	case *ssa.MakeInterface:
		return t.of(x.X)
	case *ssa.ChangeType:
		return t.of(x.X)
	case *ssa.Convert:
		return t.of(x.X)
	case *ssa.Slice:
		return t.of(x.X)
	case *ssa.MakeMap, *ssa.MakeSlice, *ssa.MakeChan:
		return origin{fresh: true, ok: true}
	case *ssa.Alloc:
		// spilled parameter / local: all stores must agree
		return t.allocOrigin(x)
	case *ssa.UnOp:
		if x.Op == token.MUL {
			switch a := x.X.(type) {
			case *ssa.Alloc:
				return t.allocOrigin(a)
			case *ssa.FieldAddr, *ssa.IndexAddr:
				return t.of(a)
			}
			return origin{reason: "load through " + describeValue(x.X)}
		}
	case *ssa.Phi:
		var res origin
		first := true
		for _, e := range x.Edges {
			if e == x {
				continue
			}
			o := t.of(e)
			if !o.ok {
				return origin{reason: "phi with unresolved edge: " + o.reason}
			}
			if o.fresh {
				continue
			}
			if first {
				res, first = o, false
				continue
			}
			if res.param != o.param {
				return origin{reason: "phi of different parameters"}
			}
			// keep the weakest (fewest projections) on each direction
			if o.down < res.down {
				res.down = o.down
			}
			if o.up < res.up {
				res.up = o.up
			}
		}
		if first {
			return origin{fresh: true, ok: true}
		}
		return res
	}
	return origin{reason: describeValue(v)}
}

// localMapKeys: a map allocated in this function whose keys are all projections of one parameter
// (e.g. a set built from scope.SubScopes): ranging over it yields projections of that parameter.
func (t *originTracer) localMapKeys(mm *ssa.MakeMap) origin {
	refs := mm.Referrers()
	if refs == nil {
		return origin{reason: "empty local map"}
	}
	var res origin
	n := 0
	for _, r := range *refs {
		switch x := r.(type) {
		case *ssa.MapUpdate:
			if x.Map != mm {
				return origin{reason: "local map stored as a value"}
			}
			o := t.of(x.Key)
			if !o.ok || o.fresh {
				return origin{reason: "local map key of unknown origin"}
			}
			if n == 0 {
				res = o
			} else {
				if res.param != o.param {
					return origin{reason: "local map keys from different parameters"}
				}
				if o.down < res.down {
					res.down = o.down
				}
				if o.up < res.up {
					res.up = o.up
				}
			}
			n++
		case *ssa.Range, *ssa.Lookup, *ssa.DebugRef:
		case *ssa.Call:
			if b, ok := x.Call.Value.(*ssa.Builtin); ok && (b.Name() == "delete" || b.Name() == "len") {
				continue
			}
			// handed to a function that only reads it or deletes from it (it gains no key there)
			if g := x.Call.StaticCallee(); g != nil && g.Blocks != nil {
				readOnly := true
				for ai, a := range x.Call.Args {
					if a != ssa.Value(mm) {
						continue
					}
					if ai >= len(g.Params) || !mapParamGainsNoKey(g.Params[ai], 0) {
						readOnly = false
					}
				}
				if readOnly {
					continue
				}
			}
			return origin{reason: "local map escapes into a call"}
		default:
			return origin{reason: "local map escapes"}
		}
	}
	if n == 0 {
		return origin{reason: "local map never filled"}
	}
	return res
}

// mapParamGainsNoKey: inside its function the map parameter is only ranged over, looked up, measured or deleted from,
// or passed on to functions of which the same holds
func mapParamGainsNoKey(p *ssa.Parameter, depth int) bool {
	if depth > 2 || p.Referrers() == nil {
		return depth <= 2
	}
	for _, r := range *p.Referrers() {
		switch x := r.(type) {
		case *ssa.Range, *ssa.Lookup, *ssa.DebugRef:
		case *ssa.Call:
			if b, ok := x.Call.Value.(*ssa.Builtin); ok && (b.Name() == "delete" || b.Name() == "len") {
				continue
			}
			g := x.Call.StaticCallee()
			if g == nil || g.Blocks == nil {
				return false
			}
			for ai, a := range x.Call.Args {
				if a == ssa.Value(p) && (ai >= len(g.Params) || !mapParamGainsNoKey(g.Params[ai], depth+1)) {
					return false
				}
			}
		default:
			return false
		}
	}
	return true
}

func (t *originTracer) allocOrigin(a *ssa.Alloc) origin {
	refs := a.Referrers()
	if refs == nil {
		return origin{fresh: true, ok: true}
	}
	var res origin
	n := 0
	for _, r := range *refs {
		st, ok := r.(*ssa.Store)
		if !ok || st.Addr != a {
			// address used otherwise (FieldAddr for struct init, passed to call …)
			switch r.(type) {
			case *ssa.UnOp, *ssa.DebugRef:
				continue
			case *ssa.FieldAddr, *ssa.IndexAddr:
				// composite being initialised in place: a fresh object
				continue
			}
			if _, isStore := r.(*ssa.Store); isStore {
				continue // stored somewhere else as a value (escapes) — still the same object
			}
			continue
		}
		o := t.of(st.Val)
		if !o.ok {
			return origin{reason: "local assigned from " + o.reason}
		}
		if o.fresh {
			continue
		}
		if n == 0 {
			res = o
		} else {
			if res.param != o.param {
				return origin{reason: "local assigned from different parameters"}
			}
			if o.down < res.down {
				res.down = o.down
			}
			if o.up < res.up {
				res.up = o.up
			}
		}
		n++
	}
	if n == 0 {
		return origin{fresh: true, ok: true}
	}
	return res
}

// ---------------------------------------------------------------------------------------------
// edge relations

type argRel struct {
	from   int // index into caller Params
	to     int // index into callee Params
	strict bool
	dir    string // "down" | "up" | "same"
}

type edgeInfo struct {
	e          callEdge
	rels       []argRel
	unknown    []string // callee inductive params whose argument has no resolvable origin
	label      string   // C (consumes input) | B (visited guard) | F (file-system descent) | X (blamed) | "" (structural, see rels)
	why        string
	nIndArgs   int
	guardParam int // caller parameter index of the guard container (B edges)
}

func paramIndex(f *ssa.Function, p *ssa.Parameter) int {
	for i, q := range f.Params {
		if q == p {
			return i
		}
	}
	return -1
}

// relate computes the size-change relation of one call edge.
func relate(tr *originTracer, e callEdge) *edgeInfo {
	ei := &edgeInfo{e: e}
	cc := e.Site.Common()
	args := cc.Args
	callee := e.To
	// map actual arguments to callee params
	var actual []ssa.Value
	if cc.IsInvoke() {
		actual = append([]ssa.Value{cc.Value}, args...)
	} else {
		actual = args
		// closure call: free variables are not parameters; bound method closure: receiver is a freevar
	}
	if len(actual) != len(callee.Params) {
		// bound-method / closure indirection: cannot align
		for i, p := range callee.Params {
			if isInductiveType(p.Type()) {
				ei.unknown = append(ei.unknown, fmt.Sprintf("param %d (%s): call through closure, arguments not aligned", i, p.Name()))
				ei.nIndArgs++
			}
		}
		return ei
	}
	for j, p := range callee.Params {
		if !isInductiveType(p.Type()) {
			continue
		}
		ei.nIndArgs++
		o := tr.of(actual[j])
		if !o.ok {
			ei.unknown = append(ei.unknown, fmt.Sprintf("%s <- %s", p.Name(), o.reason))
			continue
		}
		if o.fresh {
			continue // size 0: never larger than anything
		}
		if !isInductiveType(o.param.Type()) {
			ei.unknown = append(ei.unknown, fmt.Sprintf("%s <- reached from non-inductive parameter %s (by name / through another structure)", p.Name(), o.param.Name()))
			continue
		}
		if o.down > 0 && o.up > 0 {
			ei.unknown = append(ei.unknown, fmt.Sprintf("%s <- mixes up- and down-projections of %s", p.Name(), o.param.Name()))
			continue
		}
		r := argRel{from: paramIndex(e.From, o.param), to: j}
		switch {
		case o.down > 0:
			r.strict, r.dir = true, "down"
		case o.up > 0:
			r.strict, r.dir = true, "up"
		default:
			r.dir = "same"
		}
		ei.rels = append(ei.rels, r)
	}
	return ei
}

// ---------------------------------------------------------------------------------------------
// must-advance (token level)

func isTokenStep(f *ssa.Function) bool {
	if f == nil || f.Name() != "NextTokenStruct" || f.Pkg == nil {
		return false
	}
	p := f.Pkg.Pkg.Path()
	return p == lexerPkg || p == annLexPkg
}

// mustAdvanceSet: least fixpoint of "every entry→return path passes the token step or a call
// all of whose callees are must-advance".
func (c *Ctx) mustAdvanceSet() map[*ssa.Function]bool {
	ma := map[*ssa.Function]bool{}
	g := c.VTA()
	isA := func(ins ssa.Instruction) bool {
		call, ok := ins.(ssa.CallInstruction)
		if !ok {
			return false
		}
		if _, isGo := ins.(*ssa.Go); isGo {
			return false
		}
		if _, isDefer := ins.(*ssa.Defer); isDefer {
			return false
		}
		if sc := call.Common().StaticCallee(); sc != nil {
			return isTokenStep(sc) || ma[sc]
		}
		cs := calleesOf(g, call)
		if len(cs) == 0 {
			return false
		}
		for _, cf := range cs {
			if !isTokenStep(cf) && !ma[cf] {
				return false
			}
		}
		return true
	}
	isRet := func(ins ssa.Instruction) bool { _, ok := ins.(*ssa.Return); return ok }
	var cand []*ssa.Function
	for _, f := range c.modFns {
		if f.Pkg == nil && f.Parent() == nil {
			continue
		}
		pp := ""
		if f.Package() != nil {
			pp = f.Package().Pkg.Path()
		}
		switch pp {
		case lexerPkg, annLexPkg, parserPkg, annParPkg:
			cand = append(cand, f)
		}
	}
	for changed := true; changed; {
		changed = false
		for _, f := range cand {
			if ma[f] || isTokenStep(f) {
				continue
			}
			if len(mustPrecede(f, isA, isRet)) == 0 {
				// also require that the function has at least one return (otherwise vacuous)
				hasRet := false
				for _, b := range f.Blocks {
					for _, ins := range b.Instrs {
						if isRet(ins) {
							hasRet = true
						}
					}
				}
				if hasRet {
					ma[f] = true
					changed = true
				}
			}
		}
	}
	return ma
}

// consumesBefore: on every path from e.From's entry to the call site a must-advance call occurs.
func (c *Ctx) consumesBefore(e callEdge, ma map[*ssa.Function]bool) bool {
	g := c.VTA()
	isA := func(ins ssa.Instruction) bool {
		if ins == e.Site {
			return false
		}
		call, ok := ins.(ssa.CallInstruction)
		if !ok {
			return false
		}
		if _, isGo := ins.(*ssa.Go); isGo {
			return false
		}
		if _, isDefer := ins.(*ssa.Defer); isDefer {
			return false
		}
		if sc := call.Common().StaticCallee(); sc != nil {
			return isTokenStep(sc) || ma[sc]
		}
		cs := calleesOf(g, call)
		if len(cs) == 0 {
			return false
		}
		for _, cf := range cs {
			if !isTokenStep(cf) && !ma[cf] {
				return false
			}
		}
		return true
	}
	bad := mustPrecede(e.From, isA, func(ins ssa.Instruction) bool { return ins == e.Site })
	return len(bad) == 0
}

// ---------------------------------------------------------------------------------------------
// thread search: choose one inductive parameter per function such that every remaining edge maps
// thread to thread (<= or <) in one consistent direction, and the non-strict sub-graph is acyclic.

type threadResult struct {
	ok      bool
	pi      map[*ssa.Function]int
	dir     string
	failure string
}

func findThread(fns []*ssa.Function, edges []*edgeInfo) threadResult {
	inSet := map[*ssa.Function]bool{}
	for _, f := range fns {
		inSet[f] = true
	}
	cands := map[*ssa.Function][]int{}
	for _, f := range fns {
		for i, p := range f.Params {
			if isInductiveType(p.Type()) {
				cands[f] = append(cands[f], i)
			}
		}
		if len(cands[f]) == 0 {
			return threadResult{failure: fmt.Sprintf("%s has no inductive-typed parameter", fnKey(f))}
		}
	}
	out := map[*ssa.Function][]*edgeInfo{}
	for _, e := range edges {
		out[e.e.From] = append(out[e.e.From], e)
	}
	var lastFail string
	for _, dir := range []string{"down", "up"} {
		pi := map[*ssa.Function]int{}
		var solve func(i int) bool
		order := append([]*ssa.Function(nil), fns...)
		check := func() (bool, string) {
			// every edge whose endpoints are both assigned must relate pi(from) to pi(to)
			for _, e := range edges {
				pf, ok1 := pi[e.e.From]
				pt, ok2 := pi[e.e.To]
				if !ok1 || !ok2 {
					continue
				}
				found := false
				for _, r := range e.rels {
					if r.from == pf && r.to == pt && (r.dir == "same" || r.dir == dir) {
						found = true
					}
				}
				if !found {
					return false, fmt.Sprintf("edge %s -> %s at call does not carry %s.%s to %s.%s", fnKey(e.e.From), fnKey(e.e.To),
						fnKey(e.e.From), e.e.From.Params[pf].Name(), fnKey(e.e.To), e.e.To.Params[pt].Name())
				}
			}
			return true, ""
		}
		steps := 0
		solve = func(i int) bool {
			steps++
			if steps > 200000 {
				return false
			}
			if i == len(order) {
				// non-strict subgraph acyclic?
				adj := map[*ssa.Function][]*ssa.Function{}
				for _, e := range edges {
					pf, pt := pi[e.e.From], pi[e.e.To]
					strict := true
					for _, r := range e.rels {
						if r.from == pf && r.to == pt {
							if r.dir == "same" {
								strict = false
							}
						}
					}
					// an edge may have several rels for the same pair; strict only if all are strict
					if !strict {
						adj[e.e.From] = append(adj[e.e.From], e.e.To)
					}
				}
				state := map[*ssa.Function]int{}
				var cyc func(f *ssa.Function) bool
				cyc = func(f *ssa.Function) bool {
					state[f] = 1
					for _, t := range adj[f] {
						if state[t] == 1 {
							lastFail = fmt.Sprintf("cycle of non-decreasing calls through %s -> %s", fnKey(f), fnKey(t))
							return true
						}
						if state[t] == 0 && cyc(t) {
							return true
						}
					}
					state[f] = 2
					return false
				}
				for _, f := range order {
					if state[f] == 0 && cyc(f) {
						return false
					}
				}
				return true
			}
			f := order[i]
			for _, cnd := range cands[f] {
				pi[f] = cnd
				if ok, why := check(); ok {
					if solve(i + 1) {
						return true
					}
				} else {
					lastFail = why
				}
				delete(pi, f)
			}
			return false
		}
		if solve(0) {
			res := map[*ssa.Function]int{}
			for k, v := range pi {
				res[k] = v
			}
			return threadResult{ok: true, pi: res, dir: dir}
		}
	}
	return threadResult{failure: lastFail}
}

// ---------------------------------------------------------------------------------------------

type sccReport struct {
	fns       []*ssa.Function
	edges     []*edgeInfo
	certified bool
	how       string
	failure   string
	badEdges  []*edgeInfo
	blamed    []blamed
}

func sccName(fns []*ssa.Function) string {
	var names []string
	for _, f := range fns {
		names = append(names, fnKey(f))
	}
	if len(names) > 3 {
		return fmt.Sprintf("{%s,%s,… %d functions}", names[0], names[1], len(names))
	}
	return "{" + strings.Join(names, ",") + "}"
}

// pathDescent: label F — the callee's path argument is the caller's own path parameter extended
// by the Name() of an entry of a directory listing (descent in the file-system tree).
func pathDescent(e callEdge) bool {
	args := e.Site.Common().Args
	if len(args) != len(e.To.Params) {
		return false
	}
	for j, a := range args {
		if b, ok := a.Type().Underlying().(*types.Basic); !ok || b.Kind() != types.String {
			continue
		}
		hasParam, hasName := false, false
		seen := map[ssa.Value]bool{}
		var walk func(v ssa.Value, d int)
		walk = func(v ssa.Value, d int) {
			if d > 12 || seen[v] {
				return
			}
			seen[v] = true
			switch x := v.(type) {
			case *ssa.BinOp:
				if x.Op == token.ADD {
					walk(x.X, d+1)
					walk(x.Y, d+1)
				}
			case *ssa.Phi:
				for _, ed := range x.Edges {
					walk(ed, d+1)
				}
			case *ssa.Parameter:
				if paramIndex(e.From, x) == j || x.Type() == a.Type() {
					hasParam = true
				}
			case *ssa.UnOp:
				if x.Op == token.MUL {
					if al, ok := x.X.(*ssa.Alloc); ok {
						if refs := al.Referrers(); refs != nil {
							for _, r := range *refs {
								if st, ok := r.(*ssa.Store); ok && st.Addr == al {
									walk(st.Val, d+1)
								}
							}
						}
					}
				}
			case *ssa.Call:
				if x.Call.IsInvoke() && x.Call.Method.Name() == "Name" {
					if n, ok := types.Unalias(x.Call.Value.Type()).(*types.Named); ok && n.Obj().Name() == "FileInfo" {
						hasName = true
					}
				}
				// a string helper every result of which contains its parameter (ensureTrailingSlash(dir): dir or dir + "/")
				if g := x.Call.StaticCallee(); g != nil && g.Blocks != nil && !x.Call.IsInvoke() {
					for _, pi := range stringPassThrough(g) {
						if pi < len(x.Call.Args) {
							walk(x.Call.Args[pi], d+1)
						}
					}
				}
			}
		}
		walk(a, 0)
		if hasParam && hasName {
			return true
		}
	}
	return false
}

// stringPassThrough: indices of the string parameters of g that are part of every value g returns (built with + and
// constants only, through phis)
func stringPassThrough(g *ssa.Function) []int {
	if g.Signature.Results().Len() != 1 {
		return nil
	}
	if b, ok := g.Signature.Results().At(0).Type().Underlying().(*types.Basic); !ok || b.Kind() != types.String {
		return nil
	}
	var out []int
	for pi, p := range g.Params {
		if b, ok := p.Type().Underlying().(*types.Basic); !ok || b.Kind() != types.String {
			continue
		}
		var contains func(v ssa.Value, d int) bool
		contains = func(v ssa.Value, d int) bool {
			if d > 6 {
				return false
			}
			switch x := v.(type) {
			case *ssa.Parameter:
				return x == p
			case *ssa.BinOp:
				return x.Op == token.ADD && (contains(x.X, d+1) || contains(x.Y, d+1))
			case *ssa.Phi:
				for _, e := range x.Edges {
					if !contains(e, d+1) {
						return false
					}
				}
				return len(x.Edges) > 0
			}
			return false
		}
		all, n := true, 0
		for _, b := range g.Blocks {
			if r, ok := b.Instrs[len(b.Instrs)-1].(*ssa.Return); ok && len(r.Results) == 1 {
				n++
				if !contains(r.Results[0], 0) {
					all = false
				}
			}
		}
		if all && n > 0 {
			out = append(out, pi)
		}
	}
	return out
}

func edgeName(e callEdge) string { return fnKey(e.From) + "->" + fnKey(e.To) }

// reviewedEdges: recursive calls whose boundedness is a fact about runtime values that no rule
// here can see; each was read and is accepted with its reason (listed in the evidence). A change
// that makes one of them live again is NOT detected — stated in DESIGN.md.
var reviewedEdges = map[string]string{
	"(*check/analysis.Analysis).GetAnnTypeByExp->(*check/analysis.Analysis).GetAnnTypeByExp": "depth <= 2: the first call site is dead (requires isTableWhole && !isTableExp, but isTableWhole is only set together with isTableExp); the second passes a *ast.FuncCallExp, for which the callee sets isFuncCall and its own recursive branches require !isFuncCall / isTableWhole",
}

// componentwise: a self-recursive function whose every recursive call passes, for each inductive
// parameter, a (non-strict) sub-structure of that same parameter, at least one strictly: the sum of
// the sizes strictly decreases.
func componentwise(fns []*ssa.Function, es []*edgeInfo) (bool, string) {
	if len(fns) != 1 || len(es) == 0 {
		return false, ""
	}
	f := fns[0]
	var ind []int
	for i, p := range f.Params {
		if isInductiveType(p.Type()) {
			ind = append(ind, i)
		}
	}
	if len(ind) < 2 {
		return false, ""
	}
	for _, e := range es {
		if len(e.unknown) > 0 {
			return false, ""
		}
		strict := false
		for _, j := range ind {
			found := false
			for _, r := range e.rels {
				if r.from == j && r.to == j && (r.dir == "same" || r.dir == "down") {
					found = true
					if r.strict {
						strict = true
					}
				}
			}
			if !found {
				return false, ""
			}
		}
		if !strict {
			return false, ""
		}
	}
	return true, fmt.Sprintf("component-wise descent on all %d inductive parameters of %s (sum of sizes strictly decreases)", len(ind), f.Name())
}

type blamed struct {
	e     *edgeInfo
	class string
	note  string
}

// guardParams propagates, inside one SCC, which parameter of each function carries a guard
// container used by some B edge.
func guardParams(fns []*ssa.Function, edges []*edgeInfo, ge *guardEngine, in map[*ssa.Function]bool) map[*ssa.Function]map[int]bool {
	gp := map[*ssa.Function]map[int]bool{}
	add := func(f *ssa.Function, i int) bool {
		if gp[f] == nil {
			gp[f] = map[int]bool{}
		}
		if gp[f][i] {
			return false
		}
		gp[f][i] = true
		return true
	}
	for _, ei := range edges {
		if ei.label == "B" && ei.guardParam >= 0 {
			add(ei.e.From, ei.guardParam)
		}
	}
	for changed := true; changed; {
		changed = false
		for _, ei := range edges {
			args := ei.e.Site.Common().Args
			if len(args) != len(ei.e.To.Params) {
				continue
			}
			for j, a := range args {
				if p, _, ok := paramPath(a, 0); ok && gp[ei.e.From][p] {
					// only containers of the same type class are guards
					if types.Identical(ei.e.From.Params[p].Type(), ei.e.To.Params[j].Type()) {
						if add(ei.e.To, j) {
							changed = true
						}
					}
				}
			}
		}
	}
	return gp
}

// certifySCC tries to certify one recursive SCC. Edges that are individually refutable (guard
// reset, recursion on the same node, recursion through a name lookup) are blamed one by one so that
// a known finding on one edge never hides a different uncertified cycle.
func (c *Ctx) certifySCC(fns []*ssa.Function, all map[*ssa.Function][]callEdge, ma map[*ssa.Function]bool, guards *guardEngine) *sccReport {
	rep := &sccReport{fns: fns}
	in := map[*ssa.Function]bool{}
	for _, f := range fns {
		in[f] = true
	}
	tr := newTracer()
	for _, f := range fns {
		for _, e := range all[f] {
			if !in[e.To] {
				continue
			}
			ei := relate(tr, e)
			ei.guardParam = -1
			if c.consumesBefore(e, ma) {
				ei.label, ei.why = "C", "a must-advance call precedes this call on every path from the caller's entry"
			} else if ok, why, gpar := guards.guarded(e, in); ok {
				ei.label, ei.why, ei.guardParam = "B", why, gpar
			} else if why, ok := reviewedEdges[edgeName(e)]; ok {
				ei.label, ei.why = "R", "reviewed (frozen by reading): "+why
			} else if pathDescent(e) {
				ei.label, ei.why = "F", "path argument = own path parameter + Name() of a directory entry (file-system descent; finite acyclic tree assumed, symlinks not followed by ReadDir)"
			} else if k, ok := depthCounter(e); ok {
				ei.label, ei.why = "C", fmt.Sprintf("depth counter: the call passes its own integer parameter + a positive constant and is made only while that parameter is below the constant %d", k)
			}
			rep.edges = append(rep.edges, ei)
		}
	}
	// guard resets: an edge that hands a callee a container other than the caller's own guard
	gp := guardParams(fns, rep.edges, guards, in)
	for _, ei := range rep.edges {
		if ei.label != "" {
			continue
		}
		args := ei.e.Site.Common().Args
		if len(args) != len(ei.e.To.Params) {
			continue
		}
		for j := range gp[ei.e.To] {
			p, _, ok := paramPath(args[j], 0)
			if ok && gp[ei.e.From][p] {
				continue
			}
			ei.label = "X"
			rep.blamed = append(rep.blamed, blamed{e: ei, class: "guard-reset",
				note: fmt.Sprintf("passes a fresh / foreign container as the visited set %s of %s: the cycle through this call restarts with an empty set and is not bounded by it", ei.e.To.Params[j].Name(), fnKey(ei.e.To))})
			break
		}
	}
	for round := 0; round < 3; round++ {
		// remove labelled edges, recompute SCCs on the remainder
		rest := map[*ssa.Function][]callEdge{}
		info := map[ssa.CallInstruction]map[*ssa.Function]*edgeInfo{}
		for _, ei := range rep.edges {
			if ei.label != "" {
				continue
			}
			rest[ei.e.From] = append(rest[ei.e.From], ei.e)
			if info[ei.e.Site] == nil {
				info[ei.e.Site] = map[*ssa.Function]*edgeInfo{}
			}
			info[ei.e.Site][ei.e.To] = ei
		}
		sub := &Ctx{modFns: fns}
		subs, _ := sub.recursiveSCCs(rest)
		if len(subs) == 0 {
			rep.certified = len(rep.blamed) == 0
			if rep.how == "" {
				rep.how = "every cycle contains an input-consuming (C), visited-set (B) or file-system-descent (F) edge"
			}
			return rep
		}
		var hows []string
		progress := false
		allOK := true
		for _, s := range subs {
			sin := map[*ssa.Function]bool{}
			for _, f := range s {
				sin[f] = true
			}
			var es []*edgeInfo
			for _, f := range s {
				for _, e := range rest[f] {
					if sin[e.To] {
						es = append(es, info[e.Site][e.To])
					}
				}
			}
			if ok, how := componentwise(s, es); ok {
				hows = append(hows, how)
				continue
			}
			th := findThread(s, es)
			if th.ok {
				var parts []string
				for _, f := range s {
					parts = append(parts, fmt.Sprintf("%s:%s", f.Name(), f.Params[th.pi[f]].Name()))
				}
				sort.Strings(parts)
				hows = append(hows, fmt.Sprintf("structural descent (%s) on %s", th.dir, strings.Join(parts, ",")))
				continue
			}
			allOK = false
			// blame individually refutable edges of this sub-component
			n := 0
			for _, e := range es {
				class, note := "", ""
				switch {
				case len(e.unknown) > 0:
					class, note = "by-name", "recursive call on a value that is not a sub-structure of a parameter: "+strings.Join(e.unknown, "; ")
				case e.nIndArgs == 0 || len(e.rels) == 0:
					class, note = "no-measure", "recursive call carries no inductive argument (the next node is found by name / key lookup) and no visited-set guard"
				default:
					strict := false
					for _, r := range e.rels {
						if r.strict {
							strict = true
						}
					}
					if !strict && e.e.From == e.e.To {
						class, note = "same-node", "recursive call passes its own argument on unchanged (no projection): it never gets smaller"
					}
				}
				if class != "" {
					e.label = "X"
					rep.blamed = append(rep.blamed, blamed{e: e, class: class, note: note})
					n++
				}
			}
			if n > 0 {
				progress = true
			} else {
				rep.failure = fmt.Sprintf("sub-component %s has no descent thread: %s", sccName(s), th.failure)
				rep.badEdges = es
				return rep
			}
		}
		if allOK {
			rep.certified = len(rep.blamed) == 0
			rep.how = strings.Join(hows, "; ")
			return rep
		}
		if !progress {
			break
		}
	}
	if rep.failure == "" {
		rep.failure = "uncertified cycle remains after removing the individually refutable edges"
	}
	return rep
}

// depthCounter: a self-recursive call f(..., d+c, ...) (c >= 1) for an integer parameter d of f, executed only on the
// true edge of `d < K` (K constant): the recursion is at most K deep
func depthCounter(e callEdge) (int64, bool) {
	if e.From != e.To || e.From == nil {
		return 0, false
	}
	call, ok := e.Site.(*ssa.Call)
	if !ok {
		return 0, false
	}
	f := e.From
	args := call.Call.Args
	if len(args) != len(f.Params) {
		return 0, false
	}
	for j, p := range f.Params {
		if !isIntType(p.Type()) {
			continue
		}
		bo, ok := args[j].(*ssa.BinOp)
		if !ok || bo.Op != token.ADD || bo.X != ssa.Value(p) {
			continue
		}
		c, ok := bo.Y.(*ssa.Const)
		if !ok || c.Value == nil || c.Value.Kind() != constant.Int || constant.Sign(c.Value) <= 0 {
			continue
		}
		// dominated by the true edge of p < K
		for d := call.Block(); d != nil; d = d.Idom() {
			id := d.Idom()
			if id == nil {
				break
			}
			iff, ok := id.Instrs[len(id.Instrs)-1].(*ssa.If)
			if !ok || id.Succs[0] != d || len(d.Preds) != 1 {
				continue
			}
			cmp, ok := iff.Cond.(*ssa.BinOp)
			if !ok || cmp.Op != token.LSS || cmp.X != ssa.Value(p) {
				continue
			}
			if k, ok := cmp.Y.(*ssa.Const); ok && k.Value != nil && k.Value.Kind() == constant.Int {
				n, _ := constant.Int64Val(k.Value)
				return n, true
			}
		}
	}
	return 0, false
}
